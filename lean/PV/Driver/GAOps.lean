import PV.Model.Sexp
import PV.Model.GA
/- Driver operations for the geometric-algebra model (C18). -/
namespace PV.Driver
open PV PV.GA

def metricOf (xs : List Int) : Nat → Int := fun i => xs.getD i 1

def intList? (s : Sexp) : Option (List Int) :=
  match s with
  | .list xs => xs.mapM Sexp.int?
  | _ => none

def natList? (s : Sexp) : Option (List Nat) :=
  match s with
  | .list xs => xs.mapM Sexp.nat?
  | _ => none

def mvOf? (s : Sexp) : Option MV :=
  match s with
  | .list xs => xs.mapM fun p => match p with
    | .list [k, v] => do pure ((← k.nat?), (← v.int?))
    | _ => none
  | _ => none

def mvToSexp (m : MV) : Sexp := .list (m.map fun (k, v) => .list [Sexp.ofNat k, Sexp.ofInt v])

def optIntToSexp : Option Int → Sexp
  | none => .atom "ERR"
  | some v => Sexp.ofInt v

def invToSexp : InvResult Int → Sexp
  | .zeroDivision => .atom "ZeroDivisionError"
  | .notImplemented => .atom "NotImplementedError"
  | .valueError => .atom "ValueError"
  | .ok n d => .list [mvToSexp n, Sexp.ofInt d]

/-! ### generic-coefficient operations (`ga-mvq`: `Fraction` coefficients = `Rat`;
    `ga-mvz6`: the ring `Z/6` with zero divisors = `Fin 6`) -/

section C18Generic
variable {R : Type} [Add R] [Mul R] [Neg R] [OfNat R 0] [OfNat R 1] [DecidableEq R] [Div R]

def c18MvOf? (rd : Sexp → Option R) (s : Sexp) : Option (MVOf R) :=
  match s with
  | .list xs => xs.mapM fun p => match p with
    | .list [k, v] => do pure ((← k.nat?), (← rd v))
    | _ => none
  | _ => none

def c18MvToSexp (sh : R → Sexp) (m : MVOf R) : Sexp :=
  .list (m.map fun (k, v) => .list [Sexp.ofNat k, sh v])

def c18OptToSexp (sh : R → Sexp) : Option R → Sexp
  | none => .atom "ValueError"
  | some v => sh v

def c18InvErr : InvResult R → Sexp
  | .zeroDivision => .atom "ZeroDivisionError"
  | .notImplemented => .atom "NotImplementedError"
  | .valueError => .atom "ValueError"
  | .ok _ _ => .atom "ok"

def c18ExceptToSexp (sh : R → Sexp) : Except (InvResult R) (MVOf R) → Sexp
  | .ok m => c18MvToSexp sh m
  | .error e => c18InvErr e

def c18XProjToSexp (sh : R → Sexp) : XProj R → Sexp
  | .scalar x => .list [.atom "scalar", sh x]
  | .vector v => .list (.atom "vector" :: v.map sh)
  | .mv m => .list [.atom "mv", c18MvToSexp sh m]
  | .valueError => .atom "ValueError"

/-- every operation of the model on `(a, b)` in the space `(g, dims)`, exponent `n`, grade `r` -/
def c18AllOps (sh : R → Sexp) (withInv : Bool) (gm : Nat → R) (dims : Nat) (a b : MVOf R)
    (n : Int) (r : Nat) : Sexp :=
  let mv := c18MvToSexp sh
  .list [
    mv (mvMul gm a b), mv (mvOuter gm a b), mv (mvInner gm a b),
    mv (mvLeftContraction gm a b), mv (mvRightContraction gm a b),
    c18OptToSexp sh (scalarProduct gm a b),
    mv (rev a), mv (invol a),
    c18OptToSexp sh (normSquared gm a),
    (if withInv then c18ExceptToSexp sh (mvInvDiv gm dims a) else c18InvErr (inv gm dims a)),
    (if withInv then c18ExceptToSexp sh (mvTrueDiv gm dims a b) else .atom "skip"),
    mv (dual gm dims a), mv (dual gm dims (dual gm dims a)),
    mv (pseudoscalar dims : MVOf R),
    .list ((List.range (dims + 2)).map fun r => mv (project a r)),
    c18XProjToSexp sh (xproject dims a 0), c18XProjToSexp sh (xproject dims a 1),
    c18XProjToSexp sh (xproject dims a r),
    .list ((genBlades a).map mv), .list ((genBladesGrade a r).map mv),
    c18OptToSexp sh (asScalar a),
    (match mvPow gm a n with | none => .atom "RuntimeError" | some p => mv p),
    mv (odd a), mv (even a),
    (match getPureGrade a with | none => .atom "none" | some k => Sexp.ofNat k),
    Sexp.ofBool (mvEq a b), Sexp.ofBool (mvEq a a), Sexp.ofBool (mvBool a),
    Sexp.ofBool (mvEqScalar a 0), Sexp.ofBool (mvEqScalar a 1),
    mv (mvNeg a), mv (mvAdd a b), mv (mvSub a b)]

end C18Generic

def c18RatOf? : Sexp → Option Rat
  | .atom s =>
    match s.splitOn "/" with
    | [n] => n.toInt?.map fun (i : Int) => (i : Rat)
    | [n, d] => do
      let n ← n.toInt?; let d ← d.toNat?
      if d = 0 then none else pure (mkRat n d)
    | _ => none
  | _ => none

def c18RatToSexp (q : Rat) : Sexp :=
  .atom (if q.den = 1 then toString q.num else toString q.num ++ "/" ++ toString q.den)

def c18Fin6Of? (s : Sexp) : Option (Fin 6) := s.int?.map fun i => Fin.ofNat 6 (i % 6).toNat

def c18Fin6ToSexp (x : Fin 6) : Sexp := Sexp.ofNat x.val

def c18ListOf? {R : Type} (rd : Sexp → Option R) : Sexp → Option (List R)
  | .list xs => xs.mapM rd
  | _ => none

def handleGA : Sexp → Option Sexp
  | .list [.atom "ga-bitcount", n] => n.nat?.map fun n => Sexp.ofNat (bitCount n)
  | .list [.atom "ga-blade", g, a, b] => do
      let g ← intList? g; let a ← a.nat?; let b ← b.nat?
      let gm := metricOf g
      pure (.list [Sexp.ofInt (reorderSign a b), Sexp.ofInt (wOuter gm a b),
        Sexp.ofInt (wGeometric gm a b), Sexp.ofInt (wInner gm a b),
        Sexp.ofInt (wLeftContraction gm a b), Sexp.ofInt (wRightContraction gm a b),
        Sexp.ofInt (wScalar gm a b)])
  | .list [.atom "ga-mv", g, dims, a, b] => do
      let g ← intList? g; let dims ← dims.nat?; let a ← mvOf? a; let b ← mvOf? b
      let gm := metricOf g
      pure (.list [
        mvToSexp (mvMul gm a b), mvToSexp (mvOuter gm a b), mvToSexp (mvInner gm a b),
        mvToSexp (mvLeftContraction gm a b), mvToSexp (mvRightContraction gm a b),
        optIntToSexp (scalarProduct gm a b),
        mvToSexp (rev a), mvToSexp (invol a), mvToSexp (project a 2),
        optIntToSexp (normSquared gm a), invToSexp (inv gm dims a),
        Sexp.ofBool (mvEq a b), Sexp.ofBool (mvEq a a), Sexp.ofBool (mvBool a),
        Sexp.ofBool (mvEqScalar a 0), mvToSexp (dual gm dims a),
        (match getPureGrade a with | none => .atom "none" | some k => Sexp.ofNat k),
        mvToSexp (mvAdd a b), mvToSexp (mvSub a b)])
  | .list [.atom "ga-mvq", g, dims, a, b, n, r] => do
      let g ← c18ListOf? c18RatOf? g; let dims ← dims.nat?
      let a ← c18MvOf? c18RatOf? a; let b ← c18MvOf? c18RatOf? b
      let n ← n.int?; let r ← r.nat?
      pure (c18AllOps c18RatToSexp true (fun i => g.getD i 1) dims a b n r)
  | .list [.atom "ga-mvz6", g, dims, a, b, n, r] => do
      let g ← c18ListOf? c18Fin6Of? g; let dims ← dims.nat?
      let a ← c18MvOf? c18Fin6Of? a; let b ← c18MvOf? c18Fin6Of? b
      let n ← n.int?; let r ← r.nat?
      pure (c18AllOps c18Fin6ToSexp false (fun i => g.getD i 1) dims a b n r)
  | .list [.atom "ga-permsign", p] => do
      let p ← natList? p
      pure (match permutationSign? p with | none => .atom "IndexError" | some s => Sexp.ofInt s)
  | .list [.atom "ga-bitsandsign", p] => do
      let p ← natList? p
      let (b, s) := bitsAndSign p
      pure (.list [Sexp.ofNat b, Sexp.ofInt s])
  | .list [.atom "ga-oftuples", .list entries] => do
      let es ← entries.mapM fun e => match e with
        | .list [k, v] => do pure ((← natList? k), (← v.int?))
        | _ => none
      pure (mvToSexp (ofTuplesDict es))
  | _ => none

end PV.Driver
