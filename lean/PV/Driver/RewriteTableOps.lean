import PV.Model.Sexp
import PV.Model.RewriteTable
import PV.Generated.Rewrite
import PV.Generated.Traversal
import PV.Driver.RewriteOps
/- Driver operations for C11, T-gen: the table interpreter of PV/Model/RewriteTable.lean run on the
   tables REGENERATED from the source (PV/Generated/Rewrite.lean, PV/Generated/Traversal.lean), so
   that the meaning given to the table language — and the reader extract/rewrite.py — is compared
   with the real code on every generated input (stream `table-rewrites`). -/
namespace PV.Driver
open PV
open PV.Generated (c04Classes c04IdentityTable c11Table)

def c11tRun (what : String) (run : Expr → RwR) (e : Sexp) (abstainOnCse : Bool) : Sexp :=
  match Expr.ofSexp? e with
  | some e =>
    if abstainOnCse && cseAmbiguous e then rwErrToSexp .noClaim else rwToSexp (run e)
  | none => Sexp.mk "bad-op" [Sexp.str what]

def handleRewriteTable : Sexp → Option Sexp
  | .list [.atom "c11t", .atom "flatten", e] =>
    some (c11tRun "c11t flatten"
      (fun e => c11RunPublic c04Classes c04IdentityTable c11Table "flatten" [.expr e] rwFuel) e false)
  | .list [.atom "c11t", .atom "fold", .atom comm, e] =>
    some (c11tRun "c11t fold"
      (fun e => c11RunClass c04Classes c04IdentityTable c11Table
        (if comm == "comm" then .commFolder else .plainFolder) [] e rwFuel) e true)
  | .list [.atom "c11t", .atom "collect", .list ps, e] =>
    match Expr.ofSexpL? ps with
    | some ps =>
      some (c11tRun "c11t collect"
        (fun e => c11RunClass c04Classes c04IdentityTable c11Table .termCollector
          [.set (ps.map .expr)] e rwFuel) e false)
    | none => some (Sexp.mk "bad-op" [Sexp.str "c11t collect"])
  | .list [.atom "c11t", .atom name, cfg, e] =>
    if name == "expand" || name == "distribute" then
      let args? : Option (Expr → List C11Val) := match cfg with
        | .atom "nocomm" => some fun e => [.expr e, .none, .bool false]
        | .list [] => some fun e => [.expr e]
        | .list ps => (Expr.ofSexpL? ps).map fun ps e => [.expr e, .set (ps.map .expr)]
        | _ => none
      match args? with
      | some args =>
        some (c11tRun "c11t expand"
          (fun e => c11RunPublic c04Classes c04IdentityTable c11Table name (args e) rwFuel) e true)
      | none => some (Sexp.mk "bad-op" [Sexp.str "c11t expand cfg"])
    else none
  | _ => none

end PV.Driver
