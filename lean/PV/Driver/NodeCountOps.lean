import PV.Model.Sexp
import PV.Model.NodeCount
/-
  C09 driver requests for the exact node counter:
    (c09count e)   →  n | (err K)          `get_num_nodes(e)`
    (c09keys e)    →  (n (k1 k2 …)) | (err K)   the counted nodes in `post_visit` order
-/
namespace PV.Driver
open PV

def c09ErrToSexp : DepErr → Sexp
  | .unsupported => Sexp.mk "err" [.atom "Unsupported"]
  | .foreign => Sexp.mk "err" [.atom "Foreign"]
  | .unhashable => Sexp.mk "err" [.atom "TypeError"]

def handleNodeCount : Sexp → Option Sexp
  | .list [.atom "c09count", e] =>
    match Expr.ofSexp? e with
    | some e => match c09NumNodes e with
      | .ok n => some (Sexp.ofNat n)
      | .error err => some (c09ErrToSexp err)
    | none => some (Sexp.mk "bad-op" [Sexp.str "c09count"])
  | .list [.atom "c09keys", e] =>
    match Expr.ofSexp? e with
    | some e => match c09NumNodesKeys e with
      | .ok (n, keys) => some (.list [Sexp.ofNat n, .list (keys.map Expr.toSexp)])
      | .error err => some (c09ErrToSexp err)
    | none => some (Sexp.mk "bad-op" [Sexp.str "c09keys"])
  | _ => none

end PV.Driver
