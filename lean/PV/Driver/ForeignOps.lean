import PV.Model.Sexp
import PV.Model.ForeignTable
import PV.Generated.Dispatch
import PV.Driver.DispatchOps
/- Driver operation for the foreign-object routing under a run-time registry of number classes
   (C04): the chain of `Mapper.map_foreign` REGENERATED from the tree under test
   (`PV.Generated.c04ForeignSource`), run by `fHistory` on a history of registrations and
   dispatches. -/
namespace PV.Driver
open PV

def fObjOfSexp? : Sexp → Option FObj
  | .list [.list cs, .atom shape] => do
      let cs ← cs.mapM Sexp.text
      pure { classes := cs, isArray := shape == "array", isList := shape == "list",
             isTuple := shape == "tuple" }
  | _ => none

def fStepOfSexp? : Sexp → Option FStep
  | .list [.atom "reg", c] => do pure (.op (.register (← c.text)))
  | .list [.atom "unreg", c] => do pure (.op (.unregister (← c.text)))
  | .list [.atom "call", o] => do pure (.call (← fObjOfSexp? o))
  | _ => none

/-- `(c04foreignreg (BASE-CLASS ...) (STEP ...))`, STEP = `(reg C)` | `(unreg C)` |
`(call ((CLASS ...) array|list|tuple|none))`: the route of every dispatch -/
def handleForeignReg : Sexp → Option Sexp
  | .list [.atom "c04foreignreg", .list base, .list steps] =>
    match base.mapM Sexp.text, steps.mapM fStepOfSexp? with
    | some base, some steps =>
      some (.list ((fHistory PV.Generated.c04ForeignSource.chain base base steps).map resToSexp))
    | _, _ => some (Sexp.mk "bad-op" [Sexp.str "c04foreignreg"])
  | _ => none

end PV.Driver
