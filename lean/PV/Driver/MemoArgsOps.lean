import PV.Model.MemoArgs
import PV.Driver.MemoOps
/- Driver operations for cache keys with arbitrary argument values (C05, PV/Model/MemoArgs.lean). -/
namespace PV.Driver
open PV PV.Memo

/-- an argument value: a constant or a (nested) tuple of argument values -/
partial def isArgVal : Expr → Bool
  | .const _ => true
  | .tuple cs => cs.all isArgVal
  | _ => false

def argValOfSexp? (s : Sexp) : Option Expr :=
  match Expr.ofSexp? s with
  | some e => if isArgVal e then some e else none
  | none => none

/-- `(EXPR (ARG ...) ((NAME VAL) ...))` -/
def keyVOfSexp? : Sexp → Option KeyV
  | .list [e, .list as, .list kws] => do
      let e ← Expr.ofSexp? e
      let as ← as.mapM argValOfSexp?
      let kws ← kws.mapM fun kv => match kv with
        | .list [n, v] => do pure ((← n.text), (← argValOfSexp? v))
        | _ => none
      pure { expr := e, args := { args := as, kwargs := kws } }
  | _ => none

def handleMemoArgs : Sexp → Option Sexp
  | .list [.atom "memo-keyeq-v", k1, k2] =>
    match keyVOfSexp? k1, keyVOfSexp? k2 with
    | some k1, some k2 =>
      some (.list [Sexp.ofBool (KeyV.eq k1 k2), Sexp.ofBool (KeyV.cseEq k1 k2)])
    | _, _ => some (Sexp.mk "bad-op" [Sexp.str "memo-keyeq-v"])
  | .list [.atom "memo-deps-v", fl, .atom layer, .list ks] =>
    match memoFlags? fl, ks.mapM keyVOfSexp? with
    | some fl, some ks =>
      let S := if layer == "cse" then cseMixinSpec (depsProg fl) DepErr.unhashable else depsSpec fl
      some (runDepsHist S (internHist ks))
    | _, _ => some (Sexp.mk "bad-op" [Sexp.str "memo-deps-v"])
  | _ => none

end PV.Driver
