import PV.Model.Sexp
import PV.Model.Matchpy
/- Driver operations for the matchpy bridge model (C16). -/
namespace PV.Driver
open PV PV.Matchpy

def c16ResultSexp {α} (f : α → Sexp) : MR α → Sexp
  | .ok a => f a
  | .error e => e.toSexp

mutual
/-- is `list.sort()` modelled exactly on every operand list of this term (fewer than 64 operands) -/
def c16SortExact : MTerm → Bool
  | .op _ args _ => args.length < 64 && c16SortExactL args
  | _ => true
def c16SortExactL : List MTerm → Bool
  | [] => true
  | t :: ts => c16SortExact t && c16SortExactL ts
end

def c16Exact (t : MTerm) : Bool := t.reprExact && c16SortExact t

def c16ArgOfSexp? : Sexp → Option MArg
  | .list [.atom "one", t] => do pure (.one (← MTerm.ofSexp? t))
  | .list (.atom "multiset" :: items) => do
      let its ← items.mapM fun it => match it with
        | .list [t, n] => do pure ((← MTerm.ofSexp? t), (← n.nat?))
        | _ => none
      pure (.multiset its)
  | .list (.atom "tuple" :: ts) => do pure (.tuple (← MTerm.ofSexpL? ts))
  | .list [.atom "other"] => some .other
  | _ => none

def c16ArgExact : MArg → Bool
  | .one t => c16Exact t
  | .multiset its => its.all fun p => c16Exact p.1
  | .tuple ts => ts.all c16Exact
  | .other => true

def c16PArgToSexp : PArg → Sexp
  | .one e => Sexp.mk "one" [e.toSexp]
  | .multiset its => Sexp.mk "multiset" (its.map fun p => .list [p.1.toSexp, Sexp.ofNat p.2])
  | .tuple es => Sexp.mk "tuple" (Expr.toSexpL es)

def c16KwOfSexp? (kws : List Sexp) : Option (List (String × MArg)) :=
  kws.mapM fun kw => match kw with
    | .list [k, a] => do pure ((← k.text), (← c16ArgOfSexp? a))
    | _ => none

/-- requests of the `matchpy-*` correspondence streams:
`(mp-to e)` → `(term roundtrip)`: `toM e` printed structurally and `roundtrip e`;
`(mp-from t)` → `fromM t`; `(mp-cmp a b)` → `(a<b b<a a==b repr(a))`; `(mp-sort (t…))` →
`pySort lt`; `(mp-mk Class (t…))` → `mk`; `(mp-repl ((k arg)…))` → what the callback of
`ToFromReplacement` receives; `(mp-matchconv ((k arg)…))` → the converted substitution of `match`.
`(noclaim)` where `repr` / `==` / `sort` are outside the exact fragment of the model. -/
def handleMatchpy : Sexp → Option Sexp
  | .list [.atom "mp-to", e] => do
      let e ← Expr.ofSexp? e
      match toM e with
      | .ok t =>
        if c16Exact t then
          pure (.list [t.toSexp, c16ResultSexp Expr.toSexp (fromM t)])
        else pure (Sexp.mk "noclaim" [])
      | .error err => pure (.list [err.toSexp, err.toSexp])
  | .list [.atom "mp-from", t] => do
      let t ← MTerm.ofSexp? t
      pure (c16ResultSexp Expr.toSexp (fromM t))
  | .list [.atom "mp-cmp", a, b] => do
      let a ← MTerm.ofSexp? a
      let b ← MTerm.ofSexp? b
      if c16Exact a && c16Exact b then
        pure (.list [Sexp.ofBool (a.lt b), Sexp.ofBool (b.lt a), Sexp.ofBool (a.eq b),
          Sexp.str a.repr])
      else pure (Sexp.mk "noclaim" [])
  | .list [.atom "mp-sort", .list ts] => do
      let ts ← MTerm.ofSexpL? ts
      if ts.all c16Exact && ts.length < 64 then
        pure (.list (MTerm.toSexpL (pySort MTerm.lt ts)))
      else pure (Sexp.mk "noclaim" [])
  | .list [.atom "mp-mk", .atom h, .list ts] => do
      let o ← MOp.ofName? h
      let ts ← MTerm.ofSexpL? ts
      if ts.all c16Exact && ts.length < 64 then pure (mk o ts).toSexp
      else pure (Sexp.mk "noclaim" [])
  | .list [.atom "mp-repl", .list kws] => do
      let kws ← c16KwOfSexp? kws
      if kws.all fun p => c16ArgExact p.2 then
        pure (c16ResultSexp
          (fun kw => .list (kw.map fun p => .list [Sexp.str p.1, c16PArgToSexp p.2]))
          (convArgs kws))
      else pure (Sexp.mk "noclaim" [])
  | .list [.atom "mp-matchconv", .list kws] => do
      let kws ← c16KwOfSexp? kws
      pure (c16ResultSexp
        (fun kw => .list (kw.map fun p => .list [Sexp.str p.1, p.2.toSexp]))
        (matchConv kws))
  | _ => none

end PV.Driver
