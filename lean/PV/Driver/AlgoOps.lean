import PV.Model.Sexp
import PV.Model.Algo
/- Driver operations for the exact-arithmetic helpers (C19). -/
namespace PV.Driver
open PV PV.Algo

def polyOf? (s : Sexp) : Option Poly :=
  match s with
  | .list xs => xs.mapM fun p => match p with
    | .list [e, c] => do pure ((← e.nat?), (← c.int?))
    | _ => none
  | _ => none

def polyToSexp (p : Poly) : Sexp := .list (p.map fun (e, c) => .list [Sexp.ofNat e, Sexp.ofInt c])

def handleAlgo : Sexp → Option Sexp
  | .list [.atom "algo-intpow", x, n] => do
      let x ← x.int?; let n ← n.int?
      pure (match integerPowerInt x n with | some v => Sexp.ofInt v | none => .atom "RuntimeError")
  | .list [.atom "algo-euclid", q, r] => do
      let q ← q.int?; let r ← r.int?
      let (g, a, b) := extEuclid q r
      pure (.list [Sexp.ofInt g, Sexp.ofInt a, Sexp.ofInt b])
  | .list [.atom "algo-lcm", q, r] => do
      let q ← q.int?; let r ← r.int?
      pure (match PV.Algo.lcm q r with | some v => Sexp.ofInt v | none => .atom "ZeroDivisionError")
  | .list [.atom "algo-findfactors", n] => do
      let n ← n.nat?
      pure (match findFactorsPy n with
        | some (a, b) => .list [Sexp.ofNat a, Sexp.ofNat b]
        | none => .atom "ZeroDivisionError")
  | .list [.atom "algo-sortuniq", p] => do
      pure (polyToSexp (sortUniq (← polyOf? p)))
  | .list [.atom "algo-poly", .atom op, p, q] => do
      let p ← polyOf? p; let q ← polyOf? q
      match op with
      | "add" => pure (polyToSexp (add p q))
      | "sub" => pure (polyToSexp (sub p q))
      | "mul" => pure (polyToSexp (mul p q))
      | "divmod" => pure (match divmodPy p q with
          | some (a, b) => .list [polyToSexp a, polyToSexp b]
          | none => .atom "ZeroDivisionError")
      | _ => none
  | .list [.atom "algo-polypow", p, n] => do
      pure (polyToSexp (pow (← polyOf? p) (← n.nat?)))
  | .list [.atom "algo-horner", p, x] => do
      pure (match evalHornerPy (← polyOf? p) (← x.int?) with
        | some v => Sexp.ofInt v | none => .atom "noclaim")
  | .list [.atom "algo-stride", .list xs, a, b] => do
      let xs ← xs.mapM Sexp.int?
      pure (.list ((stride xs (← a.nat?) (← b.nat?)).map Sexp.ofInt))
  | _ => none

end PV.Driver
