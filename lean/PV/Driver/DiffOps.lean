import PV.Model.Sexp
import PV.Model.Diff
import PV.Generated.Diff
/- Driver operations for the differentiator model (C10).  `funcmapT` / `difftable` run the
interpretation of the table regenerated from the source (`PV.Generated.c10DiffTable`). -/
namespace PV.Driver
open PV

def diffErrToSexp : DiffErr → Sexp
  | .valueError => Sexp.mk "err" [.atom "ValueError"]
  | .runtimeError => Sexp.mk "err" [.atom "RuntimeError"]
  | .typeError => Sexp.mk "err" [.atom "TypeError"]
  | .attributeError => Sexp.mk "err" [.atom "AttributeError"]
  | .notImplemented => Sexp.mk "err" [.atom "NotImplemented"]
  | .unsupported => Sexp.mk "err" [.atom "Unsupported"]
  | .op .typeError => Sexp.mk "err" [.atom "TypeError"]
  | .op .assertion => Sexp.mk "err" [.atom "AssertionError"]
  | .op .noClaim => Sexp.mk "noclaim" []

def diffRToSexp : DiffR → Sexp
  | .ok e => e.toSexp
  | .error e => diffErrToSexp e

def handleDiff : Sexp → Option Sexp
  | .list [.atom "diff", .atom cfg, v, e] =>
    match Smooth.ofName? cfg, Expr.ofSexp? v, Expr.ofSexp? e with
    | some cfg, some v, some e => some (diffRToSexp (differentiate cfg v e))
    | _, _, _ => some (Sexp.mk "bad-op" [Sexp.str "diff"])
  | .list [.atom "diffpure", .atom cfg, v, e] =>
    match Smooth.ofName? cfg, Expr.ofSexp? v, Expr.ofSexp? e with
    | some cfg, some v, some e => some (diffRToSexp (diff cfg v e))
    | _, _, _ => some (Sexp.mk "bad-op" [Sexp.str "diffpure"])
  | .list [.atom "diffhist", .atom cfg, v, .list es] =>
    match Smooth.ofName? cfg, Expr.ofSexp? v, Expr.ofSexpL? es with
    | some cfg, some v, some es => some (.list ((diffHist cfg v es []).map diffRToSexp))
    | _, _, _ => some (Sexp.mk "bad-op" [Sexp.str "diffhist"])
  | .list [.atom "funcmap", .atom cfg, f, .list ps] =>
    match Smooth.ofName? cfg, Expr.ofSexp? f, Expr.ofSexpL? ps with
    | some cfg, some f, some ps => some (diffRToSexp (funcMap cfg f ps))
    | _, _, _ => some (Sexp.mk "bad-op" [Sexp.str "funcmap"])
  | .list [.atom "funcmapT", .atom cfg, f, .list ps] =>
    match Smooth.ofName? cfg, Expr.ofSexp? f, Expr.ofSexpL? ps with
    | some cfg, some f, some ps =>
      let T := Generated.c10DiffTable
      some (diffRToSexp (c10FuncMapT T.fnModule T.fnElse cfg f ps T.fns))
    | _, _, _ => some (Sexp.mk "bad-op" [Sexp.str "funcmapT"])
  | .list [.atom "difftable", .atom cfg, v, e] =>
    match Smooth.ofName? cfg, Expr.ofSexp? v, Expr.ofSexp? e with
    | some cfg, some v, some e => some (diffRToSexp (c10DiffT Generated.c10DiffTable cfg v e))
    | _, _, _ => some (Sexp.mk "bad-op" [Sexp.str "difftable"])
  | .list [.atom "diffrule", .atom which, f, g, df, dg] =>
    match Expr.ofSexp? f, Expr.ofSexp? g, Expr.ofSexp? df, Expr.ofSexp? dg with
    | some f, some g, some df, some dg =>
      let T := Generated.c10DiffTable
      some (diffRToSexp (c10RuleEval (if which == "pow" then T.pow else T.quot) f g df dg))
    | _, _, _, _ => some (Sexp.mk "bad-op" [Sexp.str "diffrule"])
  | _ => none

end PV.Driver
