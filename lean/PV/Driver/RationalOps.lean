import PV.Model.Sexp
import PV.Model.RationalOps
import PV.Driver.AlgoTableOps
/- Driver operations for `Rational` arithmetic and `primitives.quotient` on Python ints (C19).

  `(c19-rat py2 OP (n d) OTHER)`   the hand-written model under the Python-2 reading of `/`
  `(c19-rat py3 OP (n d) OTHER)`   what Python 3 does on `Rational(n, d)` (built by the constructor)
  `(c19-table-run-py2 p n z fuel fname arg…)`  the table interpreter on the regenerated table with
                                                every `/` read as `//` (`C19Table.py2`)

OP: `init` `quotient` `add` `radd` `sub` `rsub` `mul` `rmul` `div` `rdiv` `neg` `recip` `pow`;
OTHER: `(i k)` a plain int, `(r n d)` a `Rational` with these fields, `none` for the unary
operations.  For `init` / `quotient` the pair `(n d)` is the argument pair.  Replies: `(i k)`,
`(r n d)`, `(raise Kind)`. -/
namespace PV.Driver
open PV PV.Algo

def ratResToSexp : RatRes → Sexp
  | .int i => .list [.atom "i", Sexp.ofInt i]
  | .rat n d => .list [.atom "r", Sexp.ofInt n, Sexp.ofInt d]
  | .raise k => .list [.atom "raise", .atom k]

def ratArgOfSexp? : Sexp → Option RatArg
  | .list [.atom "i", k] => do pure (.int (← k.int?))
  | .list [.atom "r", n, d] => do pure (.rat (← n.int?) (← d.int?))
  | _ => none

def ratPy2 (op : String) (n d : Int) (other : Option RatArg) : Option RatRes :=
  match op, other with
  | "init", none => some (ratInit n d)
  | "quotient", none => some (ratQuotient n d)
  | "neg", none => some (ratNeg n d)
  | "recip", none => some (ratReciprocal n d)
  | "pow", some (.int k) => if k < 0 then none else some (ratPow n d k.toNat)
  | "add", some o => some (ratAdd n d o.fields.1 o.fields.2)
  | "radd", some o => some (ratAdd n d o.fields.1 o.fields.2)
  | "mul", some o => some (ratMul n d o.fields.1 o.fields.2)
  | "rmul", some o => some (ratMul n d o.fields.1 o.fields.2)
  | "sub", some o => some (ratSub n d o)
  | "rsub", some o => some (ratRsub n d o)
  | "div", some o => some (ratDiv n d o)
  | "rdiv", some o => some (ratRdiv n d o)
  | _, _ => none

/-- Python 3 on `Rational(n, d)`, `d ≠ 0` -/
def ratPy3Op (op : String) (n : Int) (other : Option RatArg) : Option RatRes :=
  match op, other with
  | "neg", none => some (ratPy3 .neg)
  | "recip", none => some (ratPy3 .reciprocal)
  | "pow", some (.int k) => some (ratPowPy3 n k)
  | "add", some _ => some (ratPy3 .add)
  | "radd", some _ => some (ratPy3 .radd)
  | "mul", some _ => some (ratPy3 .mul)
  | "rmul", some _ => some (ratPy3 .rmul)
  | "sub", some _ => some (ratPy3 .sub)
  | "rsub", some _ => some (ratPy3 .rsub)
  | "div", some _ => some (ratPy3 .div)
  | "rdiv", some _ => some (ratPy3 .rdiv)
  | _, _ => none

def handleRational : Sexp → Option Sexp
  | .list [.atom "c19-rat", .atom reading, .atom op, .list [n, d], other] => do
      let n ← n.int?; let d ← d.int?
      let o ← match other with
        | .atom "none" => pure none
        | s => (ratArgOfSexp? s).map some
      let r := if reading == "py2" then ratPy2 op n d o else ratPy3Op op n o
      pure (match r with
        | some r => ratResToSexp r
        | none => .atom "(noclaim)")
  | .list (.atom "c19-table-run-py2" :: p :: n :: z :: fuel :: .atom fname :: args) => do
      let p ← p.nat?; let n ← n.nat?; let z ← z.nat?; let fuel ← fuel.nat?
      let vs ← args.mapM c19ValOfSexp?
      pure (c19ResToSexp
        (c19RunFn (c19ModOps p n z) Generated.c19Table.py2 c19DriverExt fuel fname vs))
  | _ => none

end PV.Driver
