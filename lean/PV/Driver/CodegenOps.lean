import PV.Model.Sexp
import PV.Model.CodegenTable
import PV.Generated.Prec
import PV.Generated.Codegen
import PV.Generated.Traversal
import PV.Generated.Analysis
import PV.Driver.CompileOps
/- Driver operations for C13 (T-gen): the table interpreters of PV/Model/CodegenTable.lean run on
   the regenerated tables, and the model of `to_evaluatable_python_function`. -/
namespace PV.Driver
open PV

def c13FsResult : Except FsErr FuncSig → Sexp
  | .ok s => Sexp.mk "sig" [cmp_strsToSexp s.kwonly, s.body.toSexp]
  | .error (.dep e) => (CompErr.ofDep e).toSexp
  | .error (.ast e) => e.toSexp
  | .error .noClaim => Sexp.mk "noclaim" []

def handleCodegen : Sexp → Option Sexp
  | .list [.atom "c13t-fromast", a] => do
      pure (exprResult (c13FromAstT Generated.c13FromTable (← PyAst.ofSexp? a)))
  | .list [.atom "c13t-toast", e] => do
      pure (astResult (c13ToPythonAstT Generated.c04Classes Generated.c13ToTable (← Expr.ofSexp? e)))
  | .list [.atom "c13t-toast-pure", e] => do
      pure (astResult (c13ToAstT (M := Except AErr) c13LiftId Generated.c04Classes Generated.c13ToTable
        c13NoMemo (← Expr.ofSexp? e)))
  | .list [.atom "c13t-compile", .list listed, e] => do
      let listed ← strList? listed
      let e ← Expr.ofSexp? e
      let S := Generated.printPrec
      let pr := c13Printers Generated.c13CompileMapperTable S
      let T := Generated.c13CompiledTable
      pure (match c13CompileT Generated.c09DepInit pr T S e listed with
        | .error err => err.toSexp
        | .ok c =>
          -- pickle round trip through the table's `__getstate__` / `__setstate__`
          match c13GetstateT T c with
          | none => Sexp.mk "noclaim" []
          | some st =>
            match c13SetstateT Generated.c09DepInit pr T S st with
            | .error err => err.toSexp
            | .ok c' => Sexp.mk "ok" [cmp_strsToSexp c.args, Sexp.str c.src, cmp_strsToSexp c'.args,
                Sexp.str c'.src])
  | .list [.atom "c13t-lambda", .list args, src] => do
      let args ← strList? args
      let src ← src.text
      pure (match c13LambdaT Generated.c13CompiledTable args src with
        | some s => Sexp.str s
        | none => Sexp.mk "noclaim" [])
  | .list [.atom "c13-funcsig", e] => do
      pure (c13FsResult (funcSigModel (← Expr.ofSexp? e)))
  | .list [.atom "c13t-funcsig", e] => do
      pure (c13FsResult (c13FuncSigT Generated.c09DepInit Generated.c04Classes Generated.c13ToTable
        Generated.c13FuncSrcTable (← Expr.ofSexp? e)))
  | _ => none

end PV.Driver
