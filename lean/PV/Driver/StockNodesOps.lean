import PV.Model.Sexp
import PV.Model.StockNodes
import PV.Generated.Traversal
/- Driver operations for C04's user-node / array models (PV/Model/StockNodes.lean), run on the
   handler tables REGENERATED from the source under test. -/
namespace PV.Driver
open PV PV.Generated

def aObjToSexp : AObj → Sexp
  | .entry i => Sexp.mk "entry" [Sexp.ofNat i]
  | .array shape off => Sexp.mk "array" [.list (shape.map Sexp.ofNat), Sexp.ofNat off]

def aEventToSexp (e : AEvent) : Sexp :=
  .list [.atom (if e.post then "post" else "visit"), aObjToSexp e.obj, Sexp.ofBool e.args]

def stockErrToSexp : DepErr → Sexp
  | .unsupported => Sexp.mk "err" [.atom "Unsupported"]
  | .foreign => Sexp.mk "err" [.atom "TypeError"]
  | .unhashable => Sexp.mk "err" [.atom "TypeError"]

/-- the handler table of a stock traversal by name; `none`: no table for it (no claim) -/
def stockTable? : String → Option (List C04Handler)
  | "walk" => some c04WalkTable
  | "identity" => some c04IdentityTable
  | "combine" => some c04CombineTable
  | "collector" => some (c04WithLeaves c04CollectorLeaves c04CombineTable)
  | "callback" => some c04CallbackTable
  | _ => none

def handleStockNodes : Sexp → Option Sexp
  /- `(c04arraywalk skip args (n1 n2 …))`: the walk of an array of that shape (entries: leaves)
     by the `map_numpy_array` row of the regenerated `WalkMapper` table -/
  | .list [.atom "c04arraywalk", .atom skip, .atom args, .list shape] => do
      let shape ← shape.mapM Sexp.nat?
      match aWalkTable c04WalkTable (skip == "true") (args == "true") shape with
      | .ok evs => pure (.list (evs.map aEventToSexp))
      | .error err => pure (stockErrToSexp err)
  /- `(c04usernode kind (user handlers…) (harness handlers…) (mro…))`: what the stock traversal
     `kind`, subclassed by a mapper that adds the listed handlers (the user's: reported by name;
     the harness's own leaf handlers: part of the stock behaviour), does with a node of a class
     with that MRO -/
  | .list [.atom "c04usernode", .atom kind, .list hs, .list extra, .list mro] => do
      let hs ← hs.mapM Sexp.text
      let extra ← extra.mapM Sexp.text
      let mro ← mro.mapM fun m => match m with
        | .atom "nil" => some none
        | s => s.text.map some
      match stockTable? kind with
      | none => pure (Sexp.mk "noclaim" [])
      | some tbl =>
        let tbl' := (hs ++ extra).map (fun n => (⟨n, "user", n, .same⟩ : C04Handler)) ++ tbl
        match dispatchExpr (tbl'.map (·.name)) mro with
        | .handler n =>
          if hs.contains n then pure (Sexp.mk "handler" [Sexp.str n])
          else if c04Reported (c04ResolveMro tbl' mro) then pure (.atom "reported")
          else pure (.atom "stock")
        | _ => pure (.atom "reported")
  | _ => none

end PV.Driver
