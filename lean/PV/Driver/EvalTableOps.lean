import PV.Model.EvalTable
import PV.Model.EvalProc
import PV.Generated.Evaluator
/- Driver operations for the T-gen tie of C02: the table-driven evaluator `c02EvalT` run on the
table regenerated from the working tree (`PV.Generated.c02EvalTable`), and the dispatch the table
records (which handler a node reaches). -/
namespace PV.Driver
open PV

def c02Tbl : C02EvalTable := Generated.c02EvalTable

def c02EnvOfSexp? : Sexp → Option Env
  | .list kvs => kvs.mapM fun kv => match kv with
    | .list [n, v] => do pure ((← n.text), (← Value.ofSexp? v))
    | _ => none
  | _ => none

/-- class name of a pymbolic node; `none` for foreign objects -/
def c02ClassOf : Expr → Option String
  | .const _ | .tuple _ | .list _ => none
  | .var _ => some "Variable"
  | .nary o _ => some o.name
  | .bin o _ _ => some o.name
  | .un o _ => some o.name
  | .cmp .. => some "Comparison"
  | .ite .. => some "If"
  | .call .. => some "Call"
  | .callKw .. => some "CallWithKwargs"
  | .subscript .. => some "Subscript"
  | .lookup .. => some "Lookup"
  | .cse .. => some "CommonSubexpression"
  | .subst .. => some "Substitution"
  | .deriv .. => some "Derivative"
  | .slice _ => some "Slice"
  | .nan => some "NaN"
  | .wildcard => some "Wildcard"
  | .dotWild _ => some "DotWildcard"
  | .starWild _ => some "StarWildcard"
  | .funcSym => some "FunctionSymbol"

def c02ForeignKind : Expr → String
  | .const c => c.c02Kind
  | .tuple _ => "tuple"
  | .list _ => "list"
  | _ => "?"

/-- the handler the regenerated table sends a node to -/
def c02DispatchOf (T : C02EvalTable) (e : Expr) : Sexp :=
  match c02ClassOf e with
  | some cls => match T.classHandler cls with
    | some (some h) => Sexp.mk "handler" [.atom h]
    | some none => Sexp.mk "unsupported" []
    | none => Sexp.mk "unknown-class" []
  | none => match c02ForeignRule T.constKinds (c02ForeignKind e) T.foreign with
    | some h => Sexp.mk "handler" [.atom h]
    | none => Sexp.mk "foreign-error" [.atom T.foreignElse]

/-- one step of a process history: `(fresh|<instance number> <cached> <env> <expr>)` -/
def c02ProcStepOfSexp? : Sexp → Option ProcStep
  | .list [.atom who, .atom c, env, e] => do
    let env ← c02EnvOfSexp? env
    let e ← Expr.ofSexp? e
    let inst ← if who == "fresh" then pure none else who.toNat?.map some
    pure ⟨inst, c == "true", env, e⟩
  | _ => none

def handleEvalTable : Sexp → Option Sexp
  | .list [.atom "c02-prochist", .list steps] =>
    -- a history of evaluations in one process (fresh objects / long-lived instances, an
    -- environment per step) through the regenerated table
    match steps.mapM c02ProcStepOfSexp? with
    | some steps => some (.list ((c02RunProcT c02Tbl steps []).map R.toSexp))
    | none => some (Sexp.mk "bad-op" [Sexp.str "c02-prochist args"])
  | .list [.atom "c02-evalhist", .atom c, env, .list es] =>
    match c02EnvOfSexp? env, Expr.ofSexpL? es with
    | some env, some es =>
      some (.list ((c02RunHistT c02Tbl (c == "true") env es {}).map R.toSexp))
    | _, _ => some (Sexp.mk "bad-op" [Sexp.str "c02-evalhist args"])
  | .list [.atom "c02-evalarray", .atom c, env, .list shape, .list es] =>
    -- a numpy object array (shape, entries in row-major order) through the regenerated table
    match c02EnvOfSexp? env, Expr.ofSexpL? es with
    | some env, some es =>
      let sh := shape.filterMap fun | .atom a => a.toNat? | _ => none
      match c02ArrayT c02Tbl (c == "true") env ⟨sh, es⟩ with
      | none => some (Sexp.mk "unrecognised-array-handler" [])
      | some k =>
        match (k {}).1 with
        | .ok a => some (Sexp.mk "array" [.list (a.shape.map fun n => .atom (toString n)), .list (Value.toSexpL a.flat)])
        | .error e => some (Err.toSexp e)
    | _, _ => some (Sexp.mk "bad-op" [Sexp.str "c02-evalarray args"])
  | .list [.atom "c02-dispatch", e] =>
    match Expr.ofSexp? e with
    | some e => some (c02DispatchOf c02Tbl e)
    | none => some (Sexp.mk "bad-op" [Sexp.str "c02-dispatch args"])
  | _ => none

end PV.Driver
