import PV.Model.Sexp
import PV.Model.Dispatch
import PV.Model.TravTable
import PV.Model.Callback
namespace PV.Driver
open PV

def declOf? : Sexp → Option (String × Decl)
  | .list [n, .atom "decorated", m] => do
      pure ((← n.text), .decorated (match m with | .atom "nil" => none | s => s.text))
  | .list [n, .atom "legacy", m] => do
      pure ((← n.text), .legacy (match m with | .atom "nil" => none | s => s.text))
  | _ => none

def resToSexp : DispatchResult → Sexp
  | .handler n => Sexp.mk "handler" [Sexp.str n]
  | .unsupported => .atom "unsupported"
  | .foreign n => Sexp.mk "foreign" [Sexp.str n]
  | .invalidForeign => .atom "invalid-foreign"

/-- `(c04fields e)`: the dataclass fields of the root node as the model reads them -/
def c04FieldsToSexp (e : Expr) : Sexp :=
  .list (e.c04Fields.map fun (n, v) =>
    .list (Sexp.str n :: .atom v.kindName :: Expr.toSexpL v.exprs))

def c04ErrToSexp : DepErr → Sexp
  | .unsupported => Sexp.mk "err" [.atom "Unsupported"]
  | .foreign => Sexp.mk "err" [.atom "Foreign"]
  | .unhashable => Sexp.mk "err" [.atom "TypeError"]

def handleDispatch : Sexp → Option Sexp
  | .list [.atom "c04callback", .atom args, e] => do
      let e ← Expr.ofSexp? e
      match callbackTrace (args == "true") e with
      | .ok xs => pure (.list (xs.map fun (n, a) => .list [n.toSexp, Sexp.ofBool a]))
      | .error err => pure (c04ErrToSexp err)
  | .list [.atom "c04fields", e] => (Expr.ofSexp? e).map c04FieldsToSexp
  | .list [.atom "camel", s] => do pure (Sexp.str (camelToSnake (← s.text)))
  | .list [.atom "dispatch", .atom variant, .list chain, .list handlers] => do
      -- chain: base-first list of class declarations below `Expression`
      let chain ← chain.mapM declOf?
      let hs ← handlers.mapM Sexp.text
      let mro := effectiveChain chain none ++ [none]      -- + the Expression base itself
      let r := match variant with
        | "call" => dispatchExpr hs mro
        | "fallback" => dispatchFallback hs mro
        | _ => dispatchCached hs mro
      pure (.list [resToSexp r, .list (mro.map fun m => match m with
        | some s => Sexp.str s | none => .atom "nil")])
  | .list [.atom "foreign", .atom k] =>
      let kind := match k with
        | "number" => ForeignKind.number | "numpy" => .numpyArray | "list" => .list
        | "tuple" => .tuple | _ => .other
      some (resToSexp (dispatchForeign kind))
  | _ => none

end PV.Driver
