import PV.Model.StrTable
import PV.Generated.Stringifier
import PV.Generated.Prec
import PV.Driver.SyntaxOps
/- Driver operations for the T-gen tie of C06: the table-driven printer `c06tStr` run on the
table regenerated from the working tree (`PV.Generated.c06tTable`), and the dispatch the table
records (which handler a node reaches). -/
namespace PV.Driver
open PV

def c06tTbl : C06TTable := Generated.c06tTable

/-- the handler the regenerated table sends a node to -/
def c06tDispatchOf (T : C06TTable) (e : Expr) : Sexp :=
  match e with
  | .const _ | .tuple _ | .list _ =>
    match c06tForeignRule T.constKinds e.c06tCls T.foreign with
    | some h => Sexp.mk "handler" [.atom h]
    | none => Sexp.mk "foreign-error" [.atom T.foreignElse]
  | _ => match T.classHandler e.c06tCls with
    | some (some h) => Sexp.mk "handler" [.atom h]
    | some none => Sexp.mk "unsupported" []
    | none => Sexp.mk "unknown-class" []

def handleStrTable : Sexp → Option Sexp
  | .list [.atom "c06t-str", .atom lim, e] => do
      let e ← Expr.ofSexp? e
      pure (match c06tStrTop c06tTbl (lim == "true") Generated.printPrec e with
        | .ok ps => .list [Sexp.str (render ps), .list ((toks ps).map tokToSexp)]
        | .error err => sErrToSexp err)
  | .list [.atom "c06t-dispatch", e] => do
      let e ← Expr.ofSexp? e
      pure (c06tDispatchOf c06tTbl e)
  | _ => none

end PV.Driver
