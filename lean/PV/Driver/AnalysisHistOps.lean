import PV.Model.Sexp
import PV.Model.AnalysisHistory
/-
  C09 driver requests for HISTORIES of analysis calls (one mapper object, several expressions):
    (deps-hist ((fl cached e) …))      →  (a₁ … aₙ)   aᵢ = sorted set | (err K)
        every step carries the flags `(subscripts lookups calls cses)` and the cached-ness of the
        mapper it is given to (several mappers may be interleaved)
    (c09count-hist shared ((e …) …))   →  ((n₁ … ) …)     one group per counter object
        shared = false: `[get_num_nodes(e) for e in es]`
        shared = true : ONE `NodeCountMapper` per group, the successive values of `.count`; a
                        group ends at the first exception
    (c09flops-hist aware ((e …) …))    →  ((n₁ … ) …)     one group per counter object
        ONE `FlopCounter` (aware = false) / `CSEAwareFlopCounter` (aware = true) per group; a
        group ends at the first exception
-/
namespace PV.Driver
open PV

private def histErr : DepErr → Sexp
  | .unsupported => Sexp.mk "err" [.atom "Unsupported"]
  | .foreign => Sexp.mk "err" [.atom "Foreign"]
  | .unhashable => Sexp.mk "err" [.atom "TypeError"]

private def histFlags? : Sexp → Option DepFlags
  | .list [.atom s, .atom l, .atom c, .atom cs] =>
    some { subscripts := s == "true", lookups := l == "true",
           calls := if c == "yes" then .yes else if c == "no" then .no else .descend,
           cses := cs == "true" }
  | _ => none

private def histSet (xs : List Expr) : Sexp :=
  let strs := (xs.map fun e => toString e.toSexp).toArray.qsort (· < ·)
  .list (strs.toList.map .atom)

private def histStep? : Sexp → Option (DepFlags × Bool × Expr)
  | .list [fl, .atom cached, e] => do
      pure ((← histFlags? fl), cached == "true", (← Expr.ofSexp? e))
  | _ => none

private def histGroup? : Sexp → Option (List Expr)
  | .list es => Expr.ofSexpL? es
  | _ => none

private def histNats (rs : List (Except DepErr Nat)) : Sexp :=
  .list (rs.map fun r => match r with
    | .ok n => Sexp.ofNat n
    | .error err => histErr err)

def handleAnalysisHist : Sexp → Option Sexp
  | .list [.atom "deps-hist", .list steps] =>
    match steps.mapM histStep? with
    | some steps =>
      some (.list ((depsHist steps).map fun r => match r with
        | .ok xs => histSet xs
        | .error err => histErr err))
    | none => some (Sexp.mk "bad-op" [Sexp.str "deps-hist"])
  | .list [.atom "c09count-hist", .atom shared, .list groups] =>
    match groups.mapM histGroup? with
    | some groups =>
      some (.list (groups.map fun es =>
        histNats (if shared == "true" then countHist es 0 [] else numNodesHist es)))
    | none => some (Sexp.mk "bad-op" [Sexp.str "c09count-hist"])
  | .list [.atom "c09flops-hist", .atom aware, .list groups] =>
    match groups.mapM histGroup? with
    | some groups => some (.list (groups.map fun es => histNats (flopsHist (aware == "true") es [])))
    | none => some (Sexp.mk "bad-op" [Sexp.str "c09flops-hist"])
  | _ => none

end PV.Driver
