import PV.Model.Sexp
import PV.Model.CseTally
import PV.Driver.CseOps
/- Driver operations for the end-to-end operation tally of C12. -/
namespace PV.Driver
open PV

/-- an exact number as `(q num den)`, anything else as `?` -/
def c12NumToSexp (v : Value) : Sexp :=
  match v.num? with
  | some n => Sexp.mk "q" [Sexp.ofInt n.toRat.num, Sexp.ofNat n.toRat.den]
  | none => .atom "?"

def c12TallyToSexp (t : C12Tally) : List Sexp :=
  [Sexp.ofNat t.add, Sexp.ofNat t.mul, Sexp.ofNat t.div, Sexp.ofNat t.floordiv, Sexp.ofNat t.mod,
   Sexp.ofNat t.pow, Sexp.ofNat t.call]

def c12RunToSexp : Except Err (List Value) × C12Log → Sexp
  | (.ok _, t) =>
    Sexp.mk "run"
      [Sexp.mk "nodes" ((c12Nodes t).reverse.map Expr.toSexp),
       Sexp.mk "tally" (c12TallyToSexp (c12TallyOfLog t)),
       Sexp.mk "calls" ((c12Calls t).reverse.map fun p =>
         Sexp.list (Sexp.str p.1 :: p.2.map c12NumToSexp))]
  | (.error .noClaim, _) => Sexp.mk "noclaim" []
  | (.error _, _) => Sexp.mk "raised" []

def handleCseTally : Sexp → Option Sexp
  | .list [.atom "cse-tag-tally", env, .list es] =>
    -- tag the list, evaluate all tagged expressions with ONE counting evaluator (the functions of
    -- the environment are the counting function of the harness); plus the reference tally
    match envOfSexpC? env, Expr.ofSexpL? es with
    | some env, some es =>
      match c12TagRun c12SemAffine env es with
      | .ok (_, r) =>
        some (Sexp.mk "ok" [c12RunToSexp r, Sexp.mk "ref" (c12TallyToSexp (c12RefTally es)),
          Sexp.mk "plan" ((c12PlanL es []).map Expr.toSexp)])
      | .error e => some (cseErrToSexp e)
    | _, _ => some (badC "cse-tag-tally")
  | _ => none

end PV.Driver
