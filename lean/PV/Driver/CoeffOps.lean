import PV.Model.Sexp
import PV.Model.Coeff
/- Driver operations for the coefficient collector and the affine solver (C15). -/
namespace PV.Driver
open PV PV.Coeff

def cerrToSexp : CErr → Sexp
  | .nonlinear => Sexp.mk "err" [.atom "Nonlinear"]
  | .assertion => Sexp.mk "err" [.atom "AssertionError"]
  | .keyError => Sexp.mk "err" [.atom "KeyError"]
  | .unsupported => Sexp.mk "err" [.atom "Unsupported"]
  | .notImplemented => Sexp.mk "err" [.atom "NotImplemented"]
  | .foreign => Sexp.mk "err" [.atom "Foreign"]
  | .typeError => Sexp.mk "err" [.atom "TypeError"]
  | .notUnique => Sexp.mk "err" [.atom "NotUnique"]
  | .remainder => Sexp.mk "err" [.atom "Remainder"]
  | .keyNotUnderstood => Sexp.mk "err" [.atom "KeyNotUnderstood"]
  | .noClaim => Sexp.mk "noclaim" []

def dictToSexp (d : Dict) : Sexp :=
  Sexp.mk "dict" (d.map fun kc => .list [kc.1.toSexp, kc.2.toSexp])

def targetsOf? : Sexp → Option (Option (List String))
  | .atom "nil" => some none
  | .list xs => (strList? xs).map some
  | _ => none

def rowOf? : Sexp → Option Row
  | .list xs => xs.mapM Sexp.int?
  | _ => none

def arowOf? : Sexp → Option ARow
  | .list [a, b] => do pure ((← rowOf? a), (← rowOf? b))
  | _ => none

def rowToSexp (r : Row) : Sexp := .list (r.map Sexp.ofInt)
def arowToSexp (r : ARow) : Sexp := .list [rowToSexp r.1, rowToSexp r.2]

def eqOf? : Sexp → Option (Expr × Expr)
  | .list [a, b] => do pure ((← Expr.ofSexp? a), (← Expr.ofSexp? b))
  | _ => none

/-- all orders of a list (the iteration orders a Python `set` may have) -/
def perms {α : Type} : List α → List (List α)
  | [] => [[]]
  | x :: xs => (perms xs).flatMap fun p =>
      (List.range (p.length + 1)).map fun i => p.take i ++ [x] ++ p.drop i

def solToSexp : CR (List (Expr × Expr)) → Sexp
  | .ok kvs => Sexp.mk "sol" (kvs.map fun kv => .list [kv.1.toSexp, kv.2.toSexp])
  | .error e => cerrToSexp e

def handleCoeff : Sexp → Option Sexp
  | .list [.atom "c15-coeffs", tg, e] =>
    match targetsOf? tg, Expr.ofSexp? e with
    | some tg, some e => match coeffs tg e with
      | .ok d => some (dictToSexp d)
      | .error err => some (cerrToSexp err)
    | _, _ => some (Sexp.mk "bad-op" [Sexp.str "c15-coeffs"])
  | .list [.atom "c15-gauss", m, n, .list rows] =>
    match m.nat?, n.nat?, rows.mapM arowOf? with
    | some m, some n, some rows => some (.list ((gaussElim m n rows).map arowToSexp))
    | _, _, _ => some (Sexp.mk "bad-op" [Sexp.str "c15-gauss"])
  | .list [.atom "c15-solvemat", m, n, .list rows] =>
    match m.nat?, n.nat?, rows.mapM arowOf? with
    | some m, some n, some rows => match solveMat m n rows with
      | .ok vs => some (.list (vs.map rowToSexp))
      | .error err => some (cerrToSexp err)
    | _, _, _ => some (Sexp.mk "bad-op" [Sexp.str "c15-solvemat"])
  | .list [.atom "c15-solve", .list names, .list eqs] =>
    match strList? names, eqs.mapM eqOf? with
    | some names, some eqs =>
      match paramSet (names.map Expr.var) eqs with
      | .error err => some (Sexp.mk "alts" [cerrToSexp err])
      | .ok ps =>
        if ps.length > 4 then some (Sexp.mk "noclaim" [])
        else some (Sexp.mk "alts" ((perms ps).map fun p => solToSexp (solveAffine names eqs p)))
    | _, _ => some (Sexp.mk "bad-op" [Sexp.str "c15-solve"])
  | _ => none

end PV.Driver
