import PV.Model.Sexp
import PV.Model.AlgoScalar
import PV.Driver.AlgoOps
/- Driver operations for `Polynomial` (op) Python int (C19, PV/Model/AlgoScalar.lean). -/
namespace PV.Driver
open PV PV.Algo

def handleAlgoScalar : Sexp → Option Sexp
  | .list [.atom "algo-polyscalar", .atom "noclaim"] => some (Sexp.mk "noclaim" [])
  | .list [.atom "algo-polyscalar", .atom op, p, k] => do
      let p ← polyOf? p; let k ← k.int?
      match op with
      | "add" | "radd" => pure (polyToSexp (addScalar p k))
      | "sub" => pure (polyToSexp (subScalar p k))
      | "rsub" => pure (polyToSexp (rsubScalar p k))
      | "mul" => pure (polyToSexp (scale p k))
      | "rmul" => pure (polyToSexp (rscale p k))
      | "divmod" | "floormod" => pure (match divmodScalar p k with
          | some (a, b) => .list [polyToSexp a, polyToSexp b]
          | none => .atom "ZeroDivisionError")
      | _ => none
  | _ => none

end PV.Driver
