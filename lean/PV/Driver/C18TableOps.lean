import PV.Model.Sexp
import PV.Model.GATable
import PV.Generated.GATable
import PV.Driver.GAOps
/- Driver operations for the T-gen tie of C18: the table interpreter `c18Call` run on the function
table regenerated from the working tree (`PV.Generated.c18GAModule`), coefficients = `Rat`
(Python `Fraction`). -/
namespace PV.Driver
open PV PV.GA

partial def c18ValOfSexp? : Sexp → Option (C18Val Rat)
  | .atom "none" => some .none
  | .atom "space" => some .space
  | .atom "notimpl" => some .notImplemented
  | .atom "newobj" => some (.obj false none)
  | .list [.atom "bool", .atom b] => some (.bool (b == "true"))
  | .list [.atom "int", i] => i.int?.map C18Val.ofInt
  | .list [.atom "coef", c] => (c18RatOf? c).map .coef
  | .list [.atom "str", s] => s.text.map .str
  | .list (.atom "list" :: xs) => (xs.mapM c18ValOfSexp?).map .list
  | .list (.atom "tuple" :: xs) => (xs.mapM c18ValOfSexp?).map .tuple
  | .list (.atom "dict" :: xs) => (c18MvOf? c18RatOf? (.list xs)).map .dict
  | .list (.atom "mv" :: xs) => (c18MvOf? c18RatOf? (.list xs)).map fun d => .obj true (some d)
  | .list (.atom "tdict" :: xs) =>
    (xs.mapM fun (p : Sexp) => match p with
      | Sexp.list [k, v] => do pure ((← natList? k), (← c18RatOf? v))
      | _ => none).map C18Val.tdict
  | .list (.atom "vec" :: xs) => (xs.mapM c18RatOf?).map .vec
  | .list [.atom "cls", n] => n.text.map .cls
  | _ => none

partial def c18ValToSexp : C18Val Rat → Sexp
  | .none => .atom "none"
  | .bool b => .list [.atom "bool", Sexp.ofBool b]
  | .nat n => .list [.atom "int", Sexp.ofNat n]
  | .neg n => .list [.atom "int", Sexp.ofInt (Int.negSucc n)]
  | .coef c => .list [.atom "coef", c18RatToSexp c]
  | .str s => .list [.atom "str", Sexp.str s]
  | .list xs => .list (.atom "list" :: xs.map c18ValToSexp)
  | .tuple xs => .list (.atom "tuple" :: xs.map c18ValToSexp)
  | .dict d => .list (.atom "dict" :: d.map fun (k, v) => .list [Sexp.ofNat k, c18RatToSexp v])
  | .tdict d => .list (.atom "tdict" :: d.map fun (k, v) =>
      .list [.list (k.map Sexp.ofNat), c18RatToSexp v])
  | .vec xs => .list (.atom "vec" :: xs.map c18RatToSexp)
  | .obj true (some d) => .list (.atom "mv" :: d.map fun (k, v) => .list [Sexp.ofNat k, c18RatToSexp v])
  | .obj _ _ => .atom "partial-object"
  | .space => .atom "space"
  | .metric => .atom "metric"
  | .cls n => .list [.atom "cls", Sexp.str n]
  | .fn q => .list [.atom "fn", Sexp.str q]
  | .prim n => .list [.atom "prim", Sexp.str n]
  | .hash h => .list [.atom "hash", Sexp.ofNat h]
  | .notImplemented => .atom "notimpl"
  | .unbound => .atom "unbound"

def c18ResToSexp : C18Res (C18Val Rat) → Sexp
  | .ok v => .list [.atom "ok", c18ValToSexp v]
  | .raise e => .list [.atom "raise", .atom e]
  | .stuck w => .list [.atom "stuck", Sexp.str w]
  | .fuel => .atom "fuel"

def c18RatCtx (g : List Rat) (dims : Nat) (orth euclid : Bool) : C18Ctx Rat :=
  { z := fun x => x == 0, ceq := fun a b => a == b, div := fun a b => a / b,
    g := fun i => g.getD i 1, names := (List.range dims).map fun i => "e" ++ toString i,
    orth := orth, euclid := euclid, hspace := 0, hb := id, hc := fun _ => 0 }

def handleC18Table : Sexp → Option Sexp
  | .list [.atom "c18-table", q, g, dims, .atom orth, .atom euclid, .list args, .list kws] => do
    let q ← q.text
    let g ← c18ListOf? c18RatOf? g
    let dims ← dims.nat?
    let args ← args.mapM c18ValOfSexp?
    let kws ← kws.mapM fun (p : Sexp) => match p with
      | Sexp.list [k, v] => do pure ((← k.text), (← c18ValOfSexp? v))
      | _ => none
    let Γ := c18RatCtx g dims (orth == "true") (euclid == "true")
    -- `Class.name`: resolved through the class rows of the table (aliases, bases) like Python does
    let q := match q.splitOn "." with
      | [cn, a] => match c18ClassAttr Generated.c18GAModule cn a with
        | some (.method q' _) => q'
        | _ => q
      | _ => q
    pure (c18ResToSexp (c18Call Generated.c18GAModule Γ 100000 q args kws))
  | .list [.atom "c18-table-fns"] =>
    some (.list (Generated.c18GAModule.fns.map fun f => Sexp.str f.qual))
  | _ => none

end PV.Driver
