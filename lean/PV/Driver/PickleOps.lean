import PV.Model.Sexp
import PV.Model.Pickle
import PV.Model.PersistentHashTable
import PV.Model.PersistentHashSep
import PV.Generated.Traversal
import PV.Generated.PersistentHash
/- Driver operations for the pickling / hash-cache / persistent-digest model (C17). -/
namespace PV.Driver
open PV PV.Pickle

def kindName : Kind → String
  | .dataclass => "dataclass" | .legacySub => "legacysub" | .legacy => "legacy"

def kindOf? : String → Option Kind
  | "dataclass" => some .dataclass | "legacysub" => some .legacySub | "legacy" => some .legacy
  | _ => none

def bitsToSexp (bs : List Bool) : Sexp :=
  .atom (bs.foldl (fun s b => s ++ (if b then "1" else "0")) "b")

mutual
/-- fields only (the slots are reported separately as `bits`) -/
def objToSexp : Obj → Sexp
  | .atom c => Sexp.mk "atom" [c.toSexp]
  | .tuple xs => Sexp.mk "tuple" (objToSexpL xs)
  | .list xs => Sexp.mk "list" (objToSexpL xs)
  | .dict ks vs => Sexp.mk "dict" [.list (ks.map Sexp.str), .list (objToSexpL vs)]
  | .inst c k fs _ => Sexp.mk "inst" [Sexp.str c, .atom (kindName k), .list (objToSexpL fs)]
def objToSexpL : List Obj → List Sexp
  | [] => []
  | x :: xs => objToSexp x :: objToSexpL xs
end

mutual
partial def objOfSexp? : Sexp → Option Obj
  | .list [.atom "atom", c] => match Expr.ofSexp? c with
    | some (.const c) => some (.atom c)
    | _ => none
  | .list (.atom "tuple" :: xs) => do pure (.tuple (← objOfSexpL? xs))
  | .list (.atom "list" :: xs) => do pure (.list (← objOfSexpL? xs))
  | .list [.atom "dict", .list ks, .list vs] => do pure (.dict (← strList? ks) (← objOfSexpL? vs))
  | .list [.atom "inst", c, .atom k, .list fs] => do
      pure (.inst (← c.text) (← kindOf? k) (← objOfSexpL? fs) none)
  | _ => none
partial def objOfSexpL? : List Sexp → Option (List Obj)
  | [] => some []
  | x :: xs => do pure ((← objOfSexp? x) :: (← objOfSexpL? xs))
end

def opOfSexp? : Sexp → Option Op
  | .list [.atom "hash", i] => i.nat?.map .hash
  | .list [.atom "eq", i, j] => do pure (.eq (← i.nat?) (← j.nat?))
  | .list [.atom "member", i, j] => do pure (.member (← i.nat?) (← j.nat?))
  | .list [.atom "pickle", i, p] => do pure (.pickle (← i.nat?) (← p.nat?))
  | .list [.atom "unpickle", k] => k.nat?.map .unpickle
  | _ => none

def outToSexp : Out → Sexp
  | .hash f b => Sexp.mk "hash" [Sexp.ofBool f, bitsToSexp b]
  | .eq r a b => Sexp.mk "eq" [Sexp.ofBool r, bitsToSexp a, bitsToSexp b]
  | .member r a b => Sexp.mk "member" [Sexp.ofBool r, bitsToSexp a, bitsToSexp b]
  | .pickled => Sexp.mk "pickled" []
  | .unpickled o => Sexp.mk "unpickled" [objToSexp o, bitsToSexp o.bits]
  | .bad => Sexp.mk "bad" []

def handlePickle : Sexp → Option Sexp
  | .list [.atom "c17-ofexpr", e] =>
    match Expr.ofSexp? e with
    | some e => some (objToSexp (ofExpr e))
    | none => some (Sexp.mk "bad-op" [Sexp.str "c17-ofexpr"])
  | .list [.atom "c17-digest", e] =>
    match Expr.ofSexp? e with
    | some e => match digest e with
      | .ok xs => some (.list (xs.map Sexp.str))
      | .error .foreign => some (Sexp.mk "err" [.atom "Foreign"])
      | .error _ => some (Sexp.mk "err" [.atom "Unsupported"])
    | none => some (Sexp.mk "bad-op" [Sexp.str "c17-digest"])
  | .list [.atom "c17-digest-table", e] =>
    -- T-gen: the table interpreter on the tables regenerated from the working tree
    match Expr.ofSexp? e with
    | some e =>
      match c17DigestT Generated.c04Classes Generated.c04WalkTable Generated.c17HashTable e with
      | .ok xs => some (.list (xs.map Sexp.str))
      | .error .foreign => some (Sexp.mk "err" [.atom "Foreign"])
      | .error _ => some (Sexp.mk "err" [.atom "Unsupported"])
    | none => some (Sexp.mk "bad-op" [Sexp.str "c17-digest-table"])
  | .list [.atom "c17-inj", a, b] =>
    -- injectivity: same chunk sequence? same concatenation? same tree after erasure? separable
    -- under a common rank discipline?
    match Expr.ofSexp? a, Expr.ofSexp? b with
    | some a, some b =>
      match digest a, digest b with
      | .ok la, .ok lb =>
        some (Sexp.mk "inj" [Sexp.ofBool (la == lb),
          Sexp.ofBool (c17Flat String.toList la == c17Flat String.toList lb),
          Sexp.ofBool (Expr.beq (c17Erase a) (c17Erase b)), Sexp.ofBool (c17CommonSep a b)])
      | _, _ => some (Sexp.mk "noclaim" [])
    | _, _ => some (Sexp.mk "bad-op" [Sexp.str "c17-inj"])
  | .list [.atom "c17-hist", s1, s2, .list src, .list ops1, .list ops2] =>
    match s1.nat?, s2.nat?, objOfSexpL? src, ops1.mapM opOfSexp?, ops2.mapM opOfSexp? with
    | some s1, some s2, some src, some ops1, some ops2 =>
      if Obj.hasListL src then some (Sexp.mk "noclaim" []) else
      let r := crossRun (toyParams s1) (toyParams s2) src ops1 ops2
      some (.list [.list (r.1.map outToSexp), .list (r.2.map outToSexp)])
    | _, _, _, _, _ => some (Sexp.mk "bad-op" [Sexp.str "c17-hist"])
  | .list [.atom "c17-roundtrip", o] =>
    -- pickle + unpickle of one object (lists allowed): the new object's fields and slots
    match objOfSexp? o with
    | some o => some (.list [objToSexp o.pickle.unpickle, bitsToSexp o.pickle.unpickle.bits])
    | none => some (Sexp.mk "bad-op" [Sexp.str "c17-roundtrip"])
  | .list [.atom "c17-compiled", seed, o, .list vs] =>
    -- CompiledExpression.__getstate__/__setstate__: source expression and variables survive
    match seed.nat?, objOfSexp? o, strList? vs with
    | some seed, some o, some vs =>
      let c := Compiled.unpickle (toyParams seed) (Compiled.pickle ⟨o, vs⟩)
      some (Sexp.mk "compiled" [objToSexp c.expr, .list (c.vars.map Sexp.str), bitsToSexp c.expr.bits])
    | _, _, _ => some (Sexp.mk "bad-op" [Sexp.str "c17-compiled"])
  | _ => none

end PV.Driver
