import PV.Model.OpsSyntax
import PV.Generated.Operators
import PV.Generated.OperatorsSyntax
/- Driver operations for the non-arithmetic half of C03: a program over subscript / call /
attribute / constructor-method / arithmetic syntax is run with every piece of syntax answered by
the generic table interpreters on the tables regenerated from the working tree
(`PV.Generated.c03Table`, `PV.Generated.c03SynTable`). -/
namespace PV.Driver
open PV

def synUnOp? : String → Option PyUnOp
  | "neg" => some .neg | "pos" => some .pos | "invert" => some .invert | _ => none

def synCmpOp? : String → Option CmpOp
  | "eq" => some .eq | "ne" => some .ne | "lt" => some .lt | "le" => some .le
  | "gt" => some .gt | "ge" => some .ge | _ => none

mutual
partial def synProgOfSexp? : Sexp → Option SynProg
  | .list [.atom "leaf", e] => (Expr.ofSexp? e).map .leaf
  | .list [.atom "bin", .atom o, p, q] => do
      pure (.bin (← PyBinOp.ofName? o) (← synProgOfSexp? p) (← synProgOfSexp? q))
  | .list [.atom "un", .atom o, p] => do pure (.un (← synUnOp? o) (← synProgOfSexp? p))
  | .list [.atom "abs", p] => do pure (.abs (← synProgOfSexp? p))
  | .list [.atom "item", p, i] => do pure (.item (← synProgOfSexp? p) (← synIdxOfSexp? i))
  | .list [.atom "call", p, .list args, .list names, .list vals] => do
      pure (.call (← synProgOfSexp? p) (← args.mapM synProgOfSexp?) (← names.mapM Sexp.text)
        (← vals.mapM synProgOfSexp?))
  | .list [.atom "attr", .atom how, p, n] => do
      pure (.attr (how == "a") (← synProgOfSexp? p) (← n.text))
  | .list [.atom "not", p] => do pure (.not_ (← synProgOfSexp? p))
  | .list [.atom "and", p, q] => do pure (.and_ (← synProgOfSexp? p) (← synProgOfSexp? q))
  | .list [.atom "or", p, q] => do pure (.or_ (← synProgOfSexp? p) (← synProgOfSexp? q))
  | .list [.atom "cmp", .atom o, p, q] => do
      pure (.cmp (← synCmpOp? o) (← synProgOfSexp? p) (← synProgOfSexp? q))
  | _ => none
partial def synIdxOfSexp? : Sexp → Option SynProg
  | .list [.atom "i", p] => synProgOfSexp? p
  | .list (.atom "t" :: is) => do pure (.tup (← is.mapM synIdxOfSexp?))
  | .list (.atom "l" :: is) => do pure (.lst (← is.mapM synIdxOfSexp?))
  | .list [.atom "eok", i] => do pure (.eok (← synIdxOfSexp? i))
  | _ => none
end

def synErrToSexp : OpErr → Sexp
  | .typeError => Sexp.mk "err" [.atom "TypeError"]
  | .assertion => Sexp.mk "err" [.atom "AssertionError"]
  | .noClaim => Sexp.mk "noclaim" []

def handleOpsSyntax : Sexp → Option Sexp
  | .list [.atom "synprog", p] =>
    match synProgOfSexp? p with
    | some p =>
      match p.buildWith (SynImpl.byTable Generated.c03Table Generated.c03SynTable) with
      | .ok (.plain e) => some e.toSexp
      | .ok (.emptyOK _) => some (Sexp.mk "noclaim" [])
      | .error e => some (synErrToSexp e)
    | none => some (Sexp.mk "bad-op" [Sexp.str "synprog"])
  | _ => none

end PV.Driver
