import PV.Model.Sexp
import PV.Model.CoeffTable
import PV.Generated.Coefficient
import PV.Driver.CoeffOps
/-
  Driver operations for the T-gen tie of C15: the table interpreter of PV/Model/CoeffTable.lean run
  on the table regenerated from the working tree (`PV.Generated.c15Table`).
    (c15-coeffs-table tg e)        →  (dict (k c) …) | (err K)
    (c15-gauss-table n (rows…))    →  (rows…) | (err K)
    (c15-solve-table (names) (eqs))→  (alts answer …)   one answer per enumeration order of the
                                       parameter set
-/
namespace PV.Driver
open PV PV.Coeff

def c15Tbl : C15Table := Generated.c15Table

def c15ErrToSexp : C15Err → Sexp
  | .py e => cerrToSexp e
  | .zeroDiv => Sexp.mk "err" [.atom "Other", .atom "ZeroDivisionError"]
  | .indexError => Sexp.mk "err" [.atom "Other", .atom "IndexError"]
  | .valueError => Sexp.mk "err" [.atom "Other", .atom "ValueError"]
  | .stuck => Sexp.mk "stuck" []

def c15Fact : Nat → Nat
  | 0 => 1
  | n + 1 => (n + 1) * c15Fact n

def handleCoeffTable : Sexp → Option Sexp
  | .list [.atom "c15-coeffs-table", tg, e] =>
    match targetsOf? tg, Expr.ofSexp? e with
    | some tg, some e => match c15CoeffsT c15Tbl tg e with
      | .ok d => some (dictToSexp d)
      | .error err => some (cerrToSexp err)
    | _, _ => some (Sexp.mk "bad-op" [Sexp.str "c15-coeffs-table"])
  | .list [.atom "c15-gauss-table", n, .list rows] =>
    match n.nat?, rows.mapM arowOf? with
    | some n, some rows => match c15RunGauss c15Tbl n rows with
      | .ok s => some (.list (s.map arowToSexp))
      | .error err => some (c15ErrToSexp err)
    | _, _ => some (Sexp.mk "bad-op" [Sexp.str "c15-gauss-table"])
  | .list [.atom "c15-solve-table", .list names, .list eqs] =>
    match strList? names, eqs.mapM eqOf? with
    | some names, some eqs =>
      -- how many enumeration orders there are: the size of the parameter set
      let count := match paramSet (names.map Expr.var) eqs with
        | .ok ps => if ps.length > 4 then 0 else c15Fact ps.length
        | .error _ => 1
      if count = 0 then some (Sexp.mk "noclaim" [])
      else some (Sexp.mk "alts" ((List.range count).map fun k =>
        match c15RunSolve c15Tbl (fun s => (perms s)[k]?) names eqs with
        | .ok d => Sexp.mk "sol" (d.map fun kv => .list [kv.1.toSexp, kv.2.toSexp])
        | .error err => c15ErrToSexp err))
    | _, _ => some (Sexp.mk "bad-op" [Sexp.str "c15-solve-table"])
  | _ => none

end PV.Driver
