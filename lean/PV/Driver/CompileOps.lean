import PV.Model.Sexp
import PV.Model.Compile
import PV.Generated.Prec
/- Driver operations for the code-generation models (C13). -/
namespace PV.Driver
open PV

def c13Env? : Sexp → Option Env
  | .list kvs => kvs.mapM fun kv => match kv with
    | .list [n, v] => do pure ((← n.text), (← Value.ofSexp? v))
    | _ => none
  | _ => none

def cmp_strsToSexp (xs : List String) : Sexp := .list (xs.map Sexp.str)

def astResult : Except AErr PyAst → Sexp
  | .ok a => a.toSexp
  | .error err => err.toSexp

def exprResult : Except AErr Expr → Sexp
  | .ok e => e.toSexp
  | .error err => err.toSexp

def handleCompile : Sexp → Option Sexp
  | .list [.atom "c13-compile", .list listed, e] => do
      let listed ← strList? listed
      let e ← Expr.ofSexp? e
      pure (match compileModel Generated.printPrec e listed with
        | .error err => err.toSexp
        | .ok c =>
          -- pickle round trip: `__setstate__(__getstate__())`
          match setstate Generated.printPrec c.getstate with
          | .error err => err.toSexp
          | .ok c' => Sexp.mk "ok" [cmp_strsToSexp c.args, Sexp.str c.src, cmp_strsToSexp c'.args,
              Sexp.str c'.src])
  | .list [.atom "c13-argorder", .list listed, .list used] => do
      let listed ← strList? listed
      let used ← strList? used
      pure (cmp_strsToSexp (argOrder listed (used.map Expr.var)))
  | .list [.atom "c13-toast", e] => do
      pure (astResult (toAstC (← Expr.ofSexp? e)))
  | .list [.atom "c13-toast-pure", e] => do
      pure (astResult (toAst (← Expr.ofSexp? e)))
  | .list [.atom "c13-fromast", a] => do
      pure (exprResult (fromAst (← PyAst.ofSexp? a)))
  | .list [.atom "c13-roundtrip", e] => do
      let e ← Expr.ofSexp? e
      pure (match toAstC e with
        | .error err => Sexp.mk "toast" [err.toSexp]
        | .ok a => exprResult (fromAst a))
  | .list [.atom "c13-denast", env, a] => do
      let env ← c13Env? env
      let a ← PyAst.ofSexp? a
      pure (R.toSexp (runAst env a))
  | _ => none

end PV.Driver
