import PV.Model.Sexp
import PV.Model.Rewrite
/- Driver operations for the rewrite models (C11). -/
namespace PV.Driver
open PV

def rwErrToSexp : RwErr → Sexp
  | .foreign => Sexp.mk "err" [.atom "Foreign"]
  | .unsupported => Sexp.mk "err" [.atom "Unsupported"]
  | .typeError => Sexp.mk "err" [.atom "TypeError"]
  | .zeroDiv => Sexp.mk "err" [.atom "ZeroDivisionError"]
  | .indexError => Sexp.mk "err" [.atom "IndexError"]
  | .attrError => Sexp.mk "err" [.atom "AttributeError"]
  | .notImplemented => Sexp.mk "err" [.atom "NotImplementedError"]
  | .unknownVar => Sexp.mk "err" [.atom "UnknownVariable"]
  | .runtime => Sexp.mk "err" [.atom "RuntimeError"]
  | .assertion => Sexp.mk "err" [.atom "AssertionError"]
  | .noClaim => Sexp.mk "noclaim" []
  | .fuel => Sexp.mk "err" [.atom "Fuel"]

def rwToSexp : RwR → Sexp
  | .ok e => e.toSexp
  | .error e => rwErrToSexp e

/-- does some subterm satisfy `p`? (`fuel` = size of the tree suffices) -/
def anySub (p : Expr → Bool) : Nat → Expr → Bool
  | 0, _ => false
  | n + 1, e => p e || e.children.any (anySub p n)

def isCse : Expr → Bool
  | .cse .. => true
  | _ => false

/-- nodes on which Python `==` is coarser than structural identity -/
def isLoose : Expr → Bool
  | .const (.bool _) | .const (.flt ..) | .callKw .. => true
  | _ => false

/-- The constant folders memoize CSE wrappers in a dictionary keyed with Python `==`; the model
computes the uncached result and abstains when Python-equal wrappers might not be identical. -/
def cseAmbiguous (e : Expr) : Bool :=
  anySub isCse (e.size + 1) e && anySub isLoose (e.size + 1) e

def rwFuel : Nat := 100000

def monoToSexp (m : Mono) : Sexp :=
  .list (m.map fun p => .list [Sexp.str p.1, Sexp.ofNat p.2])

def mpolyToSexp (p : Poly) : Sexp :=
  .list (p.map fun t => .list [monoToSexp t.1, Sexp.ofInt t.2])

def optMPolyToSexp : Option Poly → Sexp
  | some p => mpolyToSexp p
  | none => Sexp.mk "none" []

def handleRewrite : Sexp → Option Sexp
  | .list [.atom "flatten", e] =>
    match Expr.ofSexp? e with
    | some e => some (rwToSexp (flattenM rwFuel e))
    | none => some (Sexp.mk "bad-op" [Sexp.str "flatten"])
  | .list [.atom "fold", .atom comm, e] =>
    match Expr.ofSexp? e with
    | some e =>
      if cseAmbiguous e then some (rwErrToSexp .noClaim)
      else some (rwToSexp (foldM (comm == "comm") rwFuel e))
    | none => some (Sexp.mk "bad-op" [Sexp.str "fold"])
  | .list [.atom "collect", .list ps, e] =>
    match Expr.ofSexpL? ps, Expr.ofSexp? e with
    | some ps, some e => some (rwToSexp (collectM ps rwFuel e))
    | _, _ => some (Sexp.mk "bad-op" [Sexp.str "collect"])
  | .list [.atom "expand", cfg, e] =>
    match Expr.ofSexp? e with
    | some e =>
      let cfg? : Option DistCfg := match cfg with
        | .atom "nocomm" => some { collector := none }
        | .list ps => (Expr.ofSexpL? ps).map fun ps => { collector := some ps }
        | _ => none
      match cfg? with
      | some cfg =>
        if cseAmbiguous e then some (rwErrToSexp .noClaim)
        else some (rwToSexp (distM cfg rwFuel e))
      | none => some (Sexp.mk "bad-op" [Sexp.str "expand cfg"])
    | none => some (Sexp.mk "bad-op" [Sexp.str "expand"])
  | .list [.atom "polynorm", e] =>
    match Expr.ofSexp? e with
    | some e => some (optMPolyToSexp (polyNorm e))
    | none => some (Sexp.mk "bad-op" [Sexp.str "polynorm"])
  | .list [.atom "polyeq", a, b] =>
    match Expr.ofSexp? a, Expr.ofSexp? b with
    | some a, some b =>
      match polyNorm a, polyNorm b with
      | some p, some q => some (Sexp.ofBool (p == q))
      | _, _ => some (Sexp.mk "none" [])
    | _, _ => some (Sexp.mk "bad-op" [Sexp.str "polyeq"])
  | _ => none

end PV.Driver
