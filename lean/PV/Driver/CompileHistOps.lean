import PV.Model.Sexp
import PV.Model.CompileHistory
import PV.Generated.Prec
/- Driver operation for the history model of compiled objects (C13, stream `compile-history`). -/
namespace PV.Driver
open PV

def listOp? : List Sexp → Option ListOp
  | [.atom "append", n] => do pure (.append (← n.text))
  | [.atom "insert", i, n] => do pure (.insert (← i.nat?) (← n.text))
  | [.atom "setitem", i, n] => do pure (.setitem (← i.nat?) (← n.text))
  | [.atom "pop", i] => do pure (.pop (← i.nat?))
  | [.atom "remove", n] => do pure (.remove (← n.text))
  | [.atom "reverse"] => some .reverse
  | [.atom "sort"] => some .sort
  | [.atom "clear"] => some .clear
  | _ => none

def hstep? : Sexp → Option HStep
  | .list (.atom "mutate" :: l :: op) => do pure (.mutate (← l.nat?) (← listOp? op))
  | .list [.atom "compile", fid, e, l] => do pure (.compile (← fid.nat?) (← e.nat?) (← l.nat?))
  | .list [.atom "pickle", fid, src] => do pure (.pickle (← fid.nat?) (← src.nat?))
  | .list [.atom "call", fid] => do pure (.call (← fid.nat?))
  | _ => none

def handleCompileHist : Sexp → Option Sexp
  | .list [.atom "c13-history", .list exprs, .list lists, .list steps] => do
      let exprs ← exprs.mapM Expr.ofSexp?
      let lists ← lists.mapM fun l => match l with
        | .list ns => strList? ns
        | _ => none
      let steps ← steps.mapM hstep?
      let st := HState.run Generated.printPrec exprs ⟨lists, [], []⟩ steps
      pure (Sexp.mk "seen" (st.seen.map fun p => .list (Sexp.ofNat p.1 :: p.2.map Sexp.str)))
  | _ => none

end PV.Driver
