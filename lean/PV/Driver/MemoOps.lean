import PV.Model.Sexp
import PV.Model.Memo
/- Driver operations for the memoization / optimizer model (C05). -/
namespace PV.Driver
open PV PV.Memo

def constOfSexp? (s : Sexp) : Option Const :=
  match Expr.ofSexp? s with
  | some (.const c) => some c
  | _ => none

/-- `(EXPR (ARG ...) ((NAME VAL) ...))` -/
def keyOfSexp? : Sexp → Option Key
  | .list [e, .list as, .list kws] => do
      let e ← Expr.ofSexp? e
      let as ← as.mapM constOfSexp?
      let kws ← kws.mapM fun kv => match kv with
        | .list [n, v] => do pure ((← n.text), (← constOfSexp? v))
        | _ => none
      pure { expr := e, args := { args := as, kwargs := kws } }
  | _ => none

def memoFlags? : Sexp → Option DepFlags
  | .list [.atom s, .atom l, .atom c, .atom cs] =>
    some { subscripts := s == "true", lookups := l == "true",
           calls := if c == "yes" then .yes else if c == "no" then .no else .descend,
           cses := cs == "true" }
  | _ => none

def memoErr : DepErr → Sexp
  | .unsupported => Sexp.mk "err" [.atom "Unsupported"]
  | .foreign => Sexp.mk "err" [.atom "Foreign"]
  | .unhashable => Sexp.mk "err" [.atom "TypeError"]

def memoSet (xs : List Expr) : Sexp :=
  let strs := (xs.map fun e => toString e.toSexp).toArray.qsort (· < ·)
  .list (strs.toList.map .atom)

/-- a history on one `CachedDependencyMapper`: per call the answer and the lookups it made
(chronological, `h` = hit, `m` = miss), and at the end how many handler computations completed -/
def runDepsHist (S : Spec Key DepErr (List Expr)) (ks : List Key) : Sexp :=
  let rec go (ks : List Key) (s : St Key (List Expr)) (acc : List Sexp) : List Sexp × St Key (List Expr) :=
    match ks with
    | [] => (acc.reverse, s)
    | k :: rest =>
      let s0 : St Key (List Expr) := { s with trace := [] }
      match callC S (k.expr.size + 2) k s0 with
      | none => ((Sexp.mk "fuel" [] :: acc).reverse, s)
      | some (a, s1) =>
        let tr := s1.trace.reverse.map fun (hit, k') =>
          Sexp.list [.atom (if hit then "h" else "m"), k'.expr.toSexp]
        let ans := match a with
          | .ok xs => memoSet xs
          | .error e => memoErr e
        go rest s1 (Sexp.list [ans, .list tr] :: acc)
  let (out, s) := go ks {} []
  .list [.list out, Sexp.ofNat s.log.length]

def boolOf? : Sexp → Option Bool
  | .atom "true" => some true
  | .atom "false" => some false
  | _ => none

def optsOfSexp? : Sexp → Option Opts
  | .list [a, b, c, d, e] => do
      pure { dropArgs := ← boolOf? a, dropKwargs := ← boolOf? b, inlineRec := ← boolOf? c,
             inlineCache := ← boolOf? d, inlineGetCacheKey := ← boolOf? e }
  | _ => none

def kvalShape : KVal → Sexp
  | .ty _ => .atom "ty"
  | .expr _ => .atom "expr"
  | .args a => Sexp.mk "args" [Sexp.ofNat a.length]
  | .kwargs k => Sexp.mk "kwargs" [Sexp.ofNat k.length]

def keysShape (ks : List (List KVal)) : Sexp :=
  -- the set of key shapes (the real `_cache` holds each key once)
  let strs := (ks.map fun t => toString (Sexp.list (t.map kvalShape))).eraseDups.toArray.qsort (· < ·)
  .list (strs.toList.map .atom)

def kerrSexp : KErr → Sexp
  | .nameError => Sexp.mk "err" [.atom "NameError"]
  | .typeError => Sexp.mk "err" [.atom "TypeError"]

def handleMemo : Sexp → Option Sexp
  | .list [.atom "memo-keyeq", k1, k2] =>
    match keyOfSexp? k1, keyOfSexp? k2 with
    | some k1, some k2 => some (.list [Sexp.ofBool (Key.eq k1 k2), Sexp.ofBool (Key.cseEq k1 k2)])
    | _, _ => some (Sexp.mk "bad-op" [Sexp.str "memo-keyeq"])
  | .list [.atom "memo-deps", fl, .atom layer, .list ks] =>
    match memoFlags? fl, ks.mapM keyOfSexp? with
    | some fl, some ks =>
      let S := if layer == "cse" then cseMixinSpec (depsProg fl) DepErr.unhashable else depsSpec fl
      some (runDepsHist S ks)
    | _, _ => some (Sexp.mk "bad-op" [Sexp.str "memo-deps"])
  | .list [.atom "memo-optkeys", o, ka, kk, k] =>
    match optsOfSexp? o, boolOf? ka, boolOf? kk, keyOfSexp? k with
    | some o, some ka, some kk, some k =>
      let c := optimize o (Code.user ka kk)
      -- the call `mapper(Sum((x, y)), *args, **kwargs)`: keys of the top-level dispatch, then of
      -- the `self.rec` dispatches of the children made by the handler
      match siteKeys c true k with
      | .error e => some (kerrSexp e)
      | .ok top =>
        match siteKeys c false k with
        | .error e => some (kerrSexp e)
        | .ok inner => some (.list [.atom "ok", keysShape top, keysShape inner])
    | _, _, _, _ => some (Sexp.mk "bad-op" [Sexp.str "memo-optkeys"])
  | _ => none

end PV.Driver
