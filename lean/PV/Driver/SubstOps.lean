import PV.Model.Sexp
import PV.Model.SubstCache
/- Driver operations for the entry point `substitute` (keyword form) and for histories of calls on
one `CachedSubstitutionMapper` (C08). -/
namespace PV.Driver
open PV

def c08SubstMapOfSexp? : Sexp → Option SubstMap
  | .list entries => do
      let mut σ : SubstMap := {}
      for en in entries do
        match en with
        | .list [.atom "name", n, v] =>
          σ := { σ with byName := σ.byName ++ [((← n.text), (← Expr.ofSexp? v))] }
        | .list [.atom "expr", k, v] =>
          σ := { σ with byExpr := σ.byExpr ++ [((← Expr.ofSexp? k), (← Expr.ofSexp? v))] }
        | _ => none
      pure σ
  | _ => none

def c08KwOfSexp? : Sexp → Option (List (String × Expr))
  | .list entries => entries.mapM fun en => match en with
    | .list [n, v] => do pure ((← n.text), (← Expr.ofSexp? v))
    | _ => none
  | _ => none

def c08TypeError : Sexp := Sexp.mk "err" [.atom "TypeError"]

def handleSubst : Sexp → Option Sexp
  | .list [.atom "c08-substitute", sg, kw, .atom cached, e] =>
    match c08SubstMapOfSexp? sg, c08KwOfSexp? kw, Expr.ofSexp? e with
    | some σ, some kw, some e =>
      match c08Substitute σ kw (cached == "true") e with
      | some (v, some ch) => some (.list [v.toSexp, Sexp.ofBool ch])
      | some (v, none) => some (.list [v.toSexp])
      | none => some c08TypeError
    | _, _, _ => some (Sexp.mk "bad-op" [Sexp.str "c08-substitute"])
  | .list [.atom "c08-hist", sg, .list es] =>
    match c08SubstMapOfSexp? sg, Expr.ofSexpL? es with
    | some σ, some es =>
      some (.list ((csubstHist σ es []).map fun r => match r with
        | some v => v.toSexp
        | none => c08TypeError))
    | _, _ => some (Sexp.mk "bad-op" [Sexp.str "c08-hist"])
  | _ => none

end PV.Driver
