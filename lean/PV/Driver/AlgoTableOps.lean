import PV.Model.Sexp
import PV.Model.AlgoTable
import PV.Generated.Algo
/- Driver operations for the T-gen tie of C19: the table interpreter `c19RunFn` run on the table
regenerated from the working tree (`PV.Generated.c19Table`).

  `(c19-table-run p n z fuel fname arg…)`

runs the function `fname` of the table on the arguments, over the carrier Z_p (`p = 0`: the
carrier is not used) with twiddles `tw _ m k = z^((n/m)·k) mod p`.  Values on the wire:
`none`, `(b true|false)`, `(i k)`, `(f a b)`, `(e k)`, `(s name)`, `(t v…)`, `(v v…)`,
`(o Cls (key v)…)`; results additionally `(raise Kind)`, `(stuck "why")`, `fuel`. -/
namespace PV.Driver
open PV PV.Algo

abbrev C19W := C19V Nat

partial def c19ValOfSexp? : Sexp → Option C19W
  | .atom "none" => some .none
  | .list [.atom "b", .atom "true"] => some (.bool true)
  | .list [.atom "b", .atom "false"] => some (.bool false)
  | .list [.atom "i", k] => do pure (.int (← k.int?))
  | .list [.atom "f", a, b] => do pure (.frac (← a.int?) (← b.int?))
  | .list [.atom "e", k] => do pure (.elem (← k.nat?))
  | .list [.atom "s", n] => do pure (.sym (← n.text))
  | .list (.atom "t" :: vs) => do pure (.tup (← vs.mapM c19ValOfSexp?))
  | .list (.atom "v" :: vs) => do pure (.vec (← vs.mapM c19ValOfSexp?))
  | .list (.atom "o" :: .atom c :: kvs) => do
      let ps ← kvs.mapM fun kv => match kv with
        | .list [.atom k, v] => do pure (k, (← c19ValOfSexp? v))
        | _ => none
      pure (.obj c (ps.map (·.1)) (ps.map (·.2)))
  | _ => none

partial def c19ValToSexp : C19W → Sexp
  | .none => .atom "none"
  | .bool b => .list [.atom "b", Sexp.ofBool b]
  | .int k => .list [.atom "i", Sexp.ofInt k]
  | .frac a b => .list [.atom "f", Sexp.ofInt a, Sexp.ofInt b]
  | .elem k => .list [.atom "e", Sexp.ofNat k]
  | .sym n => .list [.atom "s", Sexp.str n]
  | .tup vs => .list (.atom "t" :: vs.map c19ValToSexp)
  | .vec vs => .list (.atom "v" :: vs.map c19ValToSexp)
  | .obj c ks vs => .list (.atom "o" :: .atom c ::
      (ks.zip vs).map fun kv => .list [.atom kv.1, c19ValToSexp kv.2])

def c19ResToSexp : C19R C19W → Sexp
  | .ok v => c19ValToSexp v
  | .raise k => .list [.atom "raise", .atom k]
  | .fuel => .atom "fuel"
  | .stuck w => .list [.atom "stuck", Sexp.str w]

/-- `b⁻¹ mod p` for a prime `p` (Fermat), computed with the model of `integer_power` -/
def c19InvMod (p : Nat) (b : Nat) : Nat :=
  integerPower (c19MulMod p) (1 % p) (b % p) (p - 2)

def c19ModOps (p n z : Nat) : C19Ops Nat where
  add := c19AddMod p
  mul := c19MulMod p
  ofInt i := (i % (p : Int)).toNat
  ofFrac a b := c19MulMod p (a % (p : Int)).toNat (c19InvMod p (b % (p : Int)).toNat)
  tw _ m k := c19RpMod p n z m.toNat k.toNat

/-- what the names outside the table mean in the correspondence runs -/
def c19DriverExt : String → List C19W → C19R C19W
  | "fft.wrap_intermediate_with_level", [_, x] => .ok x
  | "fft.scalar_tp", [x] => .ok x
  | "EvaluationMapper.rec", [.obj _ ks vs, .sym s] =>
      match c19AttrGet s ks vs with
      | some v => .ok v
      | none => .stuck "unbound variable"
  | "EvaluationMapper.rec", [_, .int k] => .ok (.int k)
  | "IdentityMapper.rec", [.obj _ ks vs, .sym s, _, _] =>
      match c19AttrGet s ks vs with
      | some v => .ok v
      | none => .ok (.sym s)
  | "IdentityMapper.rec", [_, .int k, _, _] => .ok (.int k)
  | "EvaluationMapper.rec", [_, .frac a b] => .ok (.frac a b)
  -- a method the class of the receiver does not have (`FieldTraits` has no `gcd` / `lcm` /
  -- `get_unit` / `norm`): Python raises AttributeError
  | "FieldTraits.lcm", _ => .raise "AttributeError"
  | "FieldTraits.gcd", _ => .raise "AttributeError"
  | "FieldTraits.get_unit", _ => .raise "AttributeError"
  | "FieldTraits.norm", _ => .raise "AttributeError"
  -- the constructor of the `Quotient` node (a class outside the table)
  | "primitives.Quotient", [a, b] => .ok (.obj "Quotient" ["numerator", "denominator"] [a, b])
  | name, _ => .stuck ("external name " ++ name)

def handleC19Table : Sexp → Option Sexp
  | .list (.atom "c19-table-run" :: p :: n :: z :: fuel :: .atom fname :: args) => do
      let p ← p.nat?; let n ← n.nat?; let z ← z.nat?; let fuel ← fuel.nat?
      let vs ← args.mapM c19ValOfSexp?
      pure (c19ResToSexp
        (c19RunFn (c19ModOps p n z) Generated.c19Table c19DriverExt fuel fname vs))
  | _ => none

end PV.Driver
