import PV.Model.Sexp
import PV.Model.Compile
import PV.Model.PyPrec
import PV.Generated.Prec
import PV.Proofs.C13Groups
import PV.Driver.SyntaxOps
/- Driver operations for C13: the compiled SOURCE read with the Python precedence table. -/
namespace PV.Driver
open PV PV.C13

/-- result of the parser model with the Python table, sums and products flattened -/
def c13ParseReply (ts : List Tok) : Sexp :=
  match parseTop pythonPrec 0 ts with
  | .ok e => (flattenAssoc e).toSexp
  | .error err => pErrToSexp err

def handleC13Groups : Sexp → Option Sexp
  | .list [.atom "c13-pyparse", .list ts] => do
      let ts ← ts.mapM tokOfSexp?
      pure (c13ParseReply ts)
  | .list [.atom "c13-groups", e] => do
      -- fragment of `PV.C13.compile_source_groups_current`, the token list of the compiled
      -- source, and what the parser model with the Python table makes of it
      let e ← Expr.ofSexp? e
      pure (match compilePieces Generated.printPrec e with
        | .error _ => Sexp.mk "noclaim" []
        | .ok ps =>
          let frag :=
            if InFragmentPy pythonPrec Generated.printPrec e then "in"
            else if InFragmentPyFlat pythonPrec Generated.printPrec e then "flat"
            else if !cseShapeOk e then "out-cse"
            else if Syntax.InFragment pythonPrec Generated.printPrec (stripCse e)
                || Syntax.InFragmentFlat pythonPrec Generated.printPrec (stripCse e) then "out-not"
            else "out"
          let back := match parseTop pythonPrec 0 (toks ps) with
            | .error err => pErrToSexp err
            | .ok e' =>
              if flattenAssoc e' == flattenAssoc (stripCse e) then .atom "same"
              else Sexp.mk "differ" [(flattenAssoc e').toSexp]
          Sexp.mk "groups" [.atom frag, Sexp.str (render ps), .list ((toks ps).map tokToSexp), back])
  | _ => none

end PV.Driver
