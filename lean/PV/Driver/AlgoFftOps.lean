import PV.Model.Sexp
import PV.Model.AlgoFft
/- Driver operations for the arithmetic of `fft` / `ifft` over Z_p (C19). -/
namespace PV.Driver
open PV PV.Algo

def c19NatList? : Sexp → Option (List Nat)
  | .list xs => xs.mapM Sexp.nat?
  | _ => none

def c19ListToSexp (xs : List Nat) : Sexp := .list (xs.map Sexp.ofNat)

/-- `(c19-fft p z (x0 x1 …))`  → the transform over Z_p with root `z` (`z^n = 1 mod p`);
    `(c19-ifft p zinv ninv (y0 y1 …))` → the inverse transform. -/
def handleC19Fft : Sexp → Option Sexp
  | .list [.atom "c19-fft", p, z, xs] => do
      let p ← p.nat?; let z ← z.nat?; let xs ← c19NatList? xs
      pure (match c19FftMod p z xs with
        | some ys => c19ListToSexp ys
        | none => .atom "ZeroDivisionError")
  | .list [.atom "c19-ifft", p, zinv, ninv, xs] => do
      let p ← p.nat?; let zinv ← zinv.nat?; let ninv ← ninv.nat?; let xs ← c19NatList? xs
      pure (match c19IfftMod p zinv ninv xs with
        | some ys => c19ListToSexp ys
        | none => .atom "ZeroDivisionError")
  | _ => none

end PV.Driver
