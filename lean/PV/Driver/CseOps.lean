import PV.Model.Sexp
import PV.Model.Cse
/- Driver operations for common-subexpression handling (C12). -/
namespace PV.Driver
open PV

def cseErrToSexp : CseErr → Sexp
  | .foreign => Sexp.mk "err" [.atom "Foreign"]
  | .unhashable => Sexp.mk "err" [.atom "TypeError"]

def sortedStrs (xs : List String) : List String := (xs.toArray.qsort (· < ·)).toList

/-- canonical rendering of a normalised key: the items of the frozenset sorted -/
def ckeyToStr : CKey → String
  | .plain e => toString (Sexp.mk "plain" [e.toSexp])
  | .comm o kids =>
    let items := sortedStrs (kids.map fun p => toString (Sexp.list [p.1.toSexp, Sexp.ofNat p.2]))
    "(comm " ++ o.name ++ " " ++ " ".intercalate items ++ ")"

def countsToSexp (cnt : Counts) : Sexp :=
  .list ((sortedStrs (cnt.map fun p => "(" ++ ckeyToStr p.1 ++ " " ++ toString p.2 ++ ")")).map .atom)

def envOfSexpC? : Sexp → Option Env
  | .list kvs => kvs.mapM fun kv => match kv with
    | .list [n, v] => do pure ((← n.text), (← Value.ofSexp? v))
    | _ => none
  | _ => none

def eventToSexp : EvEvent → Sexp
  | .child w v => Sexp.mk "child" [w.toSexp, v.toSexp]
  | .call f as ns vs => Sexp.mk "call" [(Value.app f as ns vs).toSexp]

/-- results of the history and the chronological event log -/
def traceToSexp (r : List R × Log) : Sexp :=
  .list [.list (r.1.map R.toSexp), .list (r.2.reverse.map eventToSexp)]

def badC (msg : String) : Sexp := Sexp.mk "bad-op" [Sexp.str msg]

def handleCse : Sexp → Option Sexp
  | .list [.atom "cse-tag", .list es] =>
    match Expr.ofSexpL? es with
    | some es =>
      match tagAll es with
      | .ok out => some (Sexp.mk "ok" [.list (out.map Expr.toSexp)])
      | .error e => some (cseErrToSexp e)
    | none => some (badC "cse-tag")
  | .list [.atom "cse-count", .list es] =>
    match Expr.ofSexpL? es with
    | some es =>
      match useCountL es [] with
      | .ok cnt => some (Sexp.mk "ok" [countsToSexp cnt])
      | .error e => some (cseErrToSexp e)
    | none => some (badC "cse-count")
  | .list [.atom "cse-wrap", e, p] =>
    match Expr.ofSexp? e, optStr? p with
    | some e, some p => some (wrapInCse e p).toSexp
    | _, _ => some (badC "cse-wrap")
  | .list [.atom "cse-make", e, p, s] =>
    match Expr.ofSexp? e, optStr? p, optStr? s with
    | some e, some p, some s => some (makeCse e p s).toSexp
    | _, _, _ => some (badC "cse-make")
  | .list [.atom "cse-trace", env, .list es] =>
    match envOfSexpC? env, Expr.ofSexpL? es with
    | some env, some es => some (traceToSexp (runTr env es []))
    | _, _ => some (badC "cse-trace")
  | .list [.atom "cse-tag-trace", env, .list es] =>
    -- tag the list, then evaluate all tagged expressions with ONE evaluator
    match envOfSexpC? env, Expr.ofSexpL? es with
    | some env, some es =>
      match tagAll es with
      | .ok out => some (Sexp.mk "ok" [.list (out.map Expr.toSexp), traceToSexp (runTr env out [])])
      | .error e => some (cseErrToSexp e)
    | _, _ => some (badC "cse-tag-trace")
  | _ => none

end PV.Driver
