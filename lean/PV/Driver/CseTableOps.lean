import PV.Driver.CseOps
import PV.Model.CseTable
import PV.Generated.Cse
/- Driver operations for the T-gen tie of C12: the table interpreters of PV/Model/CseTable.lean
run on the tables regenerated from the working tree (`PV.Generated.c12…`), and the hand-written
model of the histogram tagger of pymbolic/mapper/cse_tagger.py. -/
namespace PV.Driver
open PV

def c12Tables : C12Tables :=
  { classes := Generated.c04Classes, walk := Generated.c04WalkTable,
    ident := Generated.c04IdentityTable, key := Generated.c12KeyTable,
    count := Generated.c12CountTable, mapper := Generated.c12MapTable,
    tagAll := Generated.c12TagAllTable, ctor := Generated.c12CtorTable,
    wrap := Generated.c12WrapTree }

def c12DepErrToSexp : DepErr → Sexp
  | .foreign => Sexp.mk "err" [.atom "Foreign"]
  | .unhashable => Sexp.mk "err" [.atom "TypeError"]
  | .unsupported => Sexp.mk "noclaim" []

def c12OptToSexp : Option Expr → Sexp
  | some e => e.toSexp
  | none => Sexp.mk "noclaim" []

def c12CountAll (X : C12Tables) (es : List Expr) : Except DepErr Counts :=
  c12CountSeqL (c12CountT X.classes X.walk X.key X.count) es []

def handleCseTable : Sexp → Option Sexp
  | .list [.atom "cse-table-tag", .list es] =>
    match Expr.ofSexpL? es with
    | some es =>
      match c12TagAllRun c12Tables es with
      | .ok out => some (Sexp.mk "ok" [.list (out.map Expr.toSexp)])
      | .error e => some (c12DepErrToSexp e)
    | none => some (badC "cse-table-tag")
  | .list [.atom "cse-table-count", .list es] =>
    match Expr.ofSexpL? es with
    | some es =>
      match c12CountAll c12Tables es with
      | .ok cnt => some (Sexp.mk "ok" [countsToSexp cnt])
      | .error e => some (c12DepErrToSexp e)
    | none => some (badC "cse-table-count")
  | .list [.atom "cse-table-wrap", e, p] =>
    match Expr.ofSexp? e, optStr? p with
    | some e, some p =>
      some (c12OptToSexp (c12WTreeT Generated.c12CtorTable e [("prefix", p)] Generated.c12WrapTree))
    | _, _ => some (badC "cse-table-wrap")
  | .list [.atom "cse-table-make", e, p, s] =>
    match Expr.ofSexp? e, optStr? p, optStr? s with
    | some e, some p, some s =>
      some (c12OptToSexp (c12WTreeT Generated.c12CtorTable e [("prefix", p), ("scope", s)]
        Generated.c12MakeTree))
    | _, _, _ => some (badC "cse-table-make")
  | .list [.atom "cse-hist-tag", e] =>
    match Expr.ofSexp? e with
    | some e =>
      match c12HistTagRun e with
      | .ok r => some r.toSexp
      | .error err => some (cseErrToSexp err)
    | none => some (badC "cse-hist-tag")
  | .list [.atom "cse-table-hist-tag", e] =>
    match Expr.ofSexp? e with
    | some e =>
      match c12HistRun Generated.c04Classes Generated.c04WalkTable Generated.c04IdentityTable
          Generated.c12KeyTable Generated.c12CtorTable Generated.c12WrapTree Generated.c12HistTable
          Generated.c12TagTable e with
      | .ok r => some r.toSexp
      | .error err => some (c12DepErrToSexp err)
    | none => some (badC "cse-table-hist-tag")
  | _ => none

end PV.Driver
