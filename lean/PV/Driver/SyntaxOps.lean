import PV.Model.Sexp
import PV.Model.Stringify
import PV.Generated.Prec
import PV.Proofs.SyntaxStrFlatten
/- Driver operations for the printer / parser models (C06, C07, C13). -/
namespace PV.Driver
open PV

def tokToSexp : Tok → Sexp
  | .int n => Sexp.mk "int" [Sexp.ofNat n]
  | .flt r n d => Sexp.mk "flt" [Sexp.str r, Sexp.ofInt n, Sexp.ofNat d]
  | .imag s => Sexp.mk "imag" [Sexp.str s]
  | .ident s => Sexp.mk "id" [Sexp.str s]
  | .tTrue => .atom "true"
  | .tFalse => .atom "false"
  | .sym s => Sexp.mk "sym" [Sexp.str s]

def tokOfSexp? : Sexp → Option Tok
  | .list [.atom "int", n] => n.nat?.map .int
  | .list [.atom "flt", r, n, d] => do pure (.flt (← r.text) (← n.int?) (← d.nat?))
  | .list [.atom "imag", s] => s.text.map .imag
  | .list [.atom "id", s] => s.text.map .ident
  | .atom "true" => some .tTrue
  | .atom "false" => some .tFalse
  | .list [.atom "sym", s] => s.text.map .sym
  | _ => none

def pErrToSexp : PErr → Sexp
  | .parse => Sexp.mk "err" [.atom "ParseError"]
  | .typeError => Sexp.mk "err" [.atom "TypeError"]
  | .assertion => Sexp.mk "err" [.atom "AssertionError"]
  | .noClaim => Sexp.mk "noclaim" []

def sErrToSexp : SErr → Sexp
  | .unsupported => Sexp.mk "noclaim" []
  | .foreign => Sexp.mk "err" [.atom "Foreign"]

def handleSyntax : Sexp → Option Sexp
  | .list [.atom "str", e] => do
      let e ← Expr.ofSexp? e
      pure (match strTop Generated.printPrec e with
        | .ok ps => .list [Sexp.str (render ps), .list ((toks ps).map tokToSexp)]
        | .error err => sErrToSexp err)
  | .list [.atom "parse", mp, .list ts] => do
      let mp ← mp.nat?
      let ts ← ts.mapM tokOfSexp?
      pure (match parseTop Generated.parserPrec mp ts with
        | .ok e => e.toSexp
        | .error err => pErrToSexp err)
  | .list [.atom "flattenassoc", e] => do
      pure (flattenAssoc (← Expr.ofSexp? e)).toSexp
  | .list [.atom "roundtrip", e] => do
      let e ← Expr.ofSexp? e
      pure (match strTop Generated.printPrec e with
        | .error _ => Sexp.mk "noclaim" []
        | .ok ps => match parseTop Generated.parserPrec 0 (toks ps) with
          | .error err => pErrToSexp err
          | .ok e' =>
            if flattenAssoc e' == flattenAssoc e then .atom "same"
            else Sexp.mk "differ" [e'.toSexp])
  | .list [.atom "fragment", e] => do
      -- the fragments of the theorems `PV.C06.roundtrip_current` / `roundtrip_flat_current`
      let e ← Expr.ofSexp? e
      pure (if Syntax.InFragment Generated.parserPrec Generated.printPrec e then Sexp.mk "in" []
        else if Syntax.InFragmentFlat Generated.parserPrec Generated.printPrec e then
          Sexp.mk "flat" []
        else Sexp.mk "out" [])
  | _ => none

end PV.Driver
