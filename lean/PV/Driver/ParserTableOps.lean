import PV.Model.Sexp
import PV.Model.ParserTable
import PV.Generated.Parser
import PV.Generated.Prec
import PV.Driver.SyntaxOps
/- Driver operations for the parser table regenerated from the source of pymbolic/parser.py (C07,
C06): the table interpreter of `PV/Model/ParserTable.lean` run on `PV.Generated.c07ParserTable`. -/
namespace PV.Driver
open PV

def handleParserTable : Sexp → Option Sexp
  | .list [.atom "tparse", mp, .list ts] => do
      -- `Parser.__call__` by the table interpreter, on the tokens of the real lexer
      let mp ← mp.nat?
      let ts ← ts.mapM tokOfSexp?
      pure (match c07TopT Generated.c07ParserTable Generated.parserPrec mp ts with
        | .ok e => e.toSexp
        | .error err => pErrToSexp err)
  | .list [.atom "tparse-both", mp, .list ts] => do
      -- the table interpreter and the hand-written model side by side (they are proved equal)
      let mp ← mp.nat?
      let ts ← ts.mapM tokOfSexp?
      let show' : Except PErr Expr → Sexp := fun r => match r with
        | .ok e => e.toSexp
        | .error err => pErrToSexp err
      pure (Sexp.mk "both" [show' (c07TopT Generated.c07ParserTable Generated.parserPrec mp ts),
                            show' (parseTop Generated.parserPrec mp ts)])
  | _ => none

end PV.Driver
