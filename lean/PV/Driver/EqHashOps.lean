import PV.Model.Sexp
import PV.Model.EqHash
import PV.Model.EqHashOwn
import PV.Generated.Classes
import PV.Driver.PickleOps
import PV.Proofs.Pickle   -- Mathlib-free: `Obj.wf`
/- Driver operations for the table-driven `__eq__` / `__hash__` model and its histories (C01).
The class table is the one regenerated from the working tree (`PV.Generated.classes`). -/
namespace PV.Driver
open PV PV.Pickle PV.EqHash

def c01Tbl : ClassTable := Generated.classes

def bitStr (bs : List Bool) : Sexp :=
  Sexp.str (bs.foldl (fun s b => s ++ (if b then "1" else "0")) "")

/-- all ordered pairs of a list, row by row -/
def allPairs {α : Type} (xs : List α) : List (α × α) :=
  xs.flatMap fun a => xs.map fun b => (a, b)

mutual
/-- classes of the instances inside an object -/
partial def classesIn : Obj → List String
  | .atom _ => []
  | .tuple xs => xs.flatMap classesIn
  | .list xs => xs.flatMap classesIn
  | .dict _ vs => vs.flatMap classesIn
  | .inst c _ fs _ => c :: fs.flatMap classesIn
end

/-- the model abstains on classes that bring their own hand-written `__eq__` -/
def ownEqInside (o : Obj) : Bool :=
  (classesIn o).any fun c => match c01Tbl.find? c with
    | some i => i.ownEq
    | none => false

def hashMark (eq : Bool) (ha hb : Nat) : Char :=
  if eq then (if ha == hb then '1' else '0') else '-'

def op1OfSexp? : Sexp → Option Op1
  | .list [.atom "ne", i, j] => do pure (.ne (← i.nat?) (← j.nat?))
  | .list [.atom "copy", i] => i.nat?.map .copy
  | .list [.atom "rebuild", i] => i.nat?.map .rebuild
  | .list [.atom "map", i] => i.nat?.map .mapId
  | .list [.atom "dset", i, v] => do pure (.dictSet (← i.nat?) (← v.nat?))
  | .list [.atom "dget", i] => i.nat?.map .dictGet
  | .list [.atom "setattr", i, f, v] => do
      pure (.setattr (← i.nat?) (← f.text) (postInit (← objOfSexp? v)))
  | .list [.atom "delattr", i, f] => do pure (.delattr (← i.nat?) (← f.text))
  | s => (opOfSexp? s).map .base

def out1ToSexp : Out1 → Sexp
  | .base (.unpickled o) => Sexp.mk "unpickled" [bitsToSexp o.bits]
  | .base o => outToSexp o
  | .ne r a b => Sexp.mk "ne" [Sexp.ofBool r, bitsToSexp a, bitsToSexp b]
  | .copied b => Sexp.mk "copied" [bitsToSexp b]
  | .rebuilt b => Sexp.mk "rebuilt" [bitsToSexp b]
  | .same => Sexp.mk "same" []
  | .dictSet r b => Sexp.mk "dset" [Sexp.ofBool r, bitsToSexp b]
  | .dictGet (some v) b => Sexp.mk "dget" [Sexp.ofNat v, bitsToSexp b]
  | .dictGet none b => Sexp.mk "dget" [.atom "none", bitsToSexp b]
  | .frozen => Sexp.mk "frozen" []
  | .attrSet f b => Sexp.mk "attrset" [Sexp.ofBool f, bitsToSexp b]
  | .attrDeleted f => Sexp.mk "attrdel" [Sexp.ofBool f]
  | .bad => Sexp.mk "bad" []

/-- class table and hand-written-method records of the working tree, toy hash functions -/
def c01OwnCtx (seed : Nat) : OwnCtx := ⟨c01Tbl, Generated.c01OwnEqs, toyParams seed⟩

def c01Bool? : Sexp → Option Bool
  | .atom "true" => some true
  | .atom "false" => some false
  | _ => none

def c01ResChar : Res → Char
  | .ok true => '1' | .ok false => '0' | .raises => 'R' | .unmodelled => '?'

def handleEqHash : Sexp → Option Sexp
  | .list (.atom "c01-own" :: os) =>
    -- every class, hand-written `__eq__` / `__hash__` included, builtin values at top level too:
    -- `==`, `!=`, hash equality of equal objects, dict lookup, for all ordered pairs
    match (objOfSexpL? os).map postInitL with
    | some os =>
      let X := c01OwnCtx 0
      if os.any (fun o => !o.wf || o.hasList || !ownShaped X o || !conforms c01Tbl o) then
        some (Sexp.mk "noclaim" [])
      else
      let ps := allPairs os
      let eq := ps.map fun (a, b) => c01ResChar (ownEq X a b)
      let ne := ps.map fun (a, b) => c01ResChar (ownNe X a b)
      let hs := ps.map fun (a, b) =>
        match ownEq X a b with
        | .ok true => if hashX X a == hashX X b then '1' else '0'
        | _ => '-'
      let fd := ps.map fun (a, b) => c01ResChar (ownFinds X a b)
      some (Sexp.mk "r" [Sexp.str (String.ofList eq), Sexp.str (String.ofList ne),
        Sexp.str (String.ofList hs), Sexp.str (String.ofList fd)])
    | none => some (Sexp.mk "bad-op" [Sexp.str "c01-own"])
  | .list [.atom "c01-frozen-mode", dbg, c, f] =>
    -- `setattr` / `delattr` in an interpreter with `__debug__ = dbg`
    match c01Bool? dbg, c.text, f.text with
    | some dbg, some c, some f =>
      some (Sexp.mk "frozen" [Sexp.ofBool ((c01Tbl.inMode Generated.c01FrozenSource dbg).frozenFor c f),
        Sexp.ofBool (fieldIndex c01Tbl c f).isSome])
    | _, _, _ => some (Sexp.mk "bad-op" [Sexp.str "c01-frozen-mode"])
  | .list [.atom "c01-hist-mode", dbg, seed, .list src, .list ops] =>
    match c01Bool? dbg, seed.nat?, (objOfSexpL? src).map postInitL, ops.mapM op1OfSexp? with
    | some dbg, some seed, some src, some ops =>
      if src.any (fun o => !o.wf || o.hasList || ownEqInside o) then some (Sexp.mk "noclaim" []) else
      let r := run1D Generated.c01FrozenSource dbg c01Tbl (toyParams seed) ⟨⟨Obj.eraseL src, []⟩, []⟩ ops
      some (.list (r.2.map out1ToSexp))
    | _, _, _, _ => some (Sexp.mk "bad-op" [Sexp.str "c01-hist-mode"])
  | .list [.atom "c01-rat-init", n, d] =>
    match (objOfSexp? n).map postInit, (objOfSexp? d).map postInit with
    | some n, some d =>
      (match rationalInit (c01OwnCtx 0) n d with
       | .stored n' d' => some (Sexp.mk "stored" [objToSexp n', objToSexp d'])
       | .err k => some (Sexp.mk "err" [.atom k])
       | .unmodelled => some (Sexp.mk "noclaim" []))
    | _, _ => some (Sexp.mk "bad-op" [Sexp.str "c01-rat-init"])
  | .list (.atom "c01-exprs" :: es) =>
    -- stock trees: `Expr.pyEq`, the table-driven generated `__eq__` on their objects, hash
    -- equality of equal trees, and whether the objects are instances of the table's classes
    match Expr.ofSexpL? es with
    | some es =>
      if es.any (fun e => !e.wf || e.hasList) then some (Sexp.mk "noclaim" []) else
      let P := toyParams 0
      let ps := allPairs es
      let py := ps.map fun (a, b) => a.pyEq b
      let gen := ps.map fun (a, b) => eqGen c01Tbl P (ofExpr a) (ofExpr b)
      let hs := ps.map fun (a, b) => hashMark (a.pyEq b) (a.hash P) (b.hash P)
      let hg := ps.map fun (a, b) =>
        hashMark (a.pyEq b) (hashGen c01Tbl P (ofExpr a)) (hashGen c01Tbl P (ofExpr b))
      some (Sexp.mk "r" [bitStr py, bitStr gen, Sexp.str (String.ofList hs),
        Sexp.str (String.ofList hg), Sexp.ofBool (es.all fun e => conforms c01Tbl (ofExpr e))])
    | none => some (Sexp.mk "bad-op" [Sexp.str "c01-exprs"])
  | .list (.atom "c01-objs" :: os) =>
    -- the requests carry SOURCE forms (constructor arguments): `postInit` builds the objects
    match (objOfSexpL? os).map postInitL with
    | some os =>
      if os.any (fun o => !o.wf || o.hasList) then some (Sexp.mk "noclaim" []) else
      if os.any ownEqInside then
        -- instances of classes with a hand-written `__eq__` inside: Python's `==` / `hash` with
        -- those methods in it (lean/PV/Model/EqHashOwn.lean); the first two strings are then the
        -- answers of `==` and of `not (!=)`
        let X := c01OwnCtx 0
        let ps := allPairs os
        let rs := ps.map fun (a, b) => (ownEq X a b, ownNe X a b)
        let decided := rs.all fun r => match r with
          | (.ok _, .ok _) => true
          | _ => false
        if os.any (fun o => !ownShaped X o) || !decided then some (Sexp.mk "noclaim" []) else
        let eq := rs.map fun r => r.1 == .ok true
        let ne := rs.map fun r => r.2 == .ok false
        let hs := (ps.zip eq).map fun ((a, b), e) => hashMark e (hashX X a) (hashX X b)
        some (Sexp.mk "r" [bitStr eq, bitStr ne, Sexp.str (String.ofList hs),
          Sexp.str (String.ofList hs), Sexp.ofBool (os.all fun o => conforms c01Tbl o)])
      else
      let P := toyParams 0
      let ps := allPairs os
      let py := ps.map fun (a, b) => a.pyEq b
      let gen := ps.map fun (a, b) => eqGen c01Tbl P a b
      let hs := ps.map fun (a, b) => hashMark (a.pyEq b) (a.hash P) (b.hash P)
      let hg := ps.map fun (a, b) => hashMark (a.pyEq b) (hashGen c01Tbl P a) (hashGen c01Tbl P b)
      some (Sexp.mk "r" [bitStr py, bitStr gen, Sexp.str (String.ofList hs),
        Sexp.str (String.ofList hg), Sexp.ofBool (os.all fun o => conforms c01Tbl o)])
    | none => some (Sexp.mk "bad-op" [Sexp.str "c01-objs"])
  | .list [.atom "c01-frozen", c, f] =>
    match c.text, f.text with
    | some c, some f =>
      some (Sexp.mk "frozen" [Sexp.ofBool (c01Tbl.frozenFor c f),
        Sexp.ofBool (fieldIndex c01Tbl c f).isSome])
    | _, _ => some (Sexp.mk "bad-op" [Sexp.str "c01-frozen"])
  | .list [.atom "c01-hist", seed, .list src, .list ops] =>
    match seed.nat?, (objOfSexpL? src).map postInitL, ops.mapM op1OfSexp? with
    | some seed, some src, some ops =>
      if src.any (fun o => !o.wf || o.hasList || ownEqInside o) then some (Sexp.mk "noclaim" []) else
      let r := run1 c01Tbl (toyParams seed) ⟨⟨Obj.eraseL src, []⟩, []⟩ ops
      some (.list (r.2.map out1ToSexp))
    | _, _, _ => some (Sexp.mk "bad-op" [Sexp.str "c01-hist"])
  | _ => none

end PV.Driver
