import PV.Model.Sexp
import PV.Model.EqHash
import PV.Generated.Classes
import PV.Driver.PickleOps
import PV.Proofs.Pickle   -- Mathlib-free: `Obj.wf`
/- Driver operations for the table-driven `__eq__` / `__hash__` model and its histories (C01).
The class table is the one regenerated from the working tree (`PV.Generated.classes`). -/
namespace PV.Driver
open PV PV.Pickle PV.EqHash

def c01Tbl : ClassTable := Generated.classes

def bitStr (bs : List Bool) : Sexp :=
  Sexp.str (bs.foldl (fun s b => s ++ (if b then "1" else "0")) "")

/-- all ordered pairs of a list, row by row -/
def allPairs {α : Type} (xs : List α) : List (α × α) :=
  xs.flatMap fun a => xs.map fun b => (a, b)

mutual
/-- classes of the instances inside an object -/
partial def classesIn : Obj → List String
  | .atom _ => []
  | .tuple xs => xs.flatMap classesIn
  | .list xs => xs.flatMap classesIn
  | .dict _ vs => vs.flatMap classesIn
  | .inst c _ fs _ => c :: fs.flatMap classesIn
end

/-- the model abstains on classes that bring their own hand-written `__eq__` -/
def ownEqInside (o : Obj) : Bool :=
  (classesIn o).any fun c => match c01Tbl.find? c with
    | some i => i.ownEq
    | none => false

def hashMark (eq : Bool) (ha hb : Nat) : Char :=
  if eq then (if ha == hb then '1' else '0') else '-'

def op1OfSexp? : Sexp → Option Op1
  | .list [.atom "ne", i, j] => do pure (.ne (← i.nat?) (← j.nat?))
  | .list [.atom "copy", i] => i.nat?.map .copy
  | .list [.atom "rebuild", i] => i.nat?.map .rebuild
  | .list [.atom "map", i] => i.nat?.map .mapId
  | .list [.atom "dset", i, v] => do pure (.dictSet (← i.nat?) (← v.nat?))
  | .list [.atom "dget", i] => i.nat?.map .dictGet
  | .list [.atom "setattr", i, f, v] => do
      pure (.setattr (← i.nat?) (← f.text) (postInit (← objOfSexp? v)))
  | .list [.atom "delattr", i, f] => do pure (.delattr (← i.nat?) (← f.text))
  | s => (opOfSexp? s).map .base

def out1ToSexp : Out1 → Sexp
  | .base (.unpickled o) => Sexp.mk "unpickled" [bitsToSexp o.bits]
  | .base o => outToSexp o
  | .ne r a b => Sexp.mk "ne" [Sexp.ofBool r, bitsToSexp a, bitsToSexp b]
  | .copied b => Sexp.mk "copied" [bitsToSexp b]
  | .rebuilt b => Sexp.mk "rebuilt" [bitsToSexp b]
  | .same => Sexp.mk "same" []
  | .dictSet r b => Sexp.mk "dset" [Sexp.ofBool r, bitsToSexp b]
  | .dictGet (some v) b => Sexp.mk "dget" [Sexp.ofNat v, bitsToSexp b]
  | .dictGet none b => Sexp.mk "dget" [.atom "none", bitsToSexp b]
  | .frozen => Sexp.mk "frozen" []
  | .attrSet f b => Sexp.mk "attrset" [Sexp.ofBool f, bitsToSexp b]
  | .attrDeleted f => Sexp.mk "attrdel" [Sexp.ofBool f]
  | .bad => Sexp.mk "bad" []

def handleEqHash : Sexp → Option Sexp
  | .list (.atom "c01-exprs" :: es) =>
    -- stock trees: `Expr.pyEq`, the table-driven generated `__eq__` on their objects, hash
    -- equality of equal trees, and whether the objects are instances of the table's classes
    match Expr.ofSexpL? es with
    | some es =>
      if es.any (fun e => !e.wf || e.hasList) then some (Sexp.mk "noclaim" []) else
      let P := toyParams 0
      let ps := allPairs es
      let py := ps.map fun (a, b) => a.pyEq b
      let gen := ps.map fun (a, b) => eqGen c01Tbl P (ofExpr a) (ofExpr b)
      let hs := ps.map fun (a, b) => hashMark (a.pyEq b) (a.hash P) (b.hash P)
      let hg := ps.map fun (a, b) =>
        hashMark (a.pyEq b) (hashGen c01Tbl P (ofExpr a)) (hashGen c01Tbl P (ofExpr b))
      some (Sexp.mk "r" [bitStr py, bitStr gen, Sexp.str (String.ofList hs),
        Sexp.str (String.ofList hg), Sexp.ofBool (es.all fun e => conforms c01Tbl (ofExpr e))])
    | none => some (Sexp.mk "bad-op" [Sexp.str "c01-exprs"])
  | .list (.atom "c01-objs" :: os) =>
    -- the requests carry SOURCE forms (constructor arguments): `postInit` builds the objects
    match (objOfSexpL? os).map postInitL with
    | some os =>
      if os.any (fun o => !o.wf || o.hasList || ownEqInside o) then some (Sexp.mk "noclaim" []) else
      let P := toyParams 0
      let ps := allPairs os
      let py := ps.map fun (a, b) => a.pyEq b
      let gen := ps.map fun (a, b) => eqGen c01Tbl P a b
      let hs := ps.map fun (a, b) => hashMark (a.pyEq b) (a.hash P) (b.hash P)
      let hg := ps.map fun (a, b) => hashMark (a.pyEq b) (hashGen c01Tbl P a) (hashGen c01Tbl P b)
      some (Sexp.mk "r" [bitStr py, bitStr gen, Sexp.str (String.ofList hs),
        Sexp.str (String.ofList hg), Sexp.ofBool (os.all fun o => conforms c01Tbl o)])
    | none => some (Sexp.mk "bad-op" [Sexp.str "c01-objs"])
  | .list [.atom "c01-frozen", c, f] =>
    match c.text, f.text with
    | some c, some f =>
      some (Sexp.mk "frozen" [Sexp.ofBool (c01Tbl.frozenFor c f),
        Sexp.ofBool (fieldIndex c01Tbl c f).isSome])
    | _, _ => some (Sexp.mk "bad-op" [Sexp.str "c01-frozen"])
  | .list [.atom "c01-hist", seed, .list src, .list ops] =>
    match seed.nat?, (objOfSexpL? src).map postInitL, ops.mapM op1OfSexp? with
    | some seed, some src, some ops =>
      if src.any (fun o => !o.wf || o.hasList || ownEqInside o) then some (Sexp.mk "noclaim" []) else
      let r := run1 c01Tbl (toyParams seed) ⟨⟨Obj.eraseL src, []⟩, []⟩ ops
      some (.list (r.2.map out1ToSexp))
    | _, _, _ => some (Sexp.mk "bad-op" [Sexp.str "c01-hist"])
  | _ => none

end PV.Driver
