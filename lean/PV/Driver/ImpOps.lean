import PV.Model.Sexp
import PV.Model.Imperative
/- Driver operations for the statement-stream model (C20). -/
namespace PV.Driver
open PV PV.Imp

def impSortedStrs (xs : List String) : List String := (xs.toArray.qsort (· < ·)).toList

def strsToSexp (xs : List String) : Sexp := .list (xs.map Sexp.str)

def strsOf? : Sexp → Option (List String)
  | .list xs => xs.mapM Sexp.text
  | _ => none

def stmtOfSexp? : Sexp → Option Stmt
  | .list [.atom "nop", i, d] => do pure { id := (← i.text), dependsOn := dedupS (← strsOf? d), kind := .nop }
  | .list [.atom "asg", i, d, l, r] => do
      pure { id := (← i.text), dependsOn := dedupS (← strsOf? d),
             kind := .assign (← Expr.ofSexp? l) (← Expr.ofSexp? r) none }
  | .list [.atom "casg", i, d, l, r, c] => do
      pure { id := (← i.text), dependsOn := dedupS (← strsOf? d),
             kind := .assign (← Expr.ofSexp? l) (← Expr.ofSexp? r) (some (← Expr.ofSexp? c)) }
  | _ => none

def streamOfSexp? : Sexp → Option (List Stmt)
  | .list xs => xs.mapM stmtOfSexp?
  | _ => none

def stmtToSexp (s : Stmt) : Sexp :=
  let d := strsToSexp (impSortedStrs s.dependsOn)
  match s.kind with
  | .nop => Sexp.mk "nop" [Sexp.str s.id, d]
  | .assign l r none => Sexp.mk "asg" [Sexp.str s.id, d, l.toSexp, r.toSexp]
  | .assign l r (some c) => Sexp.mk "casg" [Sexp.str s.id, d, l.toSexp, r.toSexp, c.toSexp]

def streamToSexp (ss : List Stmt) : Sexp := .list (ss.map stmtToSexp)

def impErrToSexp : ImpErr → Sexp
  | .keyError => Sexp.mk "err" [.atom "KeyError"]
  | .noName => Sexp.mk "err" [.atom "ValueError"]
  | .dep .unsupported => Sexp.mk "err" [.atom "Unsupported"]
  | .dep .foreign => Sexp.mk "err" [.atom "Foreign"]
  | .dep .unhashable => Sexp.mk "err" [.atom "TypeError"]
  | .typeError => Sexp.mk "err" [.atom "TypeError"]
  | .assertion => Sexp.mk "err" [.atom "AssertionError"]
  | .attribute => Sexp.mk "err" [.atom "AttributeError"]
  | .badOrder => Sexp.mk "err" [.atom "BadOrder"]
  | .noFixpoint => Sexp.mk "err" [.atom "NoFixpoint"]

def pairsToSexp (m : List (String × String)) : Sexp :=
  .list (m.map fun p => .list [Sexp.str p.1, Sexp.str p.2])

def sortedPairs (m : List (String × String)) : List (String × String) :=
  (m.toArray.qsort (fun a b => a.1 < b.1 || (a.1 == b.1 && a.2 < b.2))).toList

def setResult : Except ImpErr (List String) → Sexp
  | .ok xs => strsToSexp (impSortedStrs xs)
  | .error e => impErrToSexp e

/-- `(default (exceptions…))`: the filter returns `default` except on the listed names -/
def filterOfSexp? : Sexp → Option (String → Bool)
  | .list [.atom d, ex] => do
      let ex ← strsOf? ex
      let d := d == "true"
      pure fun n => if n ∈ ex then !d else d
  | _ => none

/-- repeated fusion; the reply lists the mapping of every step that succeeded -/
def fuseSteps (acc : List Stmt) : List (List Stmt) → List Sexp → Sexp
  | [], maps => .list (streamToSexp acc :: maps.reverse)
  | S :: rest, maps =>
    match fuse acc S with
    | .ok (r, m) => fuseSteps r rest (pairsToSexp (sortedPairs m) :: maps)
    | .error e => .list (impErrToSexp e :: maps.reverse)

def genSteps (g : GenState) : List String → List Sexp
  | [] => []
  | b :: bs =>
    match g.call b with
    | none => [impErrToSexp .noName]
    | some (n, g') => Sexp.str n :: genSteps g' bs

/-! ### histories of statement-producing operations (stream `derived-statements`)

`(imp-hist (S₀ S₁ …) op …)`: the streams are registers 0, 1, …; every operation but `query`
appends the stream it produces as a new register.  The reply lists, per register, the stream and
the read / written sets each of its statements reports — the sets of DERIVED statements (copies
made by disambiguation, fusion, `map_expressions`, `copy`) — and, per operation, the returned
substitution / id mapping.  The history stops at the first operation that raises. -/

def pairsOf? : Sexp → Option (List (String × String))
  | .list xs => xs.mapM fun
      | .list [a, b] => do pure ((← a.text), (← b.text))
      | _ => none
  | _ => none

/-- `stmt.copy(lhs=e)` / `copy(rhs=e)` / `copy(condition=e)` -/
def kindSetField (k : Kind) (field : String) (e : Expr) : Kind :=
  match k with
  | .assign l r c =>
    if field == "lhs" then .assign e r c
    else if field == "rhs" then .assign l e c
    else match c with
      | some _ => .assign l r (some e)
      | none => k
  | .nop => .nop

/-- `stmt.map_expressions(mapper, include_lhs=False)` -/
def kindMapNoLhs (f : Expr → Expr) : Kind → Kind
  | .nop => .nop
  | .assign l r c => .assign l (f r) (c.map f)

def modifyAt (ss : List Stmt) (j : Nat) (f : Stmt → Stmt) : List Stmt :=
  match ss, j with
  | [], _ => []
  | s :: rest, 0 => f s :: rest
  | s :: rest, j + 1 => s :: modifyAt rest j f

def regToSexp (ss : List Stmt) : Sexp :=
  .list [streamToSexp ss,
         .list (ss.map fun s => .list [setResult s.kind.reads, setResult s.kind.written])]

def regAt? (regs : List (List Stmt)) (i : Sexp) : Option (List Stmt) := do regs[(← i.nat?)]?

/-- one operation: `none` = malformed request; otherwise the produced register (if any) with the
operation's own reply, or the error it raises -/
def histStep (regs : List (List Stmt)) : Sexp → Option (Except ImpErr (Option (List Stmt) × Sexp))
  | .list [.atom "query", _] => some (.ok (none, .list []))
  | .list [.atom "fuse", i, j] => do
    let a ← regAt? regs i
    let b ← regAt? regs j
    pure ((fuse a b).map fun r => (some r.1, .list [pairsToSexp (sortedPairs r.2)]))
  | .list [.atom "disamb", f, order, i, j] => do
    let f ← filterOfSexp? f
    let order ← strsOf? order
    let a ← regAt? regs i
    let b ← regAt? regs j
    pure ((disambiguate f order a b).map fun r => (some r.1, .list [pairsToSexp r.2]))
  | .list [.atom "disfuse", f, order, i, j] => do
    let f ← filterOfSexp? f
    let order ← strsOf? order
    let a ← regAt? regs i
    let b ← regAt? regs j
    pure ((disambiguateAndFuseG pyGen f order a b).map fun r =>
      (some r.1, .list [pairsToSexp r.2.1, pairsToSexp (sortedPairs r.2.2)]))
  | .list [.atom "rename", m, .atom lhs, i] => do
    let m ← pairsOf? m
    let a ← regAt? regs i
    let sub := substOfRenaming m
    let f := fun e => (substM sub e).1
    pure (.ok (some (a.map fun s =>
      if lhs == "true" then s.mapExprs f else { s with kind := kindMapNoLhs f s.kind }), .list []))
  | .list [.atom "copy", i, j, .atom field, e] => do
    let a ← regAt? regs i
    let j ← j.nat?
    let e ← Expr.ofSexp? e
    pure (.ok (some (modifyAt a j fun s => { s with kind := kindSetField s.kind field e }), .list []))
  | _ => none

def histSteps (regs : List (List Stmt)) (replies : List Sexp) : List Sexp → Option Sexp
  | [] => some (.list [.list (regs.map regToSexp), .list replies.reverse])
  | op :: rest =>
    match histStep regs op with
    | none => none
    | some (.error e) =>
      some (.list [.list (regs.map regToSexp), .list (impErrToSexp e :: replies).reverse])
    | some (.ok (none, r)) => histSteps regs (r :: replies) rest
    | some (.ok (some reg, r)) => histSteps (regs ++ [reg]) (r :: replies) rest

def handleImpHist : Sexp → Option Sexp
  | .list (.atom "imp-hist" :: .list streams :: ops) =>
    match streams.mapM streamOfSexp? with
    | some regs =>
      match histSteps regs [] ops with
      | some r => some r
      | none => some (Sexp.mk "bad-op" [Sexp.str "imp-hist"])
    | none => some (Sexp.mk "bad-op" [Sexp.str "imp-hist"])
  | _ => none

def handleImp : Sexp → Option Sexp
  | .list (.atom "imp-fuse" :: first :: rest) =>
    match streamOfSexp? first, rest.mapM streamOfSexp? with
    | some a, some rest => some (fuseSteps a rest [])
    | _, _ => some (Sexp.mk "bad-op" [Sexp.str "imp-fuse"])
  | .list [.atom "imp-rw", s] =>
    match stmtOfSexp? s with
    | some s => some (.list [setResult s.kind.reads, setResult s.kind.written])
    | none => some (Sexp.mk "bad-op" [Sexp.str "imp-rw"])
  | .list [.atom "imp-ids", ss] =>
    match streamOfSexp? ss with
    | some ss => some (setResult (usedIdentifiers ss))
    | none => some (Sexp.mk "bad-op" [Sexp.str "imp-ids"])
  | .list [.atom "imp-disamb", f, order, a, b] =>
    match filterOfSexp? f, strsOf? order, streamOfSexp? a, streamOfSexp? b with
    | some f, some order, some a, some b =>
      match disambiguate f order a b with
      | .ok (bs, m) => some (.list [streamToSexp bs, pairsToSexp m])
      | .error e => some (impErrToSexp e)
    | _, _, _, _ => some (Sexp.mk "bad-op" [Sexp.str "imp-disamb"])
  | .list [.atom "imp-disfuse", f, order, a, b] =>
    match filterOfSexp? f, strsOf? order, streamOfSexp? a, streamOfSexp? b with
    | some f, some order, some a, some b =>
      match disambiguateAndFuseG pyGen f order a b with
      | .ok (fused, sub, m) =>
        some (.list [streamToSexp fused, pairsToSexp sub, pairsToSexp (sortedPairs m)])
      | .error e => some (impErrToSexp e)
    | _, _, _, _ => some (Sexp.mk "bad-op" [Sexp.str "imp-disfuse"])
  | .list [.atom "imp-dot", ss] =>
    match streamOfSexp? ss with
    | some ss =>
      match dotEdges ss with
      | .ok es => some (.list [strsToSexp (ss.map (·.id)), pairsToSexp (sortedPairs es)])
      | .error e => some (impErrToSexp e)
    | none => some (Sexp.mk "bad-op" [Sexp.str "imp-dot"])
  | .list [.atom "imp-dot-text", .atom u, pre, post, ss] =>
    -- the whole text of the export with the stringifier `s ↦ <id>`; the reply lists the lines with
    -- the block of edge lines sorted (their order is Python's set iteration order)
    match strsOf? pre, strsOf? post, streamOfSexp? ss with
    | some pre, some post, some ss =>
      match dotEdges ss with
      | .ok es =>
        let str := fun (s : Stmt) => "<" ++ s.id ++ ">"
        let edgeLines := impSortedStrs (es.map dotEdgeLine)
        some (strsToSexp (["digraph code {"] ++ pre ++ ["rankdir=BT;"] ++
          ss.map (dotNodeLine (u == "true") str) ++ edgeLines ++ post ++ ["}"]))
      | .error e => some (impErrToSexp e)
    | _, _, _ => some (Sexp.mk "bad-op" [Sexp.str "imp-dot-text"])
  | .list [.atom "imp-gen", ex, based] =>
    match strsOf? ex, strsOf? based with
    | some ex, some based => some (.list (genSteps (pyGen.init ex) based))
    | _, _ => some (Sexp.mk "bad-op" [Sexp.str "imp-gen"])
  | s => handleImpHist s

end PV.Driver
