import PV.Model.Sexp
import PV.Model.Unify
/- Driver operations for the unifier model (C16). -/
namespace PV.Driver
open PV PV.Unify

def amapToSexp (m : AMap) : Sexp :=
  .list (m.map fun (k, v) => .list [Sexp.str k, v.toSexp])

def urecToSexp (r : URec) : Sexp := amapToSexp r.lmap

/-- `(unify (cands…) pattern target)` →
`((record…) (law…) guards)`: the records (lmap, insertion order) in the order the code yields them,
per record whether `acEquiv (inst r pattern) target`, and whether the hypothesis `guards` of
`PV.C16.unify_sound_partial` holds; `(noclaim)` outside the fragment of the model -/
def handleUnify : Sexp → Option Sexp
  | .list [.atom "unify", .list cands, p, t] => do
      let cands ← cands.mapM Sexp.text
      let p ← Expr.ofSexp? p
      let t ← Expr.ofSexp? t
      if patOk p && tgtOk t then
        let rs := unify cands p t
        pure (.list [.list (rs.map urecToSexp),
          .list (rs.map fun r => Sexp.ofBool (acEquiv (inst r.lmap p) t)),
          Sexp.ofBool (guards cands p t)])
      else pure (Sexp.mk "noclaim" [])
  | .list [.atom "acequiv", a, b] => do
      let a ← Expr.ofSexp? a
      let b ← Expr.ofSexp? b
      pure (Sexp.ofBool (acEquiv a b))
  | _ => none

end PV.Driver
