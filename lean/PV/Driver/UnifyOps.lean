import PV.Model.Sexp
import PV.Model.Unify
import PV.Model.UnifyTable
import PV.Generated.Unifier
import PV.Generated.Traversal
/- Driver operations for the unifier model (C16). -/
namespace PV.Driver
open PV PV.Unify

def amapToSexp (m : AMap) : Sexp :=
  .list (m.map fun (k, v) => .list [Sexp.str k, v.toSexp])

def urecToSexp (r : URec) : Sexp := amapToSexp r.lmap

mutual
/-- no sum / product / other n-ary node of the tree has more than 8 operands (the iteration order
of CPython's small-int sets is ascending only below 8) -/
def c16WidthOk : Expr → Bool
  | .nary _ cs => cs.length ≤ 8 && c16WidthOkL cs
  | .bin _ a b => c16WidthOk a && c16WidthOk b
  | .un _ a => c16WidthOk a
  | .cmp _ a b => c16WidthOk a && c16WidthOk b
  | .ite c t e => c16WidthOk c && c16WidthOk t && c16WidthOk e
  | .call f as => c16WidthOk f && c16WidthOkL as
  | .subscript a i => c16WidthOk a && c16WidthOk i
  | .lookup a _ => c16WidthOk a
  | .tuple cs => c16WidthOkL cs
  | .list cs => c16WidthOkL cs
  | _ => true
def c16WidthOkL : List Expr → Bool
  | [] => true
  | c :: cs => c16WidthOk c && c16WidthOkL cs
end

/-- `(unify (cands…) pattern target)` →
`((record…) (law…) guards)`: the records (lmap, insertion order) in the order the code yields them,
per record whether `acEquiv (inst r pattern) target`, and whether the hypothesis `guards` of
`PV.C16.unify_sound_partial` holds; `(noclaim)` outside the fragment of the model -/
def handleUnify : Sexp → Option Sexp
  | .list [.atom "unify", .list cands, p, t] => do
      let cands ← cands.mapM Sexp.text
      let p ← Expr.ofSexp? p
      let t ← Expr.ofSexp? t
      if patOk p && tgtOk t then
        let rs := unify cands p t
        pure (.list [.list (rs.map urecToSexp),
          .list (rs.map fun r => Sexp.ofBool (acEquiv (inst r.lmap p) t)),
          Sexp.ofBool (guards cands p t)])
      else pure (Sexp.mk "noclaim" [])
  | .list [.atom "unify-table", .list cands, p, t] => do
      -- the table interpreter (PV/Model/UnifyTable.lean) run on the table REGENERATED from the
      -- source of unifier.py: `(ok ((lmap) (rmap))…)`, `(raises Exc)` or `(stuck)`
      let cands ← cands.mapM Sexp.text
      let p ← Expr.ofSexp? p
      let t ← Expr.ofSexp? t
      if c16WidthOk t then
        match c16UnifyT Generated.c04Classes Generated.c16Unifier 400 cands p t with
        | .ok rs => pure (Sexp.mk "ok" (rs.map fun r => .list [amapToSexp r.lmap, amapToSexp r.rmap]))
        | .raises x => pure (Sexp.mk "raises" [.atom x])
        | .stuck => pure (Sexp.mk "stuck" [])
      else pure (Sexp.mk "noclaim" [])
  | .list [.atom "acequiv", a, b] => do
      let a ← Expr.ofSexp? a
      let b ← Expr.ofSexp? b
      pure (Sexp.ofBool (acEquiv a b))
  | _ => none

end PV.Driver
