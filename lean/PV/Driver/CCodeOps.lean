import PV.Model.Sexp
import PV.Model.CCode
import PV.Model.CCodeFrag
import PV.Generated.Prec
import PV.Model.CCodeTable
import PV.Generated.CCode
/- Driver operations for the C code mapper model (C14). -/
namespace PV.Driver
open PV

def ckeyToSexp : CCKey → Sexp
  | .text s => .list [.atom "T", Sexp.str s]
  | .expr e => .list [.atom "E", e.toSexp]

def ccSortedStrs (xs : List String) : List String := (xs.toArray.qsort (· < ·)).toList

def dedupStrs (xs : List String) : List String :=
  xs.foldl (fun acc x => if acc.contains x then acc else acc ++ [x]) []

def cstToSexp (st : CSt) : Sexp :=
  .list [.atom "m",
    .list (.atom "list" :: st.nameList.map fun e => .list [Sexp.str e.name, ckeyToSexp e.val]),
    .list (.atom "dict" :: st.toName.map fun kv => .list [ckeyToSexp kv.1, Sexp.str kv.2]),
    .list (.atom "set" :: (ccSortedStrs (st.names.map fun k => toString (ckeyToSexp k))).map .atom)]

def ccodeErrToSexp : CErr → Sexp
  | .fuel => Sexp.mk "err" [.atom "Fuel"]
  | .unsupported => Sexp.mk "noclaim" []
  | .noClaim => Sexp.mk "noclaim" []

def copnOfSexp? : Sexp → Option COpn
  | .list [.atom "emit", i, e] => do pure (.emit (← i.nat?) (← Expr.ofSexp? e))
  | .list [.atom "copy", i] => do pure (.copy (← i.nat?))
  | .list [.atom "copymapped", i, .list pairs] => do
      let ps ← pairs.mapM fun p => match p with
        | .list [n, e] => do pure ((← n.text), (← Expr.ofSexp? e))
        | _ => none
      pure (.copyMapped (← i.nat?) ps)
  | _ => none

def stepOutToSexp : CStepOut → Sexp
  | .text s refs => .list [.atom "emit", Sexp.str s, .list ((ccSortedStrs (dedupStrs refs)).map Sexp.str)]
  | .made k => .list [.atom "made", Sexp.ofNat k]

def optIntToSexp' : Option Int → Sexp
  | none => .list [.atom "none"]
  | some v => .list [.atom "int", Sexp.ofInt v]

def intEnvOfSexp? : Sexp → Option Env
  | .list kvs => kvs.mapM fun kv => match kv with
    | .list [n, v] => do pure ((← n.text), Value.int (← v.int?))
    | _ => none
  | _ => none

def c14ValToSexp : Option C14.CVal → Sexp
  | none => .list [.atom "none"]
  | some (.i n) => .list [.atom "int", Sexp.ofInt n]
  | some (.b x) => .list [.atom "bool", Sexp.ofBool x]

/-- does the text contain parts the C reading does not model (`pow(…)`, other calls, floats, …)?
Then nothing is claimed about the C TYPE of the value (`c ? 12 : pow(x, 3)` is a double). -/
def c14Opaque : Doc → Bool
  | .atom _ => true
  | .paren d => c14Opaque d
  | .bin l _ r => c14Opaque l || c14Opaque r
  | .un _ d => c14Opaque d
  | .tern c t e => c14Opaque c || c14Opaque t || c14Opaque e
  | .call2 _ a b => c14Opaque a || c14Opaque b
  | _ => false

def handleCCode : Sexp → Option Sexp
  | .list [.atom "ccode-hist", .atom rev, .atom pfx, .list ops] =>
    match ops.mapM copnOfSexp? with
    | none => some (.list [.atom "bad-op", Sexp.str "ccode-hist"])
    | some ops =>
      let st0 : CSt := { reverse := rev == "true", pfx := (Sexp.atom pfx).text.getD "_cse" }
      match runOps Generated.printPrec [st0] ops with
      | .ok (outs, pool) => some (.list [.list (outs.map stepOutToSexp), .list (pool.map cstToSexp)])
      | .error e => some (ccodeErrToSexp e)
  | .list [.atom "ccode-denc", env, e] =>
    -- the text of a CSE-free integer expression and the value C computes for it (`denC`)
    match intEnvOfSexp? env, Expr.ofSexp? e with
    | some env, some e =>
      match ccode Generated.printPrec {} e with
      | .ok (d, _, _) =>
        -- … and whether `e` is in the proved fragment `cFrag`, with its reference meaning `denV`
        some (.list [Sexp.str d.render, optIntToSexp' (denC env d),
          .list [.atom "frag", Sexp.ofBool (C14.cFrag e)], c14ValToSexp (C14.denV env e),
          .list [.atom "opaque", Sexp.ofBool (c14Opaque d)]])
      | .error err => some (ccodeErrToSexp err)
    | _, _ => some (.list [.atom "bad-op", Sexp.str "ccode-denc"])
  | .list [.atom "ccode-hist2", .atom rev, .atom pfx, .list ops] =>
    -- the same history through the hand-written model AND through the table interpreter run on
    -- the table regenerated from the source (T-gen tie, checked from the compiled side)
    match ops.mapM copnOfSexp? with
    | none => some (.list [.atom "bad-op", Sexp.str "ccode-hist2"])
    | some ops =>
      let pf := (Sexp.atom pfx).text.getD "_cse"
      let st0 : CSt := { reverse := rev == "true", pfx := pf }
      let show_ (r : Except CErr (List CStepOut × List CSt)) : Sexp :=
        match r with
        | .ok (outs, pool) => .list [.list (outs.map stepOutToSexp), .list (pool.map cstToSexp)]
        | .error e => ccodeErrToSexp e
      let tbl := Generated.c14CCodeTable
      let viaTable : Sexp :=
        match c14InitT tbl.init { reverse := some (rev == "true"), pfx := some pf, list := none } with
        | some t0 => show_ (c14RunOpsT tbl Generated.printPrec [t0] ops)
        | none => .list [.atom "table-init-failed"]
      some (.list [.list [.atom "model", show_ (runOps Generated.printPrec [st0] ops)],
                   .list [.atom "table", viaTable]])
  | _ => none

end PV.Driver
