import PV.Model.Sexp
import PV.Model.CCodeProg
import PV.Generated.Prec
import PV.Driver.CCodeOps
/- Driver operations for the program level of the C code mapper model (C14): a history of calls
on ONE mapper, the assignments each call hoists (as text), and — per environment — the C value
`runProg` of every returned expression after the WHOLE assignment list, with the reference meaning
`denVCse`, the fragment flag `cFragCse` and the hypotheses of `history_value_partial`. -/
namespace PV.Driver
open PV

def c14EnvsOfSexp? : Sexp → Option (List Env)
  | .list es => es.mapM intEnvOfSexp?
  | _ => none

def handleCCodeProg : Sexp → Option Sexp
  | .list [.atom "ccode-prog", .atom rev, .atom pfx, envs, .list es] =>
    match c14EnvsOfSexp? envs, es.mapM Expr.ofSexp? with
    | some envs, some es =>
      let st0 : CSt := { reverse := rev == "true", pfx := (Sexp.atom pfx).text.getD "_cse" }
      -- call by call (the assignments of each call are reported separately)
      let rec go (st : CSt) (es : List Expr) (acc : List (Doc × C14.Assigns)) :
          Except CErr (List (Doc × C14.Assigns)) :=
        match es with
        | [] => .ok acc.reverse
        | e :: rest =>
          match C14.emitProg Generated.printPrec st e with
          | .ok (d, _, as, st1) => go st1 rest ((d, as) :: acc)
          | .error err => .error err
      match go st0 es [] with
      | .error err => some (ccodeErrToSexp err)
      | .ok outs =>
        let all : C14.Assigns := outs.flatMap (·.2)
        let emitSx := outs.map fun o =>
          Sexp.list [Sexp.str o.1.render,
            .list (o.2.map fun a => Sexp.list [Sexp.str a.1, Sexp.str a.2.render])]
        let fragSx := es.map fun e => Sexp.ofBool (C14.cFragCse e)
        let envSx := envs.map fun env =>
          let disj := all.all fun a => (env.get a.1).isNone
          Sexp.list [.list [.atom "disj", Sexp.ofBool disj],
            .list ((es.zip outs).map fun (e, o) =>
              Sexp.list [optIntToSexp' (C14.runProg env { assigns := all, expr := o.1 }),
                c14ValToSexp (C14.denVCse env e),
                .list [.atom "total", Sexp.ofBool (C14.cseTotal env e)]])]
        some (.list [.atom "prog", .list emitSx, .list fragSx, .list envSx])
    | _, _ => some (.list [.atom "bad-op", Sexp.str "ccode-prog"])
  | _ => none

end PV.Driver
