import PV.Model.TravTable
import PV.Model.NodeCount
/-
  C09 (T-gen).  The handlers of the three analyses as plain tables — regenerated from the live
  source by extract/analysis.py into lean/PV/Generated/Analysis.lean — and the table-driven
  reading of ONE handler call of each analysis with the recursion left open (`self.rec`):

    * `DependencyMapper`   (pymbolic/mapper/dependency.py, on top of `CSECachingMapperMixin`,
                           `Collector`, `CombineMapper`)                    → `c09DepsStep`
    * `FlopCounterBase` / `FlopCounter` / `CSEAwareFlopCounter`
                           (pymbolic/mapper/flop_counter.py, on `CombineMapper`) → `c09FlopsStep`
    * `NodeCountMapper`    (pymbolic/mapper/analysis.py, a `CachedWalkMapper`)   → `c09CountStep`

  A mapper class is a list of LAYERS, one per class of its MRO, each holding the `map_*` functions
  the class body defines.  The layers of `CombineMapper` / `Mapper` are not re-read: they are the
  rows of the C04 table `c04CombineTable` (`c09C04Layer`), i.e. the handlers a class inherits from
  `CombineMapper` are governed by the C04 combine table.  `super().map_x(…)`,
  `Collector.map_x(self, …)` and the `Mapper` stubs `return self.map_y(…)` are followed through
  the layers (`c09Inline`), so that the body that finally runs for a node is a closed term
  (`c09Resolve`).

  Nothing here knows the handlers of the current source: every flag test, returned set, recursion
  site, flop increment and seen-set operation comes from the table argument.
  PV/Proofs/AnalysisTable.lean proves that the hand-written models (`deps`, `flopsG`,
  `c09CountWalk`) are the unique solutions of these equations.
-/
namespace PV

/-! ### the handler language -/

/-- integer-valued expressions of a flop-counter handler, evaluated left to right -/
inductive C09Num where
  /-- a non-negative integer literal -/
  | lit (n : Nat)
  /-- `len(expr.F)` -/
  | len (field : String)
  | add (a b : C09Num)
  | sub (a b : C09Num)
  /-- `max(a, b)` -/
  | max (a b : C09Num)
  /-- `self.rec(expr.F)` (`iter = one`) / `sum(self.rec(ch) for ch in expr.F)` -/
  | recSum (r : C04Rec)
  deriving Repr, DecidableEq, Inhabited

/-- the body of one `map_*` function of an analysis mapper -/
inductive C09Body where
  /-- a handler of `CombineMapper` / `Mapper` (row of the C04 combine table): `self.combine` of the
  recursion sites, a stub that raises, a stub that delegates -/
  | c04 (b : C04Body)
  /-- `return {expr}` -/
  | single
  /-- `return set()` -/
  | empty
  /-- `return self.combine([self.rec(c, …) for c in expr.F] + […])` -/
  | combine (recs : List C04Rec)
  /-- `return super().<name>(expr, *args, **kwargs)` -/
  | super (name : String)
  /-- `return <cls>.<name>(self, expr, *args, **kwargs)` -/
  | base (cls name : String)
  /-- `if self.<flag> == "<lit>": t else: e` -/
  | ifFlagEq (flag lit : String) (t e : C09Body)
  /-- `if self.<flag>: t else: e` (truthiness) -/
  | ifFlag (flag : String) (t e : C09Body)
  /-- `CSECachingMapperMixin.map_common_subexpression`: look `(expr, *args)` up in the per-mapper
  dictionary `self.<attr>`; on a miss call `self.<uncached>(expr, *args)`, store, return -/
  | cseMemo (attr uncached : String)
  /-- (produced by inlining `cseMemo`) hash `expr` — `TypeError` when it contains a list — then `k` -/
  | hashed (k : C09Body)
  /-- `return <integer expression>` -/
  | num (n : C09Num)
  /-- `if expr.<field>: t else: e` (a tuple is true iff it is not empty) -/
  | ifField (field : String) (t e : C09Body)
  /-- `if expr in self.<attr>: t else: e` -/
  | ifSeen (attr : String) (t e : C09Body)
  /-- `self.<attr>.add(expr)`, then `k` -/
  | addSeen (attr : String) (k : C09Body)
  deriving Repr, DecidableEq, Inhabited

/-- one `map_*` function defined in a class body (`impl`: `__name__` of the function, differs from
`name` for aliases such as `map_product = map_sum`) -/
structure C09Row where
  name : String
  impl : String
  body : C09Body
  deriving Repr, DecidableEq, Inhabited

/-- the `map_*` functions defined in the body of one class of an MRO -/
structure C09Layer where
  cls : String
  rows : List C09Row
  deriving Repr, DecidableEq, Inhabited

/-- the layer of a class whose handlers are rows of a C04 table (`CombineMapper`, `Mapper`) -/
def c09C04Layer (cls : String) (tbl : List C04Handler) : C09Layer :=
  ⟨cls, (tbl.filter (fun h => h.definedIn == cls)).map (fun h => ⟨h.name, h.impl, .c04 h.body⟩)⟩

/-- attribute lookup along the MRO: the first layer that defines `n`; also the layers AFTER it
(where `super()` continues) -/
def c09Find : List C09Layer → String → Option (C09Body × List C09Layer)
  | [], _ => none
  | l :: rest, n =>
    match l.rows.find? (fun r => r.name == n) with
    | some r => some (r.body, rest)
    | none => c09Find rest n

/-- the MRO from class `cls` on -/
def c09From (cls : String) : List C09Layer → List C09Layer
  | [] => []
  | l :: rest => if l.cls == cls then l :: rest else c09From cls rest

/-- every handler name the mapper has (`getattr(self, name)` succeeds) -/
def c09Names (layers : List C09Layer) : List String :=
  layers.flatMap (fun l => l.rows.map (·.name))

/-- Follow `super()`, explicit base-class calls, delegating stubs and the CSE memo wrapper through
the layers: the closed body that runs.  `all`: the whole MRO (`self.<name>` starts there); `rest`:
the layers after the class that defines the body being read. -/
def c09Inline (all : List C09Layer) : Nat → List C09Layer → C09Body → Option C09Body
  | 0, _, _ => none
  | fuel + 1, rest, b =>
    match b with
    | .super n =>
      match c09Find rest n with
      | some (b', rest') => c09Inline all fuel rest' b'
      | none => none
    | .base cls n =>
      match c09Find (c09From cls all) n with
      | some (b', rest') => c09Inline all fuel rest' b'
      | none => none
    | .c04 (.delegate to true) =>
      match c09Find all to with
      | some (b', rest') => c09Inline all fuel rest' b'
      | none => none
    | .cseMemo _ unc =>
      match c09Find all unc with
      | some (b', rest') => (c09Inline all fuel rest' b').map .hashed
      | none => none
    | .ifFlagEq f l t e =>
      match c09Inline all fuel rest t, c09Inline all fuel rest e with
      | some t', some e' => some (.ifFlagEq f l t' e')
      | _, _ => none
    | .ifFlag f t e =>
      match c09Inline all fuel rest t, c09Inline all fuel rest e with
      | some t', some e' => some (.ifFlag f t' e')
      | _, _ => none
    | .ifField f t e =>
      match c09Inline all fuel rest t, c09Inline all fuel rest e with
      | some t', some e' => some (.ifField f t' e')
      | _, _ => none
    | .ifSeen a t e =>
      match c09Inline all fuel rest t, c09Inline all fuel rest e with
      | some t', some e' => some (.ifSeen a t' e')
      | _, _ => none
    | .addSeen a k => (c09Inline all fuel rest k).map (.addSeen a)
    | .hashed k => (c09Inline all fuel rest k).map .hashed
    | b => some b

/-- the closed body of handler `n` -/
def c09BodyOf (layers : List C09Layer) (n : String) : Except DepErr C09Body :=
  match c09Find layers n with
  | some (b, rest) =>
    match c09Inline layers 8 rest b with
    | some b' => .ok b'
    | none => .error .unsupported
  | none => .error .unsupported

/-- **The body run for node `e`** by a mapper with the layers `layers`: `Mapper.__call__` (class MRO
of the node against the handler names, foreign objects by kind — the dispatch model of C04), then
the closed body of the handler reached.  The outer `Except` is the dispatch outcome. -/
def c09Resolve (classes : List C04NodeClass) (layers : List C09Layer) (e : Expr) :
    Except DepErr C09Body :=
  match c04Dispatch classes (c09Names layers) e with
  | .invalidForeign => .error .foreign
  | .unsupported => .error .unsupported
  | .handler n => c09BodyOf layers n
  | .foreign n => c09BodyOf layers n

/-! ### `DependencyMapper`: one handler call -/

/-- the value of a constructor flag of `DependencyMapper` -/
inductive C09FlagVal where
  | bool (b : Bool)
  | str (s : String)
  deriving Repr, DecidableEq, Inhabited

/-- Python truthiness -/
def C09FlagVal.truthy : C09FlagVal → Bool
  | .bool b => b
  | .str s => s != ""

/-- `value == "<lit>"` (`True == "descend_args"` is `False`) -/
def C09FlagVal.eqStr : C09FlagVal → String → Bool
  | .str s, l => s == l
  | .bool _, _ => false

/-- the instance attributes `DependencyMapper.__init__` stores, under their Python names -/
def DepFlags.c09Attrs (fl : DepFlags) : List (String × C09FlagVal) :=
  [("include_subscripts", .bool fl.subscripts),
   ("include_lookups", .bool fl.lookups),
   ("include_calls", match fl.calls with
      | .yes => .bool true
      | .no => .bool false
      | .descend => .str "descend_args"),
   ("include_cses", .bool fl.cses)]

/-- results of `rec` on the children in order, united (`depsL`'s shape: `r₁ ∪ (r₂ ∪ (… ∪ ∅))`) -/
def c09SeqU (rec : Expr → Except DepErr (List Expr)) : List Expr → Except DepErr (List Expr)
  | [] => pure []
  | c :: cs => do
      let x ← rec c
      let y ← c09SeqU rec cs
      pure (unionPy x y)

/-- one recursion site: the union over the children it enumerates -/
def c09SiteU (rec : Expr → Except DepErr (List Expr)) (e : Expr) (r : C04Rec) :
    Except DepErr (List Expr) :=
  match c04RecChildren e r with
  | none => .error .unsupported
  | some cs => c09SeqU rec cs

def c09UnionRest (rec : Expr → Except DepErr (List Expr)) (e : Expr) :
    List Expr → List C04Rec → Except DepErr (List Expr)
  | acc, [] => pure acc
  | acc, r :: rs => do
      let y ← c09SiteU rec e r
      c09UnionRest rec e (unionPy acc y) rs

/-- `self.combine([…site₁…] + […site₂…] + …)` with `Collector.combine` (`reduce(operator.or_,
values, set())`): the union of the results of all recursive calls, evaluated in source order (the
first exception ends the call).  Sets are duplicate-free lists under Python `==`; the list is
computed in the association `deps` uses (`(s₁ ∪ s₂) ∪ s₃` across sites, right-nested inside a
site).  On well-formed operands every association — Python's literal left fold from `set()`
included — gives the same list (`c09UnionSites_eq_literal` in PV/Proofs/AnalysisTable.lean). -/
def c09UnionSites (rec : Expr → Except DepErr (List Expr)) (e : Expr) :
    List C04Rec → Except DepErr (List Expr)
  | [] => pure []
  | r :: rs => do
      let x ← c09SiteU rec e r
      c09UnionRest rec e x rs

/-- One `DependencyMapper` handler call for the closed body `body`. -/
def c09DepsRun (fl : DepFlags) (rec : Expr → Except DepErr (List Expr)) (e : Expr) :
    C09Body → Except DepErr (List Expr)
  | .single => depSingle e
  | .empty => pure []
  | .combine recs => c09UnionSites rec e recs
  | .c04 (.fold _ recs) => c09UnionSites rec e recs
  | .hashed k => if e.hasList then .error .unhashable else c09DepsRun fl rec e k
  | .ifFlagEq f l t e' =>
    match c04Assoc f fl.c09Attrs with
    | some v => if v.eqStr l then c09DepsRun fl rec e t else c09DepsRun fl rec e e'
    | none => .error .unsupported
  | .ifFlag f t e' =>
    match c04Assoc f fl.c09Attrs with
    | some v => if v.truthy then c09DepsRun fl rec e t else c09DepsRun fl rec e e'
    | none => .error .unsupported
  | _ => .error .unsupported           -- `raise NotImplementedError`, shapes foreign to this mapper

def c09DepsStepB (body : Except DepErr C09Body) (fl : DepFlags)
    (rec : Expr → Except DepErr (List Expr)) (e : Expr) : Except DepErr (List Expr) :=
  match body with
  | .error err => .error err
  | .ok b => c09DepsRun fl rec e b

/-- **One `DependencyMapper` call as the tables describe it**, recursion left open. -/
def c09DepsStep (classes : List C04NodeClass) (layers : List C09Layer) (fl : DepFlags)
    (rec : Expr → Except DepErr (List Expr)) (e : Expr) : Except DepErr (List Expr) :=
  c09DepsStepB (c09Resolve classes layers e) fl rec e

/-! #### `DependencyMapper.__init__` -/

/-- what `DependencyMapper.__init__` does with its arguments -/
structure C09DepInit where
  /-- parameters after `self` with their defaults (`"True"`, `"False"`, `"None"`) -/
  params : List (String × String)
  /-- `if composite_leaves is False:` the parameters set to `False` -/
  compositeFalse : List String
  /-- `if composite_leaves is True:` the parameters set to `True` -/
  compositeTrue : List String
  /-- the values `include_calls` is asserted to be one of -/
  callsDomain : List String
  /-- `self.<attr> = <parameter>` -/
  stores : List (String × String)
  deriving Repr, DecidableEq, Inhabited

/-- the flags after `__init__`, given the `include_*` arguments and `composite_leaves` -/
def c09InitFlags (ini : C09DepInit) (given : DepFlags) (composite : Option Bool) : DepFlags :=
  let over (p : String) (v : Bool) : Bool :=
    match composite with
    | some false => if ini.compositeFalse.contains p then false else v
    | some true => if ini.compositeTrue.contains p then true else v
    | none => v
  let param (attr : String) : String := (c04Assoc attr ini.stores).getD ""
  let calls : CallMode :=
    match composite with
    | some false => if ini.compositeFalse.contains (param "include_calls") then .no else given.calls
    | some true => if ini.compositeTrue.contains (param "include_calls") then .yes else given.calls
    | none => given.calls
  { subscripts := over (param "include_subscripts") given.subscripts,
    lookups := over (param "include_lookups") given.lookups,
    calls := calls,
    cses := over (param "include_cses") given.cses }

/-! ### flop counters: one handler call -/

/-- sum of `rec` over the children in order, the seen-set threaded through -/
def c09SumL (rec : Expr → List Expr → Except DepErr (Int × List Expr)) :
    List Expr → List Expr → Except DepErr (Int × List Expr)
  | [], s => pure (0, s)
  | c :: cs, s => do
      let (x, s1) ← rec c s
      let (y, s2) ← c09SumL rec cs s1
      pure (x + y, s2)

/-- `combine = sum(values)` over the recursion sites of a handler, in source order -/
def c09SumSites (rec : Expr → List Expr → Except DepErr (Int × List Expr)) (e : Expr) :
    List C04Rec → List Expr → Except DepErr (Int × List Expr)
  | [], s => pure (0, s)
  | r :: rs, s =>
    match c04RecChildren e r with
    | none => .error .unsupported
    | some cs => do
        let (x, s1) ← c09SumL rec cs s
        let (y, s2) ← c09SumSites rec e rs s1
        pure (x + y, s2)

/-- a Python integer expression of a handler, operands left to right -/
def c09NumEval (rec : Expr → List Expr → Except DepErr (Int × List Expr)) (e : Expr) :
    C09Num → List Expr → Except DepErr (Int × List Expr)
  | .lit n, s => pure ((n : Int), s)
  | .len f, s =>
    match e.c04Field f with
    | some (.many cs) => pure ((cs.length : Int), s)
    | some (.dict vs) => pure ((vs.length : Int), s)
    | _ => .error .unsupported
  | .add a b, s => do
      let (x, s1) ← c09NumEval rec e a s
      let (y, s2) ← c09NumEval rec e b s1
      pure (x + y, s2)
  | .sub a b, s => do
      let (x, s1) ← c09NumEval rec e a s
      let (y, s2) ← c09NumEval rec e b s1
      pure (x - y, s2)
  | .max a b, s => do
      let (x, s1) ← c09NumEval rec e a s
      let (y, s2) ← c09NumEval rec e b s1
      pure (if x ≥ y then x else y, s2)
  | .recSum r, s => c09SumSites rec e [r] s

/-- One flop-counter handler call for the closed body `body`; `seen` is `self.cse_seen_set`. -/
def c09FlopsRun (rec : Expr → List Expr → Except DepErr (Int × List Expr)) (e : Expr) :
    C09Body → List Expr → Except DepErr (Int × List Expr)
  | .num n, s => c09NumEval rec e n s
  | .ifField f t e', s =>
    match e.c04Field f with
    | some (.many cs) => if cs.isEmpty then c09FlopsRun rec e e' s else c09FlopsRun rec e t s
    | _ => .error .unsupported
  | .ifSeen _ t e', s =>
    -- `expr in self.<set>` hashes `expr`
    if e.hasList then .error .unhashable
    else if s.any (fun k => k.pyEq e) then c09FlopsRun rec e t s else c09FlopsRun rec e e' s
  | .addSeen _ k, s => c09FlopsRun rec e k (s ++ [e])
  | .c04 (.fold _ recs), s => c09SumSites rec e recs s
  | _, _ => .error .unsupported

def c09FlopsStepB (body : Except DepErr C09Body)
    (rec : Expr → List Expr → Except DepErr (Int × List Expr)) (e : Expr) (seen : List Expr) :
    Except DepErr (Int × List Expr) :=
  match body with
  | .error err => .error err
  | .ok b => c09FlopsRun rec e b seen

/-- **One flop-counter call as the tables describe it**, recursion left open. -/
def c09FlopsStep (classes : List C04NodeClass) (layers : List C09Layer)
    (rec : Expr → List Expr → Except DepErr (Int × List Expr)) (e : Expr) (seen : List Expr) :
    Except DepErr (Int × List Expr) :=
  c09FlopsStepB (c09Resolve classes layers e) rec e seen

/-- a result of the model (`Nat`) as a Python integer -/
def c09Lift (r : Except DepErr (Nat × List Expr)) : Except DepErr (Int × List Expr) :=
  match r with
  | .ok (n, s) => .ok ((n : Int), s)
  | .error err => .error err

/-- the names of the seen-set attribute a body tests / updates -/
def C09Body.seenAttrs : C09Body → List String
  | .ifSeen a t e => a :: (t.seenAttrs ++ e.seenAttrs)
  | .addSeen a k => a :: k.seenAttrs
  | .ifFlagEq _ _ t e => t.seenAttrs ++ e.seenAttrs
  | .ifFlag _ t e => t.seenAttrs ++ e.seenAttrs
  | .ifField _ t e => t.seenAttrs ++ e.seenAttrs
  | .hashed k => k.seenAttrs
  | _ => []

/-! ### `NodeCountMapper`: one call -/

/-- `CachedMapper.__call__` / `get_cache_key` as read from the source -/
structure C09Memo where
  /-- the cache is consulted (and a hit returned) before dispatching -/
  lookupFirst : Bool
  /-- the key contains `type(expr)` -/
  keyType : Bool
  /-- the key contains `expr` -/
  keyExpr : Bool
  /-- the result of the node's own handler is stored before it is returned -/
  storeMethod : Bool
  /-- the result of `rec_fallback` (foreign objects, MRO fallback) is stored -/
  storeFallback : Bool
  deriving Repr, DecidableEq, Inhabited

/-- a `visit` / `post_visit` hook as resolved on the mapper class -/
structure C09Hook where
  definedIn : String
  /-- total of the `self.count += n` statements -/
  incr : Nat
  /-- the last statement is `return True` -/
  returnsTrue : Bool
  deriving Repr, DecidableEq, Inhabited

structure C09CountSpec where
  /-- `NodeCountMapper.__mro__` (without `object`) -/
  mro : List String
  /-- class whose `__call__` is the mapper's `rec` -/
  recOwner : String
  memo : C09Memo
  visit : C09Hook
  postVisit : C09Hook
  /-- the attribute counted in and the value `__init__` gives it -/
  counter : String
  initial : Nat
  /-- `get_num_nodes`: a fresh mapper, one call on the argument, the counter returned -/
  freshMapper : Bool
  returnsCounter : Bool
  deriving Repr, DecidableEq, Inhabited

/-- equality of cache keys as far as the key has components -/
def c09MemoKeyEq (m : C09Memo) (a b : Expr) : Bool :=
  if m.keyExpr then (if m.keyType then a.keyEq b else a.pyEq b) else true

/-- is the memo of `CachedMapper.__call__` in force (it is the mapper's `rec`)? -/
def C09CountSpec.memoActive (sp : C09CountSpec) : Bool := sp.recOwner == "CachedMapper"

/-- children of a walk handler in order, the cache threaded through, counts added -/
def c09CountSeqL (rec : Expr → List Expr → Except DepErr (Nat × List Expr)) :
    List Expr → List Expr → Except DepErr (Nat × List Expr)
  | [], cache => .ok (0, cache)
  | c :: cs, cache => c09Seq (rec c cache) (fun c1 => c09CountSeqL rec cs c1)

def c09CountSites (rec : Expr → List Expr → Except DepErr (Nat × List Expr)) (e : Expr) :
    List C04Rec → List Expr → Except DepErr (Nat × List Expr)
  | [], cache => .ok (0, cache)
  | r :: rs, cache =>
    match c04RecChildren e r with
    | none => .error .unsupported
    | some cs => c09Seq (c09CountSeqL rec cs cache) (fun c1 => c09CountSites rec e rs c1)

/-- is the node's result stored through the "own handler" branch of `CachedMapper.__call__`
(`getattr(expr, "mapper_method")` names a handler the mapper has) or the `rec_fallback` one? -/
def c09StoredByMethod (classes : List C04NodeClass) (names : List String) (e : Expr) : Bool :=
  match e with
  | .const _ | .tuple _ | .list _ => false
  | e => match c04FindClass classes e.kind with
    | some c => match c.mro.head? with
      | some (some m) => names.contains m
      | _ => false
    | none => false

/-- One `NodeCountMapper.rec(e)` for the `WalkMapper` handler body `body`, started with the cache
`cache`: the memo lookup, `visit`, the children, `post_visit`, the store. -/
def c09CountStepB (sp : C09CountSpec) (byMethod : Bool) (body : Except DepErr C04Body)
    (rec : Expr → List Expr → Except DepErr (Nat × List Expr)) (e : Expr) (cache : List Expr) :
    Except DepErr (Nat × List Expr) :=
  let store (r : Nat × List Expr) : Except DepErr (Nat × List Expr) :=
    if sp.memoActive && (if byMethod then sp.memo.storeMethod else sp.memo.storeFallback)
    then .ok (r.1, r.2 ++ [e]) else .ok r
  if sp.memoActive && sp.memo.lookupFirst && cache.any (fun k => c09MemoKeyEq sp.memo k e) then
    .ok (0, cache)
  else
    match body with
    | .error err => .error err
    | .ok (.walk visit _ recs post _) =>
      let v := if visit == .absent then 0 else sp.visit.incr
      if visit == .guard && !sp.visit.returnsTrue then store (v, cache)   -- `return` after `visit`
      else
        match c09CountSites rec e recs cache with
        | .error err => .error err
        | .ok (n, c1) => store (v + n + (if post then sp.postVisit.incr else 0), c1)
    | .ok _ => .error .unsupported

/-- **One `NodeCountMapper` call as the tables describe it** (the `WalkMapper` rows of C04, the memo
protocol of `CachedMapper.__call__`, the hooks of `NodeCountMapper`), recursion left open. -/
def c09CountStep (classes : List C04NodeClass) (walkTbl : List C04Handler) (sp : C09CountSpec)
    (rec : Expr → List Expr → Except DepErr (Nat × List Expr)) (e : Expr) (cache : List Expr) :
    Except DepErr (Nat × List Expr) :=
  c09CountStepB sp (c09StoredByMethod classes (walkTbl.map (·.name)) e)
    (c04Resolve classes walkTbl e) rec e cache

/-- `get_num_nodes(e)` as the table describes it, given the mapper's `rec`: building the first
cache key hashes `e`; a fresh mapper starts with an empty cache and the initial counter. -/
def c09NumNodesT (sp : C09CountSpec)
    (rec : Expr → List Expr → Except DepErr (Nat × List Expr)) (e : Expr) :
    Except DepErr (Nat × List Expr) :=
  if sp.memoActive && sp.memo.keyExpr && e.hasList then .error .unhashable
  else if sp.freshMapper && sp.returnsCounter then
    match rec e [] with
    | .ok (n, c) => .ok (sp.initial + n, c)
    | .error err => .error err
  else .error .unsupported

/-- the `combine` of a mapper class as read from the source -/
inductive C09Combine where
  /-- `reduce(operator.or_, values, set())` -/
  | reduceOr
  /-- `sum(values)` -/
  | sum
  deriving Repr, DecidableEq, Inhabited

end PV
