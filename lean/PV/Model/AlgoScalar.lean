import PV.Model.Algo
/-!
  C19 — `Polynomial` combined with an operand that is NOT a `Polynomial` (a Python int): the
  first branch of `__divmod__` (coefficient by coefficient), `__add__` / `__radd__` / `__sub__` /
  `__rsub__` with a constant (the constant becomes the polynomial `((0, c),)`, unless it is falsy),
  `__mul__` / `__rmul__` with a constant (coefficients scaled).  Mirrors
  pymbolic/polynomial.py as it is.  `__rsub__` is `(-self) + other` since repo fix 60a234e
  (`rsubScalar`); before it was `(-other) + self`, i.e. `self - other` (`rsubScalarPy`, kept as the
  regression witness of the known finding `poly-scalar-rsub-negated`).
-/
namespace PV.Algo

/-- `Polynomial.__divmod__(self, other)` for `other` a Python int:
```
        if not isinstance(other, Polynomial):
            dm_list = [(exp, divmod(coeff, other)) for exp, coeff in self.Data]
            return (
                Polynomial(self.Base, [(exp, quot) for exp, (quot, _) in dm_list]),
                Polynomial(self.Base, [(exp, rem) for exp, (_, rem) in dm_list]))
```
Every term is kept in both results (zero quotients and zero remainders are stored).  `none` models
the `ZeroDivisionError` of `divmod(coeff, 0)`, which needs a term to be raised. -/
def divmodScalar (p : Poly) (d : Int) : Option (Poly × Poly) :=
  if d = 0 then (if p.isEmpty then some ([], []) else none)
  else some (p.map fun t => (t.1, Int.fdiv t.2 d), p.map fun t => (t.1, Int.fmod t.2 d))

/-- `Polynomial.__add__(self, other)` for `other` a Python int: `if not other: return self`, else
`other` becomes `Polynomial(self.Base, ((0, other),))` and the merge loops run. -/
def addScalar (p : Poly) (k : Int) : Poly :=
  if k = 0 then p else add p [(0, k)]

/-- `Polynomial.__sub__(self, other)` for `other` a Python int: `self + (-other)`. -/
def subScalar (p : Poly) (k : Int) : Poly := addScalar p (-k)

/-- `Polynomial.__rsub__(self, other)` AS IT WAS CODED BEFORE repo fix 60a234e: `return (-other) +
self`, i.e. `int.__add__` declines and `Polynomial.__radd__` computes `self + (-other)`.  This is
`self - other`, not `other - self` (`rsubScalarPy_negated`).  No longer the model of the code. -/
def rsubScalarPy (p : Poly) (k : Int) : Poly := addScalar p (-k)

/-- `Polynomial.__rsub__(self, other)` — what `other - self` runs for `other` a Python int — as
coded since repo fix 60a234e: `return (-self) + other` (`__neg__`, then `__add__` with a constant) -/
def rsubScalar (p : Poly) (k : Int) : Poly := addScalar (neg p) k

/-- `Polynomial.__rmul__(self, other)`: `other * coeff` for every term. -/
def rscale (p : Poly) (k : Int) : Poly := p.map fun t => (t.1, k * t.2)

end PV.Algo
