import PV.Model.Stringify
import PV.Model.Eval
/-
  C14.  Model of `pymbolic.mapper.c_code.CCodeMapper` (a `SimplifyingSortingStringifyMapper` with
  C-specific handlers) on top of the base stringifier model of `Stringify.lean`.

  * The printer emits a *printed structure* `Doc`: literals, identifiers, opaque text, explicit
    parentheses and infix chains exactly as the Python code concatenates them (no parenthesis is
    ever added by `render`).  `render` is the emitted text (tied to the real code by correspondence);
    `denC` is the meaning a C compiler gives to that text on the integer fragment: the text is
    flattened into the chain of primaries and binary operators it consists of (explicit parentheses,
    calls and `(c ? t : e)` are primaries) and the chain is grouped by C's ten precedence levels of
    left-associative binary operators, with truncating `/` and `%`, 0/1-valued comparisons,
    short-circuit `&&`/`||`, lazy `?:`, `&`/`^`/`|`/shifts on non-negative ints.
  * The CSE allocator is a state machine `CSt` = (`cse_to_name`, `cse_names`, `cse_name_list`) with
    operations `emit` (`ccode`), `copy`, `copyWithMappedCses`; all as coded, bugs included:
    `copy()` rebuilds `cse_to_name` keyed by the *strings* of `cse_name_list` and `cse_names` from
    the strings too.
  * Every handler of the mapper first decides which sub-expressions it prints with which enclosing
    precedence, in which order (`plan`), and then puts the resulting strings together (`assemble`);
    `ccodeE` threads the allocator state through the planned calls in that order.
-/
namespace PV

/-! ### printed structure -/

/-- the binary infix operators of the emitted C text -/
inductive COp where
  | plus | minus | times | divSp | divTight | mod
  | shl | shr
  | cmp (o : CmpOp)
  | band | bxor | bor
  | land | lor
  deriving Repr, DecidableEq, Inhabited

/-- the prefix operators of the emitted C text -/
inductive CUn where
  | lnot | bnot
  deriving Repr, DecidableEq, Inhabited

/-- the precedence levels of C's binary operators (C99 6.5.5 – 6.5.14; larger binds tighter):
multiplicative 10, additive 9, shift 8, relational 7, equality 6, `&` 5, `^` 4, `|` 3, `&&` 2,
`||` 1.  All of them associate to the left. -/
def COp.prec : COp → Nat
  | .times | .divSp | .divTight | .mod => 10
  | .plus | .minus => 9
  | .shl | .shr => 8
  | .cmp .lt | .cmp .le | .cmp .gt | .cmp .ge => 7
  | .cmp .eq | .cmp .ne => 6
  | .band => 5
  | .bxor => 4
  | .bor => 3
  | .land => 2
  | .lor => 1

/-- the separator exactly as the mapper writes it -/
def COp.text : COp → String
  | .plus => " + " | .minus => " - " | .times => " * " | .divSp => " / " | .divTight => "/"
  | .mod => " % " | .shl => " << " | .shr => " >> " | .cmp o => " " ++ o.sym ++ " "
  | .band => " & " | .bxor => " ^ " | .bor => " | " | .land => " && " | .lor => " || "

def CUn.text : CUn → String
  | .lnot => "!" | .bnot => "~"

inductive Doc where
  | lit (n : Int)
  | var (x : String)
  | atom (s : String)                     -- opaque text (pow(…), other calls, floats, subscripts, …)
  | paren (d : Doc)
  | bin (l : Doc) (op : COp) (r : Doc)    -- `l op r`, printed without any parentheses
  | un (op : CUn) (d : Doc)               -- `!d` / `~d`, printed without any parentheses
  | tern (c t e : Doc)                    -- `(c ? t : e)`: the parentheses belong to the form
  | call2 (f : String) (a b : Doc)        -- `f(a, b)` for `min` / `max` of two operands
  deriving Repr, Inhabited

def Doc.render : Doc → String
  | .lit n => toString n
  | .var x => x
  | .atom s => s
  | .paren d => "(" ++ d.render ++ ")"
  | .bin l op r => l.render ++ op.text ++ r.render
  | .un op d => op.text ++ d.render
  | .tern c t e => "(" ++ c.render ++ " ? " ++ t.render ++ " : " ++ e.render ++ ")"
  | .call2 f a b => f ++ "(" ++ a.render ++ ", " ++ b.render ++ ")"

def c14CmpInt : CmpOp → Int → Int → Bool
  | .eq, a, b => a == b
  | .ne, a, b => a != b
  | .lt, a, b => decide (a < b)
  | .le, a, b => decide (a ≤ b)
  | .gt, a, b => decide (b < a)
  | .ge, a, b => decide (b ≤ a)

def c14B2I (b : Bool) : Int := if b then 1 else 0

/-- C's binary operators on unbounded ints, both operands evaluated: `/` truncates toward zero,
`%` has the sign of the dividend (C99 6.5.5), division by zero is undefined (`none`); shifts are
defined for a non-negative left operand and a non-negative amount (6.5.7; `>>` of a non-negative
value is the quotient by `2^b`); comparisons and `&&`/`||` give 1 or 0 (6.5.8, 6.5.9, 6.5.13);
`&`, `^`, `|` are taken on non-negative operands only (no assumption on the representation of
negative numbers). -/
def COp.apply : COp → Int → Int → Option Int
  | .plus, a, b => some (a + b)
  | .minus, a, b => some (a - b)
  | .times, a, b => some (a * b)
  | .divSp, a, b => if b = 0 then none else some (Int.tdiv a b)
  | .divTight, a, b => if b = 0 then none else some (Int.tdiv a b)
  | .mod, a, b => if b = 0 then none else some (Int.tmod a b)
  | .shl, a, b => if a < 0 ∨ b < 0 then none else some (a * 2 ^ b.toNat)
  | .shr, a, b => if a < 0 ∨ b < 0 then none else some (a / 2 ^ b.toNat)
  | .cmp o, a, b => some (c14B2I (c14CmpInt o a b))
  | .band, a, b => if a < 0 ∨ b < 0 then none else some (Int.ofNat (a.toNat &&& b.toNat))
  | .bxor, a, b => if a < 0 ∨ b < 0 then none else some (Int.ofNat (a.toNat ^^^ b.toNat))
  | .bor, a, b => if a < 0 ∨ b < 0 then none else some (Int.ofNat (a.toNat ||| b.toNat))
  | .land, a, b => some (c14B2I (a != 0 && b != 0))
  | .lor, a, b => some (c14B2I (a != 0 || b != 0))

/-- … on possibly undefined operands: every operator needs both operands except `&&` and `||`,
which do not evaluate the right operand when the left one decides (C99 6.5.13, 6.5.14) -/
def COp.applyL : COp → Option Int → Option Int → Option Int
  | .land, some a, y => if a = 0 then some 0 else
      match y with
      | some b => some (c14B2I (b != 0))
      | none => none
  | .lor, some a, y => if a = 0 then
      match y with
      | some b => some (c14B2I (b != 0))
      | none => none
      else some 1
  | op, some a, some b => op.apply a b
  | _, _, _ => none

/-- `!a` is 1 or 0; `~a` is `-a - 1` (two's complement, C23 / every gcc target) -/
def CUn.apply : CUn → Option Int → Option Int
  | .lnot, some a => some (c14B2I (a == 0))
  | .bnot, some a => some (-a - 1)
  | _, none => none

/-- `c ? t : e` evaluates only the chosen branch (C99 6.5.15) -/
def c14Tern : Option Int → Option Int → Option Int → Option Int
  | some c, t, e => if c = 0 then e else t
  | none, _, _ => none

/-- the two functions the mapper calls by name on integers: `min(a, b)`, `max(a, b)` (supplied by
the program that uses the generated code; with Python's tie rule, which does not matter on ints) -/
def c14Call2 : String → Option Int → Option Int → Option Int
  | "min", some a, some b => some (if b < a then b else a)
  | "max", some a, some b => some (if a < b then b else a)
  | _, _, _ => none

def envInt (env : Env) (x : String) : Option Int :=
  match env.get x with
  | some (.int n) => some n
  | _ => none

/-! #### C's reading of an unparenthesised chain `v0 op1 v1 op2 v2 …`

Operands are already-valued primaries (constants, identifiers, parenthesised expressions, calls,
each possibly under prefix operators); the grammar of C99 6.5.5 – 6.5.14 groups the chain around
the LAST operator of the LOWEST precedence (all binary operators associate to the left), and so
on inside the two parts. -/

abbrev CRest := List (COp × Option Int)

def c14MinPrec : CRest → Nat
  | [] => 100
  | (o, _) :: t => min o.prec (c14MinPrec t)

/-- split at the last operator of precedence `m`: (before, op, its right operand, after) -/
def c14SplitLast (m : Nat) : CRest → Option (CRest × COp × Option Int × CRest)
  | [] => none
  | (o, v) :: t =>
    match c14SplitLast m t with
    | some (b, o', v', a) => some ((o, v) :: b, o', v', a)
    | none => if o.prec = m then some ([], o, v, t) else none

/-- the value of the chain `f rest`; the budget `rest.length` always suffices -/
def c14EvalChain : Nat → Option Int → CRest → Option Int
  | _, f, [] => f
  | 0, _, _ :: _ => none
  | fuel + 1, f, x :: t =>
    match c14SplitLast (c14MinPrec (x :: t)) (x :: t) with
    | some (b, o, v, a) => o.applyL (c14EvalChain fuel f b) (c14EvalChain fuel v a)
    | none => none

def c14Ev (c : Option Int × CRest) : Option Int := c14EvalChain c.2.length c.1 c.2

/-- the chain of primaries and binary operators that the text of `d` puts into its context (no
parentheses are added around `d`): a prefix operator binds to the first primary only -/
def chainOf (env : Env) : Doc → Option Int × CRest
  | .lit n => (some n, [])
  | .var x => (envInt env x, [])
  | .atom _ => (none, [])
  | .paren d => (c14Ev (chainOf env d), [])
  | .bin l op r => ((chainOf env l).1, (chainOf env l).2 ++ (op, (chainOf env r).1) :: (chainOf env r).2)
  | .un op d => (op.apply (chainOf env d).1, (chainOf env d).2)
  | .tern c t e => (c14Tern (c14Ev (chainOf env c)) (c14Ev (chainOf env t)) (c14Ev (chainOf env e)), [])
  | .call2 f a b => (c14Call2 f (c14Ev (chainOf env a)) (c14Ev (chainOf env b)), [])

/-- the value a C compiler computes for the text of `d` on the integer fragment (unbounded ints;
`none`: opaque text, an undefined operation, or an unknown variable).  The text is read with C's
precedences, NOT with the structure the mapper had in mind: `a * b % c` printed for `a * (b % c)`
denotes `(a * b) % c`. -/
def denC (env : Env) (d : Doc) : Option Int := c14Ev (chainOf env d)

/-! ### the allocator state -/

inductive CErr where
  | fuel             -- recursion budget of the model exhausted (never happens with `ccode`)
  | unsupported      -- node type / constant outside the C mapper's text syntax
  | noClaim
  deriving Repr, DecidableEq, Inhabited

/-- a key of `cse_to_name` / member of `cse_names`: an expression, or (after `copy`) a string -/
inductive CCKey where
  | expr (e : Expr)
  | text (s : String)
  deriving Repr, Inhabited

/-- Python `==` between two keys -/
def CCKey.eq : CCKey → CCKey → Bool
  | .expr a, .expr b => a.pyEq b
  | .text s, .text t => s == t
  | _, _ => false

structure CEntry where
  name : String
  /-- the assigned text; an expression for pairs passed to `copy_with_mapped_cses` -/
  val : CCKey
  /-- ghost: the wrapper child this entry was hoisted for (`none` for mapped entries) -/
  child : Option Expr := none
  /-- ghost: the hoisted names the text refers to -/
  refs : List String := []
  deriving Repr, Inhabited

structure CSt where
  reverse : Bool := true
  pfx : String := "_cse"
  toName : List (CCKey × String) := []       -- dict, insertion order
  names : List CCKey := []                   -- set
  nameList : List CEntry := []
  deriving Repr, Inhabited

def CSt.assigned (st : CSt) : List String := st.nameList.map (·.name)

def nameTaken (names : List CCKey) (s : String) : Bool :=
  names.any fun k => match k with
    | .text t => t == s
    | .expr _ => false

/-- `generate_cse_names()` -/
def candName (pfx : String) (p : Option String) (i : Nat) : String :=
  match p with
  | some q => if i = 0 then pfx ++ "_" ++ q else pfx ++ "_" ++ q ++ "_" ++ toString (i + 1)
  | none => pfx ++ toString i

/-- first candidate not in `cse_names`; `fuel` candidates are tried (`names.length + 1` always
suffice: the candidates are pairwise distinct) -/
def firstFree (taken : List CCKey) (cand : Nat → String) : Nat → Nat → Option String
  | 0, _ => none
  | fuel + 1, i =>
    if nameTaken taken (cand i) then firstFree taken cand fuel (i + 1) else some (cand i)

def freshName (st : CSt) (p : Option String) : Option String :=
  firstFree st.names (candName st.pfx p) (st.names.length + 1) 0

def dictSet (d : List (CCKey × String)) (k : CCKey) (v : String) : List (CCKey × String) :=
  match d with
  | [] => [(k, v)]
  | (k', v') :: rest => if k'.eq k then (k', v) :: rest else (k', v') :: dictSet rest k v

def setAdd (s : List CCKey) (k : CCKey) : List CCKey :=
  if s.any (·.eq k) then s else s ++ [k]

/-- `CCodeMapper(reverse, cse_prefix, …, cse_name_list)`: the constructor reads each pair as
`(name, cse)` and uses the SECOND component both as dictionary key and as member of `cse_names` -/
def CSt.ofList (reverse : Bool) (pfx : String) (l : List CEntry) : CSt :=
  { reverse, pfx,
    toName := l.foldl (fun d e => dictSet d e.val e.name) [],
    names := l.foldl (fun s e => setAdd s e.val) [],
    nameList := l }

/-- `copy()` -/
def CSt.copy (st : CSt) : CSt := CSt.ofList st.reverse st.pfx st.nameList

/-- `copy_with_mapped_cses([(name, expr), …])` -/
def CSt.copyWithMappedCses (st : CSt) (pairs : List (String × Expr)) : CSt :=
  CSt.ofList st.reverse st.pfx
    (st.nameList ++ pairs.map fun p => { name := p.1, val := .expr p.2 })

/-! ### the handlers: what is printed, in which order, and how it is put together -/

def parenIfD (d : Doc) (enclosing my : Nat) : Doc := if enclosing > my then .paren d else d

/-- `sep.join(...)` of already printed operands -/
def joinDocs (op : COp) : List Doc → Doc
  | [] => .atom ""
  | d :: ds => ds.foldl (fun acc x => .bin acc op x) d

def joinText (sep : String) (ds : List Doc) : String := sep.intercalate (ds.map Doc.render)

/-- `list.sort(reverse=rev)` on strings is stable: `x` (earlier) stays before an equal `y` -/
def goesBefore (rev : Bool) (kx ky : String) : Bool :=
  if rev then !(decide (kx < ky)) else !(decide (ky < kx))

def insertDoc (rev : Bool) (x : Doc) : List Doc → List Doc
  | [] => [x]
  | y :: ys => if goesBefore rev x.render y.render then x :: y :: ys else y :: insertDoc rev x ys

/-- `entries.sort(reverse=self.reverse)`: the entries are the printed strings -/
def sortDocs (rev : Bool) : List Doc → List Doc
  | [] => []
  | x :: xs => insertDoc rev x (sortDocs rev xs)

/-- `is_zero(c0 + 1)` -/
def plusOneIsZero (c0 : Expr) : Except CErr Bool :=
  match c0 with
  | .const (.int n) => pure (n + 1 == 0)
  | .const (.bool _) => pure false
  | .const (.flt _ n d) => pure (d != 0 && n + (d : Int) == 0)
  | .const _ => throw .unsupported
  | e => match Ops.bin .add e one with
    | .ok r => pure r.isZero
    | .error _ => throw .unsupported

/-- `get_neg_product(ch)` of `SimplifyingSortingStringifyMapper.map_sum` -/
def negProd (ch : Expr) : Except CErr (Option Expr) :=
  match ch with
  | .nary .prod (c0 :: rest) =>
    match plusOneIsZero c0 with
    | .error e => throw e
    | .ok false => pure none
    | .ok true =>
      match rest with
      | [b] => pure (some b)
      | _ => pure (some (.nary .prod rest))
  | _ => pure none

def Const.isTwo : Const → Bool
  | .int n => n == 2
  | .flt _ n d => d != 0 && n == 2 * (d : Int)
  | _ => false

inductive PowPlan where
  | one | base | square (e : Expr) | powCall

/-- the case distinction of `CCodeMapper.map_power` -/
def powPlan (a b : Expr) : Except CErr PowPlan :=
  match b with
  | .const c =>
    if !b.isConstant then pure .powCall
    else if !c.truthy then pure .one
    else if c.isOne then pure .base
    else if c.isTwo then
      -- `expr.base*expr.base` with the overloaded operators (plain arithmetic on constants)
      match a with
      | .const ca => match constBin .mul ca ca with
        | .ok r => pure (.square r)
        | .error _ => throw .noClaim
      | _ => match Ops.bin .mul a a with
        | .ok r => pure (.square r)
        | .error _ => throw .unsupported
    else pure .powCall
  | _ => pure .powCall

def sumPlan (S : PrintPrec) : List Expr → Except CErr (List (Expr × Nat))
  | [] => pure []
  | ch :: cs => do
      let first ← match negProd ch with
        | .error e => throw e
        | .ok (some np) => pure (np, S.product)
        | .ok none => pure (ch, S.sum)
      let rest ← sumPlan S cs
      pure (first :: rest)

/-- split the printed children of a sum into `positives` and `negatives` -/
def sumSplit : List Expr → List Doc → List Doc × List Doc
  | ch :: cs, d :: ds =>
    let (ps, ns) := sumSplit cs ds
    match negProd ch with
    | .ok (some _) => (ps, d :: ns)
    | _ => (d :: ps, ns)
  | _, _ => ([], [])

/-- the recursive calls of the handler of `e`, in order, each with its enclosing precedence -/
def plan (S : PrintPrec) (e : Expr) (enc : Nat) : Except CErr (List (Expr × Nat)) :=
  match e with
  | .const _ | .var _ => pure []
  | .call (.var _) as => pure (as.map (·, S.none))
  | .call f as => pure ((f, S.call) :: as.map (·, S.none))
  -- `map_subscript` prints the INDEX first (`index_str = …` is assigned before the aggregate is
  -- printed inside the returned expression): wrappers in the index get the earlier names
  | .subscript a (.tuple cs) => pure (cs.map (·, S.none) ++ [(a, S.call)])
  | .subscript a i => pure [(i, S.none), (a, S.call)]
  | .lookup a _ => pure [(a, S.call)]
  | .nary .sum cs => sumPlan S cs
  | .nary .prod cs => pure (cs.map (·, S.product))
  | .bin .quot a b => pure [(a, S.product), (b, S.product)]
  | .bin .rem a b => pure [(a, S.product), (b, S.product)]
  | .bin .floordiv a b => pure [(a, S.product), (b, S.power)]
  | .bin .pow a b => do
      match ← powPlan a b with
      | .one => pure []
      | .base => pure [(a, enc)]
      | .square r => pure [(r, enc)]
      | .powCall => pure [(a, S.none), (b, S.none)]
  | .bin .lshift a b => pure [(a, S.shift + 1), (b, S.shift + 1)]
  | .bin .rshift a b => pure [(a, S.shift + 1), (b, S.shift + 1)]
  | .un _ a => pure [(a, S.unary)]
  | .nary .bor cs => pure (cs.map (·, S.bor))
  | .nary .bxor cs => pure (cs.map (·, S.bxor))
  | .nary .band cs => pure (cs.map (·, S.band))
  | .nary .lor cs => pure (cs.map (·, S.lor))
  | .nary .land cs => pure (cs.map (·, S.land))
  | .nary .min cs => pure (cs.map (·, S.none))
  | .nary .max cs => pure (cs.map (·, S.none))
  | .cmp _ a b => pure [(a, S.comparison + 1), (b, S.comparison + 1)]
  | .ite c t e => pure [(c, S.none), (t, S.none), (e, S.none)]
  | _ => throw .unsupported

def constDoc (S : PrintPrec) (c : Const) (enc : Nat) : Except CErr Doc :=
  match c with
  | .int n => pure (if n < 0 ∧ enc > S.sum then .paren (.lit n) else .lit n)
  | c => match constPieces S c enc with
    | .ok ps => pure (.atom (render ps))
    | .error _ => throw .unsupported

/-- `rec_with_force_parens_around` of `map_quotient` / `map_remainder` (all multiplicative
classes) -/
def forceWrapD (e : Expr) (d : Doc) : Doc := if isMultiplicative e then .paren d else d

def atomIf (s : String) (enc my : Nat) : Doc := parenIfD (.atom s) enc my

/-- the handler of `e` given the strings of its planned recursive calls -/
def assemble (S : PrintPrec) (rev : Bool) (e : Expr) (enc : Nat) (ds : List Doc) :
    Except CErr Doc :=
  match e, ds with
  | .const c, _ => constDoc S c enc
  | .var x, _ => pure (.var x)
  | .call (.var f) _, args => pure (.atom (f ++ "(" ++ joinText ", " args ++ ")"))
  | .call _ _, f :: args => pure (.atom (f.render ++ "(" ++ joinText ", " args ++ ")"))
  | .subscript _ (.tuple _), ds =>
      match ds.reverse with
      | a :: ridx =>
        pure (atomIf (a.render ++ "[" ++ joinText ", " ridx.reverse ++ "]") enc S.call)
      | [] => throw .noClaim
  | .subscript _ _, [i, a] => pure (atomIf (a.render ++ "[" ++ i.render ++ "]") enc S.call)
  | .lookup _ n, [a] => pure (atomIf (a.render ++ "." ++ n) enc S.call)
  | .nary .sum cs, ds =>
      let (ps, ns) := sumSplit cs ds
      let positives := joinDocs .plus (sortDocs rev ps)
      pure (parenIfD ((sortDocs rev ns).foldl (fun acc x => .bin acc .minus x) positives) enc S.sum)
  | .nary .prod _, ds => pure (parenIfD (joinDocs .times ds) enc S.product)
  | .bin .quot a b, [x, y] =>
      pure (parenIfD (.bin (forceWrapD a x) .divSp (forceWrapD b y)) enc S.product)
  | .bin .rem a b, [x, y] =>
      pure (parenIfD (.bin (forceWrapD a x) .mod (forceWrapD b y)) enc S.product)
  | .bin .floordiv _ _, [x, y] => pure (.paren (.bin x .divTight y))
  | .bin .pow a b, ds => do
      match ← powPlan a b, ds with
      | .one, _ => pure (.lit 1)
      | .base, [d] => pure d
      | .square _, [d] => pure d
      | .powCall, [x, y] => pure (.atom ("pow(" ++ x.render ++ ", " ++ y.render ++ ")"))
      | _, _ => throw .noClaim
  | .bin .lshift _ _, [x, y] => pure (parenIfD (.bin x .shl y) enc S.shift)
  | .bin .rshift _ _, [x, y] => pure (parenIfD (.bin x .shr y) enc S.shift)
  | .un .bnot _, [x] => pure (parenIfD (.un .bnot x) enc S.unary)
  | .un .lnot _, [x] => pure (parenIfD (.un .lnot x) enc S.unary)
  | .nary .bor _, ds => pure (parenIfD (joinDocs .bor ds) enc S.bor)
  | .nary .bxor _, ds => pure (parenIfD (joinDocs .bxor ds) enc S.bxor)
  | .nary .band _, ds => pure (parenIfD (joinDocs .band ds) enc S.band)
  | .nary .lor _, ds => pure (parenIfD (joinDocs .lor ds) enc S.lor)
  | .nary .land _, ds => pure (parenIfD (joinDocs .land ds) enc S.land)
  | .nary .min _, [a, b] => pure (.call2 "min" a b)
  | .nary .max _, [a, b] => pure (.call2 "max" a b)
  | .nary .min _, ds => pure (.atom ("min(" ++ joinText ", " ds ++ ")"))
  | .nary .max _, ds => pure (.atom ("max(" ++ joinText ", " ds ++ ")"))
  | .cmp o _ _, [x, y] => pure (parenIfD (.bin x (.cmp o) y) enc S.comparison)
  | .ite _ _ _, [c, t, e] => pure (.tern c t e)
  | _, _ => throw .noClaim

abbrev COut := Doc × List String × CSt

/-- run the planned recursive calls left to right, threading the allocator state -/
def printAll (f : CSt → Expr → Nat → Except CErr COut) :
    CSt → List (Expr × Nat) → Except CErr (List Doc × List String × CSt)
  | st, [] => pure ([], [], st)
  | st, (e, enc) :: rest => do
      let (d, r, st1) ← f st e enc
      let (ds, rs, st2) ← printAll f st1 rest
      pure (d :: ds, r ++ rs, st2)

/-- every handler except `map_common_subexpression`; `f` is `self.rec` -/
def ccodeGeneric (S : PrintPrec) (f : CSt → Expr → Nat → Except CErr COut) (st : CSt) (e : Expr)
    (enc : Nat) : Except CErr COut := do
  let pl ← plan S e enc
  let (ds, refs, st') ← printAll f st pl
  let d ← assemble S st.reverse e enc ds
  pure (d, refs, st')

/-- `map_common_subexpression`; `f` is `self.rec` -/
def ccodeCse (S : PrintPrec) (f : CSt → Expr → Nat → Except CErr COut) (st : CSt) (c : Expr)
    (p : Option String) : Except CErr COut :=
  if c.hasList then throw .unsupported else          -- unhashable dictionary key
  match st.toName.find? (fun kv => kv.1.eq (.expr c)) with
  | some kv => pure (.var kv.2, [kv.2], st)
  | none =>
    match f st c S.none with
    | .error e => throw e
    | .ok (d, r, st1) =>
      match freshName st1 p with
      | none => throw .noClaim
      | some n =>
        -- `self.cse_to_name[expr.child] = cse_name` is a dictionary store.  Printing the child can
        -- only have added strictly smaller expressions, so the key is still absent and the store
        -- appends; the model abstains otherwise (the guard never fires: correspondence runs).
        match st1.toName.find? (fun kv => kv.1.eq (.expr c)) with
        | some _ => throw .noClaim
        | none =>
          pure (.var n, [n],
            { st1 with
              nameList := st1.nameList ++ [{ name := n, val := .text d.render, child := some c,
                                             refs := r }],
              toName := st1.toName ++ [(.expr c, n)],
              names := st1.names ++ [.text n] })

/-- `self.rec(expr, enclosing_prec)`: the printed structure, the hoisted names its text refers to,
and the new allocator state -/
def ccodeE (S : PrintPrec) : Nat → CSt → Expr → Nat → Except CErr COut
  | 0, _, _, _ => throw .fuel
  | fuel + 1, st, .cse c p _, _ => ccodeCse S (ccodeE S fuel) st c p
  | fuel + 1, st, e, enc => ccodeGeneric S (ccodeE S fuel) st e enc

/-- `mapper(expr)`: `rec(expr, PREC_NONE)`; the budget is a bound on the recursion depth -/
def ccode (S : PrintPrec) (st : CSt) (e : Expr) : Except CErr COut :=
  ccodeE S (2 * e.size + 4) st e S.none

/-! ### histories -/

/-- successive calls on ONE mapper; each result: the text and the hoisted names it refers to -/
def emits (S : PrintPrec) : CSt → List Expr → Except CErr (List (String × List String) × CSt)
  | st, [] => pure ([], st)
  | st, e :: es => do
      let (d, r, st1) ← ccode S st e
      let (outs, st2) ← emits S st1 es
      pure ((d.render, r) :: outs, st2)

/-- operations on a pool of mappers (`copy` appends the new mapper to the pool) -/
inductive COpn where
  | emit (i : Nat) (e : Expr)
  | copy (i : Nat)
  | copyMapped (i : Nat) (pairs : List (String × Expr))

inductive CStepOut where
  | text (s : String) (refs : List String)
  | made (k : Nat)
  deriving Repr

def runOps (S : PrintPrec) : List CSt → List COpn → Except CErr (List CStepOut × List CSt)
  | pool, [] => pure ([], pool)
  | pool, op :: ops =>
    match op with
    | .emit i e =>
      match pool[i]? with
      | none => throw .noClaim
      | some st => do
          let (d, r, st1) ← ccode S st e
          let (outs, pool') ← runOps S (pool.set i st1) ops
          pure (.text d.render r :: outs, pool')
    | .copy i =>
      match pool[i]? with
      | none => throw .noClaim
      | some st => do
          let (outs, pool') ← runOps S (pool ++ [st.copy]) ops
          pure (.made pool.length :: outs, pool')
    | .copyMapped i pairs =>
      match pool[i]? with
      | none => throw .noClaim
      | some st => do
          let (outs, pool') ← runOps S (pool ++ [st.copyWithMappedCses pairs]) ops
          pure (.made pool.length :: outs, pool')

end PV
