import PV.Model.Ops
/-
  C03 (T-gen).  The bodies of the arithmetic / shift / bitwise dunder methods of
  `pymbolic.primitives.Expression` (and the overrides in `Sum` and `Product`), of the `__bool__`
  methods of the node classes, of the operand
  predicates `is_constant / is_number / is_valid_operand / is_arithmetic_expression`, of the helper
  `quotient` and of the two flatteners `flattened_sum / flattened_product` as PLAIN DATA —
  regenerated from the live source by extract/operators.py into lean/PV/Generated/Operators.lean —
  and an interpreter of that data:

    * `c03Dunder T fuel d self other`  one call of the dunder `d` looked up along the MRO of `self`
    * `opByTable T o a b`              `a <o> b` with CPython's dispatch (`dispatch` of Ops.lean)
                                       around the table-driven dunders
    * `unByTable T o e`                `-e`, `+e`, `~e`
    * `c03Flatten P F terms`           a flattener described by the record `F`
    * `c03Truthy T e`                  `bool(e)` by the table of `__bool__` methods

  Nothing here knows what the current source says: every guard, every neutral-element test, every
  constructor and every operand order comes from the table argument.
  PV/Proofs/OpsTable.lean proves that the hand-written model (`Ops.bin`, `Ops.un`, `flattenedSum`,
  `flattenedProduct` of Ops.lean) IS this interpreter run on the regenerated table.
-/
namespace PV

/-- the method names read from the source (`quotientFn` is the module-level helper `quotient`,
kept here so that nested calls go through the same fuel-bounded call-back) -/
inductive C03Dunder where
  | add | radd | sub | rsub | mul | rmul | truediv | rtruediv | floordiv | rfloordiv
  | mod | rmod | pow | rpow | lshift | rlshift | rshift | rrshift
  | and_ | rand | or_ | ror | xor | rxor
  | neg | pos | invert
  | quotientFn
  deriving Repr, DecidableEq, Inhabited

/-- the Python classes the tables may mention -/
inductive C03Class where
  | int | float | complex | bool | npNumber | npBool
  | expression | sum | product
  /-- `pymbolic.rational.Rational`: no object of the model is one -/
  | rational
  deriving Repr, DecidableEq, Inhabited

/-- the classes an operand of the model is an instance of, nearest first (`bool` is an `int`;
every node is an `Expression`; only `Sum` and `Product` are told apart, the extractor refuses any
source that tests for another node class) -/
def Expr.c03Mro : Expr → List C03Class
  | .const (.int _) => [.int]
  | .const (.bool _) => [.bool, .int]
  | .const (.flt ..) => [.float]
  | .const (.str _) => []
  | .const .none => []
  | .tuple _ => []
  | .list _ => []
  | .nary .sum _ => [.sum, .expression]
  | .nary .prod _ => [.product, .expression]
  | _ => [.expression]

/-- `isinstance(e, (c₁, …, cₙ))` -/
def c03IsInst (cs : List C03Class) (e : Expr) : Bool :=
  e.c03Mro.any fun c => cs.contains c

/-! ### truthiness of nodes (`__bool__`) -/

/-- what one branch of a `__bool__` returns -/
inductive C03TruthRes where
  /-- `return True` / `return False` -/
  | const (b : Bool)
  /-- `return bool(self.children[i])` -/
  | child (i : Nat)
  deriving Repr, DecidableEq, Inhabited

/-- the `__bool__` a node class ends up with (resolved along its MRO by the extractor) -/
inductive C03Truth where
  /-- no `__bool__` and no `__len__` anywhere along the MRO (always true), or `return <literal>` -/
  | const (b : Bool)
  /-- `if len(self.children) == 0: A  elif len(self.children) == 1: B  else: C` -/
  | byLen (zero one many : C03TruthRes)
  /-- `for i in self.children: if is_zero(i): return False` / `return True` -/
  | noZeroChild
  /-- `return bool(self.F)`, `F` the `k`-th positional field -/
  | field (k : Nat)
  deriving Repr, DecidableEq, Inhabited

/-- name of the class of a node (as in the wire format); `""` for what is not a node -/
def Expr.c03ClassName : Expr → String
  | .const _ => "" | .tuple _ => "" | .list _ => ""
  | .var _ => "Variable"
  | .nary o _ => o.name
  | .bin o _ _ => o.name
  | .un o _ => o.name
  | .cmp .. => "Comparison"
  | .ite .. => "If"
  | .call .. => "Call"
  | .callKw .. => "CallWithKwargs"
  | .subscript .. => "Subscript"
  | .lookup .. => "Lookup"
  | .cse .. => "CommonSubexpression"
  | .subst .. => "Substitution"
  | .deriv .. => "Derivative"
  | .slice _ => "Slice"
  | .nan => "NaN"
  | .wildcard => "Wildcard"
  | .dotWild _ => "DotWildcard"
  | .starWild _ => "StarWildcard"
  | .funcSym => "FunctionSymbol"

def C03TruthRes.eval (rec : Expr → Bool) (kids : List Expr) : C03TruthRes → Bool
  | .const b => b
  | .child i => match kids[i]? with
    | some c => rec c
    | Option.none => true

def C03Truth.eval (rec : Expr → Bool) (e : Expr) : C03Truth → Bool
  | .const b => b
  | .byLen z o m =>
    match e.children with
    | [] => z.eval rec e.children
    | [_] => o.eval rec e.children
    | _ => m.eval rec e.children
  | .noZeroChild => e.children.all rec
  | .field k => match e.children[k]? with
    | some c => rec c
    | Option.none => true

/-- `bool(e)` by the table of `__bool__` methods: constants and foreign containers as Python
has them, a node through the rule of its class (a class without a row has the default `True`) -/
def c03TruthyFuel (T : List (String × C03Truth)) : Nat → Expr → Bool
  | 0, _ => true
  | n + 1, e =>
    match e with
    | .const c => c.truthy
    | .tuple cs => !cs.isEmpty
    | .list cs => !cs.isEmpty
    | _ => match T.lookup e.c03ClassName with
      | some rule => rule.eval (c03TruthyFuel T n) e
      | Option.none => true

def c03Truthy (T : List (String × C03Truth)) (e : Expr) : Bool :=
  c03TruthyFuel T (e.size + 1) e

/-! ### operand predicates -/

inductive C03PredName where
  | isConstant | isNumber | isValidOperand | isArith
  deriving Repr, DecidableEq, Inhabited

/-- the three module-level class tuples -/
inductive C03Tuple where
  | validConstantClasses | boolClasses | validOperands
  deriving Repr, DecidableEq, Inhabited

/-- the body `return <formula>` of a predicate `def p(value)` -/
inductive C03Pred where
  /-- `isinstance(value, TUPLE)` -/
  | isinst (t : C03Tuple)
  /-- `q(value)` for another predicate of the table -/
  | call (p : C03PredName)
  | not (p : C03Pred)
  | and (p q : C03Pred)
  | or (p q : C03Pred)
  deriving Repr, Inhabited

structure C03Preds where
  /-- the run-time value of `VALID_CONSTANT_CLASSES` -/
  validConstantClasses : List C03Class
  /-- `_BOOL_CLASSES` -/
  boolClasses : List C03Class
  /-- `VALID_OPERANDS` -/
  validOperands : List C03Class
  defs : List (C03PredName × C03Pred)
  /-- the `__bool__` every node class of pymbolic.primitives ends up with -/
  truth : List (String × C03Truth)
  deriving Repr, Inhabited

def C03Preds.tuple (P : C03Preds) : C03Tuple → List C03Class
  | .validConstantClasses => P.validConstantClasses
  | .boolClasses => P.boolClasses
  | .validOperands => P.validOperands

def C03Pred.eval (P : C03Preds) (callp : C03PredName → Expr → Bool) (e : Expr) : C03Pred → Bool
  | .isinst t => c03IsInst (P.tuple t) e
  | .call p => callp p e
  | .not p => !(p.eval P callp e)
  | .and p q => p.eval P callp e && q.eval P callp e
  | .or p q => p.eval P callp e || q.eval P callp e

/-- `p(e)` by the table (`fuel` bounds the nesting of predicate calls; an unknown name or
exhausted fuel answers `false`) -/
def c03PredEval (P : C03Preds) : Nat → C03PredName → Expr → Bool
  | 0, _, _ => false
  | n + 1, p, e =>
    match P.defs.lookup p with
    | some f => f.eval P (c03PredEval P n) e
    | Option.none => false

def c03PredFuel : Nat := 4

/-! ### method bodies -/

/-- an operand expression inside a method body -/
inductive C03Term where
  /-- the first parameter (`self`; `numerator` of `quotient`) -/
  | self
  /-- the second parameter (`other`; `denominator` of `quotient`) -/
  | other
  /-- an integer literal -/
  | lit (n : Int)
  /-- Python's unary operator applied to a term (`-other`) -/
  | unop (o : PyUnOp) (t : C03Term)
  /-- Python's binary operator between two terms (`-1*self`) -/
  | binop (o : PyBinOp) (a b : C03Term)
  deriving Repr, Inhabited

inductive C03Cond where
  /-- `p(t)` for one of the four isinstance-based predicates -/
  | pred (p : C03PredName) (t : C03Term)
  /-- `is_zero(t)`  (the extractor checks `is_zero = not is_nonzero`, `is_nonzero = bool`; `bool`
  of a node is its `__bool__`, table `C03Preds.truth`) -/
  | isZero (t : C03Term)
  /-- `is_nonzero(t)` -/
  | isNonzero (t : C03Term)
  /-- `if t:` -/
  | truthy (t : C03Term)
  /-- `is_zero(t - 1)` / `not (t - 1)` -/
  | isOne (t : C03Term)
  /-- `isinstance(t, C)` -/
  | isinst (t : C03Term) (c : C03Class)
  | not (c : C03Cond)
  deriving Repr, Inhabited

/-- one element of the tuple handed to an n-ary constructor -/
inductive C03Piece where
  /-- `t` -/
  | one (t : C03Term)
  /-- `*t.children` (or `t.children` as a summand of a tuple concatenation) -/
  | star (t : C03Term)
  deriving Repr, Inhabited

inductive C03Res where
  /-- `return t` -/
  | term (t : C03Term)
  /-- `return C((p₁, …, pₙ))` / `return C(a.children + b.children)` -/
  | nary (op : NaryOp) (ps : List C03Piece)
  /-- `return C(a, b)` -/
  | node2 (op : BinOp) (a b : C03Term)
  /-- `return C(a)` -/
  | node1 (op : UnOp) (a : C03Term)
  /-- `return quotient(a, b)` -/
  | quotient (a b : C03Term)
  /-- `return recv.__d__(arg)` (a direct method call: `NotImplemented` is passed on) -/
  | method (d : C03Dunder) (recv arg : C03Term)
  deriving Repr, Inhabited

/-- a method body as a decision tree: `if c: A` followed by `B` is `ite c A B` -/
inductive C03Body where
  | ite (c : C03Cond) (t e : C03Body)
  /-- `assert c` -/
  | assert (c : C03Cond) (rest : C03Body)
  /-- a recognised block that only concerns objects outside the model (`Rational` operands, the
  traits of two plain numbers in `quotient`); skipped -/
  | outside (what : String) (rest : C03Body)
  /-- `return NotImplemented` -/
  | notImpl
  | ret (r : C03Res)
  deriving Repr, Inhabited

structure C03Method where
  /-- the class whose `__dict__` holds the attribute -/
  cls : C03Class
  name : C03Dunder
  /-- `__name__` of the function the attribute is bound to (`__truediv__ = __div__`) -/
  impl : String
  body : C03Body
  deriving Repr, Inhabited

/-- `flattened_sum` / `flattened_product` as a record of the choices the loop makes -/
structure C03Flatten where
  /-- `if is_zero(item): return 0` (true) or `… : continue` (false) -/
  zeroReturns : Bool
  /-- `if is_zero(item - 1): continue` is present (after the zero test) -/
  skipsOne : Bool
  /-- `isinstance(item, C)`: the children of `item` go back into the queue -/
  cls : NaryOp
  /-- where they go: `queue[0:0] = item.children` (true: spliced in place, at the FRONT of the
  queue) or `queue += item.children` (false: appended at the END of the queue) -/
  spliceFront : Bool
  /-- `len(done) == 0`: the literal returned -/
  empty : Int
  deriving Repr, DecidableEq, Inhabited

structure C03Table where
  preds : C03Preds
  methods : List C03Method
  /-- body of `quotient(numerator, denominator)` -/
  quotient : C03Body
  /-- positional constructor parameters of the node classes the bodies build -/
  ctorFields : List (String × List String)
  flatSum : C03Flatten
  flatProduct : C03Flatten
  deriving Repr, Inhabited

/-! ### the interpreter -/

/-- a nested call of a method (bounded by the fuel of `c03Dunder`) -/
abbrev C03Call := C03Dunder → Expr → Expr → Dunder

def PyBinOp.c03Fwd : PyBinOp → C03Dunder
  | .add => .add | .sub => .sub | .mul => .mul | .truediv => .truediv | .floordiv => .floordiv
  | .mod => .mod | .pow => .pow | .lshift => .lshift | .rshift => .rshift
  | .band => .and_ | .bor => .or_ | .bxor => .xor

def PyBinOp.c03Refl : PyBinOp → C03Dunder
  | .add => .radd | .sub => .rsub | .mul => .rmul | .truediv => .rtruediv
  | .floordiv => .rfloordiv | .mod => .rmod | .pow => .rpow | .lshift => .rlshift
  | .rshift => .rrshift | .band => .rand | .bor => .ror | .bxor => .rxor

def PyUnOp.c03Dunder : PyUnOp → C03Dunder
  | .neg => .neg | .pos => .pos | .invert => .invert

/-- what the caller of a unary dunder sees: a value, the exception, or `TypeError` for
`NotImplemented` -/
def Dunder.c03Result : Dunder → OpR
  | .ret r => pure r
  | .raise e => throw e
  | .notImpl => throw .typeError

/-- Python's unary operator on a value met inside a method body: a constant is negated as a
number, a node answers through its own dunder -/
def c03Un (call : C03Call) (o : PyUnOp) (v : Expr) : OpR :=
  match v with
  | .const c =>
    match o with
    | .neg => match c.neg with
      | some c' => pure (.const c')
      | Option.none => throw .typeError
    | _ => throw .noClaim
  | _ =>
    if v.isNode then (call o.c03Dunder v v).c03Result
    else throw .typeError

/-- Python's binary operator between two values met inside a method body -/
def c03Bin (call : C03Call) (o : PyBinOp) (a b : Expr) : OpR :=
  match a, b with
  | .const x, .const y => constBin o x y
  | _, _ => dispatch (call o.c03Fwd) (call o.c03Refl) a b

def C03Term.eval (call : C03Call) (self other : Expr) : C03Term → OpR
  | .self => pure self
  | .other => pure other
  | .lit n => pure (.const (.int n))
  | .unop o t => do
      let v ← t.eval call self other
      c03Un call o v
  | .binop o a b => do
      let x ← a.eval call self other
      let y ← b.eval call self other
      c03Bin call o x y

def C03Cond.eval (P : C03Preds) (call : C03Call) (self other : Expr) : C03Cond → Except OpErr Bool
  | .pred p t => do pure (c03PredEval P c03PredFuel p (← t.eval call self other))
  | .isZero t => do pure (!(c03Truthy P.truth (← t.eval call self other)))
  | .isNonzero t => do pure (c03Truthy P.truth (← t.eval call self other))
  | .truthy t => do pure (c03Truthy P.truth (← t.eval call self other))
  | .isOne t => do pure (← t.eval call self other).isOne
  | .isinst t c => do pure (c03IsInst [c] (← t.eval call self other))
  | .not c => do pure (!(← c.eval P call self other))

/-- `.children` of an n-ary node -/
def Expr.c03Children : Expr → Except OpErr (List Expr)
  | .nary _ cs => pure cs
  | _ => throw .noClaim

def c03Pieces (call : C03Call) (self other : Expr) : List C03Piece → Except OpErr (List Expr)
  | [] => pure []
  | .one t :: ps => do
      let v ← t.eval call self other
      pure (v :: (← c03Pieces call self other ps))
  | .star t :: ps => do
      let v ← t.eval call self other
      let cs ← v.c03Children
      pure (cs ++ (← c03Pieces call self other ps))

def Dunder.ofExcept : Except OpErr Expr → Dunder
  | .ok e => .ret e
  | .error e => .raise e

def C03Res.eval (call : C03Call) (self other : Expr) : C03Res → Dunder
  | .term t => Dunder.ofExcept (t.eval call self other)
  | .nary op ps => Dunder.ofExcept (do pure (.nary op (← c03Pieces call self other ps)))
  | .node2 op a b => Dunder.ofExcept (do
      let x ← a.eval call self other
      let y ← b.eval call self other
      pure (.bin op x y))
  | .node1 op a => Dunder.ofExcept (do pure (.un op (← a.eval call self other)))
  | .quotient a b =>
    match a.eval call self other with
    | .error e => .raise e
    | .ok x =>
      match b.eval call self other with
      | .error e => .raise e
      | .ok y => call .quotientFn x y
  | .method d recv arg =>
    match recv.eval call self other with
    | .error e => .raise e
    | .ok x =>
      match arg.eval call self other with
      | .error e => .raise e
      | .ok y => call d x y

def C03Body.eval (P : C03Preds) (call : C03Call) (self other : Expr) : C03Body → Dunder
  | .ite c t e =>
    match c.eval P call self other with
    | .ok b => if b then t.eval P call self other else e.eval P call self other
    | .error x => .raise x
  | .assert c rest =>
    match c.eval P call self other with
    | .ok b => if b then rest.eval P call self other else .raise .assertion
    | .error x => .raise x
  | .outside _ rest => rest.eval P call self other
  | .notImpl => .notImpl
  | .ret r => r.eval call self other

/-- the body of `d` found first along the MRO of `e` -/
def C03Table.resolve (T : C03Table) (e : Expr) (d : C03Dunder) : Option C03Body :=
  (e.c03Mro.findSome? fun c => T.methods.find? fun m => m.cls == c && m.name == d).map (·.body)

/-- one call `self.__d__(other)` by the table.  `fuel` bounds the nesting of method calls inside
bodies (`__sub__` → `__neg__` → `__rmul__` is the deepest chain of the current source); exhausted
fuel is "no claim".  A method that does not exist makes the operation unsupported. -/
def c03Dunder (T : C03Table) : Nat → C03Dunder → Expr → Expr → Dunder
  | 0, _, _, _ => .raise .noClaim
  | n + 1, .quotientFn, a, b =>
    match a, b with
    | .const _, .const _ => .raise .noClaim     -- two plain numbers: `Rational`, outside the model
    | _, _ => T.quotient.eval T.preds (c03Dunder T n) a b
  | n + 1, d, s, o =>
    match T.resolve s d with
    | some body => body.eval T.preds (c03Dunder T n) s o
    | Option.none => .notImpl

def c03Fuel : Nat := 5

/-- `a <o> b` : CPython's dispatch around the table-driven dunders -/
def opByTable (T : C03Table) (o : PyBinOp) (a b : Expr) : OpR :=
  dispatch (c03Dunder T c03Fuel o.c03Fwd) (c03Dunder T c03Fuel o.c03Refl) a b

/-- `-e`, `+e`, `~e` on a node -/
def unByTable (T : C03Table) (o : PyUnOp) (e : Expr) : OpR :=
  if e.isNode then (c03Dunder T c03Fuel o.c03Dunder e e).c03Result
  else throw .noClaim

/-! ### flatteners -/

/-- the `while queue:` loop of `flattened_sum` / `flattened_product` as described by `F`;
`none` is the early `return 0` -/
def c03FlattenLoop (P : C03Preds) (F : C03Flatten) :
    Nat → List Expr → List Expr → Option (List Expr)
  | 0, _, done => some done
  | _ + 1, [], done => some done
  | fuel + 1, item :: queue, done =>
    if !(c03Truthy P.truth item) then
      (if F.zeroReturns then Option.none else c03FlattenLoop P F fuel queue done)
    else if F.skipsOne && item.isOne then c03FlattenLoop P F fuel queue done
    else match item with
      | .nary op cs =>
        if op == F.cls then
          c03FlattenLoop P F fuel (if F.spliceFront then cs ++ queue else queue ++ cs) done
        else c03FlattenLoop P F fuel queue (done ++ [item])
      | _ => c03FlattenLoop P F fuel queue (done ++ [item])

def c03Flatten (P : C03Preds) (F : C03Flatten) (terms : List Expr) : Expr :=
  match c03FlattenLoop P F (Expr.sizeL terms + terms.length + 1) terms [] with
  | Option.none => zero
  | some [] => .const (.int F.empty)
  | some [x] => x
  | some xs => .nary F.cls xs

/-! ### operator programs -/

/-- `OpProg.build` with every operator application answered by the table interpreter -/
def OpProg.c03BuildByTable (T : C03Table) : OpProg → OpR
  | .leaf e => pure e
  | .bin o p q => do
      let a ← p.c03BuildByTable T
      let b ← q.c03BuildByTable T
      match a, b with
      | .const x, .const y => constBin o x y
      | _, _ => opByTable T o a b
  | .un o p => do
      let a ← p.c03BuildByTable T
      match a with
      | .const c =>
        match c.toValue? with
        | some v => match o.onValue v with
          | .ok w => match w.toConst? with
            | some c' => pure (.const c')
            | Option.none => throw .noClaim
          | .error _ => throw .noClaim
        | Option.none => throw .noClaim
      | _ => unByTable T o a

end PV
