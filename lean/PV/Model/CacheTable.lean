import PV.Model.Memo
/-
  C05 (T-gen).  The cache protocol of the memoizing mapper classes as plain DATA — regenerated from
  the live source of the tree under test by extract/caching.py into lean/PV/Generated/Caching.lean —
  and the reading of that data:

    * `C05Stmt` / `C05Method`   the body of a caching dispatch method (`CachedMapper.__call__`,
                                `CSECachingMapperMixin.map_common_subexpression`) as a small
                                statement language: cache look-up, hit test, method look-up, handler
                                call, store, return — in the ORDER the source has them
    * `C05Stmt.exec`, `c05Run`  what such a body does on one call, for any handler family (`Spec`),
                                any cache state and any recursive dispatcher
    * `C05KeyItem`, `c05KeyVals` the tuple a key expression builds (`get_cache_key`, the mix-in's
                                `(expr, *args)`) and `c05TupleEq`, Python's `==` on such tuples
    * `C05Class`, `c05Resolve`  the caching classes with their MRO and which class body defines
                                which protocol attribute; Python attribute resolution along the MRO
    * `C05OptRow` …             what `optimize_mapper` really produced for an option set (the
                                rewritten source read back into `Code`), and what each transformer
                                class does to each dispatch expression of the model's syntax

  Nothing here knows the current source: every statement, key component, MRO and rewritten method
  comes from the table argument.  PV/Proofs/MemoTable.lean proves that for the regenerated tables
  these readings ARE the hand-written model (`callC`, `Key.eq`, `Key.cseEq`, `optimize`).
-/
namespace PV.Memo
open PV

/-! ## key expressions -/

/-- one component of a key tuple expression -/
inductive C05KeyItem where
  /-- `type(expr)` / `expr` / `args` / `immutabledict(kwargs)` -/
  | part (p : KeyPart)
  /-- `*args` (the positional arguments spliced into the tuple) -/
  | splatArgs
  deriving Repr, DecidableEq, Inhabited

/-- a method that computes a key: signature and returned tuple -/
structure C05KeyMethod where
  cls : String
  name : String
  sig : Sig
  items : List C05KeyItem
  deriving Repr, DecidableEq

/-- the values of the components of a key tuple for one dispatch -/
def c05KeyVals (k : Key) : List C05KeyItem → List KVal
  | [] => []
  | .part .ty :: r => .ty k.expr.typeTag :: c05KeyVals k r
  | .part .expr :: r => .expr k.expr :: c05KeyVals k r
  | .part .args :: r => .args k.args.args :: c05KeyVals k r
  | .part .kwargs :: r => .kwargs k.args.kwargs :: c05KeyVals k r
  | .splatArgs :: r => k.args.args.map (fun c => KVal.expr (.const c)) ++ c05KeyVals k r

/-- Python `==` of the key tuples two dispatches build from the same key expression -/
def c05TupleEq (items : List C05KeyItem) (a b : Key) : Bool :=
  tupleEq (c05KeyVals a items) (c05KeyVals b items)

/-! ## dispatch-method bodies -/

inductive C05Atom where
  | pyNone
  /-- a module-level name (the sentinel `_NOT_IN_CACHE`) -/
  | global (name : String)
  deriving Repr, DecidableEq, Inhabited

inductive C05Test where
  /-- `VAR is not ATOM` -/
  | isNot (var : String) (a : C05Atom)
  /-- `VAR is ATOM` -/
  | is (var : String) (a : C05Atom)
  /-- `VAR` used as a condition (truthiness) -/
  | truthy (var : String)
  /-- `not VAR` -/
  | falsy (var : String)
  deriving Repr, DecidableEq, Inhabited

inductive C05DictRef where
  /-- `self.ATTR` -/
  | selfAttr (attr : String)
  /-- a local variable bound to the dictionary -/
  | var (name : String)
  deriving Repr, DecidableEq, Inhabited

inductive C05Rhs where
  /-- `DICT.get(KEYVAR, DEFAULT)` or, with `walrus = some KEY`, `DICT.get((KEYVAR := KEY), DEFAULT)`;
  `default = none`: `DICT.get(…)` without a default (Python's `None`) -/
  | cacheGet (dict : C05DictRef) (keyVar : String) (walrus : Option KeyExpr) (default : Option String)
  /-- a literal key tuple, e.g. `(expr, *args)` -/
  | keyTuple (items : List C05KeyItem)
  /-- `getattr(expr, "mapper_method", None)` -/
  | mapperMethodName
  /-- `getattr(self, NAMEVAR, None)` -/
  | selfMethod (nameVar : String)
  /-- `FN(expr, *args, **kwargs)` for a local `FN` -/
  | callVar (fn : String) (star dstar : Bool)
  /-- `self.METH(expr, *args, **kwargs)` -/
  | callSelf (meth : String) (star dstar : Bool)
  deriving Repr, DecidableEq, Inhabited

inductive C05Stmt where
  | assign (var : String) (rhs : C05Rhs)
  /-- `if TEST: BODY else: ORELSE` -/
  | ifThen (t : C05Test) (body orelse : List C05Stmt)
  /-- `DICT[KEYVAR] = VALVAR` -/
  | store (dict : C05DictRef) (keyVar valVar : String)
  | ret (var : String)
  /-- `try: VAR = self.ATTR` / `except AttributeError: VAR = self.ATTR = {}` -/
  | lazyDict (var attr : String)
  /-- `try: return DICT[KEYVAR]` / `except KeyError: BODY` -/
  | tryIndexReturn (dict : C05DictRef) (keyVar : String) (onKeyError : List C05Stmt)
  deriving Repr, Inhabited

/-- a caching dispatch method as the source has it -/
structure C05Method where
  /-- class whose body defines it -/
  cls : String
  name : String
  sig : Sig
  body : List C05Stmt
  deriving Repr

/-! ### what a body does -/

/-- values of the local variables of a dispatch method -/
inductive C05Val (R : Type) where
  /-- the module-level sentinel object of that name -/
  | sentinel (g : String)
  | pyNone
  /-- a mapper result -/
  | res (r : R)
  /-- the cache key of this call -/
  | key
  /-- `expr.mapper_method` (a method name) -/
  | mname
  /-- the bound handler method -/
  | method
  /-- the dictionary `self.ATTR` -/
  | dict (attr : String)

abbrev C05Env (R : Type) := List (String × C05Val R)

def c05Get {R : Type} (v : String) : C05Env R → Option (C05Val R)
  | [] => none
  | (n, x) :: rest => if n = v then some x else c05Get v rest

/-- result of running (part of) a body -/
inductive C05Out (K X R : Type) where
  /-- the recursion ran out of fuel -/
  | fuel
  /-- the method returned / raised -/
  | done (a : Ans X R) (s : St K R)
  /-- control fell off the end of the statement list -/
  | fell (env : C05Env R) (s : St K R)
  /-- the body is not a program this reading gives a meaning to (unbound variable, a key that
  does not forward the arguments, …) -/
  | stuck

def C05Out.ofOption {K X R : Type} : Option (Ans X R × St K R) → C05Out K X R
  | none => .fuel
  | some (a, s) => .done a s

/-- everything one call of a dispatch method depends on -/
structure C05Ctx (K X R : Type) where
  S : Spec K X R
  /-- `self.rec` as seen by the handlers -/
  recur : K → St K R → Option (Ans X R × St K R)
  /-- the call: `(expr, args, kwargs)` -/
  k : K
  /-- `expr` has a `mapper_method` attribute / the mapper has a method of that name (otherwise the
  dispatch goes through `rec_fallback`) -/
  hasName : Bool
  hasMethod : Bool
  /-- Python truthiness / `is None` of results (only a body that tests them depends on these) -/
  falsy : R → Bool
  isNone : R → Bool
  /-- signature of the method being run -/
  sig : Sig
  /-- the instance attribute that is the cache of this layer -/
  dictAttr : String
  /-- the `self.METH(expr, …)` calls that run the handler of `expr` (`rec_fallback`; the mix-in's
  `map_common_subexpression_uncached`) -/
  entries : List String

variable {K X R : Type}

def c05DictOk (c : C05Ctx K X R) (env : C05Env R) : C05DictRef → Bool
  | .selfAttr a => a == c.dictAttr
  | .var v => match c05Get v env with
    | some (.dict a) => a == c.dictAttr
    | _ => false

/-- `VAL is ATOM` -/
def c05Is (c : C05Ctx K X R) : C05Val R → C05Atom → Bool
  | .sentinel g, .global g' => g == g'
  | .pyNone, .pyNone => true
  | .res r, .pyNone => c.isNone r
  | _, _ => false

def c05Truthy (c : C05Ctx K X R) : C05Val R → Bool
  | .pyNone => false
  | .res r => !c.falsy r
  | _ => true

def C05Test.eval (c : C05Ctx K X R) (env : C05Env R) : C05Test → Option Bool
  | .isNot v a => (c05Get v env).map fun x => !c05Is c x a
  | .is v a => (c05Get v env).map fun x => c05Is c x a
  | .truthy v => (c05Get v env).map fun x => c05Truthy c x
  | .falsy v => (c05Get v env).map fun x => !c05Truthy c x

/-- does a call forward exactly what the method received -/
def c05Fwd (c : C05Ctx K X R) (star dstar : Bool) : Bool :=
  star == c.sig.vararg && dstar == c.sig.kwarg

/-- run the handler of this call's expression -/
def c05Handler (c : C05Ctx K X R) (var : String) (env : C05Env R) (s : St K R) : C05Out K X R :=
  match interpC c.recur (c.S.h c.k) s with
  | none => .fuel
  | some (.error x, s') => .done (.error x) s'
  | some (.ok r, s') => .fell ((var, .res r) :: env) s'

/-- a dictionary look-up with this call's key: hashing may raise; the outcome is recorded in the
trace; `none` = absent -/
def c05Probe (c : C05Ctx K X R) (s : St K R) : Except X (Option R × St K R) :=
  match c.S.unhashable c.k with
  | some x => .error x
  | none =>
    match lookup c.S.keq c.k s.cache with
    | some r => .ok (some r, { s with trace := (true, c.k) :: s.trace })
    | none => .ok (none, { s with trace := (false, c.k) :: s.trace })

def C05Rhs.exec (c : C05Ctx K X R) (var : String) (env : C05Env R) (s : St K R) :
    C05Rhs → C05Out K X R
  | .cacheGet d kv walrus dflt =>
    if !c05DictOk c env d then .stuck else
    let env? : Option (C05Env R) := match walrus with
      | some (.getKeyCall st ds) => if c05Fwd c st ds then some ((kv, .key) :: env) else none
      | some (.tuple _) => none
      | none => match c05Get kv env with
        | some .key => some env
        | _ => none
    match env? with
    | none => .stuck
    | some env1 =>
      match c05Probe c s with
      | .error x => .done (.error x) s
      | .ok (some r, s1) => .fell ((var, .res r) :: env1) s1
      | .ok (none, s1) =>
        .fell ((var, match dflt with | some g => .sentinel g | none => .pyNone) :: env1) s1
  | .keyTuple _ => .fell ((var, .key) :: env) s
  | .mapperMethodName => .fell ((var, if c.hasName then .mname else .pyNone) :: env) s
  | .selfMethod nv =>
    match c05Get nv env with
    | some .mname => .fell ((var, if c.hasMethod then .method else .pyNone) :: env) s
    | _ => .stuck
  | .callVar fn st ds =>
    match c05Get fn env with
    | some .method => if c05Fwd c st ds then c05Handler c var env s else .stuck
    | _ => .stuck
  | .callSelf m st ds =>
    if c.entries.contains m && c05Fwd c st ds then c05Handler c var env s else .stuck

mutual
/-- one statement -/
def C05Stmt.exec (c : C05Ctx K X R) : C05Stmt → C05Env R → St K R → C05Out K X R
  | .assign v rhs, env, s => rhs.exec c v env s
  | .ifThen t body orelse, env, s =>
    match t.eval c env with
    | none => .stuck
    | some true => C05Stmt.execList c body env s
    | some false => C05Stmt.execList c orelse env s
  | .store d kv vv, env, s =>
    if !c05DictOk c env d then .stuck else
    match c05Get kv env, c05Get vv env with
    | some .key, some (.res r) =>
      .fell env { s with cache := (c.k, r) :: s.cache, log := c.k :: s.log }
    | _, _ => .stuck
  | .ret v, env, s =>
    match c05Get v env with
    | some (.res r) => .done (.ok r) s
    | _ => .stuck
  | .lazyDict v a, env, s => .fell ((v, .dict a) :: env) s
  | .tryIndexReturn d kv body, env, s =>
    if !c05DictOk c env d then .stuck else
    match c05Get kv env with
    | some .key =>
      match c05Probe c s with
      | .error x => .done (.error x) s
      | .ok (some r, s1) => .done (.ok r) s1
      | .ok (none, s1) => C05Stmt.execList c body env s1
    | _ => .stuck
/-- a statement list: stops at the first `return` / exception -/
def C05Stmt.execList (c : C05Ctx K X R) : List C05Stmt → C05Env R → St K R → C05Out K X R
  | [], env, s => .fell env s
  | st :: rest, env, s =>
    match C05Stmt.exec c st env s with
    | .fell env' s' => C05Stmt.execList c rest env' s'
    | o => o
end

/-- one call of a dispatch method (falling off the end returns Python's `None`, which is not a
mapper result: no meaning) -/
def c05Run (m : C05Method) (c : C05Ctx K X R) (s : St K R) : C05Out K X R :=
  match C05Stmt.execList { c with sig := m.sig } m.body [] s with
  | .fell _ _ => .stuck
  | o => o

/-! ## classes, MRO, attribute resolution -/

/-- a class that takes part in caching -/
structure C05Class where
  name : String
  module : String
  /-- `cls.__mro__` without `object`, own class first -/
  mro : List String
  /-- `cls.__init__`, followed through `Base.__init__(self, …)` / `super().__init__(…)` calls,
  reaches `CachedMapper.__init__` (which creates the per-instance `_cache`) -/
  initReachesCacheInit : Bool
  deriving Repr, DecidableEq, Inhabited

/-- which protocol attributes the BODY of a class defines, and the function each is bound to
(`Class.function` — `rec = __call__` is bound to `Class.__call__`) -/
structure C05Defines where
  cls : String
  attrs : List (String × String)
  deriving Repr, DecidableEq, Inhabited

def c05Assoc (n : String) : List (String × String) → Option String
  | [] => none
  | (m, v) :: rest => if m = n then some v else c05Assoc n rest

def c05DefinesOf (defs : List C05Defines) (cls : String) : List (String × String) :=
  match defs.find? (·.cls == cls) with
  | some d => d.attrs
  | none => []

/-- Python attribute look-up on a class: the first class of the MRO whose body defines it -/
def c05Resolve (defs : List C05Defines) (attr : String) : List String → Option String
  | [] => none
  | cls :: rest =>
    match c05Assoc attr (c05DefinesOf defs cls) with
    | some f => some f
    | none => c05Resolve defs attr rest

/-- a subclass `__call__` that only hands over to another class's `__call__`:
`def __call__(self, expr, P=DEFAULT, …, *args, **kwargs): return Target.__call__(…)` -/
structure C05CallOverride where
  cls : String
  /-- the function the override is (`module.Class.__call__`) -/
  fn : String
  /-- `Target.__call__` as written … -/
  target : String
  /-- … and the function that expression names in the override's module -/
  targetFn : String
  /-- the instance is passed as first argument (`Target.__call__(self, expr, …)`) -/
  passesSelf : Bool
  /-- parameters the override declares between `expr` and `*args`, with the source text of their
  defaults (`("prec", "PREC_NONE")`): they become leading positional arguments of the target -/
  extraParams : List (String × String)
  /-- after the optional instance the call passes `expr`, then exactly the extra parameters in
  declaration order, then `*args` and `**kwargs` as far as the override takes them — nothing else,
  nothing dropped -/
  forwardsAll : Bool
  deriving Repr, DecidableEq, Inhabited

/-- how a cache dictionary comes into being -/
structure C05DictInit where
  cls : String
  attr : String
  /-- created empty per instance (in `__init__` or lazily on first use) — not in the class body -/
  perInstanceEmpty : Bool
  deriving Repr, DecidableEq, Inhabited

/-! ## the optimizer, as run -/

/-- one application `optimize_mapper(**opts)(cls)`: the rewritten source read back -/
structure C05OptRow where
  opts : Opts
  keyArgs : Bool
  keyKwargs : Bool
  code : Code
  deriving Repr, DecidableEq

/-- one step of the per-method rewriting loop of `optimize_mapper`: the transformer class (or
`"signature"` for the in-line edit of the parameter list), the options passed to it, and the
condition it is applied under (`""` = always) -/
structure C05Pass where
  name : String
  options : List String
  guard : String
  deriving Repr, DecidableEq, Inhabited

/-- a transformer class run on one dispatch expression -/
structure C05DispRow where
  a : Bool
  b : Bool
  input : Disp
  output : Disp
  deriving Repr, DecidableEq

structure C05KeyInlineRow where
  body : List KeyPart
  input : Disp
  output : Disp
  deriving Repr, DecidableEq

/-- the dispatch expressions of the model's syntax the transformer classes are run on:
`self.rec(…)`, the in-line method look-up, and one cache look-up around either, for every
combination of forwarded `*args` / `**kwargs` and every key expression -/
def c05ProbeDisps : List Disp :=
  let bs := [true, false]
  let flat : List Disp := (bs.flatMap fun s => bs.map fun d => Disp.recCall s d) ++
    (bs.flatMap fun s => bs.map fun d => Disp.method s d)
  let keys : List KeyExpr := (bs.flatMap fun s => bs.map fun d => KeyExpr.getKeyCall s d) ++
    [.tuple [.ty, .expr], .tuple [.ty, .expr, .args, .kwargs]]
  flat ++ keys.flatMap fun k => flat.map fun i => Disp.cached k i

end PV.Memo
