import PV.Model.Eval
import PV.Model.Ops
/-
  C12.  Common-subexpression handling as coded in pymbolic/cse.py, pymbolic/primitives.py
  (`wrap_in_cse`, `make_common_subexpression`) and the evaluator's CSE result cache.

    `normalizedKey` : NormalizedKeyGetter.__call__
    `useCount`      : UseCountMapper (a WalkMapper whose `visit` counts keys and skips the children
                      of a key seen before; existing wrappers are handled by their own method)
    `cseMap`        : CSEMapper (IdentityMapper + the canonical-wrapper table `canonical_subexprs`)
    `tagAll`        : tag_common_subexpressions
    `wrapInCse`, `makeCse` : the two wrapping helpers (expression fragment; object arrays and
                      multivectors are covered by the harness only)
    `evalTr`        : EvaluationMapper with the CSE result cache, instrumented: the state is ONE
                      chronological event log; a `child w v` event is logged when the child of the
                      wrapper `w` has been computed (value `v`) and stored in `_cse_cache_dict`;
                      a `call` event when an environment function is invoked.  The cache is, by
                      construction, the `child` events of the log.
-/
namespace PV

inductive CseErr where
  | foreign        -- ValueError: invalid foreign object (str / None outside a slice)
  | unhashable     -- TypeError: unhashable type: 'list'
  deriving Repr, DecidableEq, Inhabited

def evalScope : String := "pymbolic_eval"

/-! ### Normalised keys -/

/-- `(type(expr), frozenset(kid_count.items()))` for sums and products, the expression otherwise -/
inductive CKey where
  | comm (op : NaryOp) (kids : List (Expr × Nat))
  | plain (e : Expr)
  deriving Inhabited

/-- `kid_count[child] = kid_count.get(child, 0) + 1` (dict keyed by Python `==`, insertion order) -/
def kidCountAdd (c : Expr) : List (Expr × Nat) → List (Expr × Nat)
  | [] => [(c, 1)]
  | (k, n) :: rest => if k.pyEq c then (k, n + 1) :: rest else (k, n) :: kidCountAdd c rest

def kidCountFrom (acc : List (Expr × Nat)) : List Expr → List (Expr × Nat)
  | [] => acc
  | c :: cs => kidCountFrom (kidCountAdd c acc) cs

def kidCount (cs : List Expr) : List (Expr × Nat) := kidCountFrom [] cs

def normalizedKey : Expr → CKey
  | .nary .sum cs => .comm .sum (kidCount cs)
  | .nary .prod cs => .comm .prod (kidCount cs)
  | e => .plain e

/-- every `(child, count)` item of `a` is an item of `b` -/
def kidsSubset (a b : List (Expr × Nat)) : Bool :=
  a.all fun p => b.any fun q => q.1.pyEq p.1 && q.2 == p.2

/-- Python `==` of two keys (tuple of class and frozenset / expression) -/
def CKey.eq : CKey → CKey → Bool
  | .comm o a, .comm o' b => o == o' && a.length == b.length && kidsSubset a b
  | .plain a, .plain b => a.pyEq b
  | _, _ => false

/-! ### UseCountMapper -/

abbrev Counts := List (CKey × Nat)

def Counts.find (k : CKey) : Counts → Option Nat
  | [] => none
  | (k', n) :: rest => if k'.eq k then some n else Counts.find k rest

/-- `d[key] += 1` for a key that is present -/
def Counts.incr (k : CKey) : Counts → Counts
  | [] => []
  | (k', n) :: rest => if k'.eq k then (k', n + 1) :: rest else (k', n) :: Counts.incr k rest

/-- `d[key] = n` -/
def Counts.set (k : CKey) (n : Nat) : Counts → Counts
  | [] => [(k, n)]
  | (k', m) :: rest => if k'.eq k then (k', n) :: rest else (k', m) :: Counts.set k n rest

/-- `UseCountMapper.visit`: returns whether to descend -/
def ucVisit (e : Expr) (cnt : Counts) : Except CseErr (Bool × Counts) :=
  if e.hasList then throw .unhashable          -- hashing the key raises
  else
    let key := normalizedKey e
    match cnt.find key with
    | some _ => pure (false, cnt.incr key)
    | none => pure (true, cnt ++ [(key, 1)])

def ucLeaf (e : Expr) (cnt : Counts) : Except CseErr Counts := do
  let (_, c) ← ucVisit e cnt
  pure c

mutual
def useCount : Expr → Counts → Except CseErr Counts
  | .const (.str _), _ => throw .foreign
  | .const .none, _ => throw .foreign
  | .const c, cnt => ucLeaf (.const c) cnt
  | .var x, cnt => ucLeaf (.var x) cnt
  | .nan, cnt => ucLeaf .nan cnt
  | .wildcard, cnt => ucLeaf .wildcard cnt
  | .dotWild n, cnt => ucLeaf (.dotWild n) cnt
  | .starWild n, cnt => ucLeaf (.starWild n) cnt
  | .funcSym, cnt => ucLeaf .funcSym cnt
  | .nary o cs, cnt => do
      let (go, c1) ← ucVisit (.nary o cs) cnt
      if go then useCountL cs c1 else pure c1
  | .bin .lshift a b, cnt => do               -- shift first, as coded
      let (go, c1) ← ucVisit (.bin .lshift a b) cnt
      if go then do
        let c2 ← useCount b c1
        useCount a c2
      else pure c1
  | .bin .rshift a b, cnt => do
      let (go, c1) ← ucVisit (.bin .rshift a b) cnt
      if go then do
        let c2 ← useCount b c1
        useCount a c2
      else pure c1
  | .bin o a b, cnt => do
      let (go, c1) ← ucVisit (.bin o a b) cnt
      if go then do
        let c2 ← useCount a c1
        useCount b c2
      else pure c1
  | .un o a, cnt => do
      let (go, c1) ← ucVisit (.un o a) cnt
      if go then useCount a c1 else pure c1
  | .cmp o a b, cnt => do
      let (go, c1) ← ucVisit (.cmp o a b) cnt
      if go then do
        let c2 ← useCount a c1
        useCount b c2
      else pure c1
  | .ite c t e, cnt => do
      let (go, c1) ← ucVisit (.ite c t e) cnt
      if go then do
        let c2 ← useCount c c1
        let c3 ← useCount t c2
        useCount e c3
      else pure c1
  | .call f as, cnt => do
      let (go, c1) ← ucVisit (.call f as) cnt
      if go then do
        let c2 ← useCount f c1
        useCountL as c2
      else pure c1
  | .callKw f as ns vs, cnt => do
      let (go, c1) ← ucVisit (.callKw f as ns vs) cnt
      if go then do
        let c2 ← useCount f c1
        let c3 ← useCountL as c2
        useCountL vs c3
      else pure c1
  | .subscript a i, cnt => do
      let (go, c1) ← ucVisit (.subscript a i) cnt
      if go then do
        let c2 ← useCount a c1
        useCount i c2
      else pure c1
  | .lookup a n, cnt => do
      let (go, c1) ← ucVisit (.lookup a n) cnt
      if go then useCount a c1 else pure c1
  | .cse c p s, cnt =>
      -- UseCountMapper.map_common_subexpression: no `visit`; the child is walked first
      if c.hasList then throw .unhashable
      else
        let key := normalizedKey (.cse c p s)
        match cnt.find key with
        | some _ => pure (cnt.incr key)
        | none => do
            let c1 ← useCount c cnt
            pure (c1.set key 1)
  | .subst c vs xs, cnt => do
      let (go, c1) ← ucVisit (.subst c vs xs) cnt
      if go then do
        let c2 ← useCount c c1
        useCountL xs c2
      else pure c1
  | .deriv c vs, cnt => do
      let (go, c1) ← ucVisit (.deriv c vs) cnt
      if go then useCount c c1 else pure c1
  | .slice cs, cnt => do
      let (go, c1) ← ucVisit (.slice cs) cnt
      if go then useCountSlice cs c1 else pure c1
  | .tuple cs, cnt => do
      let (go, c1) ← ucVisit (.tuple cs) cnt
      if go then useCountL cs c1 else pure c1
  | .list cs, cnt => do
      let (go, c1) ← ucVisit (.list cs) cnt
      if go then useCountL cs c1 else pure c1
def useCountL : List Expr → Counts → Except CseErr Counts
  | [], cnt => pure cnt
  | c :: cs, cnt => do
      let c1 ← useCount c cnt
      useCountL cs c1
/-- `map_slice`: `None` parts are skipped -/
def useCountSlice : List Expr → Counts → Except CseErr Counts
  | [], cnt => pure cnt
  | .const .none :: cs, cnt => useCountSlice cs cnt
  | c :: cs, cnt => do
      let c1 ← useCount c cnt
      useCountSlice cs c1
end

/-- `to_eliminate`: the keys counted more than once -/
def elimKeys (cnt : Counts) : List CKey := (cnt.filter fun p => decide (p.2 > 1)).map (·.1)

def inElim (elim : List CKey) (k : CKey) : Bool := elim.any fun k' => k'.eq k

/-! ### The wrapping helpers -/

/-- `wrap_in_cse(expr, prefix)` -/
def wrapInCse (e : Expr) (pfx : Option String) : Expr :=
  match e with
  | .var _ => e
  | .subscript _ _ => e
  | .cse c p _ =>
    match pfx with
    | none => e
    | some q => if p.isNone then .cse c (some q) evalScope else e      -- existing prefix wins
  | _ => .cse e pfx evalScope

/-- `make_common_subexpression(field, prefix, scope)` on a scalar field -/
def makeCse (e : Expr) (pfx : Option String) (scope : Option String) : Expr :=
  let fresh := if e.isConstant then e else .cse e pfx (scope.getD evalScope)
  match e with
  | .cse _ _ s =>
    if scope.isNone || scope == some evalScope || scope == some s then e   -- don't re-wrap
    else fresh
  | _ => fresh

/-! ### CSEMapper -/

abbrev Tbl := List (CKey × Expr)

def Tbl.find (k : CKey) : Tbl → Option Expr
  | [] => none
  | (k', w) :: rest => if k'.eq k then some w else Tbl.find k rest

/-- `canonical_subexprs[key] = w` -/
def Tbl.set (k : CKey) (w : Expr) : Tbl → Tbl
  | [] => [(k, w)]
  | (k', w') :: rest => if k'.eq k then (k', w) :: rest else (k', w') :: Tbl.set k w rest

/-- the node classes whose handler is `CSEMapper.map_sum` -/
def Expr.isCseOp : Expr → Bool
  | .nary .sum _ | .nary .prod _ => true
  | .bin .quot _ _ | .bin .floordiv _ _ | .bin .rem _ _ | .bin .pow _ _ => true
  | .call _ _ => true
  | _ => false

/-- what `CSEMapper.map_sum` decides before it descends -/
inductive OpMode where
  | plain                 -- not to be eliminated: IdentityMapper
  | hit (w : Expr)        -- canonical wrapper exists
  | miss (key : CKey)     -- to be eliminated, first occurrence
  deriving Inhabited

def opMode (elim : List CKey) (T : Tbl) (e : Expr) : Except CseErr OpMode :=
  if e.isCseOp then
    if e.hasList then throw .unhashable
    else
      let key := normalizedKey e
      if inElim elim key then
        match T.find key with
        | some w => pure (.hit w)
        | none => pure (.miss key)
      else pure .plain
  else pure .plain

/-- `get_cse` after the IdentityMapper rebuilt the node as `r` -/
def finishOp (m : OpMode) (r : Expr) (T : Tbl) : Expr × Tbl :=
  match m with
  | .miss key => let w := wrapInCse r none; (w, T.set key w)
  | _ => (r, T)

mutual
def cseMap (elim : List CKey) : Expr → Tbl → Except CseErr (Expr × Tbl)
  | .const (.str _), _ => throw .foreign
  | .const .none, _ => throw .foreign
  | .const c, T => pure (.const c, T)
  | .var x, T => pure (.var x, T)
  | .nan, T => pure (.nan, T)
  | .wildcard, T => pure (.wildcard, T)
  | .dotWild n, T => pure (.dotWild n, T)
  | .starWild n, T => pure (.starWild n, T)
  | .funcSym, T => pure (.funcSym, T)
  | .nary o cs, T => do
      match ← opMode elim T (.nary o cs) with
      | .hit w => pure (w, T)
      | m => do
        let (cs', T1) ← cseMapL elim cs T
        pure (finishOp m (.nary o cs') T1)
  | .bin o a b, T => do
      match ← opMode elim T (.bin o a b) with
      | .hit w => pure (w, T)
      | m => do
        let (a', T1) ← cseMap elim a T
        let (b', T2) ← cseMap elim b T1
        pure (finishOp m (.bin o a' b') T2)
  | .call f as, T => do
      match ← opMode elim T (.call f as) with
      | .hit w => pure (w, T)
      | m => do
        let (f', T1) ← cseMap elim f T
        let (as', T2) ← cseMapL elim as T1
        pure (finishOp m (.call f' as') T2)
  | .un o a, T => do
      let (a', T1) ← cseMap elim a T
      pure (.un o a', T1)
  | .cmp o a b, T => do
      let (a', T1) ← cseMap elim a T
      let (b', T2) ← cseMap elim b T1
      pure (.cmp o a' b', T2)
  | .ite c t e, T => do
      let (c', T1) ← cseMap elim c T
      let (t', T2) ← cseMap elim t T1
      let (e', T3) ← cseMap elim e T2
      pure (.ite c' t' e', T3)
  | .callKw f as ns vs, T => do
      let (f', T1) ← cseMap elim f T
      let (as', T2) ← cseMapL elim as T1
      let (vs', T3) ← cseMapL elim vs T2
      pure (.callKw f' as' ns vs', T3)
  | .subscript a i, T => do
      let (a', T1) ← cseMap elim a T
      let (i', T2) ← cseMap elim i T1
      pure (.subscript a' i', T2)
  | .lookup a n, T => do
      let (a', T1) ← cseMap elim a T
      pure (.lookup a' n, T1)
  | .cse c p _, T => do
      -- CSEMapper.map_common_subexpression: avoid CSE(CSE(..)); the scope is not kept
      let (r, T1) ← cseMap elim c T
      pure (wrapInCse r p, T1)
  | .subst c vs xs, T => do
      -- CSEMapper.map_substitution: the child is left alone
      let (xs', T1) ← cseMapL elim xs T
      pure (.subst c vs xs', T1)
  | .deriv c vs, T => do
      let (c', T1) ← cseMap elim c T
      pure (.deriv c' vs, T1)
  | .slice cs, T => do
      let (cs', T1) ← cseMapSlice elim cs T
      pure (.slice cs', T1)
  | .tuple cs, T => do
      let (cs', T1) ← cseMapL elim cs T
      pure (.tuple cs', T1)
  | .list cs, T => do
      let (cs', T1) ← cseMapL elim cs T
      pure (.list cs', T1)
def cseMapL (elim : List CKey) : List Expr → Tbl → Except CseErr (List Expr × Tbl)
  | [], T => pure ([], T)
  | c :: cs, T => do
      let (c', T1) ← cseMap elim c T
      let (cs', T2) ← cseMapL elim cs T1
      pure (c' :: cs', T2)
def cseMapSlice (elim : List CKey) : List Expr → Tbl → Except CseErr (List Expr × Tbl)
  | [], T => pure ([], T)
  | .const .none :: cs, T => do
      let (cs', T1) ← cseMapSlice elim cs T
      pure (.const .none :: cs', T1)
  | c :: cs, T => do
      let (c', T1) ← cseMap elim c T
      let (cs', T2) ← cseMapSlice elim cs T1
      pure (c' :: cs', T2)
end

/-- `tag_common_subexpressions(exprs)`: one use-count table and one mapper for the whole list -/
def tagAll (es : List Expr) : Except CseErr (List Expr) := do
  let cnt ← useCountL es []
  let (out, _) ← cseMapL (elimKeys cnt) es []
  pure out

/-! ### The evaluator with its CSE result cache, instrumented -/

inductive EvEvent where
  /-- the child of wrapper `w` was computed (value `v`) and stored in `_cse_cache_dict` -/
  | child (w : Expr) (v : Value)
  /-- the environment function `f` was invoked -/
  | call (f : String) (args : List Value) (kwNames : List String) (kwVals : List Value)
  deriving Inhabited

/-- newest event first -/
abbrev Log := List EvEvent

/-- `_cse_cache_dict` (newest entry first), read off the log -/
def cacheOf : Log → List (Expr × Value)
  | [] => []
  | .child w v :: rest => (w, v) :: cacheOf rest
  | _ :: rest => cacheOf rest

abbrev TrM (α : Type) := Log → Except Err α × Log

@[inline] def TrM.pure {α} (a : α) : TrM α := fun t => (.ok a, t)
@[inline] def TrM.throw {α} (e : Err) : TrM α := fun t => (.error e, t)
@[inline] def TrM.bind {α β} (x : TrM α) (f : α → TrM β) : TrM β := fun t =>
  match x t with
  | (.ok a, t') => f a t'
  | (.error e, t') => (.error e, t')
@[inline] def TrM.lift {α} (x : Except Err α) : TrM α := fun t => (x, t)

instance : Monad TrM where
  pure := TrM.pure
  bind := TrM.bind

/-- applying an evaluated callee: the call is logged iff a function is really invoked -/
def callTr (fv : Value) (args : List Value) (ns : List String) (kvs : List Value) : TrM Value :=
  fun t => match fv with
    | .func name => (fv.call args ns kvs, .call name args ns kvs :: t)
    | _ => (fv.call args ns kvs, t)

mutual
def evalTr (env : Env) : Expr → TrM Value
  | .const c => TrM.lift c.den
  | .var x => match env.get x with
    | some v => TrM.pure v
    | none => TrM.throw (.unknownVar x)
  | .nary .sum cs => evalTrFold env .sum (.int 0) cs
  | .nary .prod cs => evalTrFold env .prod (.int 1) cs
  | .nary .bor cs => evalTrReduce env .bor cs
  | .nary .bxor cs => evalTrReduce env .bxor cs
  | .nary .band cs => evalTrReduce env .band cs
  | .nary .lor cs => evalTrAny env cs
  | .nary .land cs => evalTrAll env cs
  | .nary .min cs => evalTrMinMax env true none cs
  | .nary .max cs => evalTrMinMax env false none cs
  | .bin o a b => do
      let x ← evalTr env a
      let y ← evalTr env b
      TrM.lift (o.apply x y)
  | .un .bnot a => do
      let x ← evalTr env a
      TrM.lift x.invert
  | .un .lnot a => do
      let x ← evalTr env a
      let t ← TrM.lift x.truthy
      TrM.pure (.bool (!t))
  | .cmp o a b => do
      let x ← evalTr env a
      let y ← evalTr env b
      TrM.lift (Value.cmp o x y)
  | .ite c t e => do
      let cv ← evalTr env c
      let tv ← TrM.lift cv.truthy
      if tv then evalTr env t else evalTr env e
  | .call f as => do
      let fv ← evalTr env f
      let avs ← evalTrList env as
      callTr fv avs [] []
  | .callKw f as ns vs => do
      let avs ← evalTrList env as
      let kvs ← evalTrList env vs
      let fv ← evalTr env f
      callTr fv avs ns kvs
  | .subscript a i => do
      let av ← evalTr env a
      let iv ← evalTr env i
      TrM.lift (av.index iv)
  | .lookup a n => do
      let av ← evalTr env a
      TrM.lift (av.getattr n)
  | .cse c p sc => fun t =>
      if c.hasList then (.error .typeError, t) else
      match findBy Expr.pyEq (.cse c p sc) (cacheOf t) with
      | some v => (.ok v, t)
      | none =>
        match evalTr env c t with
        | (.ok v, t') => (.ok v, .child (.cse c p sc) v :: t')
        | (.error err, t') => (.error err, t')
  | .subst .. => TrM.throw .unsupportedExpr
  | .deriv .. => TrM.throw .unsupportedExpr
  | .slice _ => TrM.throw .unsupportedExpr
  | .nan => TrM.pure .inexact
  | .wildcard => TrM.throw .notImplemented
  | .dotWild _ => TrM.throw .notImplemented
  | .starWild _ => TrM.throw .notImplemented
  | .funcSym => TrM.throw .notImplemented
  | .tuple cs => do
      let vs ← evalTrList env cs
      TrM.pure (.tuple vs)
  | .list cs => do
      let vs ← evalTrList env cs
      TrM.pure (.list vs)
def evalTrFold (env : Env) (o : NaryOp) (acc : Value) : List Expr → TrM Value
  | [] => TrM.pure acc
  | c :: cs => do
      let v ← evalTr env c
      let acc' ← TrM.lift (o.apply acc v)
      evalTrFold env o acc' cs
def evalTrReduce (env : Env) (o : NaryOp) : List Expr → TrM Value
  | [] => TrM.throw .typeError
  | c :: cs => do
      let v ← evalTr env c
      evalTrFold env o v cs
def evalTrAny (env : Env) : List Expr → TrM Value
  | [] => TrM.pure (.bool false)
  | c :: cs => do
      let v ← evalTr env c
      let t ← TrM.lift v.truthy
      if t then TrM.pure (.bool true) else evalTrAny env cs
def evalTrAll (env : Env) : List Expr → TrM Value
  | [] => TrM.pure (.bool true)
  | c :: cs => do
      let v ← evalTr env c
      let t ← TrM.lift v.truthy
      if t then evalTrAll env cs else TrM.pure (.bool false)
def evalTrMinMax (env : Env) (isMin : Bool) (cur : Option Value) : List Expr → TrM Value
  | [] => match cur with
    | some m => TrM.pure m
    | none => TrM.throw .valueError
  | c :: cs => do
      let v ← evalTr env c
      match cur with
      | none => evalTrMinMax env isMin (some v) cs
      | some m =>
        let better ← TrM.lift (Value.better isMin v m)
        evalTrMinMax env isMin (some (if better then v else m)) cs
def evalTrList (env : Env) : List Expr → TrM (List Value)
  | [] => TrM.pure []
  | c :: cs => do
      let v ← evalTr env c
      let vs ← evalTrList env cs
      TrM.pure (v :: vs)
end

/-- A history of calls on one (plain) evaluator instance: results, and the final log. -/
def runTr (env : Env) : List Expr → Log → List R × Log
  | [], t => ([], t)
  | e :: es, t =>
    let (r, t') := evalTr env e t
    let (rs, t'') := runTr env es t'
    (r :: rs, t'')

end PV
