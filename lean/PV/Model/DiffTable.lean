import PV.Model.Diff
/-
  C10, T-gen.  The shape of the table that `extract/differentiator.py` regenerates from the source
  of `pymbolic/mapper/differentiator.py` on every run (`PV/Generated/Diff.lean`), and its
  interpretation:

    * `C10Tm`            — the small expression language in which the code writes its derivative
                           trees (`make_f("cos")(*pars)`, `-f*dg/g**2`, `log(f) * f**g * dg`, …);
    * `c10TmEval`        — what such an expression builds, with the overloaded operators of `Ops`
                           (`pyBin`, `pyNeg`) in Python's evaluation order;
    * `c10FuncMapT`      — `map_math_functions_by_name` as the `if/elif` chain over the table;
    * `c10RuleEval`      — the `if (not df) and (not dg) … elif … else` chains of `map_quotient` /
                           `map_power`;
    * `diffG`            — the differentiator with the function table, the quotient and power
                           rules, the `If` gate, the answer of the CSE handler for a vanishing
                           child derivative and the leaf rules as PARAMETERS;
    * `c10DiffT T`       — `diffG` driven by a table `T`.

  `PV/Proofs/DiffTable.lean` proves `diffG c10ModelRules = diff` (once, independent of the table);
  `PV/Proofs/DiffTableCurrent.lean` proves that the regenerated table, interpreted, gives exactly
  the hand-written rules of `PV/Model/Diff.lean` (re-checked on every run).
-/
namespace PV

/-- the locals of `map_quotient` / `map_power`: the two children and their derivatives -/
inductive C10Slot where
  | f | g | df | dg
  deriving Repr, DecidableEq, Inhabited

/-- an argument written literally inside a call: an int literal or `pars[i]` -/
inductive C10Arg where
  | int (n : Int)
  | par (i : Nat)
  deriving Repr, DecidableEq, Inhabited

/-- expressions the differentiator's source builds derivative trees with -/
inductive C10Tm where
  | slot (s : C10Slot)                              -- a local: `f`, `g`, `df`, `dg`
  | recSlot (s : C10Slot)                           -- `self.rec(<local>, *args)` inside a result
  | int (n : Int)                                   -- int literal
  | par (i : Nat)                                   -- `pars[i]`
  | neg (a : C10Tm)                                 -- `-a`
  | bin (o : PyBinOp) (a b : C10Tm)                 -- `a <op> b`
  | varCall (name : String) (a : C10Tm)             -- `pymbolic.var(name)(a)`
  | mathCall (name : String)                        -- `make_f(name)(*pars)`
  | mathCallOn (name : String) (args : List C10Arg) -- `Call(Lookup(Variable("math"), name), (args…))`
  | quotientOne (b : C10Tm)                         -- `primitives.quotient(1, b)`
  deriving Repr, DecidableEq, Inhabited

/-- the body of one branch of `map_math_functions_by_name` -/
inductive C10FnBody where
  | ret (t : C10Tm)
  /-- `if allowed_nonsmoothness in allowed: return t  else: raise err` -/
  | gated (allowed : List Smooth) (t : C10Tm) (err : DiffErr)
  deriving Repr, DecidableEq, Inhabited

/-- `elif func == make_f(name) and len(pars) == arity: body` -/
structure C10FnEntry where
  name : String
  arity : Nat
  body : C10FnBody
  deriving Repr, DecidableEq, Inhabited

/-- `if <all listed locals falsy>: return t … else: return otherwise` -/
structure C10BinRule where
  branches : List (List C10Slot × C10Tm)
  otherwise : C10Tm
  deriving Repr, DecidableEq, Inhabited

/-- what the extractor recognised a handler (or helper) of the class to be; these descriptors are
not interpreted but compared with `c10ModelShapes`, the shapes `diff` / `diffC` implement -/
inductive C10Shape where
  /-- `return expr` -/
  | identity
  /-- `return <int literal>` (the literal is `constVal`) -/
  | const
  /-- `if expr == self.variable: return <int> else: return <int>` (`varHit`, `varMiss`) -/
  | eqVar
  /-- class-level `name = other_handler` -/
  | aliasOf (h : String)
  /-- `flattened_sum(self.rec(c) for c in expr.<fld>)` -/
  | sumRec (fld : String)
  /-- `flattened_sum(flattened_product([rec_undiff(ch) for ch in expr.<fld>[0:i]] + [self.rec(c)]
      + [rec_undiff(ch) for ch in expr.<fld>[i+1:]]) for i, c in enumerate(expr.<fld>))` -/
  | sumSplitProd (fld : String)
  /-- `flattened_sum(self.function_map(i, expr.<fn>, rec_undiff(expr.<pars>),
      allowed_nonsmoothness=self.allowed_nonsmoothness) * self.rec(p)
      for i, p in enumerate(expr.<pars>))` -/
  | sumFnTimesRec (fnFld parsFld : String)
  /-- `f = expr.<fFld>; g = expr.<gFld>;` the `self.rec` calls on the locals listed in `recOrder`
      (in that order), `rec_undiff` on both, `varFns` = the `pymbolic.var(..)` helpers bound, then
      the branch chain (`quot` / `pow` of the table) -/
  | binRule (fFld gFld : String) (recOrder : List C10Slot) (varFns : List String)
  /-- `[if self.allowed_nonsmoothness != …: raise …]  return type(expr)(part, …)`; a part is
      `(differentiated?, field)` -/
  | rebuild (gated : Bool) (parts : List (Bool × String))
  /-- `result = self.rec(expr.<fld>, *args)`; `if primitives.is_zero(result): return <int literal>`
      (the literal is `cseZero`); `return type(expr)(part, …)` where the part `(true, fld)` is the
      local `result` -/
  | rebuildUnlessZero (parts : List (Bool × String))
  /-- `differentiate`: a `variable` that is no instance of the listed classes goes through
      `make_variable`; default setting -/
  | entryPoint (varClasses : List String) (defaultSetting : String)
  /-- a handler for objects outside the tree model (`map_polynomial`, `map_numpy_array`) -/
  | unmodelled
  deriving Repr, DecidableEq, Inhabited

/-- everything `extract/differentiator.py` reads -/
structure C10DiffTable where
  /-- `make_f`: the module name in `Lookup(Variable(<module>), name)` -/
  fnModule : String
  fns : List C10FnEntry
  /-- the final `else: raise …` of the table -/
  fnElse : DiffErr
  constVal : Int
  varHit : Int
  varMiss : Int
  quot : C10BinRule
  pow : C10BinRule
  /-- `map_if`: settings that pass the gate, and the error raised otherwise -/
  ifGate : List Smooth × DiffErr
  /-- `map_common_subexpression_uncached`: `some n` — a child derivative that `primitives.is_zero`
  accepts is answered by the int literal `n` instead of a wrapper around it; `none` — the handler
  wraps unconditionally -/
  cseZero : Option Int
  /-- `__init__`: the accepted `allowed_nonsmoothness` strings, and what `None` stands for -/
  settings : List String
  noneSetting : String
  bases : List String
  /-- every handler / helper defined in the class body (source order), then `differentiate` -/
  shapes : List (String × C10Shape)
  deriving Repr, DecidableEq, Inhabited

/-! ### interpretation -/

/-- the values of the locals -/
structure C10Env where
  /-- `make_f`: the module name in `Lookup(Variable(<module>), name)` -/
  modName : String := "math"
  pars : List Expr := []
  f : Expr := zero
  g : Expr := zero
  df : Expr := zero
  dg : Expr := zero

def C10Env.slot (ρ : C10Env) : C10Slot → Expr
  | .f => ρ.f | .g => ρ.g | .df => ρ.df | .dg => ρ.dg

def c10MathF (modName name : String) : Expr := .lookup (.var modName) name

def c10ArgEval (pars : List Expr) : C10Arg → DiffR
  | .int n => pure (.const (.int n))
  | .par i => match pars[i]? with
    | some p => pure p
    | Option.none => throw (.op .noClaim)

def c10ArgsEval (pars : List Expr) : List C10Arg → Except DiffErr (List Expr)
  | [] => pure []
  | a :: as => do
      let x ← c10ArgEval pars a
      let xs ← c10ArgsEval pars as
      pure (x :: xs)

/-- what an expression of the source builds; operands left to right, as Python evaluates them.
`self.rec(f)` inside a result is the derivative already computed (`df`): the pure rules have no
state, and `diffC` — the version with the CSE cache — performs the second call
(`PV.C10.differentiate_eq_diff` shows that the answers agree). -/
def c10TmEval (ρ : C10Env) : C10Tm → DiffR
  | .slot s => pure (ρ.slot s)
  | .recSlot .f => pure ρ.df
  | .recSlot .g => pure ρ.dg
  | .recSlot _ => throw (.op .noClaim)
  | .int n => pure (.const (.int n))
  | .par i => match ρ.pars[i]? with
    | some p => pure p
    | Option.none => throw (.op .noClaim)
  | .neg a => do
      let x ← c10TmEval ρ a
      liftOp (pyNeg x)
  | .bin o a b => do
      let x ← c10TmEval ρ a
      let y ← c10TmEval ρ b
      liftOp (pyBin o x y)
  | .varCall n a => do
      let x ← c10TmEval ρ a
      pure (.call (.var n) [x])
  | .mathCall n => pure (.call (c10MathF ρ.modName n) ρ.pars)
  | .mathCallOn n args => do
      let xs ← c10ArgsEval ρ.pars args
      pure (.call (c10MathF ρ.modName n) xs)
  | .quotientOne b => do
      let x ← c10TmEval ρ b
      quotientOne x

/-- `func == make_f(name)` -/
def c10IsMathF (modName : String) (f : Expr) (name : String) : Bool :=
  match f with
  | .lookup (.var m) n => m == modName && n == name
  | _ => false

def c10FnBodyEval (modName : String) (cfg : Smooth) (pars : List Expr) : C10FnBody → DiffR
  | .ret t => c10TmEval { modName := modName, pars := pars } t
  | .gated allowed t err =>
      if allowed.contains cfg then c10TmEval { modName := modName, pars := pars } t else throw err

/-- the `if/elif` chain of `map_math_functions_by_name` -/
def c10FuncMapT (modName : String) (fnElse : DiffErr) (cfg : Smooth) (f : Expr)
    (pars : List Expr) : List C10FnEntry → DiffR
  | [] => throw fnElse
  | e :: rest =>
      if c10IsMathF modName f e.name && pars.length == e.arity then
        c10FnBodyEval modName cfg pars e.body
      else c10FuncMapT modName fnElse cfg f pars rest

def c10BranchEval (ρ : C10Env) (otherwise : C10Tm) : List (List C10Slot × C10Tm) → DiffR
  | [] => c10TmEval ρ otherwise
  | (falsy, t) :: rest =>
      if falsy.all (fun s => !(ρ.slot s).truthy) then c10TmEval ρ t
      else c10BranchEval ρ otherwise rest

/-- `map_quotient` / `map_power` after the two recursive calls -/
def c10RuleEval (r : C10BinRule) (f g df dg : Expr) : DiffR :=
  c10BranchEval { f := f, g := g, df := df, dg := dg } r.otherwise r.branches

/-- the `self.rec(..)` calls written inside the results of a rule, per branch (`otherwise` last) -/
def C10Tm.recSlots : C10Tm → List C10Slot
  | .recSlot s => [s]
  | .neg a => a.recSlots
  | .bin _ a b => a.recSlots ++ b.recSlots
  | .varCall _ a => a.recSlots
  | .quotientOne b => b.recSlots
  | _ => []

def C10BinRule.recalls (r : C10BinRule) : List (List C10Slot) :=
  r.branches.map (fun b => b.2.recSlots) ++ [r.otherwise.recSlots]

/-! ### the differentiator with its tables as parameters -/

/-- the parts of the differentiator that the regenerated table determines -/
structure C10Rules where
  /-- `map_math_functions_by_name(i, f, pars, allowed_nonsmoothness=cfg)` -/
  fm : Smooth → Expr → List Expr → DiffR
  /-- `map_quotient` after the recursive calls: `f g df dg` -/
  quot : Expr → Expr → Expr → Expr → DiffR
  pow : Expr → Expr → Expr → Expr → DiffR
  /-- `map_if`: the error for a setting that does not pass the gate -/
  ifErr : Smooth → Option DiffErr
  /-- `map_common_subexpression_uncached`: what a vanishing (`is_zero`) child derivative is
  answered with (`none`: wrapped like any other) -/
  cseZero : Option Expr
  constD : Expr
  varHit : Expr
  varMiss : Expr

/-- `map_common_subexpression_uncached` after the recursive call -/
def c10CseRule (z : Option Expr) (d : Expr) (p : Option String) (s : String) : Expr :=
  match z with
  | some z => if d.isZero then z else .cse d p s
  | Option.none => .cse d p s

mutual
/-- `diff` (PV/Model/Diff.lean) with the table-determined parts taken from `R` -/
def diffG (R : C10Rules) (cfg : Smooth) (v : Expr) : Expr → DiffR
  | .const c => if (Expr.const c).isConstant then pure R.constD else throw .valueError
  | .var n => pure (if (Expr.var n).pyEq v then R.varHit else R.varMiss)
  | .subscript a i =>
      if subscriptEqRaises (.subscript a i) v then throw .typeError
      else pure (if (Expr.subscript a i).pyEq v then R.varHit else R.varMiss)
  | .nary .sum cs => do
      let ds ← diffGL R cfg v cs
      pure (flattenedSum ds)
  | .nary .prod cs =>
      if prodHasExoticL cs then throw (.op .noClaim)
      else do
        let ts ← diffGProd R cfg v [] cs
        pure (flattenedSum ts)
  | .nary _ _ => throw .unsupported
  | .bin .quot f g => do
      let df ← diffG R cfg v f
      let dg ← diffG R cfg v g
      R.quot f g df dg
  | .bin .pow f g => do
      let df ← diffG R cfg v f
      let dg ← diffG R cfg v g
      R.pow f g df dg
  | .bin _ _ _ => throw .unsupported
  | .un _ _ => throw .unsupported
  | .cmp _ _ _ => throw .unsupported
  | .ite c t e =>
      match R.ifErr cfg with
      | Option.none => do
        let dt ← diffG R cfg v t
        let de ← diffG R cfg v e
        pure (.ite c dt de)
      | some err => throw err
  | .call f pars =>
      match pars with
      | [] => pure zero
      | p :: ps => do
        let fm ← R.fm cfg f (p :: ps)
        let ts ← diffGCall R cfg v fm (p :: ps)
        pure (flattenedSum ts)
  | .callKw _ _ _ _ => throw .notImplemented
  | .lookup _ _ => throw .notImplemented
  | .cse c p s =>
      if c.hasList then throw .typeError
      else do
        let d ← diffG R cfg v c
        pure (c10CseRule R.cseZero d p s)
  | .subst _ _ _ => throw .unsupported
  | .deriv _ _ => throw .unsupported
  | .slice _ => throw .unsupported
  | .nan => throw .notImplemented
  | .wildcard => throw .notImplemented
  | .dotWild _ => throw .notImplemented
  | .starWild _ => throw .notImplemented
  | .funcSym => throw .notImplemented
  | .tuple _ => throw .notImplemented
  | .list _ => throw .notImplemented
def diffGL (R : C10Rules) (cfg : Smooth) (v : Expr) : List Expr → Except DiffErr (List Expr)
  | [] => pure []
  | c :: cs => do
      let d ← diffG R cfg v c
      let ds ← diffGL R cfg v cs
      pure (d :: ds)
def diffGProd (R : C10Rules) (cfg : Smooth) (v : Expr) (pre : List Expr) :
    List Expr → Except DiffErr (List Expr)
  | [] => pure []
  | c :: cs => do
      let d ← diffG R cfg v c
      let ts ← diffGProd R cfg v (pre ++ [c]) cs
      pure (flattenedProduct (pre ++ d :: cs) :: ts)
def diffGCall (R : C10Rules) (cfg : Smooth) (v : Expr) (fm : Expr) :
    List Expr → Except DiffErr (List Expr)
  | [] => pure []
  | p :: ps => do
      let d ← diffG R cfg v p
      let t ← liftOp (pyBin .mul fm d)
      let ts ← diffGCall R cfg v fm ps
      pure (t :: ts)
end

/-- the hand-written rules of `PV/Model/Diff.lean` -/
def c10ModelRules : C10Rules where
  fm := funcMap
  quot := fun f g df dg => liftOp (quotRule f g df dg)
  pow := fun f g df dg => liftOp (powRule f g df dg)
  ifErr := fun cfg => if cfg = .discontinuous then Option.none else some .valueError
  cseZero := some zero
  constD := zero
  varHit := one
  varMiss := zero

/-- the rules a table denotes -/
def c10RulesOf (T : C10DiffTable) : C10Rules where
  fm := fun cfg f pars => c10FuncMapT T.fnModule T.fnElse cfg f pars T.fns
  quot := c10RuleEval T.quot
  pow := c10RuleEval T.pow
  ifErr := fun cfg => if T.ifGate.1.contains cfg then Option.none else some T.ifGate.2
  cseZero := T.cseZero.map fun n => .const (.int n)
  constD := .const (.int T.constVal)
  varHit := .const (.int T.varHit)
  varMiss := .const (.int T.varMiss)

/-- **the table-driven differentiator** -/
def c10DiffT (T : C10DiffTable) : Smooth → Expr → Expr → DiffR := diffG (c10RulesOf T)

/-- the handler shapes that `diff` / `diffC` implement (what `Generated.c10DiffTable.shapes` must
be): which children each handler differentiates and how it combines them, the order of the
recursive calls, the helpers it binds. -/
def c10ModelShapes : List (String × C10Shape) := [
  ("rec_undiff", .identity),
  ("map_constant", .const),
  ("map_variable", .eqVar),
  ("map_call", .sumFnTimesRec "function" "parameters"),
  ("map_subscript", .aliasOf "map_variable"),
  ("map_sum", .sumRec "children"),
  ("map_product", .sumSplitProd "children"),
  ("map_quotient", .binRule "numerator" "denominator" [.f, .g] []),
  ("map_power", .binRule "base" "exponent" [.f, .g] ["log"]),
  ("map_polynomial", .unmodelled),
  ("map_numpy_array", .unmodelled),
  ("map_if", .rebuild true [(false, "condition"), (true, "then"), (true, "else_")]),
  ("map_common_subexpression_uncached",
    .rebuildUnlessZero [(true, "child"), (false, "prefix"), (false, "scope")]),
  ("differentiate", .entryPoint ["Variable", "Subscript"] "none")]

end PV
