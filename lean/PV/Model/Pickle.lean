import PV.Model.Traverse
import PV.Proofs.PyEqEquiv
/-
  C17 — pickling, the per-process hash cache, and the persistent-hash digest.

  (`PV.Proofs.PyEqEquiv` is Mathlib-free; it is imported for `HashParams`, the abstract hash
  functions of one interpreter process.)

  Objects.  A Python object graph in tree form (`Obj`): builtin atoms, tuples, lists, keyword
  mappings and *instances* of expression classes.  An instance is (class name, kind of class, field
  values in dataclass-field / init-arg order, the `_hash_value` slot of its `__dict__`).  Every
  instance at every depth has its own slot: `hash(Sum((x, y)))` also caches `hash(x)` in `x`.
  The same type covers the stock node classes (`ofExpr`), user node types declared with
  `@expr_dataclass()` and legacy init-arg subclasses: the generated methods are the same text for
  every class (pymbolic/primitives.py:_augment_expression_dataclass).

  Processes.  A process is a `HashParams`: `str` differs between processes (PYTHONHASHSEED),
  `num` is value-based.  Nothing else of a process enters `hash`.

  Operations as coded:
    `hashC`     generated `__hash__` / `Expression.__hash__`: return the slot if set, otherwise hash
                the field tuple (recursively through the same method) and set the slot
    `eqC`       generated `__eq__` / `Expression.__eq__`: identity, class test, HASH COMPARISON
                (`if hash(self) != hash(other): return False`), then field-wise `==`
    `memberC`   `x in {y}` / `x in {y: 1}`: hashes of both, then `y == x`
    `pickle`    `__reduce_ex__` with the generated `__getstate__`: the state is the field tuple ONLY
    `unpickle`  `cls.__new__` + generated `__setstate__`: sets the fields, nothing else
    `pickleNaive/unpickleNaive`  what default pickling (state = `__dict__`) would do; only used to
                show what the theorems exclude
  and histories of these over a pool of objects in a producer process followed by a consumer
  process (`crossRun`).

  Digest.  `digest e` is the sequence of byte strings `PersistentHashWalkMapper` feeds to its
  `key_hash` (pymbolic/mapper/persistent_hash.py on top of `WalkMapper`).
-/
namespace PV.Pickle
open PV

/-- which `__eq__`/`__hash__` an instance's class has -/
inductive Kind where
  /-- declared with `@expr_dataclass()`: generated methods, dataclass paths -/
  | dataclass
  /-- non-dataclass subclass of a dataclass class: generated methods, `get_hash`/`is_equal` paths -/
  | legacySub
  /-- init-arg subclass of `Expression` itself: `Expression.__eq__`, `Expression.__hash__` -/
  | legacy
  deriving Repr, DecidableEq, Inhabited

inductive Obj where
  | atom (c : Const)
  | tuple (xs : List Obj)
  | list (xs : List Obj)
  /-- keyword mapping (`immutabledict`), insertion order -/
  | dict (ks : List String) (vs : List Obj)
  | inst (cls : String) (kind : Kind) (fields : List Obj) (cache : Option Nat)
  deriving Repr, Inhabited

/-! ### Embedding of the stock node classes: class name and dataclass fields in order -/

def strAtom (s : String) : Obj := .atom (.str s)

mutual
def ofExpr : Expr → Obj
  | .const c => .atom c
  | .var n => .inst "Variable" .dataclass [strAtom n] none
  | .nary o cs => .inst o.name .dataclass [.tuple (ofExprL cs)] none
  | .bin o a b => .inst o.name .dataclass [ofExpr a, ofExpr b] none
  | .un o a => .inst o.name .dataclass [ofExpr a] none
  | .cmp o a b => .inst "Comparison" .dataclass [ofExpr a, strAtom o.sym, ofExpr b] none
  | .ite c t e => .inst "If" .dataclass [ofExpr c, ofExpr t, ofExpr e] none
  | .call f as => .inst "Call" .dataclass [ofExpr f, .tuple (ofExprL as)] none
  | .callKw f as ns vs =>
      .inst "CallWithKwargs" .dataclass [ofExpr f, .tuple (ofExprL as), .dict ns (ofExprL vs)] none
  | .subscript a i => .inst "Subscript" .dataclass [ofExpr a, ofExpr i] none
  | .lookup a n => .inst "Lookup" .dataclass [ofExpr a, strAtom n] none
  | .cse c p s =>
      .inst "CommonSubexpression" .dataclass
        [ofExpr c, (match p with | some p => strAtom p | none => .atom .none), strAtom s] none
  | .subst c vs xs =>
      .inst "Substitution" .dataclass [ofExpr c, .tuple (vs.map strAtom), .tuple (ofExprL xs)] none
  | .deriv c vs => .inst "Derivative" .dataclass [ofExpr c, .tuple (vs.map strAtom)] none
  | .slice cs => .inst "Slice" .dataclass [.tuple (ofExprL cs)] none
  | .nan => .inst "NaN" .dataclass [.atom .none] none          -- field `data_type` (default None)
  | .wildcard => .inst "Wildcard" .dataclass [] none
  | .dotWild n => .inst "DotWildcard" .dataclass [strAtom n] none
  | .starWild n => .inst "StarWildcard" .dataclass [strAtom n] none
  | .funcSym => .inst "FunctionSymbol" .dataclass [] none
  | .tuple cs => .tuple (ofExprL cs)
  | .list cs => .list (ofExprL cs)
def ofExprL : List Expr → List Obj
  | [] => []
  | c :: cs => ofExpr c :: ofExprL cs
end

/-! ### Cache slots -/

mutual
/-- the same object graph with every `_hash_value` slot empty: the fields, and nothing else -/
def Obj.erase : Obj → Obj
  | .atom c => .atom c
  | .tuple xs => .tuple (Obj.eraseL xs)
  | .list xs => .list (Obj.eraseL xs)
  | .dict ks vs => .dict ks (Obj.eraseL vs)
  | .inst c k fs _ => .inst c k (Obj.eraseL fs) none
def Obj.eraseL : List Obj → List Obj
  | [] => []
  | x :: xs => x.erase :: Obj.eraseL xs
end

mutual
/-- no instance at any depth has its `_hash_value` set -/
def Obj.noCache : Obj → Bool
  | .atom _ => true
  | .tuple xs => Obj.noCacheL xs
  | .list xs => Obj.noCacheL xs
  | .dict _ vs => Obj.noCacheL vs
  | .inst _ _ fs h => h.isNone && Obj.noCacheL fs
def Obj.noCacheL : List Obj → Bool
  | [] => true
  | x :: xs => x.noCache && Obj.noCacheL xs
end

mutual
/-- observable cache state: for every instance in preorder, is `_hash_value` in its `__dict__`? -/
def Obj.bits : Obj → List Bool
  | .atom _ => []
  | .tuple xs => Obj.bitsL xs
  | .list xs => Obj.bitsL xs
  | .dict _ vs => Obj.bitsL vs
  | .inst _ _ fs h => h.isSome :: Obj.bitsL fs
def Obj.bitsL : List Obj → List Bool
  | [] => []
  | x :: xs => x.bits ++ Obj.bitsL xs
end

mutual
def Obj.hasList : Obj → Bool
  | .atom _ => false
  | .tuple xs => Obj.hasListL xs
  | .list _ => true
  | .dict _ vs => Obj.hasListL vs
  | .inst _ _ fs _ => Obj.hasListL fs
def Obj.hasListL : List Obj → Bool
  | [] => false
  | x :: xs => x.hasList || Obj.hasListL xs
end

/-! ### Hashing -/

/-- the tuple an instance hashes: `hash((f1, …, fn))` on the dataclass path,
`hash((type(self).__name__, *initargs))` (`get_hash`) on the legacy paths -/
def instHash (P : HashParams) (cls : String) (k : Kind) (hs : List Nat) : Nat :=
  match k with
  | .dataclass => P.tuple "tuple" hs
  | _ => P.tuple "tuple" (P.str cls :: hs)

mutual
/-- what `hash` returns in process `P` for a freshly built object with these fields (slots are
ignored) -/
def Obj.hash (P : HashParams) : Obj → Nat
  | .atom c => c.hash P
  | .tuple xs => P.tuple "tuple" (Obj.hashL P xs)
  | .list xs => P.tuple "list" (Obj.hashL P xs)          -- (really a TypeError: see `hasList`)
  | .dict ks vs => P.mapping ((ks.map P.str).zip (Obj.hashL P vs))
  | .inst c k fs _ => instHash P c k (Obj.hashL P fs)
def Obj.hashL (P : HashParams) : List Obj → List Nat
  | [] => []
  | x :: xs => x.hash P :: Obj.hashL P xs
end

mutual
/-- `hash(obj)` as coded: the hash, and the object afterwards (slots filled on the way) -/
def Obj.hashC (P : HashParams) : Obj → Nat × Obj
  | .atom c => (c.hash P, .atom c)
  | .tuple xs => let r := Obj.hashCL P xs; (P.tuple "tuple" r.1, .tuple r.2)
  | .list xs => let r := Obj.hashCL P xs; (P.tuple "list" r.1, .list r.2)
  | .dict ks vs => let r := Obj.hashCL P vs; (P.mapping ((ks.map P.str).zip r.1), .dict ks r.2)
  | .inst c k fs (some h) => (h, .inst c k fs (some h))          -- `return self._hash_value`
  | .inst c k fs none =>
      let r := Obj.hashCL P fs
      let h := instHash P c k r.1
      (h, .inst c k r.2 (some h))                                -- `object.__setattr__(self, "_hash_value", …)`
def Obj.hashCL (P : HashParams) : List Obj → List Nat × List Obj
  | [] => ([], [])
  | x :: xs =>
      let r := x.hashC P
      let rs := Obj.hashCL P xs
      (r.1 :: rs.1, r.2 :: rs.2)
end

mutual
/-- every slot that is set holds the hash of its object IN PROCESS `P` -/
def Obj.coherent (P : HashParams) : Obj → Prop
  | .atom _ => True
  | .tuple xs => Obj.coherentL P xs
  | .list xs => Obj.coherentL P xs
  | .dict _ vs => Obj.coherentL P vs
  | .inst c k fs h => (∀ v, h = some v → v = instHash P c k (Obj.hashL P fs)) ∧ Obj.coherentL P fs
def Obj.coherentL (P : HashParams) : List Obj → Prop
  | [] => True
  | x :: xs => x.coherent P ∧ Obj.coherentL P xs
end

/-! ### Equality -/

def assocLookupO (k : String) : List String → List Obj → Option Obj
  | n :: ns, v :: vs => if n = k then some v else assocLookupO k ns vs
  | _, _ => none

mutual
/-- field-wise Python `==` (slots play no role) -/
def Obj.pyEq : Obj → Obj → Bool
  | .atom c, .atom d => c.pyEq d
  | .tuple xs, .tuple ys => Obj.pyEqL xs ys
  | .list xs, .list ys => Obj.pyEqL xs ys
  | .dict ks vs, .dict ks' vs' => ks.length == ks'.length && Obj.pyEqKw ks vs ks' vs'
  | .inst c k fs _, .inst c' k' fs' _ => c == c' && k == k' && Obj.pyEqL fs fs'
  | _, _ => false
def Obj.pyEqL : List Obj → List Obj → Bool
  | [], [] => true
  | a :: as, b :: bs => Obj.pyEq a b && Obj.pyEqL as bs
  | _, _ => false
def Obj.pyEqKw : List String → List Obj → List String → List Obj → Bool
  | n :: ns, v :: vs, ms, ws =>
      (match assocLookupO n ms ws with
       | some w => Obj.pyEq v w
       | none => false) && Obj.pyEqKw ns vs ms ws
  | _, _, _, _ => true
end

/-- `a == b` for two DISTINCT objects as coded; returns the answer and both objects afterwards.
After the two `hash` calls every instance that is not below an already cached one has its slot
set, so in every state reachable from freshly built objects the nested comparisons only read
slots: they are modelled by the pure `pyEqL`. -/
def eqC (P : HashParams) (a b : Obj) : Bool × Obj × Obj :=
  match a, b with
  | .inst c .legacy fs h, b =>
      -- Expression.__eq__: `hash(self) != hash(other)` first, then `is_equal`
      let ra := (Obj.inst c .legacy fs h).hashC P
      let rb := b.hashC P
      if ra.1 != rb.1 then (false, ra.2, rb.2)
      else ((Obj.inst c .legacy fs h).pyEq b, ra.2, rb.2)
  | .inst c k fs h, .inst c' k' fs' h' =>
      -- generated __eq__: `self.__class__ is not other.__class__` first
      if c != c' || k != k' then (false, a, b)
      else
        let ra := (Obj.inst c k fs h).hashC P
        let rb := (Obj.inst c' k' fs' h').hashC P
        if ra.1 != rb.1 then (false, ra.2, rb.2)
        else (Obj.pyEqL fs fs', ra.2, rb.2)
  | .inst .., _ => (false, a, b)
  | _, _ => (a.pyEq b, a, b)          -- builtin containers at top level: not exercised

/-- `x in {y}` / `x in {y: 1}` for distinct objects: the container hashes `y`, the lookup hashes
`x`, compares the hashes, then asks `y == x` -/
def memberC (P : HashParams) (x y : Obj) : Bool × Obj × Obj :=
  let ry := y.hashC P
  let rx := x.hashC P
  if rx.1 != ry.1 then (false, rx.2, ry.2)
  else
    let r := eqC P ry.2 rx.2
    (r.1, r.2.2, r.2.1)

/-! ### Pickling -/

/-- a pickle, as the tree of objects it describes -/
inductive Pk where
  | atom (c : Const)
  | tuple (xs : List Pk)
  | list (xs : List Pk)
  | dict (ks : List String) (vs : List Pk)
  /-- `copyreg.__newobj__(cls)` (protocols 0/1: `copyreg._reconstructor`), then BUILD `state` -/
  | obj (cls : String) (kind : Kind) (state : Pk)
  deriving Repr, Inhabited

mutual
/-- `pickle.dumps`: instances are reduced through the generated `__getstate__`, i.e. the state is
the tuple of field values and nothing else; the fields are pickled the same way -/
def Obj.pickle : Obj → Pk
  | .atom c => .atom c
  | .tuple xs => .tuple (Obj.pickleL xs)
  | .list xs => .list (Obj.pickleL xs)
  | .dict ks vs => .dict ks (Obj.pickleL vs)
  | .inst c k fs _ => .obj c k (.tuple (Obj.pickleL fs))
def Obj.pickleL : List Obj → List Pk
  | [] => []
  | x :: xs => x.pickle :: Obj.pickleL xs
end

mutual
/-- `pickle.loads`: `cls.__new__(cls)` and the generated `__setstate__`, which sets the fields from
the state tuple (`zip(field_names, state)`) and nothing else -/
def Pk.unpickle : Pk → Obj
  | .atom c => .atom c
  | .tuple xs => .tuple (Pk.unpickleL xs)
  | .list xs => .list (Pk.unpickleL xs)
  | .dict ks vs => .dict ks (Pk.unpickleL vs)
  | .obj c k (.tuple xs) => .inst c k (Pk.unpickleL xs) none
  | .obj c k (.dict _ vs) => .inst c k (Pk.unpickleL vs) none     -- not produced by `pickle`
  | .obj c k _ => .inst c k [] none                               -- not produced by `pickle`
def Pk.unpickleL : List Pk → List Obj
  | [] => []
  | x :: xs => x.unpickle :: Pk.unpickleL xs
end

/-! #### What default pickling would do (state = `__dict__`, slot included): excluded behaviour -/

def cacheAtom : Option Nat → Pk
  | some h => .atom (.int h)
  | none => .atom .none

mutual
def Obj.pickleNaive : Obj → Pk
  | .atom c => .atom c
  | .tuple xs => .tuple (Obj.pickleNaiveL xs)
  | .list xs => .list (Obj.pickleNaiveL xs)
  | .dict ks vs => .dict ks (Obj.pickleNaiveL vs)
  | .inst c k fs h => .obj c k (.dict ["_hash_value"] [cacheAtom h, .tuple (Obj.pickleNaiveL fs)])
def Obj.pickleNaiveL : List Obj → List Pk
  | [] => []
  | x :: xs => x.pickleNaive :: Obj.pickleNaiveL xs
end

mutual
def Pk.unpickleNaive : Pk → Obj
  | .atom c => .atom c
  | .tuple xs => .tuple (Pk.unpickleNaiveL xs)
  | .list xs => .list (Pk.unpickleNaiveL xs)
  | .dict ks vs => .dict ks (Pk.unpickleNaiveL vs)
  | .obj c k (.dict _ [.atom (.int h), .tuple xs]) => .inst c k (Pk.unpickleNaiveL xs) (some h.toNat)
  | .obj c k (.dict _ [_, .tuple xs]) => .inst c k (Pk.unpickleNaiveL xs) none
  | .obj c k _ => .inst c k [] none
def Pk.unpickleNaiveL : List Pk → List Obj
  | [] => []
  | x :: xs => x.unpickleNaive :: Pk.unpickleNaiveL xs
end

/-! ### Histories -/

structure World where
  /-- live objects of the process -/
  pool : List Obj
  /-- pickles written so far (they outlive the process) -/
  blobs : List Pk
  deriving Inhabited

inductive Op where
  | hash (i : Nat)
  | eq (i j : Nat)
  /-- `pool[i] in {pool[j]}` and `pool[i] in {pool[j]: 1}` -/
  | member (i j : Nat)
  /-- `blobs.append(pickle.dumps(pool[i], proto))` (the state does not depend on the protocol) -/
  | pickle (i : Nat) (proto : Nat)
  /-- `pool.append(pickle.loads(blobs[k]))` -/
  | unpickle (k : Nat)
  deriving Repr, Inhabited

inductive Out where
  /-- `fresh`: the value returned equals the hash of a freshly built object with the same fields in
  this process; then the slots of the object -/
  | hash (fresh : Bool) (bits : List Bool)
  | eq (r : Bool) (bi bj : List Bool)
  | member (r : Bool) (bi bj : List Bool)
  | pickled
  | unpickled (o : Obj)
  | bad
  deriving Repr, Inhabited

def step (P : HashParams) (w : World) : Op → World × Out
  | .hash i =>
    match w.pool[i]? with
    | some o =>
      let r := o.hashC P
      ({ w with pool := w.pool.set i r.2 }, .hash (r.1 == o.hash P) r.2.bits)
    | none => (w, .bad)
  | .eq i j =>
    match w.pool[i]?, w.pool[j]? with
    | some a, some b =>
      if i = j then (w, .eq true a.bits a.bits)                  -- `self is other`
      else
        let r := eqC P a b
        ({ w with pool := (w.pool.set i r.2.1).set j r.2.2 }, .eq r.1 r.2.1.bits r.2.2.bits)
    | _, _ => (w, .bad)
  | .member i j =>
    match w.pool[i]?, w.pool[j]? with
    | some x, some y =>
      if i = j then
        let r := y.hashC P                                        -- found by identity
        ({ w with pool := w.pool.set j r.2 }, .member true r.2.bits r.2.bits)
      else
        let r := memberC P x y
        ({ w with pool := (w.pool.set i r.2.1).set j r.2.2 }, .member r.1 r.2.1.bits r.2.2.bits)
    | _, _ => (w, .bad)
  | .pickle i _ =>
    match w.pool[i]? with
    | some o => ({ w with blobs := w.blobs ++ [o.pickle] }, .pickled)
    | none => (w, .bad)
  | .unpickle k =>
    match w.blobs[k]? with
    | some p => ({ w with pool := w.pool ++ [p.unpickle] }, .unpickled p.unpickle)
    | none => (w, .bad)

def run (P : HashParams) : World → List Op → World × List Out
  | w, [] => (w, [])
  | w, op :: ops =>
    let r := step P w op
    let rs := run P r.1 ops
    (rs.1, r.2 :: rs.2)

/-- A producer process (hash parameters `P₁`) builds the pool from source and runs `ops₁`; a
consumer process (`P₂`) builds the same pool from source, receives the producer's pickles and runs
`ops₂`. -/
def crossRun (P₁ P₂ : HashParams) (src : List Obj) (ops₁ ops₂ : List Op) : List Out × List Out :=
  let r₁ := run P₁ ⟨Obj.eraseL src, []⟩ ops₁
  let r₂ := run P₂ ⟨Obj.eraseL src, r₁.1.blobs⟩ ops₂
  (r₁.2, r₂.2)

/-! ### Compiled expressions (`pymbolic.compile`) -/

mutual
/-- `DependencyMapper(composite_leaves=False)(expr)` collects the variables in sets: every
`Variable` instance gets hashed (in the process that compiles) -/
def Obj.hashVars (P : HashParams) : Obj → Obj
  | .atom c => .atom c
  | .tuple xs => .tuple (Obj.hashVarsL P xs)
  | .list xs => .list (Obj.hashVarsL P xs)
  | .dict ks vs => .dict ks (Obj.hashVarsL P vs)
  | .inst c k fs h =>
      if c == "Variable" then ((Obj.inst c k fs h).hashC P).2 else .inst c k (Obj.hashVarsL P fs) h
def Obj.hashVarsL (P : HashParams) : List Obj → List Obj
  | [] => []
  | x :: xs => x.hashVars P :: Obj.hashVarsL P xs
end

/-- `CompiledExpression`: `_Expression`, `_Variables`; `_code` is a function of these two
(`_compile(expression, variables)`) and is never pickled -/
structure Compiled where
  expr : Obj
  vars : List String

/-- `__getstate__` = `(self._Expression, self._Variables)` -/
def Compiled.pickle (c : Compiled) : Pk × List String := (c.expr.pickle, c.vars)
/-- `__setstate__` = `self._compile(*state)`, in the consumer process -/
def Compiled.unpickle (P : HashParams) (s : Pk × List String) : Compiled :=
  ⟨s.1.unpickle.hashVars P, s.2⟩

/-! ### Persistent-hash digest -/

/-- `repr(c)` for the constants `map_foreign` accepts (`VALID_CONSTANT_CLASSES`); `none`: foreign -/
def constRepr : Const → Option String
  | .int n => some (toString n)
  | .bool b => some (if b then "True" else "False")
  | .flt r _ _ => some r
  | .str _ => Option.none
  | .none => Option.none

mutual
/-- the `key_hash.update(…)` calls of `PersistentHashWalkMapper()(e)`, in order.
`visit` emits `type(expr).__name__`; `map_variable` and `map_constant` are overridden and emit only
the name / `repr` (no `visit`); `map_comparison` is overridden and emits `repr(operator)` between
the operands; everything else is `WalkMapper`: wildcards, `FunctionSymbol`, `NaN` emit their class
name only; `Lookup.name`, CSE prefix/scope, `Substitution.variables`, `Derivative.variables` and the
keyword NAMES of `CallWithKwargs` are not emitted; keyword VALUES come in insertion order; shifts
visit the shift count first; `None` slice parts are skipped. -/
def digest : Expr → Except DepErr (List String)
  | .const c => match constRepr c with
    | some r => pure [r]
    | Option.none => throw .foreign
  | .var x => pure [x]
  | .wildcard => pure ["Wildcard"]
  | .dotWild _ => pure ["DotWildcard"]
  | .starWild _ => pure ["StarWildcard"]
  | .funcSym => pure ["FunctionSymbol"]
  | .nan => pure ["NaN"]
  | .nary o cs => do pure (o.name :: (← digestL cs))
  | .bin .lshift a b => do
      let x ← digest b
      let y ← digest a
      pure ("LeftShift" :: (x ++ y))
  | .bin .rshift a b => do
      let x ← digest b
      let y ← digest a
      pure ("RightShift" :: (x ++ y))
  | .bin o a b => do
      let x ← digest a
      let y ← digest b
      pure (o.name :: (x ++ y))
  | .un o a => do pure (o.name :: (← digest a))
  | .cmp o a b => do
      let x ← digest a
      let y ← digest b
      pure ("Comparison" :: (x ++ ("'" ++ o.sym ++ "'") :: y))
  | .ite c t e => do
      let x ← digest c
      let y ← digest t
      let z ← digest e
      pure ("If" :: (x ++ y ++ z))
  | .call f as => do
      let x ← digest f
      let y ← digestL as
      pure ("Call" :: (x ++ y))
  | .callKw f as _ vs => do
      let x ← digest f
      let y ← digestL as
      let z ← digestL vs
      pure ("CallWithKwargs" :: (x ++ y ++ z))
  | .subscript a i => do
      let x ← digest a
      let y ← digest i
      pure ("Subscript" :: (x ++ y))
  | .lookup a _ => do pure ("Lookup" :: (← digest a))
  | .cse c _ _ => do pure ("CommonSubexpression" :: (← digest c))
  | .deriv c _ => do pure ("Derivative" :: (← digest c))
  | .subst c _ xs => do
      let x ← digest c
      let y ← digestL xs
      pure ("Substitution" :: (x ++ y))
  | .slice cs => do pure ("Slice" :: (← digestSlice cs))
  | .tuple cs => do pure ("tuple" :: (← digestL cs))
  | .list cs => do pure ("list" :: (← digestL cs))
def digestL : List Expr → Except DepErr (List String)
  | [] => pure []
  | c :: cs => do
      let x ← digest c
      let y ← digestL cs
      pure (x ++ y)
def digestSlice : List Expr → Except DepErr (List String)
  | [] => pure []
  | .const .none :: cs => digestSlice cs
  | c :: cs => do
      let x ← digest c
      let y ← digestSlice cs
      pure (x ++ y)
end

/-- the digest as computed inside a given process: the process does not enter -/
def digestIn (_P : HashParams) (_optimized : Bool) (e : Expr) : Except DepErr (List String) :=
  digest e

/-! ### Toy hash parameters for the driver (any seed-dependent string hash will do) -/

def toyM : Nat := 18446744073709551557

def toyStr (seed : Nat) (s : String) : Nat :=
  s.foldl (fun h c => (h * 1000003 + c.toNat + 1) % toyM) ((seed + 1) * 7919 % toyM)

/-- value-based: depends on the rational n/d only (floors of n/d and of 1000003·n/d) -/
def toyNum (n : Int) (d : Nat) : Nat :=
  ((n / (d : Int)).natAbs * 31 + ((n * 1000003) / (d : Int)).natAbs * 7 + 5) % toyM

def toyTuple (tag : String) (hs : List Nat) : Nat :=
  hs.foldl (fun a h => (a * 1000003 + h + 7) % toyM) (tag.length + 3)

def toyParams (seed : Nat) : HashParams where
  num := toyNum
  str := toyStr seed
  none := 271828
  tuple := toyTuple
  mapping := fun l => (l.map (fun p => (p.1 * 31 + p.2) % toyM)).sum % toyM

end PV.Pickle
