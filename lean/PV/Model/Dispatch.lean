/-
  C04.  Mapper dispatch (`Mapper.__call__`, `rec_fallback`, `CachedMapper.__call__`) and the
  derivation of handler names for expression dataclasses.

  A class is described by its MRO, most derived first; each MRO entry carries the value of
  `getattr(cls, "mapper_method", None)` for that class (attribute lookup, i.e. inherited values
  included).  A mapper is the set of handler names it implements.
-/
namespace PV

def isLowerAscii (c : Char) : Bool := 'a' ≤ c && c ≤ 'z'
def isUpperAscii (c : Char) : Bool := 'A' ≤ c && c ≤ 'Z'

/-- `_CAMEL_TO_SNAKE_RE.sub("_", name).lower()`: an underscore goes between a lower-case letter and
an upper-case one, and between two upper-case letters when a lower-case letter follows. -/
def camelToSnakeAux : Option Char → List Char → List Char
  | _, [] => []
  | prev, c :: rest =>
    let next := rest.head?
    let ins := match prev with
      | none => false
      | some p =>
        (isLowerAscii p && isUpperAscii c) ||
        (isUpperAscii p && isUpperAscii c && (match next with | some n => isLowerAscii n | none => false))
    (if ins then ['_', c] else [c]) ++ camelToSnakeAux (some c) rest

def camelToSnake (s : String) : String :=
  String.ofList ((camelToSnakeAux none s.toList).map Char.toLower)

/-- default handler name of an expression dataclass -/
def defaultMapperMethod (clsName : String) : String := "map_" ++ camelToSnake clsName

/-- How a class in a hierarchy was declared. -/
inductive Decl where
  | decorated (own : Option String)     -- @expr_dataclass(); `own`: mapper_method set in the class body
  | legacy (own : Option String)        -- plain subclass (init-args protocol)
  deriving Repr, DecidableEq, Inhabited

/-- `cls.mapper_method` after class creation, given the parent's effective value:
a decorated class that does not set the attribute ITSELF gets the name derived from its class name
(an inherited value is replaced); an undecorated class inherits. -/
def effectiveMethod (name : String) (d : Decl) (parent : Option String) : Option String :=
  match d with
  | .decorated (some m) => some m
  | .decorated none => some (defaultMapperMethod name)
  | .legacy (some m) => some m
  | .legacy none => parent

/-- effective `mapper_method` along a chain of classes given base-first; result most derived first -/
def effectiveChain : List (String × Decl) → Option String → List (Option String)
  | [], _ => []
  | (n, d) :: rest, parent =>
    let m := effectiveMethod n d parent
    effectiveChain rest m ++ [m]

inductive DispatchResult where
  | handler (name : String)
  | unsupported                      -- handle_unsupported_expression
  | foreign (name : String)          -- map_constant / map_list / map_tuple / map_numpy_array
  | invalidForeign                   -- ValueError
  deriving Repr, DecidableEq, Inhabited

/-- `Mapper.__call__` on an Expression instance whose class has MRO `mro` (most derived first,
`Expression` base excluded or carrying `none`) for a mapper implementing `handlers`. -/
def dispatchExpr (handlers : List String) : List (Option String) → DispatchResult
  | [] => .unsupported
  | own :: ancestors =>
    match own with
    | some m => if handlers.contains m then .handler m else dispatchAncestors handlers ancestors
    | none => dispatchAncestors handlers ancestors
where
  dispatchAncestors (handlers : List String) : List (Option String) → DispatchResult
    | [] => .unsupported
    | some m :: rest =>
      if m != "" && handlers.contains m then .handler m else dispatchAncestors handlers rest
    | none :: rest => dispatchAncestors handlers rest

/-- `rec_fallback`: skips the object's own class -/
def dispatchFallback (handlers : List String) : List (Option String) → DispatchResult
  | [] => .unsupported
  | _ :: ancestors => dispatchExpr.dispatchAncestors handlers ancestors

/-- `CachedMapper.__call__`: own handler, else `rec_fallback` -/
def dispatchCached (handlers : List String) (mro : List (Option String)) : DispatchResult :=
  match mro with
  | some m :: _ => if handlers.contains m then .handler m else dispatchFallback handlers mro
  | _ => dispatchFallback handlers mro

inductive ForeignKind where
  | number | numpyArray | list | tuple | other
  deriving Repr, DecidableEq, Inhabited

/-- `map_foreign` -/
def dispatchForeign : ForeignKind → DispatchResult
  | .number => .foreign "map_constant"
  | .numpyArray => .foreign "map_numpy_array"
  | .list => .foreign "map_list"
  | .tuple => .foreign "map_tuple"
  | .other => .invalidForeign

end PV
