import PV.Model.Rewrite
import PV.Model.TravTable
/-
  C11 (T-gen).  The rewriting mappers as plain DATA — regenerated on every run from the live source
  of pymbolic/mapper/{flattener,constant_folder,collector,distributor}.py by extract/rewrite.py
  into lean/PV/Generated/Rewrite.lean — and the reading of that data.

  The table language is a small statement language (`C11Tm` / `C11Stmt` / `C11Fn`): the extractor
  translates every method body statement by statement (assignments, `if`, `while`, `for`/`break`,
  `return`, `raise`, `assert`, `d[k] = v`, `d[k] += v`, `xs.append(v)`, `q.pop(0)`, nested `def`s,
  comprehensions, calls, attribute access, operators), resolving every global name to the OBJECT
  it is bound to (`C11Glob`).  Nothing here knows the current source: which variable is tested,
  which operand stands on which side, which branch appends where, which default a parameter has —
  all of it comes from the table argument.

    * `c11Eval` / `c11Exec`  meaning of terms / statements (values `C11Val`, environments `C11Env`)
    * `c11Apply`             meaning of the resolved globals (`flattened_sum`, `isinstance`,
                             `DependencyMapper()(e)`, `evaluate`, `reduce`, …), in terms of the
                             primitives of PV/Model/Rewrite.lean, Ops.lean, Traverse.lean, Eval.lean
    * `c11IdentStep`         one inherited `IdentityMapper` handler, driven by the C04 handler rows
    * `c11Mapper`            a whole mapper class: dispatch (C04 class table), own handlers
                             interpreted, inherited ones through the C04 rows, `self.rec` the knot
    * `c11EntryCfg`          the entry points `distribute` / `expand` with their defaults

  What stays hand-written (and is tied by the correspondence streams only): the meaning given to
  the resolved globals in `c11Apply` (e.g. "`evaluate` is the memoizing evaluator on an empty
  context and the model abstains outside int/bool"), the value-level conventions of `C11Val`
  (Python `==`, hashing and truthiness as the models of C01/C03 have them), and the fuel discipline
  (one unit per `self.rec` level, per `while` iteration, per call of a recursive nested function).
  PV/Proofs/RewriteTable*.lean prove that for the regenerated table these readings ARE the
  hand-written model (`flattenM`, `foldM`, `collectM`, `splitTerm`, `distM`) for ALL inputs.
-/
namespace PV

/-! ## the table language -/

/-- module-level objects the source refers to (resolved by object identity, not by spelling) -/
inductive C11Glob where
  | flattenedSum | flattenedProduct | isZero
  | clsSum | clsProduct | clsPower | clsAlgebraicLeaf | clsInt
  | depMapper | evaluate | opAdd | opMul | reduce
  | identityMapper | flattenMapper | plainFolder | commFolder | termCollector | distributeMapper
  | pyList | pyTuple | pyLen | pyBool | pyIsinstance | pyFrozenset | pySet | pyType
  | valueError | runtimeError
  deriving Repr, DecidableEq, Inhabited

inductive C11Op where
  | add | sub | mul | pow
  deriving Repr, DecidableEq, Inhabited

inductive C11Cmp where
  | eq | ne | lt | le | gt | ge | isIn | notIn | is | isNot
  deriving Repr, DecidableEq, Inhabited

inductive C11Tm where
  | var (x : String)
  | int (n : Int)
  | pyNone
  | pyBool (b : Bool)
  | glob (g : C11Glob)
  /-- `self.ATTR` (an instance attribute, not a method call) -/
  | selfAttr (a : String)
  /-- `T.FIELD` -/
  | attr (t : C11Tm) (f : String)
  /-- `F(args…)`; an argument may be `.star` -/
  | call (f : C11Tm) (args : List C11Tm)
  /-- `self.M(args…)` -/
  | selfCall (m : String) (args : List C11Tm)
  /-- `CLS.M(self, args…)` -/
  | superCall (cls : C11Glob) (m : String) (args : List C11Tm)
  /-- `T.M(args…)` on a container (`d.get(k, 0)`, `d.items()`) -/
  | method (recv : C11Tm) (m : String) (args : List C11Tm)
  | bin (op : C11Op) (a b : C11Tm)
  | cmp (op : C11Cmp) (a b : C11Tm)
  | not (t : C11Tm)
  | and (a b : C11Tm)
  /-- tuple / list display; an item may be `.star` -/
  | seq (items : List C11Tm)
  | star (t : C11Tm)
  /-- `[ELT for TARGETS in ITER]` / generator expression -/
  | comp (elt : C11Tm) (targets : List String) (iter : C11Tm)
  | index (t i : C11Tm)
  /-- `T[I:]` -/
  | sliceFrom (t i : C11Tm)
  /-- `is_zero(T - 1)` (the "is one" test of pymbolic.primitives, see C03 `is_one_is_sub_one_zero_*`) -/
  | isOneSub (t : C11Tm)
  /-- `lambda x: x` -/
  | lambdaId
  | emptyDict
  deriving Repr, Inhabited

inductive C11Stmt where
  | assign (x : String) (t : C11Tm)
  /-- `X, Y = T` -/
  | assign2 (x y : String) (t : C11Tm)
  /-- `D[K] = V` -/
  | setItem (d : String) (k v : C11Tm)
  /-- `D[K] op= V` -/
  | augItem (d : String) (k : C11Tm) (op : C11Op) (v : C11Tm)
  /-- `X.append(T)` -/
  | append (x : String) (t : C11Tm)
  /-- `TGT = SRC.pop(0)` (hoisted by the extractor out of `f(SRC.pop(0))`) -/
  | popFront (tgt src : String)
  /-- `self.A = T` (constructors only) -/
  | setSelf (a : String) (t : C11Tm)
  /-- `def NAME(…): …` — binds the local `NAME` to the nested function of that name -/
  | defFn (name : String)
  | ifThen (c : C11Tm) (body orelse : List C11Stmt)
  | while (c : C11Tm) (body : List C11Stmt)
  | for (targets : List String) (iter : C11Tm) (body : List C11Stmt)
  | brk
  | ret (t : C11Tm)
  | raise (exc : C11Glob)
  | assertS (t : C11Tm)
  /-- `try: return T` / `except EXC: HANDLER` -/
  | tryRet (t : C11Tm) (exc : C11Glob) (handler : List C11Stmt)
  deriving Repr, Inhabited

/-- a nested function -/
structure C11Def where
  name : String
  params : List String
  /-- names assigned in the body, in order of first occurrence -/
  locals : List String
  /-- the body mentions its own name -/
  recursive : Bool
  body : List C11Stmt
  deriving Repr, Inhabited

/-- a method or module-level function -/
structure C11Fn where
  name : String
  /-- qualified name of the function object -/
  definedIn : String
  /-- parameters without `self` -/
  params : List String
  /-- defaults of the trailing parameters -/
  defaults : List (String × C11Tm)
  locals : List String
  defs : List C11Def
  body : List C11Stmt
  deriving Repr, Inhabited

/-- how an attribute of a mapper class resolves along its MRO -/
inductive C11Handler where
  /-- a function defined in one of the modules under this property -/
  | own (fn : C11Fn)
  /-- the very function object `IdentityMapper.<row>` (inherited, or bound by a class-level
  `name = IdentityMapper.<row>`) -/
  | identity (row : String)
  /-- `CSECachingMapperMixin.map_common_subexpression` (the protocol of C05) -/
  | cseMixin
  deriving Repr, Inhabited

structure C11Method where
  name : String
  /-- class whose body binds the attribute -/
  boundIn : String
  h : C11Handler
  deriving Repr, Inhabited

/-- a mapper class: everything that differs from `IdentityMapper` -/
structure C11Class where
  name : String
  mro : List String
  /-- attributes (handlers and helpers) that are NOT the same function object as the attribute of
  that name of `IdentityMapper`; every other `map_*` attribute is -/
  methods : List C11Method
  /-- `rec` and `__call__` are `Mapper.__call__` -/
  recIsDispatch : Bool
  deriving Repr, Inhabited

structure C11Table where
  flatten : C11Class
  plainFolder : C11Class
  commFolder : C11Class
  collector : C11Class
  distributor : C11Class
  /-- module-level entry points: `flatten`, `distribute` -/
  entries : List C11Fn
  /-- public aliases: (`pymbolic.<name>`, qualified name of the function it is) -/
  aliases : List (String × String)
  deriving Repr, Inhabited

/-! ## values -/

inductive C11Val where
  /-- a pymbolic expression or Python number as the tree model has it -/
  | expr (e : Expr)
  /-- an evaluated Python number (result of `evaluate`) -/
  | num (v : Value)
  | none
  | bool (b : Bool)
  /-- a `len(…)` result (and sums of it with non-negative int literals) -/
  | nat (n : Nat)
  /-- list or tuple -/
  | list (l : List C11Val)
  /-- set / frozenset, insertion order -/
  | set (l : List C11Val)
  /-- dict, insertion order; every item is `.list [key, value]` -/
  | dict (items : List C11Val)
  | glob (g : C11Glob)
  /-- `type(e)` -/
  | typeOf (e : Expr)
  /-- a nested function -/
  | closure (name : String)
  /-- an instance of a mapper class with its instance attributes -/
  | inst (cls : C11Glob) (attrs : List String) (vals : List C11Val)
  | lambdaId
  | unbound
  deriving Inhabited

inductive C11Err where
  /-- the table program has no meaning here (unbound name, ill-typed operation, …) -/
  | stuck
  | py (e : RwErr)
  /-- a `ValueError` other than the two the tree models name (raised by `evaluate`) -/
  | valueError
  deriving Repr, DecidableEq, Inhabited

abbrev C11R := Except C11Err

def c11Lift {α : Type} : Except RwErr α → C11R α
  | .ok a => .ok a
  | .error e => .error (.py e)

/-- back to the result type of the hand-written model; a stuck program is "no claim" -/
def c11ToRw : C11R C11Val → RwR
  | .ok (.expr e) => .ok e
  | .ok _ => .error .noClaim
  | .error (.py e) => .error e
  | .error .stuck => .error .noClaim
  | .error .valueError => .error .noClaim

/-- is the exception an instance of the class? -/
def C11Err.isInstance : C11Err → C11Glob → Bool
  | .valueError, .valueError => true
  | .py .foreign, .valueError => true
  | .py .unsupported, .valueError => true
  | .py .runtime, .runtimeError => true
  | _, _ => false

abbrev C11Env := List (String × C11Val)

def c11Get (x : String) : C11Env → C11Val
  | [] => .unbound
  | (n, v) :: r => if n == x then v else c11Get x r

def c11Set (x : String) (v : C11Val) : C11Env → C11Env
  | [] => [(x, v)]
  | (n, w) :: r => if n == x then (n, v) :: r else (n, w) :: c11Set x v r

/-- bind the targets of a `for` / comprehension / tuple assignment -/
def c11Bind (set : String → C11Val → C11Env → C11Env) (targets : List String) (item : C11Val)
    (env : C11Env) : Option C11Env :=
  match targets, item with
  | [x], v => some (set x v env)
  | [x, y], .list [a, b] => some (set y b (set x a env))
  | _, _ => none

/-- a comprehension variable lives in a scope of its own -/
def c11Push (x : String) (v : C11Val) (env : C11Env) : C11Env := (x, v) :: env

/-! ### Python `==`, hashing, truthiness on values (as deep as the code under this property goes) -/

def c11Eq0 : C11Val → C11Val → Bool
  | .expr a, .expr b => a.pyEq b
  | .nat a, .nat b => a == b
  | .none, .none => true
  | _, _ => false

def c11EqL : List C11Val → List C11Val → Bool
  | [], [] => true
  | a :: as, b :: bs => c11Eq0 a b && c11EqL as bs
  | _, _ => false

def c11Eq1 : C11Val → C11Val → Bool
  | .list a, .list b => c11EqL a b
  | a, b => c11Eq0 a b

/-- Python `==` (`stored == probe` in dictionary look-ups) -/
def c11Eq : C11Val → C11Val → Bool
  | .set a, .set b => a.length == b.length && a.all (fun p => b.any (fun q => c11Eq1 p q))
  | a, b => c11Eq1 a b

/-- `a <= b` on sets: every element of `a` is found in `b` (`stored == probe`) -/
def c11Subset (a b : List C11Val) : Bool :=
  a.all fun x => b.any fun p => c11Eq1 p x

def c11Hashable0 : C11Val → Bool
  | .expr e => !e.hasList
  | _ => true

def c11Hashable : C11Val → Bool
  | .list l => l.all c11Hashable0
  | .dict _ => false
  | v => c11Hashable0 v

def c11Truthy : C11Val → C11R Bool
  | .bool b => pure b
  | .none => pure false
  | .list l => pure (!l.isEmpty)
  | .set l => pure (!l.isEmpty)
  | .dict l => pure (!l.isEmpty)
  | .nat n => pure (n != 0)
  | .num (.int n) => pure (n != 0)
  | .num (.bool b) => pure b
  | .expr e => pure e.truthy
  | _ => throw .stuck

/-- the elements iteration yields -/
def c11Items : C11Val → C11R (List C11Val)
  | .list l => pure l
  | .set l => pure l
  | .dict items => pure (items.map fun it => match it with
      | .list (k :: _) => k
      | v => v)
  | _ => throw .stuck

/-- a sequence of values used as expressions (`flattened_sum(...)`, `Product(...)`): evaluated
numbers are the constants they are; outside int/bool the model abstains -/
def c11AsExpr : C11Val → C11R Expr
  | .expr e => pure e
  | .num v => match v.toExpr? with
    | some e => pure e
    | none => throw (.py .noClaim)
  | _ => throw .stuck

def c11AsExprs (v : C11Val) : C11R (List Expr) := do
  let l ← c11Items v
  l.mapM c11AsExpr

def c11AsNums : List C11Val → Option (List Value)
  | [] => some []
  | .num v :: r => match c11AsNums r with
    | some vs => some (v :: vs)
    | none => none
  | _ :: _ => none

def Expr.isPow : Expr → Bool
  | .bin .pow _ _ => true
  | _ => false

def c11IntOfConst : Const → Option Int
  | .int n => some n
  | .bool b => some (if b then 1 else 0)
  | _ => none

/-- `isinstance(v, c)` -/
def c11IsInstance (v : C11Val) : C11Val → C11R Bool
  | .glob .clsSum => pure (match v with | .expr e => isSum e | _ => false)
  | .glob .clsProduct => pure (match v with | .expr e => isProdE e | _ => false)
  | .glob .clsPower => pure (match v with | .expr e => e.isPow | _ => false)
  | .glob .clsAlgebraicLeaf => pure (match v with | .expr e => e.isAlgebraicLeaf | _ => false)
  | .glob .clsInt => pure (match v with
      | .expr (.const (.int _)) => true
      | .expr (.const (.bool _)) => true
      | .nat _ => true
      | _ => false)
  | .list [a, b] => do
      let x ← (match a with
        | .glob .clsSum => pure (match v with | .expr e => isSum e | _ => false)
        | .glob .clsProduct => pure (match v with | .expr e => isProdE e | _ => false)
        | .glob .clsPower => pure (match v with | .expr e => e.isPow | _ => false)
        | .glob .clsAlgebraicLeaf => pure (match v with | .expr e => e.isAlgebraicLeaf | _ => false)
        | _ => throw C11Err.stuck : C11R Bool)
      let y ← (match b with
        | .glob .clsSum => pure (match v with | .expr e => isSum e | _ => false)
        | .glob .clsProduct => pure (match v with | .expr e => isProdE e | _ => false)
        | .glob .clsPower => pure (match v with | .expr e => e.isPow | _ => false)
        | .glob .clsAlgebraicLeaf => pure (match v with | .expr e => e.isAlgebraicLeaf | _ => false)
        | _ => throw C11Err.stuck : C11R Bool)
      pure (x || y)
  | _ => throw .stuck

/-- `v.f` -/
def c11Attr (v : C11Val) (f : String) : C11R C11Val :=
  match v with
  | .expr e => match e.c04Field f with
    | some (.one c) => pure (.expr c)
    | some (.many cs) => pure (.list (cs.map .expr))
    | some _ => throw .stuck
    | none => throw (.py .attrError)
  | _ => throw .stuck

/-- the binary operators of Python on the values that occur -/
def c11Bin : C11Op → C11Val → C11Val → C11R C11Val
  | .add, .expr a, .expr b => do pure (.expr (← c11Lift (pyAdd a b)))
  | .mul, .expr a, .expr b => do pure (.expr (← c11Lift (pyMul a b)))
  | .pow, .expr a, .expr b => do pure (.expr (← c11Lift (pyPow a b)))
  | .add, .list a, .list b => pure (.list (a ++ b))
  | .add, .nat a, .expr (.const (.int b)) => if b < 0 then throw .stuck else pure (.nat (a + b.toNat))
  | .mul, .expr (.const c), .list l =>
    match c11IntOfConst c with
    | some n => pure (.list (List.replicate n.toNat l).flatten)
    | none => throw .stuck
  | _, _, _ => throw .stuck

/-- `k in d`: some stored key with `stored == k` -/
def c11DictHas (k : C11Val) : List C11Val → Bool
  | [] => false
  | .list (k' :: _) :: r => c11Eq k' k || c11DictHas k r
  | _ :: r => c11DictHas k r

def c11Cmp : C11Cmp → C11Val → C11Val → C11R C11Val
  | .is, v, .none => pure (.bool (match v with | .none => true | _ => false))
  | .isNot, v, .none => pure (.bool (match v with | .none => false | _ => true))
  | .eq, a, b => pure (.bool (c11Eq a b))
  | .ne, a, b => pure (.bool (!c11Eq a b))
  | .le, .set a, .set b => pure (.bool (c11Subset a b))
  | .gt, .expr (.const a), .expr (.const b) =>
    match c11IntOfConst a, c11IntOfConst b with
    | some x, some y => pure (.bool (decide (x > y)))
    | _, _ => throw .stuck
  | .isIn, k, .dict items =>
    if !c11Hashable k then throw (.py .typeError)
    else pure (.bool (c11DictHas k items))
  | _, _, _ => throw .stuck

/-! ### dictionaries -/

/-- value stored under `k` (first key with `stored == k`) -/
def c11DictFind (k : C11Val) : List C11Val → Option C11Val
  | [] => none
  | .list [k', v] :: r => if c11Eq k' k then some v else c11DictFind k r
  | _ :: r => c11DictFind k r

/-- `d[k] = v`: an existing key keeps its position -/
def c11DictSet (k v : C11Val) : List C11Val → List C11Val
  | [] => [.list [k, v]]
  | .list [k', v'] :: r =>
    if c11Eq k' k then .list [k', v] :: r else .list [k', v'] :: c11DictSet k v r
  | it :: r => it :: c11DictSet k v r

/-! ### the resolved globals -/

/-- `pymbolic.evaluate(e)`: the memoizing evaluator on an empty context; the model abstains outside
int / bool results -/
def c11Evaluate (e : Expr) : C11R C11Val :=
  match (evalG true [] e {}).1 with
  | .ok (.int n) => pure (.num (.int n))
  | .ok (.bool b) => pure (.num (.bool b))
  | .ok _ => throw (.py .noClaim)
  | .error .valueError => throw .valueError
  | .error .unsupportedExpr => throw (.py .unsupported)
  | .error .foreign => throw (.py .foreign)
  | .error .noClaim => throw (.py .noClaim)
  | .error .zeroDiv => throw (.py .zeroDiv)
  | .error .typeError => throw (.py .typeError)
  | .error .indexError => throw (.py .indexError)
  | .error .attrError => throw (.py .attrError)
  | .error .notImplemented => throw (.py .notImplemented)
  | .error (.unknownVar _) => throw (.py .unknownVar)

/-- everything a term needs from outside -/
structure C11Ctx where
  /-- `self.rec` -/
  recur : Expr → RwR
  selfAttrs : List (String × C11Val)
  /-- another method of the class, resolved along the MRO -/
  callSelf : String → List C11Val → C11R C11Val
  /-- a nested function, by name -/
  callLocal : String → List C11Val → C11R C11Val
  /-- `CLS.M(self, e)` -/
  sup : C11Glob → String → Expr → RwR
  /-- calling an instance of a mapper class -/
  applyInst : C11Glob → List String → List C11Val → List C11Val → C11R C11Val
  /-- instantiating a mapper class -/
  construct : C11Glob → List C11Val → C11R C11Val

def c11Apply (ctx : C11Ctx) : C11Val → List C11Val → C11R C11Val
  | .glob .flattenedSum, [xs] => do pure (.expr (flattenedSum (← c11AsExprs xs)))
  | .glob .flattenedProduct, [xs] => do pure (.expr (← c11Lift (flatProd (← c11AsExprs xs))))
  | .glob .isZero, [.expr e] => pure (.bool e.isZero)
  | .glob .clsProduct, [xs] => do pure (.expr (.nary .prod (← c11AsExprs xs)))
  | .glob .clsSum, [xs] => do pure (.expr (.nary .sum (← c11AsExprs xs)))
  | .glob .pyList, [xs] => do pure (.list (← c11Items xs))
  | .glob .pyTuple, [xs] => do pure (.list (← c11Items xs))
  | .glob .pyLen, [xs] => do pure (.nat (← c11Items xs).length)
  | .glob .pyBool, [v] => do pure (.bool (← c11Truthy v))
  | .glob .pyIsinstance, [v, c] => do pure (.bool (← c11IsInstance v c))
  | .glob .pyFrozenset, [] => pure (.set [])
  | .glob .pySet, [] => pure (.set [])
  | .glob .pyFrozenset, [xs] => do
      let l ← c11Items xs
      if l.all c11Hashable then pure (.set l) else throw (.py .typeError)
  | .glob .pyType, [.expr e] => pure (.typeOf e)
  | .typeOf e, args => do
      let as ← args.mapM c11AsExpr
      match e.c04Construct (as.map .one) with
      | some r => pure (.expr r)
      | none => throw .stuck
  | .glob .depMapper, [] => pure (.inst .depMapper [] [])
  | .inst .depMapper _ _, [.expr e] => do pure (.set ((← c11Lift (depsR e)).map .expr))
  | .glob .evaluate, [.expr e] => c11Evaluate e
  | .glob .reduce, [op, xs] => do
      let isProd ← (match op with
        | .glob .opAdd => pure false
        | .glob .opMul => pure true
        | _ => throw C11Err.stuck : C11R Bool)
      match c11AsNums (← c11Items xs) with
      | some (c :: cs) =>
        match reduceConsts isProd c cs with
        | .ok v => pure (.num v)
        | .error _ => throw (.py .noClaim)
      | some [] => throw (.py .typeError)
      | none => throw .stuck
  | .glob .termCollector, args => ctx.construct .termCollector args
  | .glob .commFolder, args => ctx.construct .commFolder args
  | .glob .plainFolder, args => ctx.construct .plainFolder args
  | .glob .distributeMapper, args => ctx.construct .distributeMapper args
  | .glob .flattenMapper, args => ctx.construct .flattenMapper args
  | .inst cls attrs vals, args => ctx.applyInst cls attrs vals args
  | .closure f, args => ctx.callLocal f args
  | .lambdaId, [v] => pure v
  | _, _ => throw .stuck

/-- container methods -/
def c11Method (recv : C11Val) (m : String) (args : List C11Val) : C11R C11Val :=
  match recv, args with
  | .dict items, [] => if m == "items" then pure (.list items) else throw .stuck
  | .dict items, [k, dflt] =>
    if m == "get" then
      (if !c11Hashable k then throw (.py .typeError)
       else match c11DictFind k items with
        | some v => pure v
        | none => pure dflt)
    else throw .stuck
  | _, _ => throw .stuck

/-! ## terms -/

def c11MapM {α β : Type} (f : α → C11R β) : List α → C11R (List β)
  | [] => pure []
  | a :: as => do
      let b ← f a
      let bs ← c11MapM f as
      pure (b :: bs)

section
variable (ctx : C11Ctx)

mutual
def c11Eval (env : C11Env) : C11Tm → C11R C11Val
  | .var x => match c11Get x env with
    | .unbound => throw .stuck
    | v => pure v
  | .int n => pure (.expr (.const (.int n)))
  | .pyNone => pure .none
  | .pyBool b => pure (.bool b)
  | .glob g => pure (.glob g)
  | .selfAttr a => match c11Get a ctx.selfAttrs with
    | .unbound => throw (.py .attrError)
    | v => pure v
  | .attr t f => do c11Attr (← c11Eval env t) f
  | .call f args => do
      let fv ← c11Eval env f
      let as ← c11EvalL env args
      c11Apply ctx fv as
  | .selfCall m args => do
      let as ← c11EvalL env args
      if m == "rec" then
        match as with
        | [.expr e] => do pure (.expr (← c11Lift (ctx.recur e)))
        | _ => throw .stuck
      else ctx.callSelf m as
  | .superCall cls m args => do
      let as ← c11EvalL env args
      match as with
      | [.expr e] => do pure (.expr (← c11Lift (ctx.sup cls m e)))
      | _ => throw .stuck
  | .method r m args => do
      let rv ← c11Eval env r
      let as ← c11EvalL env args
      c11Method rv m as
  | .bin op a b => do
      let x ← c11Eval env a
      let y ← c11Eval env b
      c11Bin op x y
  | .cmp op a b => do
      let x ← c11Eval env a
      let y ← c11Eval env b
      c11Cmp op x y
  | .not t => do pure (.bool (!(← c11Truthy (← c11Eval env t))))
  | .and a b => do
      let x ← c11Eval env a
      if (← c11Truthy x) then c11Eval env b else pure x
  | .seq items => do pure (.list (← c11EvalL env items))
  | .star _ => throw .stuck
  | .comp elt targets iter => do
      let items ← c11Items (← c11Eval env iter)
      let rs ← c11MapM (fun item =>
        match c11Bind c11Push targets item env with
        | some env' => c11Eval env' elt
        | none => throw .stuck) items
      pure (.list rs)
  | .index t i => do
      let l ← c11Items (← c11Eval env t)
      match ← c11Eval env i with
      | .nat n => match l[n]? with
        | some v => pure v
        | none => throw (.py .indexError)
      | _ => throw .stuck
  | .sliceFrom t i => do
      let l ← c11Items (← c11Eval env t)
      match ← c11Eval env i with
      | .nat n => pure (.list (l.drop n))
      | _ => throw .stuck
  | .isOneSub t => do
      match ← c11Eval env t with
      | .expr e => if !e.isValidOperand then throw (.py .noClaim) else pure (.bool e.isOne)
      | _ => throw .stuck
  | .lambdaId => pure .lambdaId
  | .emptyDict => pure (.dict [])
def c11EvalL (env : C11Env) : List C11Tm → C11R (List C11Val)
  | [] => pure []
  | .star t :: r => do
      let l ← c11Items (← c11Eval env t)
      let rs ← c11EvalL env r
      pure (l ++ rs)
  | t :: r => do
      let v ← c11Eval env t
      let rs ← c11EvalL env r
      pure (v :: rs)
end

/-! ## statements -/

inductive C11Out where
  | fell (env : C11Env)
  | brk (env : C11Env)
  | ret (v : C11Val)
  | fail (e : C11Err)

/-- `while COND: BODY`, one unit of fuel per iteration (tested before the condition) -/
def c11While (cond : C11Env → C11R Bool) (body : C11Env → C11Out) : Nat → C11Env → C11Out
  | 0, _ => .fail (.py .fuel)
  | n + 1, env =>
    match cond env with
    | .error e => .fail e
    | .ok false => .fell env
    | .ok true =>
      match body env with
      | .fell env' => c11While cond body n env'
      | .brk env' => .fell env'
      | o => o

def c11For (body : C11Val → C11Env → C11Out) : List C11Val → C11Env → C11Out
  | [], env => .fell env
  | x :: xs, env =>
    match body x env with
    | .fell env' => c11For body xs env'
    | .brk env' => .fell env'
    | o => o

mutual
def c11Exec (fuel : Nat) : C11Stmt → C11Env → C11Out
  | .assign x t, env => match c11Eval ctx env t with
    | .ok v => .fell (c11Set x v env)
    | .error e => .fail e
  | .assign2 x y t, env => match c11Eval ctx env t with
    | .ok v => match c11Bind c11Set [x, y] v env with
      | some env' => .fell env'
      | none => .fail .stuck
    | .error e => .fail e
  | .setItem d k v, env => match c11Eval ctx env k with
    | .error e => .fail e
    | .ok kv => match c11Eval ctx env v with
      | .error e => .fail e
      | .ok vv => match c11Get d env with
        | .dict items =>
          if !c11Hashable kv then .fail (.py .typeError)
          else .fell (c11Set d (.dict (c11DictSet kv vv items)) env)
        | _ => .fail .stuck
  | .augItem d k op v, env => match c11Eval ctx env k with
    | .error e => .fail e
    | .ok kv => match c11Get d env with
      | .dict items =>
        if !c11Hashable kv then .fail (.py .typeError)
        else match c11DictFind kv items with
          | none => .fail .stuck
          | some old => match c11Eval ctx env v with
            | .error e => .fail e
            | .ok vv => match c11Bin op old vv with
              | .error e => .fail e
              | .ok nv => .fell (c11Set d (.dict (c11DictSet kv nv items)) env)
      | _ => .fail .stuck
  | .append x t, env => match c11Eval ctx env t with
    | .error e => .fail e
    | .ok v => match c11Get x env with
      | .list l => .fell (c11Set x (.list (l ++ [v])) env)
      | _ => .fail .stuck
  | .popFront tgt src, env => match c11Get src env with
    | .list (v :: r) => .fell (c11Set tgt v (c11Set src (.list r) env))
    | .list [] => .fail (.py .indexError)
    | _ => .fail .stuck
  | .setSelf a t, env => match c11Eval ctx env t with
    | .ok v => .fell (c11Set ("self." ++ a) v env)
    | .error e => .fail e
  | .defFn name, env => .fell (c11Set name (.closure name) env)
  | .ifThen c body orelse, env => match c11Eval ctx env c with
    | .error e => .fail e
    | .ok v => match c11Truthy v with
      | .error e => .fail e
      | .ok true => c11ExecL fuel body env
      | .ok false => c11ExecL fuel orelse env
  | .while c body, env =>
    c11While (fun env => do c11Truthy (← c11Eval ctx env c)) (fun env => c11ExecL fuel body env)
      fuel env
  | .for targets iter body, env => match c11Eval ctx env iter with
    | .error e => .fail e
    | .ok v => match c11Items v with
      | .error e => .fail e
      | .ok items =>
        c11For (fun item env => match c11Bind c11Set targets item env with
          | some env' => c11ExecL fuel body env'
          | none => .fail .stuck) items env
  | .brk, env => .brk env
  | .ret t, env => match c11Eval ctx env t with
    | .ok v => .ret v
    | .error e => .fail e
  | .raise exc, _ => match exc with
    | .runtimeError => .fail (.py .runtime)
    | .valueError => .fail .valueError
    | _ => .fail .stuck
  | .assertS t, env => match c11Eval ctx env t with
    | .error e => .fail e
    | .ok v => match c11Truthy v with
      | .error e => .fail e
      | .ok true => .fell env
      | .ok false => .fail (.py .assertion)
  | .tryRet t exc handler, env => match c11Eval ctx env t with
    | .ok v => .ret v
    | .error e => if e.isInstance exc then c11ExecL fuel handler env else .fail e
def c11ExecL (fuel : Nat) : List C11Stmt → C11Env → C11Out
  | [], env => .fell env
  | s :: r, env => match c11Exec fuel s env with
    | .fell env' => c11ExecL fuel r env'
    | o => o
end

end

/-! ## functions -/

/-- the environment a call starts in: parameters bound, every local declared -/
def c11Frame (params : List String) (locals : List String) (outer : C11Env) (args : List C11Val) :
    Option C11Env :=
  if params.length == args.length then
    some (params.zip args ++ locals.map (fun x => (x, C11Val.unbound)) ++ outer)
  else none

def c11OutToR : C11Out → C11R C11Val
  | .ret v => pure v
  | .fell _ => pure .none
  | .brk _ => throw .stuck
  | .fail e => throw e

/-- run a body in a fresh frame; `outer`: the variables of the enclosing function a nested function
sees (its own name) -/
def c11RunBody (ctx : C11Ctx) (fuel : Nat) (params locals : List String) (outer : C11Env)
    (body : List C11Stmt) (args : List C11Val) : C11R C11Val :=
  match c11Frame params locals outer args with
  | some env => c11OutToR (c11ExecL ctx fuel body env)
  | none => throw .stuck

def c11FindDef (f : String) : List C11Def → Option C11Def
  | [] => none
  | d :: r => if d.name == f then some d else c11FindDef f r

/-- a call of a nested function: a recursive one costs one unit of fuel per call (and runs with the
remaining fuel), a non-recursive one runs where it stands and can call no further nested function -/
def c11CallLocal (ctx : C11Ctx) (defs : List C11Def) : Nat → String → List C11Val → C11R C11Val
  | 0, f, args =>
    match c11FindDef f defs with
    | none => throw .stuck
    | some d =>
      if d.recursive then throw (.py .fuel)
      else c11RunBody { ctx with callLocal := fun _ _ => throw .stuck } 0 d.params d.locals
        [(d.name, .closure d.name)] d.body args
  | n + 1, f, args =>
    match c11FindDef f defs with
    | none => throw .stuck
    | some d =>
      if d.recursive then
        c11RunBody { ctx with callLocal := c11CallLocal ctx defs n } n d.params d.locals
          [(d.name, .closure d.name)] d.body args
      else
        c11RunBody { ctx with callLocal := fun _ _ => throw .stuck } (n + 1) d.params d.locals
          [(d.name, .closure d.name)] d.body args

/-- run a method / function of the table -/
def c11RunFn (ctx : C11Ctx) (fuel : Nat) (fn : C11Fn) (args : List C11Val) : C11R C11Val :=
  c11RunBody { ctx with callLocal := c11CallLocal ctx fn.defs fuel } fuel fn.params fn.locals []
    fn.body args

/-! ## inherited handlers: one `IdentityMapper` handler call driven by the C04 rows -/

/-- the mapped value of one recursion site; a missing field is Python's AttributeError -/
def c11MapRec (rec : Expr → RwR) (e : Expr) (r : C04Rec) : Except RwErr C04Val :=
  match e.c04Field r.field, r.iter with
  | some (.one c), .one => do pure (.one (← rec c))
  | some (.many cs), .each => do pure (.many (← cs.mapM rec))
  | some (.many cs), .eachNotNone => do pure (.many (← cs.mapM (mapOpt rec)))
  | some (.dict vs), .eachValue => do pure (.dict (← vs.mapM rec))
  | none, _ => throw .attrError
  | _, _ => throw .noClaim

def c11MapRecs (rec : Expr → RwR) (e : Expr) :
    List C04Rec → Except RwErr (List (String × C04Val × Bool))
  | [] => pure []
  | r :: rs => do
      let v ← c11MapRec rec e r
      let vs ← c11MapRecs rec e rs
      pure ((r.field, v, true) :: vs)

/-- One `IdentityMapper` handler call as the C04 row describes it (value only: the "same object"
short cut returns a tree equal to the rebuilt one). -/
def c11IdentStepB (body : Option C04Body) (rec : Expr → RwR) (e : Expr) : RwR :=
  match body with
  | none => throw .unsupported
  | some .same => pure e
  | some (.rebuild recs _ _ zeroCollapse ctor) => do
      let vals ← c11MapRecs rec e recs
      let collapse := zeroCollapse && (match vals with
        | [(_, .one c', _)] => c'.isZero
        | _ => false)
      if collapse then pure zero
      else match c04Rebuild e vals ctor with
        | some r => pure r
        | none => throw .noClaim
  | some .raises => throw .notImplemented
  | some _ => throw .noClaim

/-- `IdentityMapper.<row>(self, e)` -/
def c11IdentRow (tbl : List C04Handler) (row : String) (rec : Expr → RwR) (e : Expr) : RwR :=
  c11IdentStepB (c04BodyOf tbl 4 row) rec e

/-- `Mapper.__call__`: the handler name the dispatch reaches -/
def c11Dispatch (classes : List C04NodeClass) (tbl : List C04Handler) (e : Expr) :
    Except RwErr String :=
  match c04Dispatch classes (tbl.map (·.name)) e with
  | .invalidForeign => throw .foreign
  | .unsupported => throw .unsupported
  | .handler n => pure n
  | .foreign n => pure n

/-! ## a mapper class -/

def c11FindMethod (m : String) : List C11Method → Option C11Method
  | [] => none
  | x :: r => if x.name == m then some x else c11FindMethod m r

/-- what is fixed for one mapper instance at one recursion level -/
structure C11Self where
  classes : List C04NodeClass
  ident : List C04Handler
  cls : C11Class
  selfAttrs : List (String × C11Val)
  /-- `self.rec` -/
  recur : Expr → RwR
  /-- other mapper instances this one calls (`self.collector`, `self.const_folder`) -/
  applyInst : C11Glob → List String → List C11Val → List C11Val → C11R C11Val

/-- `self.M(args)` for a method that is not `rec`; `depth` bounds the nesting of such calls -/
def c11CallSelf (S : C11Self) (fuel : Nat) : Nat → String → List C11Val → C11R C11Val
  | 0, _, _ => throw .stuck
  | depth + 1, m, args =>
    let ctx : C11Ctx :=
      { recur := S.recur, selfAttrs := S.selfAttrs, callSelf := c11CallSelf S fuel depth,
        callLocal := fun _ _ => throw .stuck,
        sup := fun c row e =>
          match c with
          | .identityMapper => c11IdentRow S.ident row S.recur e
          | _ => throw .noClaim,
        applyInst := S.applyInst, construct := fun _ _ => throw .stuck }
    match c11FindMethod m S.cls.methods with
    | some ⟨_, _, .own fn⟩ => c11RunFn ctx fuel fn args
    | some ⟨_, _, .identity row⟩ =>
      (match args with
       | [.expr e] => do pure (.expr (← c11Lift (c11IdentRow S.ident row S.recur e)))
       | _ => throw .stuck)
    | some ⟨_, _, .cseMixin⟩ =>
      -- the mix-in hashes `(expr,)` for its per-instance dictionary (assumed transparent within
      -- one call, see C05 `cse_protocol_current`) and hands over to the `_uncached` attribute
      (match args with
       | [.expr e] =>
         if e.hasList then throw (.py .typeError)
         else c11CallSelf S fuel depth "map_common_subexpression_uncached" args
       | _ => throw .stuck)
    | none =>
      -- inherited from `IdentityMapper`
      (match args with
       | [.expr e] => do pure (.expr (← c11Lift (c11IdentRow S.ident m S.recur e)))
       | _ => throw .stuck)

/-- nesting depth of `self.<method>` calls the tables need (handler → helper → helper → helper) -/
def c11Depth : Nat := 4

/-- one handler call: dispatch, then the method of that name -/
def c11Handle (S : C11Self) (fuel : Nat) (e : Expr) : RwR :=
  match c11Dispatch S.classes S.ident e with
  | .error err => .error err
  | .ok n => c11ToRw (c11CallSelf S fuel c11Depth n [.expr e])

/-- **A mapper class of the table, run**: `self.rec` is the mapper itself, one unit of fuel per
level. -/
def c11Mapper (classes : List C04NodeClass) (ident : List C04Handler) (cls : C11Class)
    (selfAttrs : List (String × C11Val))
    (applyInst : Nat → C11Glob → List String → List C11Val → List C11Val → C11R C11Val) :
    Nat → Expr → RwR
  | 0, _ => throw .fuel
  | fuel + 1, e =>
    c11Handle { classes := classes, ident := ident, cls := cls, selfAttrs := selfAttrs,
                recur := c11Mapper classes ident cls selfAttrs applyInst fuel,
                applyInst := applyInst fuel } fuel e

/-! ## instances and entry points -/

def c11NoInst : Nat → C11Glob → List String → List C11Val → List C11Val → C11R C11Val :=
  fun _ _ _ _ _ => throw .stuck

/-- calling an instance of a mapper class that itself calls no other instance -/
def c11LeafInst (classes : List C04NodeClass) (ident : List C04Handler) (T : C11Table) (fuel : Nat)
    (cls : C11Glob) (attrs : List String) (vals : List C11Val) (args : List C11Val) :
    C11R C11Val :=
  match args with
  | [.expr e] =>
    let run (C : C11Class) : C11R C11Val := do
      pure (.expr (← c11Lift (c11Mapper classes ident C (attrs.zip vals) c11NoInst fuel e)))
    (match cls with
     | .flattenMapper => run T.flatten
     | .plainFolder => run T.plainFolder
     | .commFolder => run T.commFolder
     | .termCollector => run T.collector
     | _ => throw .stuck)
  | _ => throw .stuck

/-- calling any mapper instance of the table: a `DistributeMapper` calls its collector and folder -/
def c11Inst (classes : List C04NodeClass) (ident : List C04Handler) (T : C11Table) (fuel : Nat)
    (cls : C11Glob) (attrs : List String) (vals : List C11Val) (args : List C11Val) :
    C11R C11Val :=
  match cls, args with
  | .distributeMapper, [.expr e] => do
      pure (.expr (← c11Lift (c11Mapper classes ident T.distributor (attrs.zip vals)
        (c11LeafInst classes ident T) fuel e)))
  | _, _ => c11LeafInst classes ident T fuel cls attrs vals args

def c11ClassOf (T : C11Table) : C11Glob → Option C11Class
  | .flattenMapper => some T.flatten
  | .plainFolder => some T.plainFolder
  | .commFolder => some T.commFolder
  | .termCollector => some T.collector
  | .distributeMapper => some T.distributor
  | _ => none

/-- the value of a default (`None`, `True` / `False`, an int literal) -/
def c11DefaultOf (p : String) : List (String × C11Tm) → Option C11Val
  | [] => none
  | (q, t) :: r =>
    if q == p then
      (match t with
       | .pyNone => some C11Val.none
       | .pyBool b => some (C11Val.bool b)
       | .int n => some (C11Val.expr (.const (.int n)))
       | _ => none)
    else c11DefaultOf p r

/-- missing trailing arguments are filled from the defaults -/
def c11FillDefaults : List String → List (String × C11Tm) → List C11Val → Option (List C11Val)
  | [], _, [] => some []
  | [], _, _ :: _ => none
  | _ :: ps, ds, a :: as => (c11FillDefaults ps ds as).map (a :: ·)
  | p :: ps, ds, [] =>
    match c11DefaultOf p ds with
    | some v => (c11FillDefaults ps ds []).map (v :: ·)
    | none => none

/-- the instance attributes a constructor sets, in order (`self.A = …` at the top level of its body) -/
def c11SetSelfNames : List C11Stmt → List String
  | [] => []
  | .setSelf a _ :: r => a :: c11SetSelfNames r
  | _ :: r => c11SetSelfNames r

/-- instantiate a mapper class of the table: run its own `__init__`, if it has one -/
def c11Construct (T : C11Table) : Nat → C11Glob → List C11Val → C11R C11Val
  | 0, _, _ => throw .stuck
  | depth + 1, g, args =>
    match c11ClassOf T g with
    | none => throw .stuck
    | some C =>
      match c11FindMethod "__init__" C.methods with
      | none => if args.isEmpty then pure (.inst g [] []) else throw (.py .typeError)
      | some ⟨_, _, .own fn⟩ =>
        (match c11FillDefaults fn.params fn.defaults args with
         | none => throw (.py .typeError)
         | some full =>
           let ctx : C11Ctx :=
             { recur := fun _ => throw .noClaim, selfAttrs := [],
               callSelf := fun _ _ => throw .stuck, callLocal := fun _ _ => throw .stuck,
               sup := fun _ _ _ => throw .noClaim, applyInst := fun _ _ _ _ => throw .stuck,
               construct := c11Construct T depth }
           match c11Frame fn.params fn.locals [] full with
           | none => throw .stuck
           | some env =>
             match c11ExecL ctx 0 fn.body env with
             | .fell env' =>
               let ns := c11SetSelfNames fn.body
               pure (.inst g ns (ns.map fun a => c11Get ("self." ++ a) env'))
             | .ret .none => throw .stuck
             | .fail e => throw e
             | _ => throw .stuck)
      | some _ => throw .stuck

/-- **An entry point of the table, run** (`flatten(e)`, `distribute(e, parameters, commutative)`):
`run` is what calling the mapper instance it builds does. -/
def c11Entry (T : C11Table) (name : String) (args : List C11Val)
    (run : C11Glob → List String → List C11Val → List C11Val → C11R C11Val) : C11R C11Val :=
  match T.entries.find? (fun f => f.name == name) with
  | none => throw .stuck
  | some fn =>
    match c11FillDefaults fn.params fn.defaults args with
    | none => throw (.py .typeError)
    | some full =>
      c11RunFn
        { recur := fun _ => throw .noClaim, selfAttrs := [],
          callSelf := fun _ _ => throw .stuck, callLocal := fun _ _ => throw .stuck,
          sup := fun _ _ _ => throw .noClaim, applyInst := run,
          construct := c11Construct T 3 } 0 fn full

/-- the function a public name of `pymbolic` is, by the entry of that (unqualified) name -/
def c11Public (T : C11Table) (name : String) : Option String :=
  match T.aliases.find? (fun a => a.1 == name) with
  | none => none
  | some (_, qual) => (T.entries.find? (fun f => f.definedIn == qual)).map (·.name)

/-- `pymbolic.<name>(e, …)` end to end with `fuel` for the mapper run -/
def c11RunPublic (classes : List C04NodeClass) (ident : List C04Handler) (T : C11Table)
    (name : String) (args : List C11Val) (fuel : Nat) : RwR :=
  match c11Public T name with
  | none => throw .noClaim
  | some f => c11ToRw (c11Entry T f args (c11Inst classes ident T fuel))

/-- `CLS(ctorArgs…)(e)`: instantiate a mapper class of the table (its own `__init__`, if any) and
call the instance -/
def c11RunClass (classes : List C04NodeClass) (ident : List C04Handler) (T : C11Table)
    (cls : C11Glob) (ctorArgs : List C11Val) (e : Expr) (fuel : Nat) : RwR :=
  match c11Construct T 3 cls ctorArgs with
  | .ok (.inst g attrs vals) => c11ToRw (c11Inst classes ident T fuel g attrs vals [.expr e])
  | .ok _ => .error .noClaim
  | .error er => c11ToRw (.error er)

end PV
