import PV.Model.Compile
/-!
# C13 — compiled objects over time

`compile(e, variables)` is called with a list the CALLER owns and may go on changing; the objects
are called later, perhaps only after a pickle round trip.  This file models such a history as a
state machine over a heap of caller lists (addressed by index, changed in place) and a table of
compiled objects (addressed by an id chosen by the caller).

The model mirrors the code as it is (`pymbolic/compiler.py`, `CompiledExpression`):
* `__init__` calls `_compile(expression, variables)` AT ONCE, and `_compile` builds its own list
  `[make_variable(v) for v in variables]` — so an object holds the CONTENT the caller's list had
  at that moment (`compileModel S e L` with the list value `L`), whatever container was passed
  (the list itself, a copy, a tuple, an iterator over it);
* `__getstate__` / `__setstate__`: `setstate S c.getstate` (re-compilation of the stored state);
* `__call__`: the stored lambda — its argument names are `c.args`.
(The statement-by-statement tie of these three methods to the source is `PV.C13.
compiled_protocol_current` / `compileModel_eq_table_current`.)
-/
namespace PV

/-- one in-place change of a caller's list (indices are natural numbers; an operation that would
raise in Python — `pop` / `__setitem__` out of range, `remove` of an absent name — leaves the list
as it is: the harness skips such a step) -/
inductive ListOp where
  | append (n : String)
  | insert (i : Nat) (n : String)
  | setitem (i : Nat) (n : String)
  | pop (i : Nat)
  | remove (n : String)
  | reverse
  | sort
  | clear
  deriving Repr, Inhabited

def ListOp.apply : ListOp → List String → List String
  | .append n, l => l ++ [n]
  | .insert i n, l => l.take i ++ n :: l.drop i
  | .setitem i n, l => l.set i n
  | .pop i, l => l.eraseIdx i
  | .remove n, l => l.erase n
  | .reverse, l => l.reverse
  | .sort, l => sortStrings l
  | .clear, _ => []

/-- a step of the caller's program -/
inductive HStep where
  /-- `L_l.<op>(…)` -/
  | mutate (l : Nat) (op : ListOp)
  /-- `f_fid = compile(e_e, L_l)` -/
  | compile (fid e l : Nat)
  /-- `f_fid = pickle.loads(pickle.dumps(f_src))` -/
  | pickle (fid src : Nat)
  /-- `f_fid(…)`: observed is the argument list of the lambda that runs -/
  | call (fid : Nat)
  deriving Repr, Inhabited

structure HState where
  /-- the caller's lists -/
  lists : List (List String)
  /-- the compiled objects, oldest first -/
  objs : List (Nat × Compiled)
  /-- what the calls so far observed: (object id, argument names of the lambda) -/
  seen : List (Nat × List String)
  deriving Repr, Inhabited

def lookupObj (objs : List (Nat × Compiled)) (fid : Nat) : Option Compiled :=
  (objs.find? fun p => p.1 == fid).map (·.2)

def hasDup : List String → Bool
  | [] => false
  | x :: xs => xs.contains x || hasDup xs

/-- One step.  An id is bound once (a step that would re-bind one is skipped, as is a step that
names a missing list / expression / object, or a compilation the model refuses). -/
def HState.step (S : PrintPrec) (exprs : List Expr) (st : HState) : HStep → HState
  | .mutate l op =>
    match st.lists[l]? with
    | none => st
    | some L => { st with lists := st.lists.set l (op.apply L) }
  | .compile fid e l =>
    match lookupObj st.objs fid, exprs[e]?, st.lists[l]? with
    | none, some ex, some L =>
      if hasDup L then st else
      match compileModel S ex L with
      | .ok c => { st with objs := st.objs ++ [(fid, c)] }
      | .error _ => st
    | _, _, _ => st
  | .pickle fid src =>
    match lookupObj st.objs fid, lookupObj st.objs src with
    | none, some c =>
      match setstate S c.getstate with
      | .ok c' => { st with objs := st.objs ++ [(fid, c')] }
      | .error _ => st
    | _, _ => st
  | .call fid =>
    match lookupObj st.objs fid with
    | some c => { st with seen := st.seen ++ [(fid, c.args)] }
    | none => st

def HState.run (S : PrintPrec) (exprs : List Expr) (st : HState) (steps : List HStep) : HState :=
  steps.foldl (HState.step S exprs) st

/-- what a call would observe if the object resolved the caller's list only WHEN CALLED (a
deferred compilation holding the list by reference): the content list `l` has at that moment -/
def deferredArgs (S : PrintPrec) (exprs : List Expr) (st : HState) (e l : Nat) : Option (List String) :=
  match exprs[e]?, st.lists[l]? with
  | some ex, some L =>
    match compileModel S ex L with
    | .ok c => some c.args
    | .error _ => none
  | _, _ => none

end PV
