import PV.Model.CCode
import PV.Model.CCodeFrag
/-
  C14, program level.  The C PROGRAM the mapper stands for is the list of hoisted assignments
  (`cse_name_list`, in emission order) followed by the expression text.  This file models

  * `cFragCse`: the fragment `cFrag` of `CCodeFrag.lean` with `CommonSubexpression` wrappers at any
    place (nested wrappers included);
  * `strip`: the tree without its wrappers — the evaluator gives a wrapper the value of its child,
    so the reference meaning of a `cFragCse` tree is `denV env (strip e)`;
  * `progE` / `emitProg` / `emitsP`: the mapper (`ccodeE` of `CCode.lean`, same allocator state
    `CSt`, same control flow) returning in addition the NEW assignments of the call as
    `(name, printed structure)` pairs in emission order — the allocator state itself keeps only
    the rendered text of a right-hand side, C's reading `denC` is defined on the structure;
  * `runProg`: the C meaning of a program: the declarations `long name = rhs;` are executed in
    order, each binding its name to the C value `denC` of its right-hand side in the environment
    extended so far (declaring a name that is already declared — by the environment or by an
    earlier assignment — does not compile: `none`), then the expression is evaluated;
  * `erase`: the tree in which every outermost wrapper is replaced by the variable that carries its
    hoisted name (the tree whose text the mapper prints for the expression).
-/
namespace PV.C14
open PV

/-! ### the fragment with wrappers -/

mutual
/-- `cFrag` (= `cFragM true`) plus `CommonSubexpression` wrappers anywhere: a wrapper is printed as
an identifier, so it may stand wherever a variable may (the base of `x**2` excepted) -/
def cFragCse : Expr → Bool
  | .const (.int _) => true
  | .var _ => true
  | .cse c _ _ => cFragCse c
  | .nary .sum (c :: cs) => cFragCse c && !negShape c && cFragCseL cs
  | .nary .prod (c1 :: c2 :: cs) => cFragCse c1 && !isRem c1 && cFragCseP (c2 :: cs)
  | .nary .band (c1 :: c2 :: cs) => cFragCse c1 && cFragCseL (c2 :: cs)
  | .nary .bxor (c1 :: c2 :: cs) => cFragCse c1 && cFragCseL (c2 :: cs)
  | .nary .bor (c1 :: c2 :: cs) => cFragCse c1 && cFragCseL (c2 :: cs)
  | .nary .land (c1 :: c2 :: cs) => cFragCse c1 && cFragCseL (c2 :: cs)
  | .nary .lor (c1 :: c2 :: cs) => cFragCse c1 && cFragCseL (c2 :: cs)
  | .nary .min [a, b] => cFragCse a && cFragCse b
  | .nary .max [a, b] => cFragCse a && cFragCse b
  | .bin .floordiv a b => cFragCse a && cFragCse b
  | .bin .rem a b => cFragCse a && cFragCse b && !isPow b
  | .bin .pow (.var _) (.const (.int n)) => n == 2
  | .bin .lshift a b => cFragCse a && cFragCse b
  | .bin .rshift a b => cFragCse a && cFragCse b
  | .un _ a => cFragCse a
  | .cmp _ a b => cFragCse a && cFragCse b && !isBitwise a && !isBitwise b
  | .ite c t e => cFragCse c && cFragCse t && cFragCse e
  | _ => false
def cFragCseL : List Expr → Bool
  | [] => true
  | c :: cs => cFragCse c && cFragCseL cs
def cFragCseP : List Expr → Bool
  | [] => true
  | c :: cs => cFragCse c && !isRem c && cFragCseP cs
end

mutual
/-- the tree without its wrappers (`EvaluationMapper.map_common_subexpression` evaluates the child) -/
def strip : Expr → Expr
  | .cse c _ _ => strip c
  | .nary o cs => .nary o (stripL cs)
  | .bin o a b => .bin o (strip a) (strip b)
  | .un o a => .un o (strip a)
  | .cmp o a b => .cmp o (strip a) (strip b)
  | .ite c t e => .ite (strip c) (strip t) (strip e)
  | e => e
def stripL : List Expr → List Expr
  | [] => []
  | c :: cs => strip c :: stripL cs
end

/-- the reference meaning of a `cFragCse` tree: a wrapper means its child -/
def denVCse (env : Env) (e : Expr) : Option CVal := denV env (strip e)

mutual
/-- `P` holds for the child of every wrapper of `e` that is not inside another wrapper
(`deep = false`), or of every wrapper at any depth (`deep = true`) -/
def cseAll (deep : Bool) (P : Expr → Bool) : Expr → Bool
  | .cse c _ _ => P c && (!deep || cseAll deep P c)
  | .nary _ cs => cseAllL deep P cs
  | .bin _ a b => cseAll deep P a && cseAll deep P b
  | .un _ a => cseAll deep P a
  | .cmp _ a b => cseAll deep P a && cseAll deep P b
  | .ite c t e => cseAll deep P c && cseAll deep P t && cseAll deep P e
  | _ => true
def cseAllL (deep : Bool) (P : Expr → Bool) : List Expr → Bool
  | [] => true
  | c :: cs => cseAll deep P c && cseAllL deep P cs
end

/-- every hoisted subexpression has a value (inside the guards of `denV`): the generated program
computes ALL hoisted assignments, also those whose wrapper stands in a branch that the evaluator
does not take -/
def cseTotal (env : Env) (e : Expr) : Bool := cseAll true (fun c => (denVCse env c).isSome) e

/-! ### the name of a wrapper child, and the printed tree -/

/-- `cse_to_name[child]` -/
def lookupName (M : List (CCKey × String)) (c : Expr) : Option String :=
  (M.find? (fun kv => kv.1.eq (.expr c))).map (·.2)

mutual
/-- every outermost wrapper replaced by the variable of its hoisted name -/
def erase (M : List (CCKey × String)) : Expr → Expr
  | .cse c _ _ => .var ((lookupName M c).getD "")
  | .nary o cs => .nary o (eraseL M cs)
  | .bin o a b => .bin o (erase M a) (erase M b)
  | .un o a => .un o (erase M a)
  | .cmp o a b => .cmp o (erase M a) (erase M b)
  | .ite c t e => .ite (erase M c) (erase M t) (erase M e)
  | e => e
def eraseL (M : List (CCKey × String)) : List Expr → List Expr
  | [] => []
  | c :: cs => erase M c :: eraseL M cs
end

/-! ### programs and their C meaning -/

abbrev Assigns := List (String × Doc)

structure CProg where
  /-- `long name = rhs;` in emission order (`cse_name_list`) -/
  assigns : Assigns
  expr : Doc
  deriving Repr, Inhabited

/-- the program text: the assignments `(name, text)` and the expression text -/
def CProg.text (p : CProg) : List (String × String) × String :=
  (p.assigns.map fun a => (a.1, a.2.render), p.expr.render)

/-- execute the declarations in order.  `none`: a name is declared twice (by the environment — the
variables of the enclosing function — or by an earlier assignment), or a right-hand side has no
value (undefined operation, unknown variable, opaque text). -/
def runAssigns (env : Env) : Assigns → Option Env
  | [] => some env
  | (n, d) :: rest =>
    match env.get n with
    | some _ => none
    | none =>
      match denC env d with
      | some v => runAssigns ((n, .int v) :: env) rest
      | none => none

/-- the C value of the program: declarations, then the expression -/
def runProg (env : Env) (p : CProg) : Option Int :=
  match runAssigns env p.assigns with
  | some envX => denC envX p.expr
  | none => none

/-! ### the mapper, returning the new assignments as printed structures -/

/-- printed structure, hoisted names the text refers to, NEW assignments, new allocator state -/
abbrev POut := Doc × List String × Assigns × CSt

abbrev PPrinter := CSt → Expr → Nat → Except CErr POut

def printAllP (f : PPrinter) :
    CSt → List (Expr × Nat) → Except CErr (List Doc × List String × Assigns × CSt)
  | st, [] => pure ([], [], [], st)
  | st, (e, enc) :: rest => do
      let (d, r, a, st1) ← f st e enc
      let (ds, rs, as, st2) ← printAllP f st1 rest
      pure (d :: ds, r ++ rs, a ++ as, st2)

/-- `ccodeGeneric` with the assignments -/
def progGeneric (S : PrintPrec) (f : PPrinter) (st : CSt) (e : Expr) (enc : Nat) :
    Except CErr POut := do
  let pl ← plan S e enc
  let (ds, refs, as, st') ← printAllP f st pl
  let d ← assemble S st.reverse e enc ds
  pure (d, refs, as, st')

/-- `ccodeCse` with the assignments: the assignments of the child come first, then the new one -/
def progCse (S : PrintPrec) (f : PPrinter) (st : CSt) (c : Expr) (p : Option String) :
    Except CErr POut :=
  if c.hasList then throw .unsupported else
  match st.toName.find? (fun kv => kv.1.eq (.expr c)) with
  | some kv => pure (.var kv.2, [kv.2], [], st)
  | none =>
    match f st c S.none with
    | .error e => throw e
    | .ok (d, r, as, st1) =>
      match freshName st1 p with
      | none => throw .noClaim
      | some n =>
        match st1.toName.find? (fun kv => kv.1.eq (.expr c)) with
        | some _ => throw .noClaim
        | none =>
          pure (.var n, [n], as ++ [(n, d)],
            { st1 with
              nameList := st1.nameList ++ [{ name := n, val := .text d.render, child := some c,
                                             refs := r }],
              toName := st1.toName ++ [(.expr c, n)],
              names := st1.names ++ [.text n] })

/-- `ccodeE` with the assignments -/
def progE (S : PrintPrec) : Nat → CSt → Expr → Nat → Except CErr POut
  | 0, _, _, _ => throw .fuel
  | fuel + 1, st, .cse c p _, _ => progCse S (progE S fuel) st c p
  | fuel + 1, st, e, enc => progGeneric S (progE S fuel) st e enc

/-- `mapper(expr)` as a program fragment: the expression structure and the assignments the call
appends to `cse_name_list` -/
def emitProg (S : PrintPrec) (st : CSt) (e : Expr) : Except CErr POut :=
  progE S (2 * e.size + 4) st e S.none

/-- successive calls on ONE mapper: the expression structures, ALL assignments appended by these
calls in order, the final allocator state -/
def emitsP (S : PrintPrec) : CSt → List Expr → Except CErr (List Doc × Assigns × CSt)
  | st, [] => pure ([], [], st)
  | st, e :: es => do
      let (d, _, a, st1) ← emitProg S st e
      let (ds, as, st2) ← emitsP S st1 es
      pure (d :: ds, a ++ as, st2)

/-- the program of a fresh mapper for `e` -/
def cProgOf (S : PrintPrec) (st : CSt) (e : Expr) : Except CErr CProg :=
  match emitProg S st e with
  | .ok (d, _, as, _) => .ok { assigns := as, expr := d }
  | .error err => .error err

end PV.C14
