import PV.Model.Eval
import PV.Model.Traverse
/-
  C11.  The algebraic rewrites as coded:

    * `flattenM`  : `pymbolic.mapper.flattener.FlattenMapper`
    * `foldM`     : `ConstantFoldingMapper` (`comm = false`) / `CommutativeConstantFoldingMapper`
                    (`comm = true`), i.e. `ConstantFoldingMapperBase.fold`
    * `collectM`  : `pymbolic.mapper.collector.TermCollector`
    * `distM`     : `pymbolic.mapper.distributor.DistributeMapper` (`pymbolic.expand`/`distribute`)
    * `polyNorm`  : a normal form for polynomial expressions (the verified checker of C11)

  All four mappers are `IdentityMapper`s with a few handlers replaced; the inherited handlers are
  `idMap rec` ("apply `rec` to every direct child and rebuild").  `fold`, `split_term` and
  `DistributeMapper.map_product/map_power` call `self.rec` on trees they have just BUILT, so the
  recursion is not structural: every function takes `fuel` (one unit per nested call or loop
  iteration) and answers `RwErr.fuel` when it runs out.

  Dictionaries are insertion-ordered association lists looked up with Python `==`; the frozenset
  keys of `TermCollector.map_sum` are lists of (base, exponent) pairs compared as sets (the order
  in which CPython iterates a frozenset depends on string hashes, so outputs of `collectM`/`distM`
  are compared with the code after sorting the children of every Sum and Product).

  The CSE result cache of `CSECachingMapperMixin` (constant folders) is keyed with Python `==`;
  the model computes the uncached result, which is the same whenever Python-equal wrappers in the
  input are structurally identical (no bool/float constants, no keyword calls: `Expr.simple`).
-/
namespace PV

inductive RwErr where
  | foreign          -- ValueError: invalid foreign object (a str / None reached by the traversal)
  | unsupported      -- UnsupportedExpressionError (dependency analysis of Substitution/Derivative)
  | typeError | zeroDiv | indexError | attrError | notImplemented | unknownVar
  | runtime          -- RuntimeError("split_term expects a multiplicative term")
  | assertion
  | noClaim          -- outside the model (floats, tuples under products, ...)
  | fuel
  deriving Repr, DecidableEq, Inhabited

abbrev RwR := Except RwErr Expr

def RwErr.ofOp : OpErr → RwErr
  | .typeError => .typeError
  | .assertion => .assertion
  | .noClaim => .noClaim

def RwErr.ofDep : DepErr → RwErr
  | .unsupported => .unsupported
  | .foreign => .foreign
  | .unhashable => .typeError

def rwLiftOp (r : OpR) : RwR :=
  match r with
  | .ok e => .ok e
  | .error e => .error (RwErr.ofOp e)

/-- `DependencyMapper()(e)` with the default flags -/
def depsR (e : Expr) : Except RwErr (List Expr) :=
  match deps {} e with
  | .ok d => .ok d
  | .error err => .error (RwErr.ofDep err)

/-! ### `IdentityMapper` handlers -/

/-- `map_slice`: `None` parts stay `None` -/
def mapOpt (rec : Expr → RwR) : Expr → RwR
  | .const .none => pure (.const .none)
  | e => rec e

/-- One `IdentityMapper` handler: `rec` on every direct child (left to right, dataclass field
order), rebuild.  `map_common_subexpression` collapses a wrapper whose mapped child is zero. -/
def idMap (rec : Expr → RwR) : Expr → RwR
  | .const (.str _) => throw .foreign
  | .const .none => throw .foreign
  | .const c => pure (.const c)
  | .var x => pure (.var x)
  | .nary o cs => do pure (.nary o (← cs.mapM rec))
  | .bin o a b => do
      let a' ← rec a
      let b' ← rec b
      pure (.bin o a' b')
  | .un o a => do pure (.un o (← rec a))
  | .cmp o a b => do
      let a' ← rec a
      let b' ← rec b
      pure (.cmp o a' b')
  | .ite c t e => do
      let c' ← rec c
      let t' ← rec t
      let e' ← rec e
      pure (.ite c' t' e')
  | .call f as => do
      let f' ← rec f
      let as' ← as.mapM rec
      pure (.call f' as')
  | .callKw f as ns vs => do
      let f' ← rec f
      let as' ← as.mapM rec
      let vs' ← vs.mapM rec
      pure (.callKw f' as' ns vs')
  | .subscript a i => do
      let a' ← rec a
      let i' ← rec i
      pure (.subscript a' i')
  | .lookup a n => do pure (.lookup (← rec a) n)
  | .cse c p s => do
      let c' ← rec c
      if c'.isZero then pure zero else pure (.cse c' p s)
  | .subst c vs xs => do
      let c' ← rec c
      let xs' ← xs.mapM rec
      pure (.subst c' vs xs')
  | .deriv c vs => do pure (.deriv (← rec c) vs)
  | .slice cs => do pure (.slice (← cs.mapM (mapOpt rec)))
  | .nan => pure .nan
  | .wildcard => pure .wildcard
  | .dotWild n => pure (.dotWild n)
  | .starWild n => pure (.starWild n)
  | .funcSym => pure .funcSym
  | .tuple cs => do pure (.tuple (← cs.mapM rec))
  | .list cs => do pure (.list (← cs.mapM rec))

/-! ### Python arithmetic between two operands of which either may be a constant -/

def Value.toExpr? : Value → Option Expr
  | .int n => some (.const (.int n))
  | .bool b => some (.const (.bool b))
  | _ => Option.none

/-- plain Python arithmetic between two int/bool constants; anything that leaves the integers
(true division, negative powers, floats) is outside the model -/
def constArith (f : Value → Value → R) (a b : Const) : RwR :=
  match a.toValue?, b.toValue? with
  | some x, some y =>
    match f x y with
    | .ok v => match v.toExpr? with
      | some e => pure e
      | none => throw .noClaim
    | .error .zeroDiv => throw .zeroDiv
    | .error .typeError => throw .typeError
    | .error _ => throw .noClaim
  | _, _ => throw .noClaim

/-- `a + b` -/
def pyAdd (a b : Expr) : RwR :=
  match a, b with
  | .const x, .const y => constArith Value.add x y
  | _, _ => rwLiftOp (Ops.bin .add a b)

/-- `a * b` -/
def pyMul (a b : Expr) : RwR :=
  match a, b with
  | .const x, .const y => constArith Value.mul x y
  | _, _ => rwLiftOp (Ops.bin .mul a b)

/-- `a ** b` -/
def pyPow (a b : Expr) : RwR :=
  match a, b with
  | .const x, .const y => constArith Value.pow x y
  | _, _ => rwLiftOp (Ops.bin .pow a b)

/-! ### FlattenMapper -/

mutual
/-- does `flattened_product` meet a non-empty tuple/list item (`item - 1` raises TypeError)? -/
def seqItem : Expr → Bool
  | .tuple cs => !cs.isEmpty
  | .list cs => !cs.isEmpty
  | .nary .prod cs => seqItemL cs
  | _ => false
def seqItemL : List Expr → Bool
  | [] => false
  | c :: cs => seqItem c || seqItemL cs
end

/-- `flattened_product` guarded against sequence items (the model abstains there) -/
def flatProd (items : List Expr) : RwR :=
  if seqItemL items then throw .noClaim else pure (flattenedProduct items)

def flattenM : Nat → Expr → RwR
  | 0, _ => throw .fuel
  | fuel + 1, .nary .sum cs => do pure (flattenedSum (← cs.mapM (flattenM fuel)))
  | fuel + 1, .nary .prod cs => do flatProd (← cs.mapM (flattenM fuel))
  | fuel + 1, e => idMap (flattenM fuel) e

/-! ### Constant folding -/

/-- outcome of `is_constant(child)` followed by `self.evaluate(child)` -/
inductive Classified where
  | constant (v : Value)      -- an int / bool value
  | nonconstant

/-- `is_constant` = no dependencies (default `DependencyMapper`); `evaluate` = the memoizing
evaluator on an empty context, `ValueError`s (unsupported node, foreign object) caught. -/
def classify (child : Expr) : Except RwErr Classified := do
  let d ← depsR child
  if !d.isEmpty then pure .nonconstant
  else match (evalG true [] child {}).1 with
    | .ok (.int n) => pure (.constant (.int n))
    | .ok (.bool b) => pure (.constant (.bool b))
    | .ok _ => throw .noClaim
    | .error .valueError => pure .nonconstant
    | .error .unsupportedExpr => pure .nonconstant
    | .error .foreign => pure .nonconstant
    | .error .noClaim => throw .noClaim
    | .error .zeroDiv => throw .zeroDiv
    | .error .typeError => throw .typeError
    | .error .indexError => throw .indexError
    | .error .attrError => throw .attrError
    | .error .notImplemented => throw .notImplemented
    | .error (.unknownVar _) => throw .unknownVar

/-- the `while queue:` loop of `fold`; `isProd` selects `klass` -/
def foldLoop (rec : Expr → RwR) (isProd : Bool) :
    Nat → List Expr → List Value → List Expr → Except RwErr (List Value × List Expr)
  | 0, _, _, _ => throw .fuel
  | _ + 1, [], consts, non => pure (consts, non)
  | fuel + 1, item :: queue, consts, non => do
      let child ← rec item
      match isProd, child with
      | false, .nary .sum cs => foldLoop rec isProd fuel (cs ++ queue) consts non
      | true, .nary .prod cs => foldLoop rec isProd fuel (cs ++ queue) consts non
      | _, _ =>
        match ← classify child with
        | .constant v => foldLoop rec isProd fuel queue (consts ++ [v]) non
        | .nonconstant => foldLoop rec isProd fuel queue consts (non ++ [child])

/-- `functools.reduce(op, constants)` on a non-empty list of int/bool values -/
def reduceConsts (isProd : Bool) : Value → List Value → R
  | acc, [] => pure acc
  | acc, v :: vs => do
      let acc' ← (if isProd then Value.mul acc v else Value.add acc v)
      reduceConsts isProd acc' vs

def foldFinish (isProd : Bool) (consts : List Value) (non : List Expr) : RwR :=
  let build (items : List Expr) : RwR :=
    if isProd then flatProd items else pure (flattenedSum items)
  match consts with
  | [] => build non
  | c :: cs =>
    match reduceConsts isProd c cs with
    | .ok v => match v.toExpr? with
      | some k => build (k :: non)
      | none => throw .noClaim
    | .error _ => throw .noClaim

def foldM (comm : Bool) : Nat → Expr → RwR
  | 0, _ => throw .fuel
  | fuel + 1, .nary .sum cs => do
      let (consts, non) ← foldLoop (foldM comm fuel) false fuel cs [] []
      foldFinish false consts non
  | fuel + 1, .nary .prod cs =>
      if comm then do
        let (consts, non) ← foldLoop (foldM comm fuel) true fuel cs [] []
        foldFinish true consts non
      else idMap (foldM comm fuel) (.nary .prod cs)
  | fuel + 1, .cse c p s =>
      -- CSECachingMapperMixin: the wrapper is a dictionary key (hashed before anything else)
      if c.hasList then throw .typeError else idMap (foldM comm fuel) (.cse c p s)
  | fuel + 1, e => idMap (foldM comm fuel) e

/-! ### TermCollector -/

/-- `isinstance(e, AlgebraicLeaf)` -/
def Expr.isAlgebraicLeaf : Expr → Bool
  | .var _ | .wildcard | .dotWild _ | .starWild _ | .funcSym | .call .. | .callKw ..
  | .subscript .. | .lookup .. => true
  | _ => false

def termBase : Expr → Expr
  | .bin .pow b _ => b
  | t => t

def termExp : Expr → Expr
  | .bin .pow _ e => e
  | _ => one

/-- the factors `split_term` iterates over -/
def splitFactors (t : Expr) : Except RwErr (List Expr) :=
  match t with
  | .nary .prod cs => pure cs
  | .bin .pow _ _ => pure [t]
  | _ =>
    if t.isAlgebraicLeaf then pure [t]
    else do
      let d ← depsR t
      if d.isEmpty then pure [t] else throw .runtime

/-- `base2exp[mybase] += myexp` / `base2exp[mybase] = myexp` (keys are hashed) -/
def b2eInsert (b e : Expr) : List (Expr × Expr) → Except RwErr (List (Expr × Expr))
  | [] => if b.hasList then throw .typeError else pure [(b, e)]
  | (b', e') :: rest =>
    if b.hasList then throw .typeError
    else if b'.pyEq b then do
      let s ← pyAdd e' e
      pure ((b', s) :: rest)
    else do
      let rest' ← b2eInsert b e rest
      pure ((b', e') :: rest')

def b2eBuild : List Expr → List (Expr × Expr) → Except RwErr (List (Expr × Expr))
  | [], acc => pure acc
  | t :: ts, acc => do
      let acc' ← b2eInsert (termBase t) (termExp t) acc
      b2eBuild ts acc'

/-- `deps <= parameters` -/
def subsetPy (d params : List Expr) : Bool :=
  d.all fun x => params.any fun p => p.pyEq x

/-- second loop of `split_term`: coefficients (factors depending on parameters only) and the rest -/
def b2eSplit (params : List Expr) :
    List (Expr × Expr) → Except RwErr (List Expr × List (Expr × Expr))
  | [] => pure ([], [])
  | (b, e) :: rest => do
      let term ← pyPow b e
      let d ← depsR term
      let (cs, cl) ← b2eSplit params rest
      if subsetPy d params then pure (term :: cs, cl) else pure (cs, (b, e) :: cl)

/-- frozenset equality of two keys (each has pairwise distinct bases) -/
def keyEqSet (k1 k2 : List (Expr × Expr)) : Bool :=
  k1.length == k2.length &&
    k1.all fun p => k2.any fun q => p.1.pyEq q.1 && p.2.pyEq q.2

/-- `term2coeff[term] = term2coeff.get(term, 0) + coeff` -/
def t2cInsert (k : List (Expr × Expr)) (c : Expr) :
    List (List (Expr × Expr) × Expr) → Except RwErr (List (List (Expr × Expr) × Expr))
  | [] => do
      let s ← pyAdd zero c
      pure [(k, s)]
  | (k', c') :: rest =>
    if keyEqSet k' k then do
      let s ← pyAdd c' c
      pure ((k', s) :: rest)
    else do
      let rest' ← t2cInsert k c rest
      pure ((k', c') :: rest')

/-- `rep2term` -/
def rep2term (rep : List (Expr × Expr)) : RwR := do
  let fs ← rep.mapM fun p => pyPow p.1 p.2
  flatProd fs

/-- `split_term`, given `self.rec` -/
def splitTerm (rec : Expr → RwR) (params : List Expr) (t : Expr) :
    Except RwErr (List (Expr × Expr) × Expr) := do
  let fs ← splitFactors t
  let b2e ← b2eBuild fs []
  let (coeffs, cleaned) ← b2eSplit params b2e
  if cleaned.any (fun p => p.2.hasList) then throw .typeError
  else do
    let cf ← flatProd coeffs
    let coeff ← rec cf
    pure (cleaned, coeff)

def collectSumLoop (rec : Expr → RwR) (params : List Expr) :
    List Expr → List (List (Expr × Expr) × Expr) →
      Except RwErr (List (List (Expr × Expr) × Expr))
  | [], acc => pure acc
  | c :: cs, acc => do
      let (k, coeff) ← splitTerm rec params c
      let acc' ← t2cInsert k coeff acc
      collectSumLoop rec params cs acc'

def collectM (params : List Expr) : Nat → Expr → RwR
  | 0, _ => throw .fuel
  | fuel + 1, .nary .sum cs => do
      let t2c ← collectSumLoop (collectM params fuel) params cs []
      let terms ← t2c.mapM fun kc => do
        let t ← rep2term kc.1
        pyMul kc.2 t
      pure (flattenedSum terms)
  | fuel + 1, e => idMap (collectM params fuel) e

/-! ### DistributeMapper -/

/-- `collector = none`: `distribute(..., commutative=False)` (the collector is the identity) -/
structure DistCfg where
  collector : Option (List Expr) := some []
  deriving Inhabited

/-- `DistributeMapper.collect` -/
def distCollect (cfg : DistCfg) (fuel : Nat) (e : Expr) : RwR := do
  let f ← foldM true fuel e
  match cfg.collector with
  | some params => collectM params fuel f
  | none => pure f

def isSum : Expr → Bool
  | .nary .sum _ => true
  | _ => false

/-- the inner function `dist` of `map_product` -/
def distLoop (collect : Expr → RwR) : Nat → Expr → RwR
  | 0, _ => throw .fuel
  | fuel + 1, .nary .prod cs =>
    let leading := cs.takeWhile (fun c => !isSum c)
    match cs.dropWhile (fun c => !isSum c) with
    | [] => flatProd cs
    | .nary .sum scs :: rest => do
        let rest' ← (if rest.isEmpty then pure one else distLoop collect fuel (.nary .prod rest))
        -- `flattened_product(leading) * dist(sumchild*rest)` is evaluated once per summand, left
        -- operand first
        let terms ← scs.mapM fun sc => do
          let lead ← flatProd leading
          let p ← pyMul sc rest'
          let d ← distLoop collect fuel p
          pyMul lead d
        collect (flattenedSum terms)
    | _ :: _ => throw .assertion
  | _ + 1, e => pure e

/-- `n * (e,)` for an `int`/`bool` `n` -/
def replicateExp (e : Expr) : Const → List Expr
  | .int n => List.replicate n.toNat e
  | .bool b => if b then [e] else []
  | _ => []

def positiveIntConst : Expr → Bool
  | .const (.int n) => n > 0
  | .const (.bool b) => b
  | _ => false

def isProdE : Expr → Bool
  | .nary .prod _ => true
  | _ => false

def distM (cfg : DistCfg) : Nat → Expr → RwR
  | 0, _ => throw .fuel
  | fuel + 1, .nary .sum cs => do
      let cs' ← cs.mapM (distM cfg fuel)
      distCollect cfg fuel (.nary .sum cs')
  | fuel + 1, .nary .prod cs => do
      let cs' ← cs.mapM (distM cfg fuel)
      distLoop (distCollect cfg fuel) fuel (.nary .prod cs')
  | fuel + 1, .bin .quot num den =>
      if !num.isValidOperand then throw .noClaim
      else if num.isOne then pure (.bin .quot num den)
      else do
        let den' ← distM cfg fuel den
        let num' ← distM cfg fuel num
        flatProd [.bin .quot one den', num']
  | fuel + 1, .bin .pow base ex => do
      let newbase ← distM cfg fuel base
      match isProdE base, newbase with
      | true, .nary .prod ncs => do
          let ps ← ncs.mapM fun c => pyPow c ex
          let fp ← flatProd ps
          distM cfg fuel fp
      | _, _ =>
        if positiveIntConst ex && isSum newbase then
          match ex with
          | .const c =>
            -- `self.map_product(flattened_product(exponent * (newbase,)))`
            match ← flatProd (replicateExp newbase c) with
            | .nary o xs => do
                let xs' ← xs.mapM (distM cfg fuel)
                distLoop (distCollect cfg fuel) fuel (.nary o xs')
            | _ => throw .attrError
          | _ => throw .noClaim
        else do
          let ex' ← distM cfg fuel ex
          pure (.bin .pow newbase ex')
  | fuel + 1, e => idMap (distM cfg fuel) e

/-! ### A normal form for polynomial expressions (the per-instance checker) -/

/-- a monomial: variables with positive exponents, sorted by name -/
abbrev Mono := List (String × Nat)
/-- a polynomial with integer coefficients: monomials in decreasing-free canonical order -/
abbrev Poly := List (Mono × Int)

/-- multiply a monomial (variables sorted by name) by `x^n` -/
def Mono.insertVar (x : String) (n : Nat) : Mono → Mono
  | [] => [(x, n)]
  | (y, m) :: b =>
    if x = y then (y, n + m) :: b
    else if x < y then (x, n) :: (y, m) :: b
    else (y, m) :: Mono.insertVar x n b

def Mono.mul : Mono → Mono → Mono
  | [], b => b
  | (x, n) :: a, b => Mono.insertVar x n (Mono.mul a b)

def Mono.lt : Mono → Mono → Bool
  | [], [] => false
  | [], _ :: _ => true
  | _ :: _, [] => false
  | (x, n) :: a, (y, m) :: b =>
    if x < y then true else if y < x then false
    else if n < m then true else if m < n then false
    else Mono.lt a b

/-- add `c·m` to a polynomial kept sorted by `Mono.lt`; zero coefficients are dropped -/
def Poly.insert (m : Mono) (c : Int) : Poly → Poly
  | [] => if c == 0 then [] else [(m, c)]
  | (m', c') :: rest =>
    if m == m' then (if c + c' == 0 then rest else (m', c + c') :: rest)
    else if Mono.lt m m' then (if c == 0 then (m', c') :: rest else (m, c) :: (m', c') :: rest)
    else (m', c') :: Poly.insert m c rest

def Poly.add (p q : Poly) : Poly := p.foldl (fun acc t => Poly.insert t.1 t.2 acc) q

def Poly.mulTerm (m : Mono) (c : Int) (q : Poly) : Poly :=
  q.foldl (fun acc t => Poly.insert (Mono.mul m t.1) (c * t.2) acc) []

def Poly.mul (p q : Poly) : Poly :=
  p.foldl (fun acc t => Poly.add (Poly.mulTerm t.1 t.2 q) acc) []

def Poly.one : Poly := [([], 1)]

def Poly.pow (p : Poly) : Nat → Poly
  | 0 => Poly.one
  | n + 1 => Poly.mul p (Poly.pow p n)

def Poly.const (n : Int) : Poly := if n == 0 then [] else [([], n)]

mutual
/-- normal form of an expression built from integer constants, variables, sums, products,
literal natural-number powers and CSE wrappers; `none` outside that fragment -/
def polyNorm : Expr → Option Poly
  | .const (.int n) => some (Poly.const n)
  | .var x => some [([(x, 1)], 1)]
  | .nary .sum cs => polyNormSum cs
  | .nary .prod cs => polyNormProd cs
  | .bin .pow a (.const (.int n)) =>
    if n < 0 then none else
    match polyNorm a with
    | some p => some (Poly.pow p n.toNat)
    | none => none
  | .cse c _ _ => polyNorm c
  | _ => none
def polyNormSum : List Expr → Option Poly
  | [] => some []
  | c :: cs => match polyNorm c, polyNormSum cs with
    | some p, some q => some (Poly.add p q)
    | _, _ => none
def polyNormProd : List Expr → Option Poly
  | [] => some Poly.one
  | c :: cs => match polyNorm c, polyNormProd cs with
    | some p, some q => some (Poly.mul p q)
    | _, _ => none
end

end PV
