import PV.Model.Algo
/-
  C18 — executable model of `pymbolic/geometric_algebra/__init__.py`.

  Import-free (core Lean only; `PV.Model.Algo` supplies `integer_power`).  Every definition mirrors the Python function named in its
  docstring, loops included; the clean mathematical characterisations live in `PV/Proofs/GA.lean`.

  Blades are `Nat` bitmaps (bit `i` set ⇔ basis vector `e_i` is a factor), exactly as in the code,
  so nothing here depends on the dimension of the space.  The metric is diagonal (the only case in
  which the code implements anything but the outer product) and is given as `g : Nat → R`,
  `g i = space.metric_matrix[i, i]`.
-/
namespace PV.GA

/-! ## helpers -/

/-- `bit_count`:  `count = 0; while i: i &= i - 1; count += 1; return count`
    (the state of the `while` loop is `(i, count)`). -/
def bitCountLoop (i count : Nat) : Nat :=
  if _h : i = 0 then count else bitCountLoop (i &&& (i - 1)) (count + 1)
termination_by i
decreasing_by
  have : i &&& (i - 1) ≤ i - 1 := Nat.and_le_right
  omega

/-- `bit_count(i)` -/
def bitCount (i : Nat) : Nat := bitCountLoop i 0

/-- the `while a_bits:` loop of `canonical_reordering_sign`, state `(a_bits, s)`:
    `s = s + bit_count(a_bits & b_bits); a_bits = a_bits >> 1` -/
def reorderLoop (a b s : Nat) : Nat :=
  if _h : a = 0 then s else reorderLoop (a >>> 1) b (s + bitCount (a &&& b))
termination_by a
decreasing_by
  rw [Nat.shiftRight_eq_div_pow]; omega

/-- the value of `s` when the loop of `canonical_reordering_sign(a_bits, b_bits)` exits
    (`a_bits = a_bits >> 1; s = 0; while …`) -/
def reorderSignExp (a b : Nat) : Nat := reorderLoop (a >>> 1) b 0

/-- `canonical_reordering_sign(a_bits, b_bits)`:  `if s & 1: return -1 else: return 1` -/
def reorderSign (a b : Nat) : Int :=
  if reorderSignExp a b &&& 1 ≠ 0 then -1 else 1

/-! ### `permutation_sign` -/

/-- inner loop `j = i; while p[j] != i: j += 1`; `none` models the `IndexError` raised when the
    item `i` does not occur at or after position `i`.  `fuel` bounds the number of positions that
    are looked at (`p.length` suffices). -/
def findFrom (p : List Nat) (i : Nat) : Nat → Nat → Option Nat
  | 0, _ => none
  | fuel+1, j =>
    match p[j]? with
    | none => none
    | some v => if v ≠ i then findFrom p i fuel (j + 1) else some j

/-- `p[i], p[j] = p[j], p[i]` -/
def swapAt (p : List Nat) (i j : Nat) : List Nat :=
  match p[i]?, p[j]? with
  | some x, some y => (p.set i y).set j x
  | _, _ => p

/-- body of `for i in range(len(p))`, iterations `i, i+1, …` (`n` of them), state `(p, s)` -/
def permSignLoop : Nat → Nat → List Nat → Int → Option Int
  | 0, _, _, s => some s
  | n+1, i, p, s =>
    match findFrom p i (p.length + 1) i with
    | none => none
    | some j =>
      if j ≠ i then permSignLoop n (i + 1) (swapAt p i j) (-s)
      else permSignLoop n (i + 1) p s

/-- `permutation_sign(p)`; `none` = `IndexError` (argument is not a permutation of `0..n-1`) -/
def permutationSign? (p : List Nat) : Option Int := permSignLoop p.length 0 p 1

/-- `permutation_sign(p)` with the error case collapsed to `0` -/
def permutationSign (p : List Nat) : Int := (permutationSign? p).getD 0

/-! ### `Space.bits_and_sign` -/

/-- insertion into a list sorted by `(bindex, num)` (Python tuple order) -/
def insertPair (x : Nat × Nat) : List (Nat × Nat) → List (Nat × Nat)
  | [] => [x]
  | y :: ys =>
    if x.1 < y.1 ∨ (x.1 = y.1 ∧ x.2 ≤ y.2) then x :: y :: ys else y :: insertPair x ys

/-- `sorted((bindex, num) for num, bindex in enumerate(basis_indices))` -/
def sortPairs (l : List (Nat × Nat)) : List (Nat × Nat) := l.foldr insertPair []

def enumFrom' : Nat → List Nat → List (Nat × Nat)
  | _, [] => []
  | n, b :: bs => (b, n) :: enumFrom' (n + 1) bs

/-- `Space.bits_and_sign(basis_indices)` (the `assert` on repetitions is not modelled):
    `bits |= 2**bi` for every index, sign of the sorting permutation. -/
def bitsAndSign (basisIndices : List Nat) : Nat × Int :=
  let perm := (sortPairs (enumFrom' 0 basisIndices)).map (·.2)
  (basisIndices.foldl (fun bits bi => bits ||| 2 ^ bi) 0, permutationSign perm)

/-! ## blade product weights -/

section Metric
variable {R : Type} [Mul R] [OfNat R 1]

/-- loop of `_shared_metric_coeff`, state `(shared_bits, basis_idx, result)`:
    ```
    while shared_bits:
        bit = (1 << basis_idx)
        if shared_bits & bit:
            result = result * space.metric_matrix[basis_idx, basis_idx]
            shared_bits ^= bit
        basis_idx += 1
    ```
    The Python loop does not terminate from an arbitrary state (e.g. `shared_bits = 1`,
    `basis_idx = 1`), so the model takes `fuel`; `sharedMetricCoeff` supplies enough
    (`PV.GA.sharedMetricCoeff_eq_prodBits` shows the fuel never runs out). -/
def smcLoop (g : Nat → R) : Nat → Nat → Nat → R → R
  | 0, _, _, result => result
  | fuel+1, shared, idx, result =>
    if shared = 0 then result
    else
      let bit := 1 <<< idx
      if shared &&& bit ≠ 0 then smcLoop g fuel (shared ^^^ bit) (idx + 1) (result * g idx)
      else smcLoop g fuel shared (idx + 1) result

/-- `_shared_metric_coeff(shared_bits, space)` for the diagonal metric `g` -/
def sharedMetricCoeff (g : Nat → R) (shared : Nat) : R :=
  smcLoop g (shared.log2 + 1) shared 0 1

end Metric

section Weights
variable {R : Type} [Mul R] [OfNat R 0] [OfNat R 1]

/-- `_OuterProduct.orthogonal_blade_product_weight`: `int(not a_bits & b_bits)` -/
def wOuter (_g : Nat → R) (a b : Nat) : R :=
  if a &&& b ≠ 0 then 0 else 1

/-- `_GeometricProduct.orthogonal_blade_product_weight` -/
def wGeometric (g : Nat → R) (a b : Nat) : R :=
  let shared := a &&& b
  if shared ≠ 0 then sharedMetricCoeff g shared else 1

/-- `_InnerProduct.orthogonal_blade_product_weight` -/
def wInner (g : Nat → R) (a b : Nat) : R :=
  let shared := a &&& b
  if shared = a ∨ shared = b then sharedMetricCoeff g shared else 0

/-- `_LeftContractionProduct.orthogonal_blade_product_weight` -/
def wLeftContraction (g : Nat → R) (a b : Nat) : R :=
  let shared := a &&& b
  if shared = a then sharedMetricCoeff g shared else 0

/-- `_RightContractionProduct.orthogonal_blade_product_weight` -/
def wRightContraction (g : Nat → R) (a b : Nat) : R :=
  let shared := a &&& b
  if shared = b then sharedMetricCoeff g shared else 0

/-- `_ScalarProduct.orthogonal_blade_product_weight` -/
def wScalar (g : Nat → R) (a b : Nat) : R :=
  if a = b then sharedMetricCoeff g a else 0

end Weights

/-! ## multivectors

`MultiVector.data` is a Python `dict` from bitmaps to coefficients; a `dict` keeps insertion order,
so it is modelled as an association list in insertion order with distinct keys.

The coefficient type `R` is a parameter: the code is "not picky about what data is used as
coefficients" and only uses `+`, `*`, unary `-`, the literals `0`, `1` and the zero test
`pymbolic.primitives.is_zero` on them.  Every definition that prunes takes the zero test as an
explicit argument `z : R → Bool` (`…Z` names); the plain names instantiate it with `isZeroD`
(`x == 0` decides, which is what `is_zero(x) = not bool(x)` is for ints and `Fraction`s).
`MV = MVOf Int` is the instance the original driver operations run; `MVOf Rat` is the instance
for `Fraction` coefficients. -/

abbrev MVOf (R : Type) := List (Nat × R)

abbrev MV := MVOf Int

section Dict
variable {R : Type}

/-- `d.get(k)` -/
def dictGet : MVOf R → Nat → Option R
  | [], _ => none
  | (k', v) :: d, k => if k' = k then some v else dictGet d k

/-- `d[k] = v` (an existing key keeps its position, a new key goes to the end) -/
def dictSet : MVOf R → Nat → R → MVOf R
  | [], k, v => [(k, v)]
  | (k', v') :: d, k, v => if k' = k then (k', v) :: d else (k', v') :: dictSet d k v

/-- `del d[k]` -/
def dictDel : MVOf R → Nat → MVOf R
  | [], _ => []
  | (k', v') :: d, k => if k' = k then d else (k', v') :: dictDel d k

end Dict

/-- `is_zero(x)` for exact numbers (`not bool(x)`, i.e. `x == 0`) -/
def isZeroD {R : Type} [OfNat R 0] [DecidableEq R] (x : R) : Bool := decide (x = 0)

section MVModel
variable {R : Type} [Add R] [Mul R] [Neg R] [OfNat R 0] [OfNat R 1]

/-- `canonical_reordering_sign(a_bits, b_bits)` as a coefficient (`±1`) -/
def reorderSignR (a b : Nat) : R :=
  if reorderSignExp a b &&& 1 ≠ 0 then -1 else 1

/-- a Python int sign (`1`, `-1`; `0` for the collapsed error case) as a coefficient -/
def signToR (s : Int) : R := if s = 1 then 1 else if s = -1 then -1 else 0

/-- the accumulate-and-prune step shared by `MultiVector.__init__` and `_generic_product`:
    ```
    new_coeff = new_data.setdefault(bits, 0) + coeff
    if is_zero(new_coeff): del new_data[bits]
    else: new_data[bits] = new_coeff
    ``` -/
def dictAccumZ (z : R → Bool) (d : MVOf R) (bits : Nat) (coeff : R) : MVOf R :=
  let newCoeff := (dictGet d bits).getD 0 + coeff
  if z newCoeff then dictDel d bits else dictSet d bits newCoeff

/-- `MultiVector(x, space)` for a non-dict, non-array `x`:  `data = {} if is_zero(x) else {0: x}`
    (a scalar zero is stored like every arithmetic result: without a coefficient). -/
def ofScalarZ (z : R → Bool) (x : R) : MVOf R := if z x then [] else [(0, x)]

/-- `MultiVector({bits: coeff, …}, space)` with integer keys: the dict is stored as given
    (no normalisation, no zero pruning). -/
def ofBitsDict (d : MVOf R) : MVOf R := d

/-- `MultiVector({(i, j, …): coeff, …}, space)` with tuple keys: each key is normalised with
    `bits_and_sign`, coefficients are accumulated and pruned.  (For an empty dict the Python
    condition `data and …` is false and the dict is stored as is — also `[]`.) -/
def ofTuplesDictZ (z : R → Bool) (d : List (List Nat × R)) : MVOf R :=
  d.foldl (fun acc (idx, coeff) =>
    let (bits, sign) := bitsAndSign idx
    dictAccumZ z acc bits (signToR sign * coeff)) []

/-- `MultiVector.__neg__` -/
def mvNeg (a : MVOf R) : MVOf R := a.map fun (bits, c) => (bits, -c)

/-- `MultiVector.__add__`.  Python iterates over `set(self.data) | set(other.data)`, whose order
    is an implementation detail of CPython sets; the model takes the keys of `a` in order followed
    by the new keys of `b`.  Only the order of the result depends on this choice. -/
def mvAddZ (z : R → Bool) (a b : MVOf R) : MVOf R :=
  let keys := a.map (·.1) ++ (b.map (·.1)).filter fun k => (dictGet a k).isNone
  keys.foldl (fun acc bits =>
    let newCoeff := (dictGet a bits).getD 0 + (dictGet b bits).getD 0
    if z newCoeff then acc else dictSet acc bits newCoeff) []

/-- `MultiVector.__sub__`: `self + (-other)` -/
def mvSubZ (z : R → Bool) (a b : MVOf R) : MVOf R := mvAddZ z a (mvNeg b)

/-- `MultiVector._generic_product(other, product_class)` for an orthogonal space;
    `w = product_class.orthogonal_blade_product_weight(·, ·, space)`.
    ```
    for sbits, scoeff in self.data.items():
        for obits, ocoeff in other.data.items():
            new_bits = sbits ^ obits
            weight = bpw(sbits, obits, self.space)
            if not is_zero(weight):
                coeff = weight * canonical_reordering_sign(sbits, obits) * scoeff * ocoeff
                (accumulate and prune)
    ``` -/
def genericProductZ (z : R → Bool) (w : Nat → Nat → R) (a b : MVOf R) : MVOf R :=
  a.foldl (fun acc (sbits, scoeff) =>
    b.foldl (fun acc (obits, ocoeff) =>
      let newBits := sbits ^^^ obits
      let weight := w sbits obits
      if z weight then acc
      else dictAccumZ z acc newBits (weight * reorderSignR sbits obits * scoeff * ocoeff)) acc) []

/-- the blade grade used throughout: `bit_count(bits)` -/
def gradeOf (bits : Nat) : Nat := bitCount bits

/-- sign applied by `rev` (and `inv`) to a blade:
    `if grade*(grade-1)//2 % 2 == 0: coeff else: -coeff` -/
def revSign (bits : Nat) : Int :=
  let grade := bitCount bits
  if grade * (grade - 1) / 2 % 2 = 0 then 1 else -1

/-- sign applied by `invol`: `if grade % 2 == 0: coeff else: -coeff` -/
def involSign (bits : Nat) : Int :=
  if bitCount bits % 2 = 0 then 1 else -1

/-- `MultiVector.rev` -/
def rev (a : MVOf R) : MVOf R :=
  a.map fun (bits, coeff) =>
    let grade := bitCount bits
    if grade * (grade - 1) / 2 % 2 = 0 then (bits, coeff) else (bits, -coeff)

/-- `MultiVector.invol` -/
def invol (a : MVOf R) : MVOf R :=
  a.map fun (bits, coeff) =>
    if bitCount bits % 2 = 0 then (bits, coeff) else (bits, -coeff)

/-- `MultiVector.project(r)` -/
def project (a : MVOf R) (r : Nat) : MVOf R := a.filter fun (bits, _) => bitCount bits = r

/-- `MultiVector.odd` -/
def odd (a : MVOf R) : MVOf R := a.filter fun (bits, _) => bitCount bits % 2 ≠ 0

/-- `MultiVector.even` -/
def even (a : MVOf R) : MVOf R := a.filter fun (bits, _) => bitCount bits % 2 = 0

/-- `MultiVector.as_scalar`; `none` = `ValueError("multivector is not a scalar")`:
    ```
    result = 0
    for bits, coeff in self.data.items():
        if bits != 0: raise ValueError
        result = coeff
    ``` -/
def asScalar (a : MVOf R) : Option R :=
  a.foldl (fun r (bits, coeff) => r.bind fun _ => if bits ≠ 0 then none else some coeff) (some 0)

/-- `MultiVector.scalar_product` -/
def scalarProductZ (z : R → Bool) (g : Nat → R) (a b : MVOf R) : Option R :=
  asScalar (genericProductZ z (wScalar g) a b)

/-- `MultiVector.norm_squared`: `self.rev().scalar_product(self)` -/
def normSquaredZ (z : R → Bool) (g : Nat → R) (a : MVOf R) : Option R :=
  scalarProductZ z g (rev a) a

/-- `MultiVector.I` in a space of `dims` dimensions -/
def pseudoscalar (dims : Nat) : MVOf R := [(2 ^ dims - 1, 1)]

/-- `MultiVector.dual`: `self | self.I.rev()` -/
def dualZ (z : R → Bool) (g : Nat → R) (dims : Nat) (a : MVOf R) : MVOf R :=
  genericProductZ z (wInner g) a (rev (pseudoscalar dims))

/-- `MultiVector.get_pure_grade`; the outer `Option` is Python's `None` -/
def getPureGrade (a : MVOf R) : Option Nat :=
  match a with
  | [] => some 0
  | (bits, _) :: rest =>
    if rest.all fun (b, _) => bitCount b = bitCount bits then some (bitCount bits) else none

/-- `MultiVector.gen_blades()` (`grade=None`): one single-term multivector per stored item -/
def genBlades (a : MVOf R) : List (MVOf R) := a.map fun (bits, coeff) => [(bits, coeff)]

/-- `MultiVector.gen_blades(grade)` -/
def genBladesGrade (a : MVOf R) (grade : Nat) : List (MVOf R) :=
  (a.filter fun (bits, _) => bitCount bits = grade).map fun (bits, coeff) => [(bits, coeff)]

/-- `log_table[bits]` of `as_vector` (`{2**i: i for i in range(dims)}`); `none` = `KeyError` -/
def logTable (dims bits : Nat) : Option Nat := (List.range dims).find? fun i => 2 ^ i = bits

/-- `MultiVector.as_vector()` (as the list of its entries); `none` = `ValueError`:
    ```
    result = [0] * dims
    for bits, coeff in self.data.items(): result[log_table[bits]] = coeff
    ``` -/
def asVector (dims : Nat) (a : MVOf R) : Option (List R) :=
  a.foldl (fun r (bits, coeff) => r.bind fun v =>
    (logTable dims bits).map fun i => v.set i coeff) (some (List.replicate dims 0))

/-- the three result types of `MultiVector.xproject` -/
inductive XProj (R : Type) where
  | scalar (x : R)
  | vector (v : List R)
  | mv (m : MVOf R)
  | valueError
  deriving Repr, DecidableEq

/-- `MultiVector.xproject(r)` -/
def xproject (dims : Nat) (a : MVOf R) (r : Nat) : XProj R :=
  if r = 0 then
    match asScalar (project a 0) with
    | some x => .scalar x
    | none => .valueError
  else if r = 1 then
    match asVector dims (project a 1) with
    | some v => .vector v
    | none => .valueError
  else .mv (project a r)

inductive InvResult (R : Type) where
  | zeroDivision
  | notImplemented
  | valueError
  /-- the inverse is `numer / denom` (Python divides every coefficient by `nsqr` with `/`) -/
  | ok (numer : MVOf R) (denom : R)
  deriving Repr, DecidableEq

/-- `MultiVector.inv`.  Python computes `coeff / nsqr` (true division); the model returns the
    undivided numerator together with the denominator `nsqr` (`mvInvDiv` divides); the
    `ZeroDivisionError` of `coeff / nsqr` is the zero test on `nsqr`. -/
def invZ (z : R → Bool) (g : Nat → R) (dims : Nat) (a : MVOf R) : InvResult R :=
  match normSquaredZ z g a with
  | none => .valueError
  | some nsqr =>
    match a with
    | [] => .zeroDivision
    | [(bits, coeff)] =>
      if z nsqr then .zeroDivision
      else
        let grade := bitCount bits
        let coeff := if grade * (grade - 1) / 2 % 2 ≠ 0 then -coeff else coeff
        .ok [(bits, coeff)] nsqr
    | _ =>
      match getPureGrade a with
      | some gr =>
        if gr = 0 ∨ gr = 1 ∨ gr = dims then
          if z nsqr then .zeroDivision else .ok a nsqr
        else .notImplemented
      | none => .notImplemented

/-- `one=MultiVector({0: 1}, self.space)` of `__pow__` -/
def mvOne : MVOf R := [(0, 1)]

/-- `MultiVector.__pow__(n)`: `integer_power(self, int(n), one=MultiVector({0: 1}))` with the
    geometric product `mul` (`aux *= x`, `x = x * x`); `none` = the `RuntimeError` for `n < 0` -/
def mvPowWith (mul : MVOf R → MVOf R → MVOf R) (a : MVOf R) (n : Int) : Option (MVOf R) :=
  if n < 0 then none else some (PV.Algo.integerPower mul mvOne a n.toNat)

/-- the `n`-fold product `((1 * a) * a) * … * a` (the specification of `__pow__`) -/
def mvNPowWith (mul : MVOf R → MVOf R → MVOf R) (a : MVOf R) : Nat → MVOf R
  | 0 => mvOne
  | n + 1 => mul (mvNPowWith mul a n) a

/-- `MultiVector.__bool__`: `bool(self.data)` -/
def mvBool (a : MVOf R) : Bool := !a.isEmpty

/-- the documented reading of `__bool__` ("has any blade with non-zero coefficient") negated -/
def mvIsZero (a : MVOf R) : Bool := !mvBool a

end MVModel

/-! ### the instances with a deciding zero test (`is_zero(x)` is `x == 0`) -/

section MVDec
variable {R : Type} [Add R] [Mul R] [Neg R] [OfNat R 0] [OfNat R 1] [DecidableEq R]

abbrev dictAccum (d : MVOf R) (bits : Nat) (coeff : R) : MVOf R := dictAccumZ isZeroD d bits coeff
abbrev ofScalar (x : R) : MVOf R := ofScalarZ isZeroD x
abbrev ofTuplesDict (d : List (List Nat × R)) : MVOf R := ofTuplesDictZ isZeroD d

/-- `MultiVector(numpy_vector)`:  `{(i,): x_i}` -/
def ofVector (xs : List R) : MVOf R :=
  ofTuplesDict (xs.zipIdx.map fun (x, i) => ([i], x))

abbrev mvAdd (a b : MVOf R) : MVOf R := mvAddZ isZeroD a b
abbrev mvSub (a b : MVOf R) : MVOf R := mvSubZ isZeroD a b
abbrev genericProduct (w : Nat → Nat → R) (a b : MVOf R) : MVOf R := genericProductZ isZeroD w a b

abbrev mvMul (g : Nat → R) : MVOf R → MVOf R → MVOf R := genericProduct (wGeometric g)
abbrev mvOuter (g : Nat → R) : MVOf R → MVOf R → MVOf R := genericProduct (wOuter g)
abbrev mvInner (g : Nat → R) : MVOf R → MVOf R → MVOf R := genericProduct (wInner g)
abbrev mvLeftContraction (g : Nat → R) : MVOf R → MVOf R → MVOf R :=
  genericProduct (wLeftContraction g)
abbrev mvRightContraction (g : Nat → R) : MVOf R → MVOf R → MVOf R :=
  genericProduct (wRightContraction g)

abbrev scalarProduct (g : Nat → R) (a b : MVOf R) : Option R := scalarProductZ isZeroD g a b
abbrev normSquared (g : Nat → R) (a : MVOf R) : Option R := normSquaredZ isZeroD g a
abbrev dual (g : Nat → R) (dims : Nat) (a : MVOf R) : MVOf R := dualZ isZeroD g dims a
abbrev inv (g : Nat → R) (dims : Nat) (a : MVOf R) : InvResult R := invZ isZeroD g dims a

/-- `MultiVector.__pow__` -/
abbrev mvPow (g : Nat → R) (a : MVOf R) (n : Int) : Option (MVOf R) := mvPowWith (mvMul g) a n

/-- the `n`-fold geometric product -/
abbrev mvNPow (g : Nat → R) (a : MVOf R) (n : Nat) : MVOf R := mvNPowWith (mvMul g) a n

/-- `dict.__eq__`: same length and every item of `a` is found in `b` with an equal value
    (insertion order is irrelevant) -/
def dictEq (a b : MVOf R) : Bool :=
  a.length == b.length && a.all fun (k, v) => dictGet b k == some v

/-- `MultiVector.__eq__` between two multivectors: `self.data == other.data` -/
def mvEq (a b : MVOf R) : Bool := dictEq a b

/-- `MultiVector.__eq__` against a non-multivector `x`: `_cast_or_ni` wraps it as
    `MultiVector(x)`, i.e. `{}` for a zero and `{0: x}` otherwise. -/
def mvEqScalar (a : MVOf R) (x : R) : Bool := mvEq a (ofScalar x)

/-- `MultiVector.__hash__`: `hash(space) ^ XOR over items of (hash(bits) ^ hash(coeff))`, for any
    hash functions `hb`, `hc` of bitmaps and coefficients (`Nat` XOR stands for Python's `^` on
    hash values) -/
def mvHash (hspace : Nat) (hb : Nat → Nat) (hc : R → Nat) (a : MVOf R) : Nat :=
  a.foldl (fun r (bits, coeff) => r ^^^ (hb bits ^^^ hc coeff)) hspace

/-- the actual inverse `MultiVector.inv` returns, for coefficient types with `/`:
    `{bits: coeff / nsqr}`; the three Python exceptions as in `InvResult` -/
def mvInvDiv [Div R] (g : Nat → R) (dims : Nat) (a : MVOf R) : Except (InvResult R) (MVOf R) :=
  match inv g dims a with
  | .ok numer denom => .ok (numer.map fun (bits, coeff) => (bits, coeff / denom))
  | e => .error e

/-- `MultiVector.__truediv__`: `self * other.inv()` -/
def mvTrueDiv [Div R] (g : Nat → R) (dims : Nat) (a b : MVOf R) : Except (InvResult R) (MVOf R) :=
  match mvInvDiv g dims b with
  | .ok bi => .ok (mvMul g a bi)
  | .error e => .error e

end MVDec

end PV.GA
