/-
  C18 — executable model of `pymbolic/geometric_algebra/__init__.py`.

  Import-free (core Lean only).  Every definition mirrors the Python function named in its
  docstring, loops included; the clean mathematical characterisations live in `PV/Proofs/GA.lean`.

  Blades are `Nat` bitmaps (bit `i` set ⇔ basis vector `e_i` is a factor), exactly as in the code,
  so nothing here depends on the dimension of the space.  The metric is diagonal (the only case in
  which the code implements anything but the outer product) and is given as `g : Nat → R`,
  `g i = space.metric_matrix[i, i]`.
-/
namespace PV.GA

/-! ## helpers -/

/-- `bit_count`:  `count = 0; while i: i &= i - 1; count += 1; return count`
    (the state of the `while` loop is `(i, count)`). -/
def bitCountLoop (i count : Nat) : Nat :=
  if _h : i = 0 then count else bitCountLoop (i &&& (i - 1)) (count + 1)
termination_by i
decreasing_by
  have : i &&& (i - 1) ≤ i - 1 := Nat.and_le_right
  omega

/-- `bit_count(i)` -/
def bitCount (i : Nat) : Nat := bitCountLoop i 0

/-- the `while a_bits:` loop of `canonical_reordering_sign`, state `(a_bits, s)`:
    `s = s + bit_count(a_bits & b_bits); a_bits = a_bits >> 1` -/
def reorderLoop (a b s : Nat) : Nat :=
  if _h : a = 0 then s else reorderLoop (a >>> 1) b (s + bitCount (a &&& b))
termination_by a
decreasing_by
  rw [Nat.shiftRight_eq_div_pow]; omega

/-- the value of `s` when the loop of `canonical_reordering_sign(a_bits, b_bits)` exits
    (`a_bits = a_bits >> 1; s = 0; while …`) -/
def reorderSignExp (a b : Nat) : Nat := reorderLoop (a >>> 1) b 0

/-- `canonical_reordering_sign(a_bits, b_bits)`:  `if s & 1: return -1 else: return 1` -/
def reorderSign (a b : Nat) : Int :=
  if reorderSignExp a b &&& 1 ≠ 0 then -1 else 1

/-! ### `permutation_sign` -/

/-- inner loop `j = i; while p[j] != i: j += 1`; `none` models the `IndexError` raised when the
    item `i` does not occur at or after position `i`.  `fuel` bounds the number of positions that
    are looked at (`p.length` suffices). -/
def findFrom (p : List Nat) (i : Nat) : Nat → Nat → Option Nat
  | 0, _ => none
  | fuel+1, j =>
    match p[j]? with
    | none => none
    | some v => if v ≠ i then findFrom p i fuel (j + 1) else some j

/-- `p[i], p[j] = p[j], p[i]` -/
def swapAt (p : List Nat) (i j : Nat) : List Nat :=
  match p[i]?, p[j]? with
  | some x, some y => (p.set i y).set j x
  | _, _ => p

/-- body of `for i in range(len(p))`, iterations `i, i+1, …` (`n` of them), state `(p, s)` -/
def permSignLoop : Nat → Nat → List Nat → Int → Option Int
  | 0, _, _, s => some s
  | n+1, i, p, s =>
    match findFrom p i (p.length + 1) i with
    | none => none
    | some j =>
      if j ≠ i then permSignLoop n (i + 1) (swapAt p i j) (-s)
      else permSignLoop n (i + 1) p s

/-- `permutation_sign(p)`; `none` = `IndexError` (argument is not a permutation of `0..n-1`) -/
def permutationSign? (p : List Nat) : Option Int := permSignLoop p.length 0 p 1

/-- `permutation_sign(p)` with the error case collapsed to `0` -/
def permutationSign (p : List Nat) : Int := (permutationSign? p).getD 0

/-! ### `Space.bits_and_sign` -/

/-- insertion into a list sorted by `(bindex, num)` (Python tuple order) -/
def insertPair (x : Nat × Nat) : List (Nat × Nat) → List (Nat × Nat)
  | [] => [x]
  | y :: ys =>
    if x.1 < y.1 ∨ (x.1 = y.1 ∧ x.2 ≤ y.2) then x :: y :: ys else y :: insertPair x ys

/-- `sorted((bindex, num) for num, bindex in enumerate(basis_indices))` -/
def sortPairs (l : List (Nat × Nat)) : List (Nat × Nat) := l.foldr insertPair []

def enumFrom' : Nat → List Nat → List (Nat × Nat)
  | _, [] => []
  | n, b :: bs => (b, n) :: enumFrom' (n + 1) bs

/-- `Space.bits_and_sign(basis_indices)` (the `assert` on repetitions is not modelled):
    `bits |= 2**bi` for every index, sign of the sorting permutation. -/
def bitsAndSign (basisIndices : List Nat) : Nat × Int :=
  let perm := (sortPairs (enumFrom' 0 basisIndices)).map (·.2)
  (basisIndices.foldl (fun bits bi => bits ||| 2 ^ bi) 0, permutationSign perm)

/-! ## blade product weights -/

section Metric
variable {R : Type} [Mul R] [OfNat R 1]

/-- loop of `_shared_metric_coeff`, state `(shared_bits, basis_idx, result)`:
    ```
    while shared_bits:
        bit = (1 << basis_idx)
        if shared_bits & bit:
            result = result * space.metric_matrix[basis_idx, basis_idx]
            shared_bits ^= bit
        basis_idx += 1
    ```
    The Python loop does not terminate from an arbitrary state (e.g. `shared_bits = 1`,
    `basis_idx = 1`), so the model takes `fuel`; `sharedMetricCoeff` supplies enough
    (`PV.GA.sharedMetricCoeff_eq_prodBits` shows the fuel never runs out). -/
def smcLoop (g : Nat → R) : Nat → Nat → Nat → R → R
  | 0, _, _, result => result
  | fuel+1, shared, idx, result =>
    if shared = 0 then result
    else
      let bit := 1 <<< idx
      if shared &&& bit ≠ 0 then smcLoop g fuel (shared ^^^ bit) (idx + 1) (result * g idx)
      else smcLoop g fuel shared (idx + 1) result

/-- `_shared_metric_coeff(shared_bits, space)` for the diagonal metric `g` -/
def sharedMetricCoeff (g : Nat → R) (shared : Nat) : R :=
  smcLoop g (shared.log2 + 1) shared 0 1

end Metric

section Weights
variable {R : Type} [Mul R] [OfNat R 0] [OfNat R 1]

/-- `_OuterProduct.orthogonal_blade_product_weight`: `int(not a_bits & b_bits)` -/
def wOuter (_g : Nat → R) (a b : Nat) : R :=
  if a &&& b ≠ 0 then 0 else 1

/-- `_GeometricProduct.orthogonal_blade_product_weight` -/
def wGeometric (g : Nat → R) (a b : Nat) : R :=
  let shared := a &&& b
  if shared ≠ 0 then sharedMetricCoeff g shared else 1

/-- `_InnerProduct.orthogonal_blade_product_weight` -/
def wInner (g : Nat → R) (a b : Nat) : R :=
  let shared := a &&& b
  if shared = a ∨ shared = b then sharedMetricCoeff g shared else 0

/-- `_LeftContractionProduct.orthogonal_blade_product_weight` -/
def wLeftContraction (g : Nat → R) (a b : Nat) : R :=
  let shared := a &&& b
  if shared = a then sharedMetricCoeff g shared else 0

/-- `_RightContractionProduct.orthogonal_blade_product_weight` -/
def wRightContraction (g : Nat → R) (a b : Nat) : R :=
  let shared := a &&& b
  if shared = b then sharedMetricCoeff g shared else 0

/-- `_ScalarProduct.orthogonal_blade_product_weight` -/
def wScalar (g : Nat → R) (a b : Nat) : R :=
  if a = b then sharedMetricCoeff g a else 0

end Weights

/-! ## multivectors

`MultiVector.data` is a Python `dict` from bitmaps to coefficients; a `dict` keeps insertion order,
so it is modelled as an association list in insertion order with distinct keys.  Coefficients are
integers here (`is_zero(x)` is `not bool(x)`, i.e. `x == 0`). -/

abbrev MV := List (Nat × Int)

/-- `d.get(k)` -/
def dictGet : MV → Nat → Option Int
  | [], _ => none
  | (k', v) :: d, k => if k' = k then some v else dictGet d k

/-- `d[k] = v` (an existing key keeps its position, a new key goes to the end) -/
def dictSet : MV → Nat → Int → MV
  | [], k, v => [(k, v)]
  | (k', v') :: d, k, v => if k' = k then (k', v) :: d else (k', v') :: dictSet d k v

/-- `del d[k]` -/
def dictDel : MV → Nat → MV
  | [], _ => []
  | (k', v') :: d, k => if k' = k then d else (k', v') :: dictDel d k

/-- the accumulate-and-prune step shared by `MultiVector.__init__` and `_generic_product`:
    ```
    new_coeff = new_data.setdefault(bits, 0) + coeff
    if is_zero(new_coeff): del new_data[bits]
    else: new_data[bits] = new_coeff
    ``` -/
def dictAccum (d : MV) (bits : Nat) (coeff : Int) : MV :=
  let newCoeff := (dictGet d bits).getD 0 + coeff
  if newCoeff = 0 then dictDel d bits else dictSet d bits newCoeff

/-- `MultiVector(x, space)` for a non-dict, non-array `x`:  `data = {} if is_zero(x) else {0: x}`
    (a scalar zero is stored like every arithmetic result: without a coefficient). -/
def ofScalar (x : Int) : MV := if x = 0 then [] else [(0, x)]

/-- `MultiVector({bits: coeff, …}, space)` with integer keys: the dict is stored as given
    (no normalisation, no zero pruning). -/
def ofBitsDict (d : MV) : MV := d

/-- `MultiVector({(i, j, …): coeff, …}, space)` with tuple keys: each key is normalised with
    `bits_and_sign`, coefficients are accumulated and pruned.  (For an empty dict the Python
    condition `data and …` is false and the dict is stored as is — also `[]`.) -/
def ofTuplesDict (d : List (List Nat × Int)) : MV :=
  d.foldl (fun acc (idx, coeff) =>
    let (bits, sign) := bitsAndSign idx
    dictAccum acc bits (sign * coeff)) []

/-- `MultiVector(numpy_vector)`:  `{(i,): x_i}` -/
def ofVector (xs : List Int) : MV :=
  ofTuplesDict (xs.zipIdx.map fun (x, i) => ([i], x))

/-- `MultiVector.__neg__` -/
def mvNeg (a : MV) : MV := a.map fun (bits, c) => (bits, -c)

/-- `MultiVector.__add__`.  Python iterates over `set(self.data) | set(other.data)`, whose order
    is an implementation detail of CPython sets; the model takes the keys of `a` in order followed
    by the new keys of `b`.  Only the order of the result depends on this choice. -/
def mvAdd (a b : MV) : MV :=
  let keys := a.map (·.1) ++ (b.map (·.1)).filter fun k => (dictGet a k).isNone
  keys.foldl (fun acc bits =>
    let newCoeff := (dictGet a bits).getD 0 + (dictGet b bits).getD 0
    if newCoeff = 0 then acc else dictSet acc bits newCoeff) []

/-- `MultiVector.__sub__`: `self + (-other)` -/
def mvSub (a b : MV) : MV := mvAdd a (mvNeg b)

/-- `MultiVector._generic_product(other, product_class)` for an orthogonal space;
    `w = product_class.orthogonal_blade_product_weight(·, ·, space)`.
    ```
    for sbits, scoeff in self.data.items():
        for obits, ocoeff in other.data.items():
            new_bits = sbits ^ obits
            weight = bpw(sbits, obits, self.space)
            if not is_zero(weight):
                coeff = weight * canonical_reordering_sign(sbits, obits) * scoeff * ocoeff
                (accumulate and prune)
    ``` -/
def genericProduct (w : Nat → Nat → Int) (a b : MV) : MV :=
  a.foldl (fun acc (sbits, scoeff) =>
    b.foldl (fun acc (obits, ocoeff) =>
      let newBits := sbits ^^^ obits
      let weight := w sbits obits
      if weight = 0 then acc
      else dictAccum acc newBits (weight * reorderSign sbits obits * scoeff * ocoeff)) acc) []

def mvMul (g : Nat → Int) : MV → MV → MV := genericProduct (wGeometric g)
def mvOuter (g : Nat → Int) : MV → MV → MV := genericProduct (wOuter g)
def mvInner (g : Nat → Int) : MV → MV → MV := genericProduct (wInner g)
def mvLeftContraction (g : Nat → Int) : MV → MV → MV := genericProduct (wLeftContraction g)
def mvRightContraction (g : Nat → Int) : MV → MV → MV := genericProduct (wRightContraction g)

/-- the blade grade used throughout: `bit_count(bits)` -/
def gradeOf (bits : Nat) : Nat := bitCount bits

/-- sign applied by `rev` (and `inv`) to a blade:
    `if grade*(grade-1)//2 % 2 == 0: coeff else: -coeff` -/
def revSign (bits : Nat) : Int :=
  let grade := bitCount bits
  if grade * (grade - 1) / 2 % 2 = 0 then 1 else -1

/-- sign applied by `invol`: `if grade % 2 == 0: coeff else: -coeff` -/
def involSign (bits : Nat) : Int :=
  if bitCount bits % 2 = 0 then 1 else -1

/-- `MultiVector.rev` -/
def rev (a : MV) : MV :=
  a.map fun (bits, coeff) =>
    let grade := bitCount bits
    if grade * (grade - 1) / 2 % 2 = 0 then (bits, coeff) else (bits, -coeff)

/-- `MultiVector.invol` -/
def invol (a : MV) : MV :=
  a.map fun (bits, coeff) =>
    if bitCount bits % 2 = 0 then (bits, coeff) else (bits, -coeff)

/-- `MultiVector.project(r)` -/
def project (a : MV) (r : Nat) : MV := a.filter fun (bits, _) => bitCount bits = r

/-- `MultiVector.odd` -/
def odd (a : MV) : MV := a.filter fun (bits, _) => bitCount bits % 2 ≠ 0

/-- `MultiVector.even` -/
def even (a : MV) : MV := a.filter fun (bits, _) => bitCount bits % 2 = 0

/-- `MultiVector.as_scalar`; `none` = `ValueError("multivector is not a scalar")` -/
def asScalar (a : MV) : Option Int :=
  a.foldl (fun r (bits, coeff) => r.bind fun _ => if bits ≠ 0 then none else some coeff) (some 0)

/-- `MultiVector.scalar_product` -/
def scalarProduct (g : Nat → Int) (a b : MV) : Option Int :=
  asScalar (genericProduct (wScalar g) a b)

/-- `MultiVector.norm_squared`: `self.rev().scalar_product(self)` -/
def normSquared (g : Nat → Int) (a : MV) : Option Int := scalarProduct g (rev a) a

/-- `MultiVector.I` in a space of `dims` dimensions -/
def pseudoscalar (dims : Nat) : MV := [(2 ^ dims - 1, 1)]

/-- `MultiVector.dual`: `self | self.I.rev()` -/
def dual (g : Nat → Int) (dims : Nat) (a : MV) : MV := mvInner g a (rev (pseudoscalar dims))

/-- `MultiVector.get_pure_grade`; the outer `Option` is Python's `None` -/
def getPureGrade (a : MV) : Option Nat :=
  match a with
  | [] => some 0
  | (bits, _) :: rest =>
    if rest.all fun (b, _) => bitCount b = bitCount bits then some (bitCount bits) else none

inductive InvResult where
  | zeroDivision
  | notImplemented
  | valueError
  /-- the inverse is `numer / denom` (Python divides every coefficient by `nsqr` with `/`) -/
  | ok (numer : MV) (denom : Int)
  deriving Repr, DecidableEq

/-- `MultiVector.inv`.  Python computes `coeff / nsqr` (true division); the model returns the
    undivided numerator together with the denominator `nsqr`. -/
def inv (g : Nat → Int) (dims : Nat) (a : MV) : InvResult :=
  match normSquared g a with
  | none => .valueError
  | some nsqr =>
    match a with
    | [] => .zeroDivision
    | [(bits, coeff)] =>
      if nsqr = 0 then .zeroDivision
      else
        let grade := bitCount bits
        let coeff := if grade * (grade - 1) / 2 % 2 ≠ 0 then -coeff else coeff
        .ok [(bits, coeff)] nsqr
    | _ =>
      match getPureGrade a with
      | some gr =>
        if gr = 0 ∨ gr = 1 ∨ gr = dims then
          if nsqr = 0 then .zeroDivision else .ok a nsqr
        else .notImplemented
      | none => .notImplemented

/-- `dict.__eq__`: same length and every item of `a` is found in `b` with an equal value
    (insertion order is irrelevant) -/
def dictEq (a b : MV) : Bool :=
  a.length == b.length && a.all fun (k, v) => dictGet b k == some v

/-- `MultiVector.__eq__` between two multivectors: `self.data == other.data` -/
def mvEq (a b : MV) : Bool := dictEq a b

/-- `MultiVector.__eq__` against a non-multivector `x`: `_cast_or_ni` wraps it as
    `MultiVector(x)`, i.e. `{0: x}`.  NOTE: `mvEqScalar [] 0 = false`. -/
def mvEqScalar (a : MV) (x : Int) : Bool := mvEq a (ofScalar x)

/-- `MultiVector.__bool__`: `bool(self.data)` -/
def mvBool (a : MV) : Bool := !a.isEmpty

/-- the documented reading of `__bool__` ("has any blade with non-zero coefficient") negated -/
def mvIsZero (a : MV) : Bool := !mvBool a

end PV.GA
