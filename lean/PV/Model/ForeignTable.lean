import PV.Model.Dispatch
/-
  C04, T-gen of `Mapper.map_foreign` and of the run-time registry of number classes.

  `extract/dispatch.py` reads `Mapper.map_foreign` (pymbolic/mapper/__init__.py) test by test into
  the chain below, and `register_constant_class` / `unregister_constant_class` / `is_constant`
  (pymbolic/primitives.py) into `RegBody`.  What matters about the FIRST test of the chain is not
  only that it is an `isinstance` against the tuple of number classes, but WHICH tuple: the module
  global of `pymbolic.primitives` that the register functions REBIND (`G += (class_,)` makes a new
  tuple and binds the global to it), read through the module attribute at CALL time (`.constLive`)
  — or a value that was read once, when `pymbolic.mapper` was imported (`.constCaptured`: a
  module-level name, a table built at import time, a default argument).  The second kind never
  sees a class registered later and keeps accepting a class that was unregistered.

  An object is described by what the tests can see of it: the names of those classes of the
  universe of registrable classes it is an instance of (`isinstance`, subclass and ABC relations
  included), and whether it is a numpy array / a list / a tuple.
-/
namespace PV

/-- what one test of `map_foreign` refers to -/
inductive FTest where
  /-- `isinstance(expr, primitives.G)` with `primitives` the module `pymbolic.primitives` and `G`
  the global the register functions rebind (also `primitives.is_constant(expr)`, which reads `G`
  in its own module): the registry AS IT IS WHEN THE MAPPER IS CALLED -/
  | constLive
  /-- `isinstance(expr, <a value that was computed from G when the module was imported>)` -/
  | constCaptured
  /-- `is_numpy_array(expr)` / `isinstance(expr, numpy.ndarray)` -/
  | numpyArray
  /-- `isinstance(expr, list)` (the builtin) -/
  | builtinList
  /-- `isinstance(expr, tuple)` (the builtin) -/
  | builtinTuple
  deriving Repr, DecidableEq, Inhabited

/-- body of a function of `pymbolic.primitives` that maintains the registry -/
inductive RegBody where
  /-- `global g; g += (class_,)` -/
  | appendOne (g : String)
  /-- `global g; tmp = list(g); tmp.remove(class_); g = tuple(tmp)` -/
  | removeFirst (g : String)
  /-- `return isinstance(value, g)` (`is_constant`) -/
  | isinstanceOf (g : String)
  deriving Repr, DecidableEq, Inhabited

/-- `Mapper.map_foreign` and the registry functions as read from the source -/
structure C04ForeignSource where
  /-- parameter list of `map_foreign` is `(self, expr, *args, **kwargs)` -/
  sig : Bool
  /-- the tests in order, each with the handler its branch returns
  `self.<handler>(expr, *args, **kwargs)` of -/
  chain : List (FTest × String)
  /-- exception class raised when no test holds -/
  elseRaises : String
  /-- the global of `pymbolic.primitives` a `.constLive` test reads -/
  registryGlobal : String
  /-- `primitives.register_constant_class` -/
  register : RegBody
  /-- `primitives.unregister_constant_class` -/
  unregister : RegBody
  /-- `primitives.is_constant` -/
  isConstant : RegBody
  /-- classes (of `pymbolic.mapper` and of the modules the reader imports) that define
  `map_foreign` themselves, as `Class` names, sorted -/
  overriders : List String
  deriving Repr, DecidableEq, Inhabited

/-- a foreign object as the tests see it -/
structure FObj where
  /-- names of the registrable classes the object is an instance of -/
  classes : List String
  isArray : Bool := false
  isList : Bool := false
  isTuple : Bool := false
  deriving Repr, DecidableEq, Inhabited

/-- the registry: the tuple of classes, in order, duplicates kept -/
abbrev Registry := List String

/-- `register_constant_class(c)`: a new tuple with `c` appended -/
def Registry.register (r : Registry) (c : String) : Registry := r ++ [c]

/-- `unregister_constant_class(c)`: the first occurrence removed (`list.remove`; the `ValueError`
for an absent class is outside the model: the registry stays as it is) -/
def Registry.unregister (r : Registry) (c : String) : Registry := r.erase c

inductive RegOp where
  | register (c : String)
  | unregister (c : String)
  deriving Repr, DecidableEq, Inhabited

def Registry.step (r : Registry) : RegOp → Registry
  | .register c => r.register c
  | .unregister c => r.unregister c

/-- a history of registrations -/
def Registry.run (r : Registry) (ops : List RegOp) : Registry := ops.foldl Registry.step r

/-- `isinstance(obj, tuple-of-classes)` -/
def FObj.isConst (reg : Registry) (o : FObj) : Bool := o.classes.any fun c => reg.contains c

/-- one test; `live` is the registry at call time, `captured` the one at import time -/
def fTest (live captured : Registry) (o : FObj) : FTest → Bool
  | .constLive => o.isConst live
  | .constCaptured => o.isConst captured
  | .numpyArray => o.isArray
  | .builtinList => o.isList
  | .builtinTuple => o.isTuple

/-- the chain: the handler of the first test that holds, else the error -/
def fRun (chain : List (FTest × String)) (live captured : Registry) (o : FObj) : DispatchResult :=
  match chain.find? (fun th => fTest live captured o th.1) with
  | some th => .foreign th.2
  | none => .invalidForeign

/-- the kind of a foreign object under the registry `reg` — the definition of the property:
a number (`is_constant`), else an array, else a list, else a tuple, else anything else -/
def FObj.kind (reg : Registry) (o : FObj) : ForeignKind :=
  if o.isConst reg then .number
  else if o.isArray then .numpyArray
  else if o.isList then .list
  else if o.isTuple then .tuple
  else .other

/-- the source the dispatch model (`dispatchForeign`) was written against:

```
def map_foreign(self, expr, *args, **kwargs):
    if isinstance(expr, primitives.VALID_CONSTANT_CLASSES):
        return self.map_constant(expr, *args, **kwargs)
    elif is_numpy_array(expr):
        return self.map_numpy_array(expr, *args, **kwargs)
    elif isinstance(expr, list):
        return self.map_list(expr, *args, **kwargs)
    elif isinstance(expr, tuple):
        return self.map_tuple(expr, *args, **kwargs)
    else:
        raise ValueError(...)
```
and, in `pymbolic.primitives`, `register_constant_class`: `VALID_CONSTANT_CLASSES += (class_,)`,
`unregister_constant_class`: `list(...)`, `.remove(class_)`, `tuple(...)` bound to the global. -/
def foreignSourceLit : C04ForeignSource :=
  { sig := true,
    chain := [(.constLive, "map_constant"), (.numpyArray, "map_numpy_array"),
              (.builtinList, "map_list"), (.builtinTuple, "map_tuple")],
    elseRaises := "ValueError",
    registryGlobal := "VALID_CONSTANT_CLASSES",
    register := .appendOne "VALID_CONSTANT_CLASSES",
    unregister := .removeFirst "VALID_CONSTANT_CLASSES",
    isConstant := .isinstanceOf "VALID_CONSTANT_CLASSES",
    overriders := ["CompileMapper", "Mapper"] }

/-- the registry as `pymbolic.primitives` sets it up (numpy installed) -/
def baseRegistry : Registry := ["int", "float", "complex", "numpy.number", "numpy.bool_"]

/-- the routes of the dispatches of a history: registry operations and dispatches interleaved -/
inductive FStep where
  | op (o : RegOp)
  | call (o : FObj)
  deriving Repr, Inhabited

def fHistory (chain : List (FTest × String)) (captured : Registry) :
    Registry → List FStep → List DispatchResult
  | _, [] => []
  | live, .op o :: rest => fHistory chain captured (live.step o) rest
  | live, .call o :: rest => fRun chain live captured o :: fHistory chain captured live rest

/-- the property's words for a history: every dispatch goes where the kind of the object UNDER THE
REGISTRY OF THAT MOMENT says -/
def fHistorySpec : Registry → List FStep → List DispatchResult
  | _, [] => []
  | live, .op o :: rest => fHistorySpec (live.step o) rest
  | live, .call o :: rest => dispatchForeign (o.kind live) :: fHistorySpec live rest

end PV
