import PV.Model.PyEq
import PV.Model.PyNum
/-
  C03.  Operator overloading of `pymbolic.primitives.Expression` (and the `Sum`/`Product`
  overrides) as functions on the tree model, together with CPython's binary-operator dispatch
  (left method, `NotImplemented`, reflected method, `TypeError`).

  An operand is an `Expr`: a node, or a constant (`int`, `bool`, `float`).  Operations between two
  constants are plain Python arithmetic and are not part of this model (`noClaim`).
-/
namespace PV

inductive OpErr where
  | typeError          -- both methods returned NotImplemented / explicit raise
  | assertion          -- an `assert` in a reflected method fired
  | noClaim            -- outside the model (constant-constant arithmetic, exotic operands)
  deriving Repr, DecidableEq, Inhabited

abbrev OpR := Except OpErr Expr

def Expr.isNode : Expr → Bool
  | .const _ | .tuple _ | .list _ => false
  | _ => true

/-- `is_constant`: an instance of int, float, complex (bool is an int). -/
def Expr.isConstant : Expr → Bool
  | .const (.int _) | .const (.bool _) | .const (.flt ..) => true
  | _ => false

/-- `is_number`: constant and not a bool -/
def Expr.isNumber : Expr → Bool
  | .const (.int _) | .const (.flt ..) => true
  | _ => false

def Expr.isBoolConst : Expr → Bool
  | .const (.bool _) => true
  | _ => false

def Expr.isValidOperand (e : Expr) : Bool := e.isNode || e.isConstant

def Expr.isArith (e : Expr) : Bool := !e.isBoolConst && e.isValidOperand

/-- the constant is numerically equal to one (`is_zero(other - 1)` on a constant) -/
def Const.isOne : Const → Bool
  | .int n => n == 1
  | .bool b => b
  | .flt _ n d => d != 0 && n == (d : Int)
  | _ => false

def Const.truthy : Const → Bool
  | .int n => n != 0
  | .bool b => b
  | .flt _ n d => d == 0 || n != 0       -- nan and inf are truthy
  | .str s => s != ""
  | .none => false

mutual
/-- Python truthiness `bool(e)` as defined by `Sum/Product/QuotientBase/Slice.__bool__` and the
default for every other node. -/
def Expr.truthy : Expr → Bool
  | .const c => c.truthy
  | .nary .sum cs => Expr.truthySum cs
  | .nary .prod cs => Expr.truthyProd cs
  | .bin .quot a _ => a.truthy
  | .bin .floordiv a _ => a.truthy
  | .bin .rem a _ => a.truthy
  | .tuple cs => !cs.isEmpty
  | .list cs => !cs.isEmpty
  | _ => true
/-- `Sum.__bool__`: no children → True; one child → its truth; otherwise True -/
def Expr.truthySum : List Expr → Bool
  | [] => true
  | [c] => c.truthy
  | _ :: _ :: _ => true
/-- `Product.__bool__`: False as soon as one child `is_zero` -/
def Expr.truthyProd : List Expr → Bool
  | [] => true
  | c :: cs => c.truthy && Expr.truthyProd cs
end

/-- `is_zero(value)` -/
def Expr.isZero (e : Expr) : Bool := !e.truthy

/-- `is_zero(other - 1)`: for a node, `other - 1` is a truthy `Sum` (or `-1`), so never zero. -/
def Expr.isOne : Expr → Bool
  | .const c => c.isOne
  | _ => false

def zero : Expr := .const (.int 0)
def one : Expr := .const (.int 1)
def negOne : Expr := .const (.int (-1))

/-- result of a dunder method: a value, or `NotImplemented` -/
inductive Dunder where
  | ret (e : Expr)
  | notImpl
  | raise (err : OpErr)

/-- Python's `a <op> b` given the forward method of `a` (if `a` is a node) and the reflected
method of `b` (if `b` is a node).  For constants the built-in number methods return
`NotImplemented` when the other operand is a node. -/
def dispatch (fwd : Expr → Expr → Dunder) (refl : Expr → Expr → Dunder) (a b : Expr) : OpR :=
  if a.isNode then
    match fwd a b with
    | .ret r => pure r
    | .raise e => throw e
    | .notImpl =>
      -- reflected method of the right operand; same type ⇒ not tried (and `fwd` never returns
      -- NotImplemented for a node operand)
      if b.isNode then
        match refl b a with
        | .ret r => pure r
        | .raise e => throw e
        | .notImpl => throw .typeError
      else throw .typeError
  else if b.isNode then
    if a.isConstant then
      match refl b a with
      | .ret r => pure r
      | .raise e => throw e
      | .notImpl => throw .typeError
    else throw .noClaim
  else throw .noClaim

/-! ### the dunder methods -/

/-- `-c` for a constant; floats are negated exactly -/
def Const.neg : Const → Option Const
  | .int n => some (.int (-n))
  | .bool b => some (.int (if b then -1 else 0))
  | .flt r n d => some (.flt (if r.startsWith "-" then (r.drop 1).toString else "-" ++ r) (-n) d)
  | _ => Option.none

/-- `Product.__rmul__(self, other)` / `Expression.__rmul__(self, other)` -/
def rmulD (self other : Expr) : Dunder :=
  if !other.isConstant then .notImpl
  else match self with
    | .nary .prod cs =>
      if other.isZero then .ret zero
      else if other.isOne then .ret self
      else .ret (.nary .prod (other :: cs))
    | _ =>
      if other.isOne then .ret self
      else if other.isZero then .ret zero
      else .ret (.nary .prod [other, self])

/-- `-e` (`__neg__` = `-1*self`, or numeric negation of a constant) -/
def negE (e : Expr) : OpR :=
  match e with
  | .const c => match c.neg with
    | some c' => pure (.const c')
    | Option.none => throw .typeError
  | _ => if e.isNode then
      match rmulD e negOne with
      | .ret r => pure r
      | _ => throw .typeError
    else throw .typeError

/-- `Expression.__add__` -/
def exprAdd (self other : Expr) : Dunder :=
  if !other.isArith then .notImpl
  else if other.truthy then
    if self.truthy then
      match other with
      | .nary .sum cs => .ret (.nary .sum (self :: cs))
      | _ => .ret (.nary .sum [self, other])
    else .ret other
  else .ret self

def addD (self other : Expr) : Dunder :=
  match self with
  | .nary .sum cs =>
    if !other.isValidOperand then .notImpl
    else match other with
      | .nary .sum ds => .ret (.nary .sum (cs ++ ds))
      | _ => if !other.truthy then .ret self else .ret (.nary .sum (cs ++ [other]))
  | _ => exprAdd self other

def raddD (self other : Expr) : Dunder :=
  match self with
  | .nary .sum cs =>
    if !other.isConstant then .notImpl
    else if !other.truthy then .ret self
    else .ret (.nary .sum (other :: cs))
  | _ =>
    if !other.isNumber then .raise .assertion
    else if other.truthy then
      (if self.truthy then .ret (.nary .sum [other, self]) else .ret other)
    else .ret self

def subD (self other : Expr) : Dunder :=
  match self with
  | .nary .sum cs =>
    if !other.isValidOperand then .notImpl
    else if !other.truthy then .ret self
    else match negE other with
      | .ok n => .ret (.nary .sum (cs ++ [n]))
      | .error e => .raise e
  | _ =>
    if !other.isValidOperand then .notImpl
    else if other.truthy then
      match negE other with
      | .ok n => exprAdd self n
      | .error e => .raise e
    else .ret self

def rsubD (self other : Expr) : Dunder :=
  if !other.isConstant then .notImpl
  else match negE self with
    | .error e => .raise e
    | .ok n => if other.truthy then .ret (.nary .sum [other, n]) else .ret n

def mulD (self other : Expr) : Dunder :=
  if !other.isValidOperand then .notImpl
  else match self with
    | .nary .prod cs =>
      match other with
      | .nary .prod ds => .ret (.nary .prod (cs ++ ds))
      | _ =>
        if other.isZero then .ret zero
        else if other.isOne then .ret self
        else .ret (.nary .prod (cs ++ [other]))
    | _ =>
      if other.isOne then .ret self
      else if other.isZero then .ret zero
      else .ret (.nary .prod [self, other])

def divD (self other : Expr) : Dunder :=
  if !other.isValidOperand then .notImpl
  else if other.isOne then .ret self
  else .ret (.bin .quot self other)

def rdivD (self other : Expr) : Dunder :=
  if !other.isValidOperand then .notImpl
  else if other.isZero then .ret zero
  else .ret (.bin .quot other self)

def floordivD (self other : Expr) : Dunder :=
  if !other.isValidOperand then .notImpl
  else if other.isOne then .ret self
  else .ret (.bin .floordiv self other)

def rfloordivD (self other : Expr) : Dunder :=
  if !other.isArith then .notImpl
  else .ret (.bin .floordiv other self)

def modD (self other : Expr) : Dunder :=
  if !other.isValidOperand then .notImpl
  else if other.isOne then .ret zero
  else .ret (.bin .rem self other)

def rmodD (self other : Expr) : Dunder :=
  if !other.isValidOperand then .notImpl
  else .ret (.bin .rem other self)

def powD (self other : Expr) : Dunder :=
  if !other.isValidOperand then .notImpl
  else if other.isZero then .ret one
  else if other.isOne then .ret self
  else .ret (.bin .pow self other)

def rpowD (self other : Expr) : Dunder :=
  if !other.isConstant then .raise .assertion
  else if other.isZero then .ret zero
  else if other.isOne then .ret one
  else .ret (.bin .pow other self)

def mkBinD (mk : Expr → Expr → Expr) (self other : Expr) : Dunder :=
  if !other.isValidOperand then .notImpl else .ret (mk self other)

def mkBinRD (mk : Expr → Expr → Expr) (self other : Expr) : Dunder :=
  if !other.isValidOperand then .notImpl else .ret (mk other self)

inductive PyBinOp where
  | add | sub | mul | truediv | floordiv | mod | pow | lshift | rshift | band | bor | bxor
  deriving Repr, DecidableEq, Inhabited

def PyBinOp.ofName? : String → Option PyBinOp
  | "add" => some .add | "sub" => some .sub | "mul" => some .mul | "truediv" => some .truediv
  | "floordiv" => some .floordiv | "mod" => some .mod | "pow" => some .pow
  | "lshift" => some .lshift | "rshift" => some .rshift | "and" => some .band
  | "or" => some .bor | "xor" => some .bxor | _ => Option.none

/-- `a <op> b` on operands of which at least one is an expression node. -/
def Ops.bin : PyBinOp → Expr → Expr → OpR
  | .add => dispatch addD raddD
  | .sub => dispatch subD rsubD
  | .mul => dispatch mulD rmulD
  | .truediv => dispatch divD rdivD
  | .floordiv => dispatch floordivD rfloordivD
  | .mod => dispatch modD rmodD
  | .pow => dispatch powD rpowD
  | .lshift => dispatch (mkBinD (.bin .lshift)) (mkBinRD (.bin .lshift))
  | .rshift => dispatch (mkBinD (.bin .rshift)) (mkBinRD (.bin .rshift))
  | .band => dispatch (mkBinD fun a b => .nary .band [a, b]) (mkBinRD fun a b => .nary .band [a, b])
  | .bor => dispatch (mkBinD fun a b => .nary .bor [a, b]) (mkBinRD fun a b => .nary .bor [a, b])
  | .bxor => dispatch (mkBinD fun a b => .nary .bxor [a, b]) (mkBinRD fun a b => .nary .bxor [a, b])

inductive PyUnOp where
  | neg | pos | invert
  deriving Repr, DecidableEq, Inhabited

def Ops.un : PyUnOp → Expr → OpR
  | .neg, e => if e.isNode then negE e else throw .noClaim
  | .pos, e => if e.isNode then pure e else throw .noClaim
  | .invert, e => if e.isNode then pure (.un .bnot e) else throw .noClaim

/-! ### smart constructors -/

/-- `flattened_sum(terms)`: queue discipline as coded (`queue[0:0] = item.children`: the children
of a nested sum are spliced IN PLACE, at the FRONT of the queue, so the order of the terms is
kept).  `fuel` bounds the loop; `Expr.sizeL terms + terms.length + 1` always suffices. -/
def flattenedSumLoop : Nat → List Expr → List Expr → List Expr
  | 0, _, done => done
  | _ + 1, [], done => done
  | fuel + 1, item :: queue, done =>
    if item.isZero then flattenedSumLoop fuel queue done
    else match item with
      | .nary .sum cs => flattenedSumLoop fuel (cs ++ queue) done
      | _ => flattenedSumLoop fuel queue (done ++ [item])

def flattenedSum (terms : List Expr) : Expr :=
  match flattenedSumLoop (Expr.sizeL terms + terms.length + 1) terms [] with
  | [] => zero
  | [x] => x
  | xs => .nary .sum xs

/-- `flattened_product(terms)`; `none` marks the early `return 0` -/
def flattenedProductLoop : Nat → List Expr → List Expr → Option (List Expr)
  | 0, _, done => some done
  | _ + 1, [], done => some done
  | fuel + 1, item :: queue, done =>
    if item.isZero then Option.none
    else if item.isOne then flattenedProductLoop fuel queue done
    else match item with
      | .nary .prod cs => flattenedProductLoop fuel (cs ++ queue) done
      | _ => flattenedProductLoop fuel queue (done ++ [item])

def flattenedProduct (terms : List Expr) : Expr :=
  match flattenedProductLoop (Expr.sizeL terms + terms.length + 1) terms [] with
  | Option.none => zero
  | some [] => one
  | some [x] => x
  | some xs => .nary .prod xs

/-! ### operator programs -/

def Const.toValue? : Const → Option Value
  | .int n => some (.int n)
  | .bool b => some (.bool b)
  | _ => Option.none

def Value.toConst? : Value → Option Const
  | .int n => some (.int n)
  | .bool b => some (.bool b)
  | _ => Option.none

def PyBinOp.onValues : PyBinOp → Value → Value → R
  | .add => Value.add | .sub => Value.sub | .mul => Value.mul | .truediv => Value.div
  | .floordiv => Value.floordiv | .mod => Value.mod | .pow => Value.pow
  | .lshift => Value.lshift | .rshift => Value.rshift
  | .band => Value.band | .bor => Value.bor | .bxor => Value.bxor

def PyUnOp.onValue : PyUnOp → Value → R
  | .neg => Value.neg
  | .pos => fun v => match v with
    | .bool b => pure (.int (if b then 1 else 0))
    | _ => if v.num?.isSome then pure v else throw .typeError
  | .invert => Value.invert

/-- plain Python arithmetic between two int/bool constants (floats: no claim) -/
def constBin (o : PyBinOp) (a b : Const) : OpR :=
  match a.toValue?, b.toValue? with
  | some x, some y =>
    match o.onValues x y with
    | .ok v => match v.toConst? with
      | some c => pure (.const c)
      | Option.none => throw .noClaim
    | .error .typeError => throw .typeError
    | .error _ => throw .noClaim
  | _, _ => throw .noClaim

inductive OpProg where
  | leaf (e : Expr)
  | bin (o : PyBinOp) (p q : OpProg)
  | un (o : PyUnOp) (p : OpProg)
  deriving Inhabited

/-- build the tree the way Python would when running the program on expression objects -/
def OpProg.build : OpProg → OpR
  | .leaf e => pure e
  | .bin o p q => do
      let a ← p.build
      let b ← q.build
      match a, b with
      | .const x, .const y => constBin o x y
      | _, _ => Ops.bin o a b
  | .un o p => do
      let a ← p.build
      match a with
      | .const c =>
        match c.toValue? with
        | some v => match o.onValue v with
          | .ok w => match w.toConst? with
            | some c' => pure (.const c')
            | Option.none => throw .noClaim
          | .error _ => throw .noClaim
        | Option.none => throw .noClaim
      | _ => Ops.un o a

end PV
