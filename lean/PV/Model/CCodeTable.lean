import PV.Model.CCode
/-
  C14 (T-gen).  What the C code mapper does, as plain DATA — regenerated on every run from the live
  source of `pymbolic/mapper/c_code.py` and `pymbolic/mapper/stringifier.py` by extract/ccode.py
  into lean/PV/Generated/CCode.lean — and the reading of that data:

    * `C14Prec`, `C14Arg`, `C14SE`, `C14Cond`, `C14Prog`   the body of a `map_*` handler as a small
        language: which attribute is printed by `self.rec` / `rec_with_force_parens_around` /
        `join_rec` under which precedence expression (named `PREC_*` constant, `+ k`, the handler's
        own `enclosing_prec`), in which order, which format string (split at its `%s`) puts the
        results together, which precedence `parenthesize_if_needed` gets, which classes are forced
        into parentheses, `isinstance` / `is_constant` / `is_zero(… - k)` tests, local variables
    * `C14SumRow`     `SimplifyingSortingStringifyMapper.map_sum` (the `get_neg_product` test, the two
        precedences, the two sorts, the separator of the positives, the format of a negative)
    * `C14ConstRow`   `CCodeMapper.map_constant` and the `map_constant` it hands over to
    * `C14CseRow`     `CCodeMapper.map_common_subexpression` statement by statement: the dictionary
        key, the recursive call, both name generators, the membership test, the three stores
    * `C14InitRow`, `C14CopyRow`, `C14CopyMappedRow`   `__init__`, `copy`, `copy_with_mapped_cses`
    * `C14Helpers`    `format`, `join_rec`, `rec_with_force_parens_around`, `parenthesize`,
        `parenthesize_if_needed` as resolved on `CCodeMapper`
    * `C14Class`      node class ↦ dataclass fields, handler reached by the dispatch (MRO resolved)

  `c14CcodeET T S` RUNS a table: it knows no handler of the mapper, only the language; every string
  it builds is built the way Python builds it (`%`-formatting = interleaving pieces and arguments,
  `join`, `+`).  PV/Proofs/CCodeTable.lean proves that on the regenerated table it returns the
  text, the hoisted names and the allocator state of the hand-written model `ccodeE`
  (PV/Model/CCode.lean), for ALL expressions, allocator states, precedences and budgets.

  Hand-written here (Python semantics, not code of the mapper): `c14Field` (attribute access on the
  node classes of the IR; the field lists are checked against the regenerated class rows),
  `c14IsInst`, `c14MulE` (`a*b` with the overloaded operators of C03), `c14PlusIsZero` /
  `c14ConstMinusIsZero` (`is_zero(c + 1)`, `is_zero(c - k)`), `c14SortStrs` (`list.sort`),
  `c14ConstBody` / `c14ConstHas` (`str(c)` of a constant and which sign characters it contains),
  `c14Lower` (`str.lower` of a class name).
-/
namespace PV

/-! ## precedence expressions -/

inductive C14Prec where
  /-- a `PREC_*` constant of `pymbolic.mapper.stringifier` (its value: `PV.Generated.printPrec`) -/
  | named (n : String)
  | plus (p : C14Prec) (k : Nat)
  /-- the handler's own `enclosing_prec` argument -/
  | enclosing
  | lit (n : Nat)
  deriving Repr, DecidableEq, Inhabited

def c14PrecNamed (S : PrintPrec) : String → Option Nat
  | "PREC_CALL" => some S.call
  | "PREC_POWER" => some S.power
  | "PREC_UNARY" => some S.unary
  | "PREC_PRODUCT" => some S.product
  | "PREC_SUM" => some S.sum
  | "PREC_SHIFT" => some S.shift
  | "PREC_BITWISE_AND" => some S.band
  | "PREC_BITWISE_XOR" => some S.bxor
  | "PREC_BITWISE_OR" => some S.bor
  | "PREC_COMPARISON" => some S.comparison
  | "PREC_LOGICAL_AND" => some S.land
  | "PREC_LOGICAL_OR" => some S.lor
  | "PREC_IF" => some S.ifp
  | "PREC_NONE" => some S.none
  | _ => none

def C14Prec.eval (S : PrintPrec) (enc : Nat) : C14Prec → Except CErr Nat
  | .named n => match c14PrecNamed S n with
    | some v => pure v
    | none => throw .noClaim
  | .plus p k => match p.eval S enc with
    | .ok v => pure (v + k)
    | .error e => throw e
  | .enclosing => pure enc
  | .lit n => pure n

/-! ## attribute access on nodes (Python semantics, hand-written) -/

inductive C14FV where
  | expr (e : Expr)
  | exprs (cs : List Expr)
  | str (s : String)
  | optStr (p : Option String)
  deriving Inhabited

/-- class name of a pymbolic node; `none` for foreign objects (constants, tuples, lists) -/
def c14ClassOf : Expr → Option String
  | .const _ | .tuple _ | .list _ => none
  | .var _ => some "Variable"
  | .nary o _ => some o.name
  | .bin o _ _ => some o.name
  | .un o _ => some o.name
  | .cmp .. => some "Comparison"
  | .ite .. => some "If"
  | .call .. => some "Call"
  | .callKw .. => some "CallWithKwargs"
  | .subscript .. => some "Subscript"
  | .lookup .. => some "Lookup"
  | .cse .. => some "CommonSubexpression"
  | .subst .. => some "Substitution"
  | .deriv .. => some "Derivative"
  | .slice _ => some "Slice"
  | .nan => some "NaN"
  | .wildcard => some "Wildcard"
  | .dotWild _ => some "DotWildcard"
  | .starWild _ => some "StarWildcard"
  | .funcSym => some "FunctionSymbol"

/-- `expr.f` for the attributes the handlers of the C mapper read -/
def c14Field (e : Expr) (f : String) : Option C14FV :=
  match e with
  | .var x => if f = "name" then some (.str x) else none
  | .nary _ cs => if f = "children" then some (.exprs cs) else none
  | .bin o a b =>
    match o with
    | .quot | .floordiv | .rem =>
      if f = "numerator" then some (.expr a) else if f = "denominator" then some (.expr b) else none
    | .pow => if f = "base" then some (.expr a) else if f = "exponent" then some (.expr b) else none
    | .lshift | .rshift =>
      if f = "shiftee" then some (.expr a) else if f = "shift" then some (.expr b) else none
  | .un _ a => if f = "child" then some (.expr a) else none
  | .cmp o a b =>
    if f = "left" then some (.expr a) else if f = "operator" then some (.str o.sym)
    else if f = "right" then some (.expr b) else none
  | .ite c t e =>
    if f = "condition" then some (.expr c) else if f = "then" then some (.expr t)
    else if f = "else_" then some (.expr e) else none
  | .call g as =>
    if f = "function" then some (.expr g) else if f = "parameters" then some (.exprs as) else none
  | .subscript a i =>
    if f = "aggregate" then some (.expr a) else if f = "index" then some (.expr i) else none
  | .lookup a n => if f = "aggregate" then some (.expr a) else if f = "name" then some (.str n) else none
  | .cse c p sc =>
    if f = "child" then some (.expr c) else if f = "prefix" then some (.optStr p)
    else if f = "scope" then some (.str sc) else none
  | _ => none

/-- the dataclass fields `c14Field` knows, with their kinds (checked against the regenerated class
rows by `PV.C14.class_fields_current`) -/
def c14ClassFields : String → Option (List (String × String))
  | "Variable" => some [("name", "str")]
  | "Sum" | "Product" | "BitwiseOr" | "BitwiseXor" | "BitwiseAnd" | "LogicalOr" | "LogicalAnd"
  | "Min" | "Max" => some [("children", "exprs")]
  | "Quotient" | "FloorDiv" | "Remainder" => some [("numerator", "expr"), ("denominator", "expr")]
  | "Power" => some [("base", "expr"), ("exponent", "expr")]
  | "LeftShift" | "RightShift" => some [("shiftee", "expr"), ("shift", "expr")]
  | "BitwiseNot" | "LogicalNot" => some [("child", "expr")]
  | "Comparison" => some [("left", "expr"), ("operator", "str"), ("right", "expr")]
  | "If" => some [("condition", "expr"), ("then", "expr"), ("else_", "expr")]
  | "Call" => some [("function", "expr"), ("parameters", "exprs")]
  | "Subscript" => some [("aggregate", "expr"), ("index", "expr")]
  | "Lookup" => some [("aggregate", "expr"), ("name", "str")]
  | "CommonSubexpression" => some [("child", "expr"), ("prefix", "optStr"), ("scope", "str")]
  | _ => none

/-- `isinstance(x, Cls)` for the classes the handlers test (`tuple`, or a node class: the node
classes of the IR have no subclasses among themselves — checked by the extractor) -/
def c14IsInst (x : Expr) (cls : String) : Bool :=
  if cls = "tuple" then (match x with | .tuple _ => true | _ => false)
  else c14ClassOf x == some cls

def c14AnyInst (x : Expr) (classes : List String) : Bool := classes.any (c14IsInst x)

/-- the elements of a tuple-valued attribute (`expr.children`, `expr.parameters`, or `expr.index`
when it is a tuple) -/
def c14Elems (e : Expr) (f : String) : Except CErr (List Expr) :=
  match c14Field e f with
  | some (.exprs cs) => pure cs
  | some (.expr (.tuple cs)) => pure cs
  | _ => throw .noClaim

/-! ## sub-expressions handed to `rec` -/

inductive C14Arg where
  /-- `expr.f` -/
  | field (f : String)
  /-- `a * b` (the overloaded operator) -/
  | mul (a b : C14Arg)
  deriving Repr, DecidableEq, Inhabited

/-- `a*b` as Python computes it: plain arithmetic on two constants, `Expression.__mul__` /
`__rmul__` (C03's `Ops.bin`) otherwise -/
def c14MulE (a b : Expr) : Except CErr Expr :=
  match a, b with
  | .const ca, .const cb =>
    match constBin .mul ca cb with
    | .ok r => pure r
    | .error _ => throw .noClaim
  | _, _ =>
    match Ops.bin .mul a b with
    | .ok r => pure r
    | .error _ => throw .unsupported

def C14Arg.eval (e : Expr) : C14Arg → Except CErr Expr
  | .field f => match c14Field e f with
    | some (.expr x) => pure x
    | _ => throw .noClaim
  | .mul a b =>
    match a.eval e, b.eval e with
    | .ok x, .ok y => c14MulE x y
    | .error err, _ => throw err
    | _, .error err => throw err

/-! ## the helper methods of the stringifier, as resolved on the mapper -/

structure C14Helpers where
  /-- `format(s, *args)` is `s % args` -/
  formatIsPercent : Bool
  /-- `join_rec(joiner, iterable, prec, …)` formats `joiner.join("%s" for _ in iterable)` with
  `rec_with_force_parens_around(i, prec, …)` of every element, in order -/
  joinRecIsJoinOfForced : Bool
  /-- `join(joiner, iterable)` formats `joiner.join("%s" for _ in iterable)` with the elements -/
  joinIsJoin : Bool
  /-- `rec_with_force_parens_around`: `kwargs.pop("force_parens_around", ())`, `self.rec(expr, …)`
  without it, then parentheses when `isinstance(expr, force_parens_around)` -/
  forceTest : String
  forceDefaultEmpty : Bool
  forceOpen : String
  forceClose : String
  /-- `parenthesize(s)` -/
  parenOpen : String
  parenClose : String
  /-- `parenthesize_if_needed(s, enclosing_prec, my_prec)`: `if enclosing_prec CMP my_prec` -/
  parenIfCmp : String
  parenIfOpen : String
  parenIfClose : String
  deriving Repr, DecidableEq, Inhabited

def c14Cmp : String → Nat → Nat → Option Bool
  | "gt", a, b => some (decide (a > b))
  | "ge", a, b => some (decide (a ≥ b))
  | "lt", a, b => some (decide (a < b))
  | "le", a, b => some (decide (a ≤ b))
  | "eq", a, b => some (a == b)
  | "ne", a, b => some (a != b)
  | _, _, _ => none

def c14ParenIfS (H : C14Helpers) (s : String) (enc my : Nat) : Except CErr String :=
  match c14Cmp H.parenIfCmp enc my with
  | some true => pure (H.parenIfOpen ++ s ++ H.parenIfClose)
  | some false => pure s
  | none => throw .noClaim

/-- the result of `rec_with_force_parens_around(x, …, force_parens_around=classes)` given the text
`s` that `self.rec(x, …)` returned -/
def c14ForceS (H : C14Helpers) (classes : List String) (x : Expr) (s : String) : String :=
  if c14AnyInst x classes then H.forceOpen ++ s ++ H.forceClose else s

def c14ForceAll (H : C14Helpers) (classes : List String) : List Expr → List String → List String
  | x :: xs, s :: ss => c14ForceS H classes x s :: c14ForceAll H classes xs ss
  | _, _ => []

/-- Python's `fmt % args` for a format string that consists of literal text and `%s` directives
only: `pieces` is the text split at the directives (`%%` already read as `%`) -/
def c14Format : List String → List String → Option String
  | [p], [] => some p
  | p :: ps, a :: as =>
    match c14Format ps as with
    | some r => some (p ++ a ++ r)
    | none => none
  | _, _ => none

/-- `str.lower()` of a class name -/
def c14Lower : String → String
  | "Min" => "min"
  | "Max" => "max"
  | s => s.toLower

/-! ## string-valued expressions of a handler -/

inductive C14SE where
  | lit (s : String)
  /-- `expr.f` for a `str` attribute -/
  | strField (f : String)
  /-- `expr.f.g` (only under `isinstance(expr.f, Variable)`: `expr.function.name`) -/
  | fieldAttr (f g : String)
  /-- a local variable -/
  | var (x : String)
  /-- `type(expr).__name__.lower()` -/
  | clsLower
  /-- `self.rec(a, p)` -/
  | recur (a : C14Arg) (p : C14Prec)
  /-- `self.rec_with_force_parens_around(a, p, force_parens_around=force)` -/
  | recForce (a : C14Arg) (p : C14Prec) (force : List String)
  /-- `self.join_rec(sep, expr.f, p, force_parens_around=force)` -/
  | joinRec (sep : String) (f : String) (p : C14Prec) (force : List String)
  /-- `self.format(fmt, args…)` / `fmt % (args…)`, `fmt` split at its `%s` -/
  | format (pieces : List String) (args : List C14SE)
  /-- `a + b` on strings -/
  | concat (a b : C14SE)
  /-- `self.parenthesize_if_needed(s, enc, my)` -/
  | parenIf (s : C14SE) (enc my : C14Prec)
  deriving Repr, Inhabited

abbrev C14Plan := List (Expr × Nat)

mutual
/-- the recursive calls evaluating `s` makes, in Python's evaluation order (arguments left to
right), each with its enclosing precedence -/
def C14SE.plan (S : PrintPrec) (e : Expr) (enc : Nat) : C14SE → Except CErr C14Plan
  | .lit _ | .strField _ | .fieldAttr _ _ | .var _ | .clsLower => pure []
  | .recur a p =>
    match a.eval e, p.eval S enc with
    | .ok x, .ok q => pure [(x, q)]
    | .error err, _ => throw err
    | _, .error err => throw err
  | .recForce a p _ =>
    match a.eval e, p.eval S enc with
    | .ok x, .ok q => pure [(x, q)]
    | .error err, _ => throw err
    | _, .error err => throw err
  | .joinRec _ f p _ =>
    match c14Elems e f, p.eval S enc with
    | .ok cs, .ok q => pure (cs.map (·, q))
    | .error err, _ => throw err
    | _, .error err => throw err
  | .format _ args => C14SE.planL S e enc args
  | .concat a b =>
    match a.plan S e enc, b.plan S e enc with
    | .ok x, .ok y => pure (x ++ y)
    | .error err, _ => throw err
    | _, .error err => throw err
  | .parenIf s _ _ => s.plan S e enc
def C14SE.planL (S : PrintPrec) (e : Expr) (enc : Nat) : List C14SE → Except CErr C14Plan
  | [] => pure []
  | [a] => a.plan S e enc
  | a :: as =>
    match a.plan S e enc, C14SE.planL S e enc as with
    | .ok x, .ok y => pure (x ++ y)
    | .error err, _ => throw err
    | _, .error err => throw err
end

abbrev C14Locals := List (String × String)

mutual
/-- the string `s` evaluates to, given the strings `ds` its recursive calls returned (consumed in
order; the unused rest is returned) -/
def C14SE.asm (S : PrintPrec) (H : C14Helpers) (e : Expr) (enc : Nat) (loc : C14Locals) :
    C14SE → List String → Except CErr (String × List String)
  | .lit s, ds => pure (s, ds)
  | .strField f, ds =>
    match c14Field e f with
    | some (.str s) => pure (s, ds)
    | _ => throw .noClaim
  | .fieldAttr f g, ds =>
    match c14Field e f with
    | some (.expr (.var x)) => if g = "name" then pure (x, ds) else throw .noClaim
    | _ => throw .noClaim
  | .var x, ds =>
    match loc.lookup x with
    | some s => pure (s, ds)
    | none => throw .noClaim
  | .clsLower, ds =>
    match c14ClassOf e with
    | some c => pure (c14Lower c, ds)
    | none => throw .noClaim
  | .recur _ _, d :: ds => pure (d, ds)
  | .recur _ _, [] => throw .noClaim
  | .recForce a _ force, d :: ds =>
    match a.eval e with
    | .ok x => pure (c14ForceS H force x d, ds)
    | .error err => throw err
  | .recForce _ _ _, [] => throw .noClaim
  | .joinRec sep f _ force, ds =>
    match c14Elems e f with
    | .ok cs =>
      if ds.length < cs.length then throw .noClaim
      else pure (sep.intercalate (c14ForceAll H force cs (ds.take cs.length)), ds.drop cs.length)
    | .error err => throw err
  | .format pieces args, ds =>
    match C14SE.asmL S H e enc loc args ds with
    | .ok (ss, rest) =>
      match c14Format pieces ss with
      | some r => pure (r, rest)
      | none => throw .noClaim
    | .error err => throw err
  | .concat a b, ds =>
    match a.asm S H e enc loc ds with
    | .ok (x, rest) =>
      match b.asm S H e enc loc rest with
      | .ok (y, rest') => pure (x ++ y, rest')
      | .error err => throw err
    | .error err => throw err
  | .parenIf s pe pm, ds =>
    match s.asm S H e enc loc ds with
    | .ok (x, rest) =>
      match pe.eval S enc, pm.eval S enc with
      | .ok en, .ok my =>
        match c14ParenIfS H x en my with
        | .ok r => pure (r, rest)
        | .error err => throw err
      | .error err, _ => throw err
      | _, .error err => throw err
    | .error err => throw err
def C14SE.asmL (S : PrintPrec) (H : C14Helpers) (e : Expr) (enc : Nat) (loc : C14Locals) :
    List C14SE → List String → Except CErr (List String × List String)
  | [], ds => pure ([], ds)
  | a :: as, ds =>
    match a.asm S H e enc loc ds with
    | .ok (x, rest) =>
      match C14SE.asmL S H e enc loc as rest with
      | .ok (xs, rest') => pure (x :: xs, rest')
      | .error err => throw err
    | .error err => throw err
end

/-! ## conditions and handler bodies -/

inductive C14Cond where
  /-- `isinstance(expr.f, Cls)` -/
  | isinstance (f cls : String)
  /-- `is_constant(expr.f)` -/
  | isConstant (f : String)
  /-- `is_zero(expr.f - k)` (`k = 0`: `is_zero(expr.f)`) -/
  | isZeroMinus (f : String) (k : Nat)
  deriving Repr, DecidableEq, Inhabited

/-- `is_zero(c - k)` for a constant `c`: Python arithmetic on numbers -/
def c14ConstMinusIsZero (c : Const) : Nat → Except CErr Bool
  | 0 => pure (!c.truthy)
  | 1 => pure c.isOne
  | 2 => pure c.isTwo
  | _ => throw .noClaim

def C14Cond.eval (e : Expr) : C14Cond → Except CErr Bool
  | .isinstance f cls =>
    match c14Field e f with
    | some (.expr x) => pure (c14IsInst x cls)
    | _ => throw .noClaim
  | .isConstant f =>
    match c14Field e f with
    | some (.expr x) => pure x.isConstant
    | _ => throw .noClaim
  | .isZeroMinus f k =>
    match c14Field e f with
    | some (.expr (.const c)) => c14ConstMinusIsZero c k
    | _ => throw .noClaim

inductive C14Prog where
  | ret (s : C14SE)
  | assign (x : String) (s : C14SE) (rest : C14Prog)
  | ite (c : C14Cond) (t f : C14Prog)
  deriving Repr, Inhabited

def C14Prog.plan (S : PrintPrec) (e : Expr) (enc : Nat) : C14Prog → Except CErr C14Plan
  | .ret s => s.plan S e enc
  | .assign _ s rest =>
    match s.plan S e enc, rest.plan S e enc with
    | .ok x, .ok y => pure (x ++ y)
    | .error err, _ => throw err
    | _, .error err => throw err
  | .ite c t f =>
    match c.eval e with
    | .ok true => t.plan S e enc
    | .ok false => f.plan S e enc
    | .error err => throw err

def C14Prog.asm (S : PrintPrec) (H : C14Helpers) (e : Expr) (enc : Nat) :
    C14Prog → C14Locals → List String → Except CErr String
  | .ret s, loc, ds =>
    match s.asm S H e enc loc ds with
    | .ok (r, []) => pure r
    | .ok (_, _ :: _) => throw .noClaim
    | .error err => throw err
  | .assign x s rest, loc, ds =>
    match s.asm S H e enc loc ds with
    | .ok (v, ds') => rest.asm S H e enc ((x, v) :: loc) ds'
    | .error err => throw err
  | .ite c t f, loc, ds =>
    match c.eval e with
    | .ok true => t.asm S H e enc loc ds
    | .ok false => f.asm S H e enc loc ds
    | .error err => throw err

/-! ## `SimplifyingSortingStringifyMapper.map_sum` -/

structure C14SumRow where
  /-- the attribute iterated over: `for ch in expr.children` -/
  field : String
  /-- `get_neg_product`: `isinstance(expr, negCls) and len(expr.negField) and
  is_zero(expr.negField[negHeadIndex] + negHeadPlus)` -/
  negCls : String
  negField : String
  negNonEmpty : Bool
  negHeadIndex : Nat
  negHeadPlus : Nat
  /-- `if len(expr.negField) == negTwoLen: return expr.negField[negTwoIndex]` -/
  negTwoLen : Nat
  negTwoIndex : Nat
  /-- `else: return negRestCls(expr.negField[negRestFrom:])` -/
  negRestCls : String
  negRestFrom : Nat
  /-- `negatives.append(self.rec(neg_prod, negPrec))` / `positives.append(self.rec(ch, posPrec))` -/
  negPrec : C14Prec
  posPrec : C14Prec
  /-- `positives.sort(reverse=self.reverse)` / `negatives.sort(reverse=self.reverse)` -/
  posSorted : Bool
  negSorted : Bool
  /-- `positives = posSep.join(positives)` -/
  posSep : String
  /-- `self.format(" - %s", entry)`, split at `%s` -/
  negPieces : List String
  /-- `negatives = self.join(negSep, […])` -/
  negSep : String
  /-- `result = positives + negatives` -/
  posFirst : Bool
  ownEnc : C14Prec
  ownPrec : C14Prec
  deriving Repr, Inhabited

/-- `is_zero(c0 + k)` (`k = 1`: the overloaded `+` of C03 and `is_zero`) -/
def c14PlusIsZero (c0 : Expr) : Nat → Except CErr Bool
  | 1 => plusOneIsZero c0
  | _ => throw .noClaim

/-- `Cls(children)` -/
def c14Rebuild (cls : String) (cs : List Expr) : Except CErr Expr :=
  match NaryOp.ofName? cls with
  | some o => pure (.nary o cs)
  | none => throw .noClaim

/-- `get_neg_product(ch)` -/
def c14NegProdT (r : C14SumRow) (ch : Expr) : Except CErr (Option Expr) :=
  if c14IsInst ch r.negCls then
    match c14Field ch r.negField with
    | some (.exprs cs) =>
      if r.negNonEmpty && cs.isEmpty then pure none
      else
        match cs[r.negHeadIndex]? with
        | none => throw .noClaim
        | some c0 =>
          match c14PlusIsZero c0 r.negHeadPlus with
          | .error err => throw err
          | .ok false => pure none
          | .ok true =>
            if cs.length = r.negTwoLen then
              match cs[r.negTwoIndex]? with
              | some b => pure (some b)
              | none => throw .noClaim
            else
              match c14Rebuild r.negRestCls (cs.drop r.negRestFrom) with
              | .ok x => pure (some x)
              | .error err => throw err
    | _ => throw .noClaim
  else pure none

def c14SumPlanL (r : C14SumRow) (S : PrintPrec) (enc : Nat) : List Expr → Except CErr C14Plan
  | [] => pure []
  | ch :: cs =>
    match c14NegProdT r ch with
    | .error err => throw err
    | .ok np =>
      match (match np with | some _ => r.negPrec.eval S enc | none => r.posPrec.eval S enc) with
      | .error err => throw err
      | .ok q =>
        match c14SumPlanL r S enc cs with
        | .error err => throw err
        | .ok rest => pure (((match np with | some x => x | none => ch), q) :: rest)

def c14SumPlan (r : C14SumRow) (S : PrintPrec) (e : Expr) (enc : Nat) : Except CErr C14Plan :=
  match c14Elems e r.field with
  | .ok cs => c14SumPlanL r S enc cs
  | .error err => throw err

/-- the printed children, split into `positives` and `negatives` -/
def c14SumSplit (r : C14SumRow) : List Expr → List String → List String × List String
  | ch :: cs, d :: ds =>
    let (ps, ns) := c14SumSplit r cs ds
    match c14NegProdT r ch with
    | .ok (some _) => (ps, d :: ns)
    | _ => (d :: ps, ns)
  | _, _ => ([], [])

def c14InsertStr (rev : Bool) (x : String) : List String → List String
  | [] => [x]
  | y :: ys => if goesBefore rev x y then x :: y :: ys else y :: c14InsertStr rev x ys

/-- `list.sort(reverse=rev)` on strings (stable) -/
def c14SortStrs (rev : Bool) : List String → List String
  | [] => []
  | x :: xs => c14InsertStr rev x (c14SortStrs rev xs)

def c14FormatEach (pieces : List String) : List String → Option (List String)
  | [] => some []
  | x :: xs =>
    match c14Format pieces [x], c14FormatEach pieces xs with
    | some y, some ys => some (y :: ys)
    | _, _ => none

def c14SumAsm (r : C14SumRow) (S : PrintPrec) (H : C14Helpers) (rev : Bool) (e : Expr) (enc : Nat)
    (ds : List String) : Except CErr String :=
  match c14Elems e r.field with
  | .error err => throw err
  | .ok cs =>
    let (ps, ns) := c14SumSplit r cs ds
    let ps' := if r.posSorted then c14SortStrs rev ps else ps
    let ns' := if r.negSorted then c14SortStrs rev ns else ns
    match c14FormatEach r.negPieces ns' with
    | none => throw .noClaim
    | some negs =>
      let positives := r.posSep.intercalate ps'
      let negatives := r.negSep.intercalate negs
      let result := if r.posFirst then positives ++ negatives else negatives ++ positives
      match r.ownEnc.eval S enc, r.ownPrec.eval S enc with
      | .ok en, .ok my => c14ParenIfS H result en my
      | .error err, _ => throw err
      | _, .error err => throw err

/-! ## `map_constant` -/

structure C14ConstRow where
  /-- `CCodeMapper.map_constant` tests `isinstance(x, complex)` first (that branch prints
  `std::complex<…>(…)`; the IR has no complex constants) -/
  complexFirst : Bool
  /-- the function the other branch calls with `(self, x, enclosing_prec)` -/
  delegate : String
  /-- `result = str(expr)` -/
  textOf : String
  /-- `not (result.startswith(bracketOpen) and result.endswith(bracketClose))` -/
  bracketOpen : String
  bracketClose : String
  /-- `and (c1 in result or c2 in result …)` -/
  signs : List String
  /-- `and (enclosing_prec CMP guardPrec)` -/
  guardCmp : String
  guardPrec : C14Prec
  /-- `return self.parenthesize(result)`, else `return result` -/
  wrapsWithParenthesize : Bool
  deriving Repr, Inhabited

/-- `str(c)` for the constants the C model prints (ints exactly; bools and finite floats as the
stringifier model of C06 spells them); strings and `None` are not constants of the mapper -/
def c14ConstBody (c : Const) : Except CErr String :=
  match c with
  | .int n => pure (toString n)
  | .bool b => pure (render [.tok (if b then .tTrue else .tFalse)])
  | .flt r n d =>
    if d = 0 then throw .unsupported
    else if r.startsWith "-" then pure (render [sy "-", .tok (.flt (r.drop 1).toString (-n) d)])
    else pure (render [.tok (.flt r n d)])
  | .str _ => throw .unsupported
  | .none => throw .unsupported

/-- does `str(c)` contain the character `ch`? (`"-"`, `"+"`; an int contains `-` iff it is
negative and never `+`, `True`/`False` contain neither) -/
def c14ConstHas (c : Const) (ch : String) : Bool :=
  match c with
  | .int n => ch == "-" && decide (n < 0)
  | .flt r _ _ =>
    if ch == "-" then r.startsWith "-" || r.contains '-'
    else if ch == "+" then r.contains '+' else false
  | _ => false

/-- is `str(c)` bracketed by `(` … `)`?  Never for ints, bools and floats (complex numbers are) -/
def c14ConstBracketed (_c : Const) (_o _c' : String) : Bool := false

def c14ConstAsm (r : C14ConstRow) (S : PrintPrec) (H : C14Helpers) (c : Const) (enc : Nat) :
    Except CErr String :=
  match c14ConstBody c with
  | .error err => throw err
  | .ok body =>
    match r.guardPrec.eval S enc with
    | .error err => throw err
    | .ok g =>
      match c14Cmp r.guardCmp enc g with
      | none => throw .noClaim
      | some tight =>
        if !(c14ConstBracketed c r.bracketOpen r.bracketClose) && r.signs.any (c14ConstHas c) && tight
        then
          if r.wrapsWithParenthesize then pure (H.parenOpen ++ body ++ H.parenClose)
          else throw .noClaim
        else pure body

/-! ## `map_common_subexpression` -/

inductive C14NamePart where
  /-- `self.cse_prefix` -/
  | selfPrefix
  | lit (s : String)
  /-- `expr.prefix` -/
  | exprPrefix
  /-- the running counter `i`, printed in decimal (`str(i)`, `"%d" % i`) -/
  | counter
  deriving Repr, DecidableEq, Inhabited

inductive C14CseEffect where
  /-- `self.cse_name_list.append((cse_name, cse_str))`; `nameFirst`: the name is the first component -/
  | appendList (nameFirst : Bool)
  /-- `self.cse_to_name[expr.keyField] = cse_name` -/
  | storeToName (keyField : String)
  /-- `self.cse_names.add(cse_name)` -/
  | addName
  /-- `assert len(self.cse_names) == len(self.cse_to_name)` (holds in every reachable state:
  `PV.C14.cse_assert_holds`; absent under `python -O`) -/
  | assertSameLen
  deriving Repr, DecidableEq, Inhabited

structure C14CseRow where
  /-- `try: cse_name = self.cse_to_name[expr.keyField]` (`""`: the wrapper itself) -/
  keyField : String
  missExc : String
  /-- `cse_str = self.rec(recArg, recPrec)` -/
  recArg : C14Arg
  recPrec : C14Prec
  /-- `if expr.prefixField is not None:` -/
  prefixField : String
  /-- with a prefix: the first name, then `i = withStart; while True: yield withNext; i += 1` -/
  withFirst : List C14NamePart
  withStart : Nat
  withNext : List C14NamePart
  /-- without: `i = withoutStart; while True: yield withoutNext; i += 1` -/
  withoutStart : Nat
  withoutNext : List C14NamePart
  /-- `for cse_name in generate_cse_names(): if cse_name not in self.takenIn: break` -/
  takenIn : String
  effects : List C14CseEffect
  returnsName : Bool
  deriving Repr, Inhabited

/-- `a + b + c …` on strings (left to right) -/
def c14Cat : List String → String
  | [] => ""
  | a :: as => as.foldl (· ++ ·) a

def C14NamePart.text (pfx : String) (q : String) (i : Nat) : C14NamePart → String
  | .selfPrefix => pfx
  | .lit s => s
  | .exprPrefix => q
  | .counter => toString i

/-- the `i`-th name `generate_cse_names()` yields -/
def c14CandT (r : C14CseRow) (pfx : String) (p : Option String) (i : Nat) : String :=
  match p with
  | some q =>
    if i = 0 then c14Cat (r.withFirst.map (C14NamePart.text pfx q 0))
    else c14Cat (r.withNext.map (C14NamePart.text pfx q (r.withStart + (i - 1))))
  | none => c14Cat (r.withoutNext.map (C14NamePart.text pfx "" (r.withoutStart + i)))

abbrev C14Printer := CSt → Expr → Nat → Except CErr (String × List String × CSt)

/-- the dictionary key `expr.keyField` -/
def c14CseKey (keyField : String) (c : Expr) (p : Option String) (sc : String) : Except CErr Expr :=
  if keyField = "" then pure (.cse c p sc)
  else match c14Field (.cse c p sc) keyField with
    | some (.expr k) => pure k
    | _ => throw .noClaim

def c14CseEffectRun (c : Expr) (p : Option String) (sc : String) (n s : String) (refs : List String)
    (st : CSt) : C14CseEffect → Except CErr CSt
  | .appendList nameFirst =>
    if nameFirst then
      pure { st with nameList := st.nameList ++ [{ name := n, val := .text s, child := some c,
                                                   refs := refs }] }
    else throw .noClaim
  | .storeToName keyField =>
    match c14CseKey keyField c p sc with
    | .error err => throw err
    | .ok k =>
      -- a dictionary store; the model claims nothing when the key is present (it never is: the key
      -- was looked up and missed, and printing the child adds smaller expressions only)
      match st.toName.find? (fun kv => kv.1.eq (.expr k)) with
      | some _ => throw .noClaim
      | none => pure { st with toName := st.toName ++ [(.expr k, n)] }
  | .addName => pure { st with names := st.names ++ [.text n] }
  | .assertSameLen => pure st

def c14CseEffects (c : Expr) (p : Option String) (sc : String) (n s : String) (refs : List String) :
    CSt → List C14CseEffect → Except CErr CSt
  | st, [] => pure st
  | st, x :: xs =>
    match c14CseEffectRun c p sc n s refs st x with
    | .ok st' => c14CseEffects c p sc n s refs st' xs
    | .error err => throw err

/-- `map_common_subexpression` run from its row; `f` is `self.rec` -/
def c14CseT (r : C14CseRow) (S : PrintPrec) (f : C14Printer) (st : CSt) (c : Expr)
    (p : Option String) (sc : String) (enc : Nat) : Except CErr (String × List String × CSt) :=
  match c14CseKey r.keyField c p sc with
  | .error err => throw err
  | .ok k =>
    if k.hasList then throw .unsupported else          -- unhashable dictionary key
    match st.toName.find? (fun kv => kv.1.eq (.expr k)) with
    | some kv => if r.returnsName then pure (kv.2, [kv.2], st) else throw .noClaim
    | none =>
      if r.missExc != "KeyError" || r.takenIn != "cse_names" then throw .noClaim else
      match r.recArg.eval (.cse c p sc), r.recPrec.eval S enc with
      | .error err, _ => throw err
      | _, .error err => throw err
      | .ok x, .ok q =>
        match f st x q with
        | .error err => throw err
        | .ok (s, refs, st1) =>
          match c14Field (.cse c p sc) r.prefixField with
          | some (.optStr pf) =>
            match firstFree st1.names (c14CandT r st1.pfx pf) (st1.names.length + 1) 0 with
            | none => throw .noClaim
            | some n =>
              match c14CseEffects c p sc n s refs st1 r.effects with
              | .error err => throw err
              | .ok st2 => if r.returnsName then pure (n, [n], st2) else throw .noClaim
          | _ => throw .noClaim

/-! ## `__init__`, `copy`, `copy_with_mapped_cses` -/

/-- a component of the pairs of `cse_name_list` as the comprehension unpacks them -/
inductive C14Sel where
  | first | second
  deriving Repr, DecidableEq, Inhabited

inductive C14InitVal where
  /-- a constructor parameter -/
  | param (p : String)
  /-- `{K: V for a, b in SRC}` -/
  | dictOf (src : String) (key val : C14Sel)
  /-- `{E for a, b in SRC}` -/
  | setOf (src : String) (elem : C14Sel)
  /-- `SRC[:]` -/
  | copyOf (src : String)
  deriving Repr, DecidableEq, Inhabited

structure C14InitRow where
  /-- parameters after `self`, in order -/
  params : List String
  /-- `if P is None: P = []` -/
  noneToEmpty : List String
  /-- the class whose `__init__` `super().__init__(…)` reaches, and what it is called with -/
  superInit : String
  /-- attribute assignments, the ones of the `super().__init__` chain first -/
  sets : List (String × C14InitVal)
  deriving Repr, DecidableEq, Inhabited

/-- an argument of the constructor call inside `copy` -/
inductive C14CopyArg where
  /-- `self.attr` -/
  | attr (a : String)
  /-- the parameter of `copy` (after `if P is None: P = self.attr`) -/
  | listParam
  deriving Repr, DecidableEq, Inhabited

structure C14CopyRow where
  /-- `def copy(self, P=None)` -/
  param : String
  /-- `if P is None: P = self.noneAttr` -/
  noneAttr : String
  /-- `return Cls(args…)` -/
  cls : String
  args : List C14CopyArg
  deriving Repr, DecidableEq, Inhabited

structure C14CopyMappedRow where
  /-- `return self.via(self.leftAttr + param)` -/
  via : String
  leftAttr : String
  appendsParam : Bool
  deriving Repr, DecidableEq, Inhabited

/-- the actual arguments of a constructor call: `none` = not passed (the default applies) -/
structure C14InitArgs where
  reverse : Option Bool
  pfx : Option String
  list : Option (List CEntry)

def C14Sel.key (e : CEntry) : C14Sel → CCKey
  | .first => .text e.name
  | .second => e.val

def C14Sel.str (e : CEntry) : C14Sel → Option String
  | .first => some e.name
  | .second => match e.val with
    | .text s => some s
    | .expr _ => none

def c14DictOf (key val : C14Sel) (l : List CEntry) : Option (List (CCKey × String)) :=
  l.foldl (fun d e => match d, val.str e with
      | some d, some v => some (dictSet d (key.key e) v)
      | _, _ => none) (some [])

def c14SetOf (elem : C14Sel) (l : List CEntry) : List CCKey :=
  l.foldl (fun s e => setAdd s (elem.key e)) []

/-- the defaults of `CCodeMapper.__init__` the model knows: `reverse=True`, `cse_prefix="_cse"`,
`cse_name_list=None` (read `[]`) -/
def c14InitT (r : C14InitRow) (a : C14InitArgs) : Option CSt :=
  let listArg : List CEntry := a.list.getD []
  let valList : C14InitVal → Option (List CEntry) := fun v => match v with
    | .copyOf src => if src = "cse_name_list" then some listArg else none
    | .param p => if p = "cse_name_list" then some listArg else none
    | _ => none
  match r.sets.lookup "reverse", r.sets.lookup "cse_prefix", r.sets.lookup "cse_to_name",
      r.sets.lookup "cse_names", r.sets.lookup "cse_name_list" with
  | some (.param pr), some (.param pp), some (.dictOf s1 k v), some (.setOf s2 el), some vl =>
    if pr = "reverse" ∧ pp = "cse_prefix" ∧ s1 = "cse_name_list" ∧ s2 = "cse_name_list"
        ∧ "cse_name_list" ∈ r.noneToEmpty then
      match c14DictOf k v listArg, valList vl with
      | some d, some nl =>
        some { reverse := a.reverse.getD true, pfx := a.pfx.getD "_cse", toName := d,
               names := c14SetOf el listArg, nameList := nl }
      | _, _ => none
    else none
  | _, _, _, _, _ => none

/-- `self.copy(cse_name_list)`: bind the arguments of the constructor call to the parameters of
`__init__` by position -/
def c14CopyT (ri : C14InitRow) (rc : C14CopyRow) (mapper : String) (st : CSt)
    (given : Option (List CEntry)) : Option CSt :=
  if rc.cls ≠ mapper ∨ rc.noneAttr ≠ "cse_name_list" then none else
  let theList := given.getD st.nameList
  let bound := ri.params.zip rc.args
  let boolOf : C14CopyArg → Option Bool := fun a => match a with
    | .attr "reverse" => some st.reverse
    | _ => none
  let strOf : C14CopyArg → Option String := fun a => match a with
    | .attr "cse_prefix" => some st.pfx
    | _ => none
  let listOf : C14CopyArg → Option (List CEntry) := fun a => match a with
    | .listParam => some theList
    | .attr "cse_name_list" => some st.nameList
    | _ => none
  -- a parameter that is passed must be passed something of the right kind
  let ok (p : String) (good : C14CopyArg → Bool) : Bool :=
    match bound.lookup p with
    | some a => good a
    | none => true
  if ok "reverse" (fun a => (boolOf a).isSome) && ok "cse_prefix" (fun a => (strOf a).isSome)
      && ok "cse_name_list" (fun a => (listOf a).isSome) then
    c14InitT ri { reverse := (bound.lookup "reverse").bind boolOf,
                  pfx := (bound.lookup "cse_prefix").bind strOf,
                  list := (bound.lookup "cse_name_list").bind listOf }
  else none

def c14CopyMappedT (ri : C14InitRow) (rc : C14CopyRow) (rm : C14CopyMappedRow) (mapper : String)
    (st : CSt) (pairs : List (String × Expr)) : Option CSt :=
  if rm.via = "copy" ∧ rm.leftAttr = "cse_name_list" ∧ rm.appendsParam = true then
    c14CopyT ri rc mapper st
      (some (st.nameList ++ pairs.map fun p => { name := p.1, val := .expr p.2 }))
  else none

/-! ## the table -/

inductive C14Body where
  | prog (p : C14Prog)
  | sum (r : C14SumRow)
  | constant (r : C14ConstRow)
  | cse (r : C14CseRow)
  deriving Repr, Inhabited

structure C14Handler where
  name : String
  /-- qualified name of the function the attribute resolves to on the mapper class -/
  definedIn : String
  body : C14Body
  deriving Repr, Inhabited

structure C14Class where
  cls : String
  /-- dataclass fields with their kinds (`expr`, `exprs`, `str`, `optStr`, or the annotation) -/
  fields : List (String × String)
  /-- the handler `Mapper.__call__` reaches on the mapper for this class -/
  handler : Option String
  deriving Repr, DecidableEq, Inhabited

structure C14Table where
  mapper : String
  mro : List String
  /-- which class provides `rec` / `__call__`, and the default of `__call__`'s `prec` -/
  recOwner : String
  callOwner : String
  callDefaultPrec : C14Prec
  classes : List C14Class
  /-- `Mapper.map_foreign`: kind of foreign object ↦ handler; constant kinds -/
  foreign : List (String × String)
  constKinds : List String
  handlers : List C14Handler
  /-- handlers reached by the dispatch that the model does not print (no claim) -/
  unmodelled : List (String × String)
  helpers : C14Helpers
  init : C14InitRow
  copy : C14CopyRow
  copyMapped : C14CopyMappedRow
  deriving Repr, Inhabited

def c14ConstKind : Const → String
  | .int _ => "int"
  | .bool _ => "bool"
  | .flt .. => "float"
  | .str _ => "str"
  | .none => "NoneType"

/-- the name of the handler the dispatch reaches for `e` -/
def C14Table.handlerName (T : C14Table) (e : Expr) : Option String :=
  match c14ClassOf e with
  | some cls =>
    match T.classes.find? (fun c => c.cls == cls) with
    | some c => c.handler
    | none => none
  | none =>
    match e with
    | .const c => if T.constKinds.contains (c14ConstKind c) then T.foreign.lookup "constant" else none
    | .tuple _ => T.foreign.lookup "tuple"
    | .list _ => T.foreign.lookup "list"
    | _ => none

def C14Table.bodyOf (T : C14Table) (e : Expr) : Option C14Body :=
  match T.handlerName e with
  | some h =>
    match T.handlers.find? (fun x => x.name == h) with
    | some x => some x.body
    | none => none
  | none => none

/-- which sub-expressions the handler of `e` prints, in order, under which precedences -/
def c14PlanT (T : C14Table) (S : PrintPrec) (e : Expr) (enc : Nat) : Except CErr C14Plan :=
  match T.bodyOf e with
  | some (.prog p) => p.plan S e enc
  | some (.sum r) => c14SumPlan r S e enc
  | some (.constant _) => pure []
  | _ => throw .unsupported

/-- the text the handler of `e` returns, given the texts of its recursive calls -/
def c14AsmT (T : C14Table) (S : PrintPrec) (rev : Bool) (e : Expr) (enc : Nat) (ds : List String) :
    Except CErr String :=
  match T.bodyOf e with
  | some (.prog p) => p.asm S T.helpers e enc [] ds
  | some (.sum r) => c14SumAsm r S T.helpers rev e enc ds
  | some (.constant r) =>
    match e with
    | .const c => c14ConstAsm r S T.helpers c enc
    | _ => throw .noClaim
  | _ => throw .unsupported

/-- run the planned recursive calls left to right, threading the allocator state -/
def c14PrintAll (f : C14Printer) : CSt → C14Plan → Except CErr (List String × List String × CSt)
  | st, [] => pure ([], [], st)
  | st, (e, enc) :: rest =>
    match f st e enc with
    | .error err => throw err
    | .ok (d, r, st1) =>
      match c14PrintAll f st1 rest with
      | .error err => throw err
      | .ok (ds, rs, st2) => pure (d :: ds, r ++ rs, st2)

/-- every handler except `map_common_subexpression`; `f` is `self.rec` -/
def c14GenericT (T : C14Table) (S : PrintPrec) (f : C14Printer) (st : CSt) (e : Expr) (enc : Nat) :
    Except CErr (String × List String × CSt) :=
  match c14PlanT T S e enc with
  | .error err => throw err
  | .ok pl =>
    match c14PrintAll f st pl with
    | .error err => throw err
    | .ok (ds, refs, st') =>
      match c14AsmT T S st.reverse e enc ds with
      | .error err => throw err
      | .ok d => pure (d, refs, st')

/-- `self.rec(expr, enclosing_prec)` run from the table: the text, the hoisted names it refers to,
the new allocator state -/
def c14CcodeET (T : C14Table) (S : PrintPrec) : Nat → C14Printer
  | 0, _, _, _ => throw .fuel
  | fuel + 1, st, e, enc =>
    match T.bodyOf e, e with
    | some (.cse r), .cse c p sc => c14CseT r S (c14CcodeET T S fuel) st c p sc enc
    | some (.cse _), _ => throw .noClaim
    | _, _ => c14GenericT T S (c14CcodeET T S fuel) st e enc

/-- `mapper(expr)`: `__call__(expr, prec=<default>)` -/
def c14CcodeT (T : C14Table) (S : PrintPrec) (st : CSt) (e : Expr) :
    Except CErr (String × List String × CSt) :=
  match T.callDefaultPrec.eval S 0 with
  | .ok p => c14CcodeET T S (2 * e.size + 4) st e p
  | .error err => throw err

/-- successive calls on ONE mapper, run from the table -/
def c14EmitsT (T : C14Table) (S : PrintPrec) :
    CSt → List Expr → Except CErr (List (String × List String) × CSt)
  | st, [] => pure ([], st)
  | st, e :: es =>
    match c14CcodeT T S st e with
    | .error err => throw err
    | .ok (d, r, st1) =>
      match c14EmitsT T S st1 es with
      | .error err => throw err
      | .ok (outs, st2) => pure ((d, r) :: outs, st2)

/-- operations on a pool of mappers, run from the table -/
def c14RunOpsT (T : C14Table) (S : PrintPrec) :
    List CSt → List COpn → Except CErr (List CStepOut × List CSt)
  | pool, [] => pure ([], pool)
  | pool, op :: ops =>
    match op with
    | .emit i e =>
      match pool[i]? with
      | none => throw .noClaim
      | some st =>
        match c14CcodeT T S st e with
        | .error err => throw err
        | .ok (d, r, st1) =>
          match c14RunOpsT T S (pool.set i st1) ops with
          | .error err => throw err
          | .ok (outs, pool') => pure (.text d r :: outs, pool')
    | .copy i =>
      match pool[i]? with
      | none => throw .noClaim
      | some st =>
        match c14CopyT T.init T.copy T.mapper st none with
        | none => throw .noClaim
        | some st' =>
          match c14RunOpsT T S (pool ++ [st']) ops with
          | .error err => throw err
          | .ok (outs, pool') => pure (.made pool.length :: outs, pool')
    | .copyMapped i pairs =>
      match pool[i]? with
      | none => throw .noClaim
      | some st =>
        match c14CopyMappedT T.init T.copy T.copyMapped T.mapper st pairs with
        | none => throw .noClaim
        | some st' =>
          match c14RunOpsT T S (pool ++ [st']) ops with
          | .error err => throw err
          | .ok (outs, pool') => pure (.made pool.length :: outs, pool')

end PV
