import PV.Model.Traverse
import PV.Model.Dispatch
/-
  C04 (T-gen).  The shape of the `map_*` handlers of the stock traversal mappers
  (`WalkMapper`, `IdentityMapper`, `CombineMapper` of pymbolic/mapper/__init__.py) as a plain
  table — regenerated from the live source by extract/traversal.py into
  lean/PV/Generated/Traversal.lean — and the table-driven reading of one handler call:

    * `c04TableChildren`  the children a handler recurses into, in the order it does
    * `c04WalkStep`       one `WalkMapper` handler call (visit / children / post_visit), recursion
                          left open (`self.rec`)
    * `c04CombineStep`    one `CombineMapper` handler call
    * `c04IdentStep`      one `IdentityMapper` handler call (rebuild order, "same object" test,
                          constructor argument order)

  Nothing here knows the handlers of the current source: every child order, bracket and
  constructor argument comes from the table argument.  PV/Proofs/WalkTable.lean proves that the
  hand-written model (`walk`, `combineL`, `substM`, `walkChildren`, `Expr.children`) is the unique
  solution of these equations for the regenerated table.
-/
namespace PV

/-- how one recursion site of a handler enumerates the objects it recurses into -/
inductive C04Iter where
  /-- `self.rec(expr.F, …)` -/
  | one
  /-- `for child in expr.F` / `[… for child in expr.F]` (`F = ""`: the container `expr` itself) -/
  | each
  /-- `for child in expr.F.values()` / `for key, val in expr.F.items()` (insertion order) -/
  | eachValue
  /-- `for child in expr.F: if child is not None: …` / `None if child is None else rec(child)` -/
  | eachNotNone
  /-- `for _first, child in expr.F` (pairs; polynomial data) -/
  | eachSecond
  /-- `for i in numpy.ndindex(expr.shape): rec(expr[i])` / `for el in expr.flat` -/
  | ndindex
  /-- `expr.map(lambda ch: rec(ch))` (multivector coefficients) -/
  | viaMap
  deriving Repr, DecidableEq, Inhabited

/-- one recursion site: `self.rec(<child of expr.field>, *args, **kwargs)` -/
structure C04Rec where
  field : String
  iter : C04Iter
  /-- the call passes `*args, **kwargs` on, unchanged -/
  fwd : Bool
  deriving Repr, DecidableEq, Inhabited

inductive C04Visit where
  /-- `self.visit` is not called -/
  | absent
  /-- `self.visit(expr, …)` is called first, its result ignored (leaf handlers) -/
  | plain
  /-- `if not self.visit(expr, …): return` is the first statement -/
  | guard
  deriving Repr, DecidableEq, Inhabited

/-- one positional constructor argument of an `IdentityMapper` rebuild -/
inductive C04Arg where
  /-- the mapped value of `expr.field` -/
  | rebuilt (field : String)
  /-- `expr.field`, passed through -/
  | copied (field : String)
  deriving Repr, DecidableEq, Inhabited

inductive C04Ctor where
  /-- `type(expr)(a₁, …, aₙ)` / `expr.__class__(…)`; `extraProps`: `**expr.get_extra_properties()` -/
  | sameClass (args : List C04Arg) (extraProps : Bool)
  /-- a new Python list of the mapped children -/
  | pyList
  /-- `tuple(children)` -/
  | pyTuple
  /-- an elementwise-rebuilt container (numpy array, multivector) -/
  | container
  deriving Repr, DecidableEq, Inhabited

inductive C04Body where
  /-- `raise NotImplementedError` -/
  | raises
  /-- `return self.<to>(expr, *args, **kwargs)` -/
  | delegate (to : String) (fwd : Bool)
  /-- `WalkMapper`: visit, recursion sites in order, post_visit (last statement) -/
  | walk (visit : C04Visit) (visitFwd : Bool) (recs : List C04Rec) (post : Bool) (postFwd : Bool)
  /-- `CombineMapper`: `return self.combine((rec …, rec …))`, or (`viaCombine = false`)
  `return self.rec(expr.F, …)` -/
  | fold (viaCombine : Bool) (recs : List C04Rec)
  /-- `IdentityMapper` leaf: `return expr` -/
  | same
  /-- `CallbackMapper`: `return self.function(expr, self, *args, **kwargs)` -/
  | callback (fwd : Bool)
  /-- `IdentityMapper`: recursion sites in evaluation order; `sameTest`: there is an
  `if <all mapped values `is` the originals>: return expr` test and `checked` are the fields it
  compares; `zeroCollapse`: `if is_zero(result): return 0` precedes it; then the constructor call -/
  | rebuild (recs : List C04Rec) (sameTest : Bool) (checked : List String) (zeroCollapse : Bool)
      (ctor : C04Ctor)
  deriving Repr, DecidableEq, Inhabited

structure C04Handler where
  /-- attribute name, e.g. `map_product` -/
  name : String
  /-- class whose body defines the function (`Mapper` for the inherited stubs) -/
  definedIn : String
  /-- `__name__` of the function the attribute resolves to (`map_sum` for `map_product = map_sum`) -/
  impl : String
  body : C04Body
  deriving Repr, DecidableEq, Inhabited

/-- a node class of pymbolic.primitives -/
structure C04NodeClass where
  name : String
  /-- `getattr(c, "mapper_method", None)` along `cls.__mro__` (without `object`), own class first -/
  mro : List (Option String)
  /-- dataclass fields in declaration (= constructor) order -/
  fields : List String
  /-- what the declared type of each field holds: `"one"` expression, `"many"` (a tuple of
  expressions), `"dict"` (a mapping to expressions), `"data"` (no expression) -/
  kinds : List String
  deriving Repr, DecidableEq, Inhabited

/-! ### fields of a node, under their Python names -/

/-- the value of a dataclass field as far as traversals care -/
inductive C04Val where
  /-- an expression-valued field -/
  | one (e : Expr)
  /-- a tuple of expressions (or the elements of a tuple / list container) -/
  | many (es : List Expr)
  /-- a dict with expression values (keys are not expressions), insertion order -/
  | dict (vs : List Expr)
  /-- not an expression (names, operator strings, prefixes, …) -/
  | data
  deriving Inhabited

def C04Val.kindName : C04Val → String
  | .one _ => "one"
  | .many _ => "many"
  | .dict _ => "dict"
  | .data => "data"

/-- The dataclass fields of a node in declaration order, under their Python names (this is the
reading of the wire format, harness/sexp.py).  Tuples and lists: the pseudo-field `""` is the
container itself. -/
def Expr.c04Fields : Expr → List (String × C04Val)
  | .const _ => []
  | .var _ => [("name", .data)]
  | .nary _ cs => [("children", .many cs)]
  | .bin .pow a b => [("base", .one a), ("exponent", .one b)]
  | .bin .lshift a b => [("shiftee", .one a), ("shift", .one b)]
  | .bin .rshift a b => [("shiftee", .one a), ("shift", .one b)]
  | .bin _ a b => [("numerator", .one a), ("denominator", .one b)]
  | .un _ a => [("child", .one a)]
  | .cmp _ a b => [("left", .one a), ("operator", .data), ("right", .one b)]
  | .ite c t e => [("condition", .one c), ("then", .one t), ("else_", .one e)]
  | .call f as => [("function", .one f), ("parameters", .many as)]
  | .callKw f as _ vs => [("function", .one f), ("parameters", .many as), ("kw_parameters", .dict vs)]
  | .subscript a i => [("aggregate", .one a), ("index", .one i)]
  | .lookup a _ => [("aggregate", .one a), ("name", .data)]
  | .cse c _ _ => [("child", .one c), ("prefix", .data), ("scope", .data)]
  | .subst c _ xs => [("child", .one c), ("variables", .data), ("values", .many xs)]
  | .deriv c _ => [("child", .one c), ("variables", .data)]
  | .slice cs => [("children", .many cs)]
  | .nan => [("data_type", .data)]
  | .wildcard => []
  | .dotWild _ => [("name", .data)]
  | .starWild _ => [("name", .data)]
  | .funcSym => []
  | .tuple cs => [("", .many cs)]
  | .list cs => [("", .many cs)]

def c04Assoc {α : Type} (f : String) : List (String × α) → Option α
  | [] => none
  | (k, v) :: rest => if k == f then some v else c04Assoc f rest

def Expr.c04Field (e : Expr) (f : String) : Option C04Val := c04Assoc f e.c04Fields

def Expr.c04IsNone : Expr → Bool
  | .const .none => true
  | _ => false

/-- the expressions of a field value in order (the direct children it contributes) -/
def C04Val.exprs : C04Val → List Expr
  | .one e => [e]
  | .many es => es
  | .dict vs => vs
  | .data => []

/-- the objects one recursion site recurses into, in order; `none`: the site does not fit the
field (e.g. iterating a dict yields its keys, `.values()` of a tuple does not exist) — no claim -/
def c04RecChildren (e : Expr) (r : C04Rec) : Option (List Expr) :=
  match e.c04Field r.field, r.iter with
  | some (.one c), .one => some [c]
  | some (.many cs), .each => some cs
  | some (.many cs), .eachNotNone => some (cs.filter (fun c => !c.c04IsNone))
  | some (.dict vs), .eachValue => some vs
  | _, _ => none

def c04OptSeq {α : Type} : List (Option α) → Option (List α)
  | [] => some []
  | none :: _ => none
  | some x :: rest => match c04OptSeq rest with
    | some xs => some (x :: xs)
    | none => none

/-- the children of all recursion sites, in order -/
def c04RecsChildren (e : Expr) (recs : List C04Rec) : Option (List Expr) :=
  (c04OptSeq (recs.map (c04RecChildren e))).map List.flatten

/-! ### dispatch of a node to a table -/

def c04FindHandler (tbl : List C04Handler) (n : String) : Option C04Handler :=
  tbl.find? (fun h => h.name == n)

def c04FindClass (classes : List C04NodeClass) (n : String) : Option C04NodeClass :=
  classes.find? (fun c => c.name == n)

/-- `Mapper.__call__` for a node of the model: foreign objects by kind (`map_foreign`), expression
nodes by the MRO of their class (`dispatchExpr`, the dispatch model of this property) against the
handler names `hs` the mapper has. -/
def c04Dispatch (classes : List C04NodeClass) (hs : List String) : Expr → DispatchResult
  | .const (.str _) => dispatchForeign .other
  | .const .none => dispatchForeign .other
  | .const _ => dispatchForeign .number
  | .tuple _ => dispatchForeign .tuple
  | .list _ => dispatchForeign .list
  | e => match c04FindClass classes e.kind with
    | some c => dispatchExpr hs c.mro
    | none => .unsupported

/-- the body that finally runs for handler `n`: `return self.map_x(expr, …)` stubs are followed -/
def c04BodyOf (tbl : List C04Handler) : Nat → String → Option C04Body
  | 0, _ => none
  | fuel + 1, n =>
    match c04FindHandler tbl n with
    | none => none
    | some h => match h.body with
      | .delegate to true => c04BodyOf tbl fuel to
      | b => some b

/-- the body run for node `e` by a mapper with the handlers of `tbl`; the outer `Except` is the
dispatch outcome (invalid foreign object / no handler) -/
def c04Resolve (classes : List C04NodeClass) (tbl : List C04Handler) (e : Expr) :
    Except DepErr C04Body :=
  match c04Dispatch classes (tbl.map (·.name)) e with
  | .invalidForeign => .error .foreign
  | .unsupported => .error .unsupported
  | .handler n => match c04BodyOf tbl 4 n with
    | some b => .ok b
    | none => .error .unsupported
  | .foreign n => match c04BodyOf tbl 4 n with
    | some b => .ok b
    | none => .error .unsupported

/-- recursion sites of a body -/
def C04Body.recs : C04Body → List C04Rec
  | .walk _ _ recs _ _ => recs
  | .fold _ recs => recs
  | .rebuild recs _ _ _ _ => recs
  | _ => []

/-- **The children the table says the handler for `e` recurses into, in the order it does.** -/
def c04TableChildren (classes : List C04NodeClass) (tbl : List C04Handler) (e : Expr) :
    Option (List Expr) :=
  match c04Resolve classes tbl e with
  | .ok b => c04RecsChildren e b.recs
  | .error _ => none

/-! ### one handler call of each mapper, recursion left open -/

/-- results of `rec` on the children in order, concatenated; stops at the first error -/
def c04SeqL {α β : Type} (rec : α → Except DepErr (List β)) : List α → Except DepErr (List β)
  | [] => pure []
  | c :: cs => do
      let x ← rec c
      let y ← c04SeqL rec cs
      pure (x ++ y)

/-- the recursion sites of a handler run in order: each site recurses into its children with the
extra arguments it forwards (`args && fwd`); a site that does not fit the node is an error -/
def c04SeqSites {β : Type} (rec : Bool → Expr → Except DepErr (List β)) (args : Bool) (e : Expr) :
    List C04Rec → Except DepErr (List β)
  | [] => pure []
  | r :: rs =>
    match c04RecChildren e r with
    | none => .error .unsupported
    | some cs => do
        let x ← c04SeqL (rec (args && r.fwd)) cs
        let y ← c04SeqSites rec args e rs
        pure (x ++ y)

/-- One `WalkMapper` handler call as the table describes it: `visit`; unless it is a guard and
`visit` returned `False` (node kind in `skip`) the recursive calls in table order; `post_visit`. -/
def c04WalkStepB (body : Except DepErr C04Body)
    (rec : Bool → Expr → Except DepErr (List Event)) (skip : List String) (args : Bool)
    (e : Expr) : Except DepErr (List Event) :=
  match body with
  | .error err => .error err
  | .ok (.walk visit vf recs post pf) =>
      let v : List Event := match visit with
        | .absent => []
        | _ => [⟨false, e, args && vf⟩]
      let p : List Event := if post then [⟨true, e, args && pf⟩] else []
      if visit == .guard && skip.contains e.kind then pure v
      else do
        let inner ← c04SeqSites rec args e recs
        pure (v ++ inner ++ p)
  | .ok _ => .error .unsupported

def c04WalkStep (classes : List C04NodeClass) (tbl : List C04Handler)
    (rec : Bool → Expr → Except DepErr (List Event)) (skip : List String) (args : Bool)
    (e : Expr) : Except DepErr (List Event) :=
  c04WalkStepB (c04Resolve classes tbl e) rec skip args e

/-- One `CombineMapper` handler call (`combine` = list concatenation) for the body `body`. -/
def c04CombineStepB (body : Except DepErr C04Body)
    (rec : Expr → Except DepErr (List Expr)) (e : Expr) : Except DepErr (List Expr) :=
  match body with
  | .error err => .error err
  | .ok .same => pure [e]
  | .ok (.fold _ recs) => c04SeqSites (fun _ c => rec c) true e recs
  | .ok _ => .error .unsupported

/-- the handlers of a user subclass that makes the names `leaves` leaves (`[expr]`), as
`Collector` does, on top of the stock table -/
def c04WithLeaves (leaves : List String) (tbl : List C04Handler) : List C04Handler :=
  leaves.map (fun n => ⟨n, "user", n, .same⟩) ++ tbl

/-- One `CombineMapper` handler call as the table describes it. -/
def c04CombineStep (classes : List C04NodeClass) (tbl : List C04Handler) (leaves : List String)
    (rec : Expr → Except DepErr (List Expr)) (e : Expr) : Except DepErr (List Expr) :=
  c04CombineStepB (c04Resolve classes (c04WithLeaves leaves tbl) e) rec e

/-! #### identity mapper -/

/-- mapped children of one recursion site: new values and "some value is a new object" -/
def c04MapSeq (rec : Expr → Expr × Bool) : List Expr → List Expr × Bool
  | [] => ([], false)
  | c :: cs =>
      let (c', cc) := rec c
      let (cs', ccs) := c04MapSeq rec cs
      (c' :: cs', cc || ccs)

/-- the mapped value of one recursion site -/
def c04MapRec (rec : Expr → Expr × Bool) (e : Expr) (r : C04Rec) : Option (C04Val × Bool) :=
  match e.c04Field r.field, r.iter with
  | some (.one c), .one => let (c', cc) := rec c; some (.one c', cc)
  | some (.many cs), .each => let (cs', ch) := c04MapSeq rec cs; some (.many cs', ch)
  | some (.many cs), .eachNotNone =>
      -- `None` parts stay in place
      let (cs', ch) := c04MapSeq (fun c => if c.c04IsNone then (c, false) else rec c) cs
      some (.many cs', ch)
  | some (.dict vs), .eachValue => let (vs', ch) := c04MapSeq rec vs; some (.dict vs', ch)
  | _, _ => none

/-- mapped values of all sites, by field name, in evaluation order -/
def c04MapRecs (rec : Expr → Expr × Bool) (e : Expr) :
    List C04Rec → Option (List (String × C04Val × Bool))
  | [] => some []
  | r :: rs =>
    match c04MapRec rec e r, c04MapRecs rec e rs with
    | some v, some vs => some ((r.field, v) :: vs)
    | _, _ => none

/-- a node of the same class from positional constructor arguments (dataclass field order) -/
def Expr.c04Construct : Expr → List C04Val → Option Expr
  | .nary o _, [.many cs] => some (.nary o cs)
  | .bin o _ _, [.one a, .one b] => some (.bin o a b)
  | .un o _, [.one a] => some (.un o a)
  | .cmp o _ _, [.one a, .data, .one b] => some (.cmp o a b)
  | .ite _ _ _, [.one c, .one t, .one e] => some (.ite c t e)
  | .call _ _, [.one f, .many as] => some (.call f as)
  | .callKw _ _ ns _, [.one f, .many as, .dict vs] => some (.callKw f as ns vs)
  | .subscript _ _, [.one a, .one i] => some (.subscript a i)
  | .lookup _ n, [.one a, .data] => some (.lookup a n)
  | .cse _ p s, [.one c, .data, .data] => some (.cse c p s)
  | .subst _ vs _, [.one c, .data, .many xs] => some (.subst c vs xs)
  | .deriv _ vs, [.one c, .data] => some (.deriv c vs)
  | .slice _, [.many cs] => some (.slice cs)
  | _, _ => none

/-- the value of one constructor argument -/
def c04ArgVal (e : Expr) (vals : List (String × C04Val × Bool)) : C04Arg → Option C04Val
  | .rebuilt f => (c04Assoc f vals).map (·.1)
  | .copied f => match e.c04Field f with
    | some .data => some .data        -- only non-expression fields are passed through as they are
    | some v => some v
    | none => none

/-- the object a rebuild constructs -/
def c04Rebuild (e : Expr) (vals : List (String × C04Val × Bool)) : C04Ctor → Option Expr
  | .sameClass args _ =>
    match c04OptSeq (args.map (c04ArgVal e vals)) with
    | some vs => e.c04Construct vs
    | none => none
  | .pyList => match c04Assoc "" vals with
    | some (.many cs, _) => some (.list cs)
    | _ => none
  | .pyTuple => match c04Assoc "" vals with
    | some (.many cs, _) => some (.tuple cs)
    | _ => none
  | .container => none

/-- One `IdentityMapper` handler call as the table describes it; result and "is a new object".
`none`: the table row cannot be read against the node (no claim). -/
def c04IdentStepB (body : Except DepErr C04Body)
    (rec : Expr → Expr × Bool) (e : Expr) : Option (Except DepErr (Expr × Bool)) :=
  match body with
  | .error err => some (.error err)
  | .ok .same => some (.ok (e, false))
  | .ok (.rebuild recs sameTest checked zeroCollapse ctor) =>
    match c04MapRecs rec e recs with
    | none => none
    | some vals =>
      let collapse := zeroCollapse && (match vals with
        | [(_, .one c', _)] => c'.isZero
        | _ => false)
      if collapse then some (.ok (zero, true))
      else
        -- the "same object" test looks only at the fields it names
        let changed := vals.any (fun v => checked.contains v.1 && v.2.2)
        if sameTest && !changed then some (.ok (e, false))
        else match c04Rebuild e vals ctor with
          | some r => some (.ok (r, true))
          | none => none
  | .ok _ => none

def c04IdentStep (classes : List C04NodeClass) (tbl : List C04Handler)
    (rec : Expr → Expr × Bool) (e : Expr) : Option (Except DepErr (Expr × Bool)) :=
  c04IdentStepB (c04Resolve classes tbl e) rec e

end PV
