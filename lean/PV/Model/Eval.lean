import PV.Model.PyNum
import PV.Model.PyEq
/-
  C02.  `den`   : the compositional denotation of an expression (the "standard meaning"):
                  each node applies the Python operator it denotes to the values of its children,
                  left to right, errors propagating in evaluation order.
        `evalG` : the evaluator *as coded*: `EvaluationMapper` with the CSE result cache of
                  `CSECachingMapperMixin` threaded as state, and (flag `cached`) the memo table of
                  `CachedMapper.__call__` consulted at every node.  State survives exceptions,
                  as it does on a Python mapper instance.
-/
namespace PV

abbrev Env := List (String × Value)

def Env.get (env : Env) (x : String) : Option Value :=
  match env with
  | [] => none
  | (n, v) :: rest => if n = x then some v else Env.get rest x

def Const.den : Const → R
  | .int n => pure (.int n)
  | .bool b => pure (.bool b)
  | .flt .. => pure .inexact
  | .str _ => throw .foreign
  | .none => throw .foreign

def NaryOp.apply : NaryOp → Value → Value → R
  | .sum => Value.add
  | .prod => Value.mul
  | .bor => Value.bor
  | .bxor => Value.bxor
  | .band => Value.band
  | _ => fun _ _ => throw .noClaim     -- lor/land/min/max are not folds of a binary operator

def BinOp.apply : BinOp → Value → Value → R
  | .quot => Value.div
  | .floordiv => Value.floordiv
  | .rem => Value.mod
  | .pow => Value.pow
  | .lshift => Value.lshift
  | .rshift => Value.rshift

mutual
def den (env : Env) : Expr → R
  | .const c => c.den
  | .var x => match env.get x with
    | some v => pure v
    | none => throw (.unknownVar x)
  | .nary .sum cs => denFold env .sum (.int 0) cs
  | .nary .prod cs => denFold env .prod (.int 1) cs
  | .nary .bor cs => denReduce env .bor cs
  | .nary .bxor cs => denReduce env .bxor cs
  | .nary .band cs => denReduce env .band cs
  | .nary .lor cs => denAny env cs
  | .nary .land cs => denAll env cs
  | .nary .min cs => denMinMax env true none cs
  | .nary .max cs => denMinMax env false none cs
  | .bin o a b => do
      let x ← den env a
      let y ← den env b
      o.apply x y
  | .un .bnot a => do (← den env a).invert
  | .un .lnot a => do
      let t ← (← den env a).truthy
      pure (.bool (!t))
  | .cmp o a b => do
      let x ← den env a
      let y ← den env b
      Value.cmp o x y
  | .ite c t e => do
      let cv ← den env c
      if ← cv.truthy then den env t else den env e
  | .call f as => do
      let fv ← den env f
      let avs ← denList env as
      fv.call avs [] []
  | .callKw f as ns vs => do
      let avs ← denList env as
      let kvs ← denList env vs
      let fv ← den env f
      fv.call avs ns kvs
  | .subscript a i => do
      let av ← den env a
      let iv ← den env i
      av.index iv
  | .lookup a n => do (← den env a).getattr n
  | .cse c _ _ => den env c
  | .subst .. => throw .unsupportedExpr
  | .deriv .. => throw .unsupportedExpr
  | .slice _ => throw .unsupportedExpr
  | .nan => pure .inexact
  | .wildcard => throw .notImplemented
  | .dotWild _ => throw .notImplemented
  | .starWild _ => throw .notImplemented
  | .funcSym => throw .notImplemented
  | .tuple cs => do pure (.tuple (← denList env cs))
  | .list cs => do pure (.list (← denList env cs))
/-- `sum(gen)` / `product(gen)`: fold from the start value, operands computed lazily. -/
def denFold (env : Env) (o : NaryOp) (acc : Value) : List Expr → R
  | [] => pure acc
  | c :: cs => do
      let v ← den env c
      let acc' ← o.apply acc v
      denFold env o acc' cs
/-- `reduce(op, gen)` without a start value. -/
def denReduce (env : Env) (o : NaryOp) : List Expr → R
  | [] => throw .typeError
  | c :: cs => do
      let v ← den env c
      denFold env o v cs
def denAny (env : Env) : List Expr → R
  | [] => pure (.bool false)
  | c :: cs => do
      let v ← den env c
      if ← v.truthy then pure (.bool true) else denAny env cs
def denAll (env : Env) : List Expr → R
  | [] => pure (.bool true)
  | c :: cs => do
      let v ← den env c
      if ← v.truthy then denAll env cs else pure (.bool false)
/-- `min(gen)` / `max(gen)`: the running optimum is compared as each operand is produced. -/
def denMinMax (env : Env) (isMin : Bool) (cur : Option Value) : List Expr → R
  | [] => match cur with
    | some m => pure m
    | none => throw .valueError
  | c :: cs => do
      let v ← den env c
      match cur with
      | none => denMinMax env isMin (some v) cs
      | some m =>
        let better ← Value.better isMin v m
        denMinMax env isMin (some (if better then v else m)) cs
def denList (env : Env) : List Expr → Except Err (List Value)
  | [] => pure []
  | c :: cs => do
      let v ← den env c
      let vs ← denList env cs
      pure (v :: vs)
end

/-! ### The evaluator as coded, with its two caches -/

structure EvState where
  /-- `_cse_cache_dict`: keyed by `(expr,)`, compared with Python `==` -/
  cse : List (Expr × Value) := []
  /-- `CachedMapper._cache`: keyed by `(type(expr), expr, (), {})` -/
  memo : List (Expr × Value) := []
  deriving Inhabited

def findBy (eq : Expr → Expr → Bool) (k : Expr) : List (Expr × Value) → Option Value
  | [] => none
  | (k', v) :: rest => if eq k' k then some v else findBy eq k rest

/-- Computations that thread the evaluator state and keep it on errors. -/
abbrev EvM (α : Type) := EvState → Except Err α × EvState

@[inline] def EvM.pure {α} (a : α) : EvM α := fun s => (.ok a, s)
@[inline] def EvM.throw {α} (e : Err) : EvM α := fun s => (.error e, s)
@[inline] def EvM.bind {α β} (x : EvM α) (f : α → EvM β) : EvM β := fun s =>
  match x s with
  | (.ok a, s') => f a s'
  | (.error e, s') => (.error e, s')
@[inline] def EvM.lift {α} (x : Except Err α) : EvM α := fun s => (x, s)

instance : Monad EvM where
  pure := EvM.pure
  bind := EvM.bind

/-- dispatch (`__call__` / `rec`) around a handler invocation `k`: the memo table is consulted
first when `cached`, and the result stored afterwards (not on exceptions). -/
def withMemo (cached : Bool) (e : Expr) (k : EvM Value) : EvM Value := fun s =>
  if cached then
    if e.hasList then (.error .typeError, s)       -- hashing the cache key raises
    else match findBy Expr.keyEq e s.memo with
    | some v => (.ok v, s)
    | none =>
      match k s with
      | (.ok v, s') => (.ok v, { s' with memo := (e, v) :: s'.memo })
      | (.error err, s') => (.error err, s')
  else k s

mutual
/-- the `map_*` handlers -/
def evalNode (cached : Bool) (env : Env) : Expr → EvM Value
  | .const c => EvM.lift c.den
  | .var x => match env.get x with
    | some v => EvM.pure v
    | none => EvM.throw (.unknownVar x)
  | .nary .sum cs => evalFold cached env .sum (.int 0) cs
  | .nary .prod cs => evalFold cached env .prod (.int 1) cs
  | .nary .bor cs => evalReduce cached env .bor cs
  | .nary .bxor cs => evalReduce cached env .bxor cs
  | .nary .band cs => evalReduce cached env .band cs
  | .nary .lor cs => evalAny cached env cs
  | .nary .land cs => evalAll cached env cs
  | .nary .min cs => evalMinMax cached env true none cs
  | .nary .max cs => evalMinMax cached env false none cs
  | .bin o a b => do
      let x ← withMemo cached a (evalNode cached env a)
      let y ← withMemo cached b (evalNode cached env b)
      EvM.lift (o.apply x y)
  | .un .bnot a => do
      let x ← withMemo cached a (evalNode cached env a)
      EvM.lift x.invert
  | .un .lnot a => do
      let x ← withMemo cached a (evalNode cached env a)
      let t ← EvM.lift x.truthy
      EvM.pure (.bool (!t))
  | .cmp o a b => do
      let x ← withMemo cached a (evalNode cached env a)
      let y ← withMemo cached b (evalNode cached env b)
      EvM.lift (Value.cmp o x y)
  | .ite c t e => do
      let cv ← withMemo cached c (evalNode cached env c)
      let tv ← EvM.lift cv.truthy
      if tv then withMemo cached t (evalNode cached env t) else withMemo cached e (evalNode cached env e)
  | .call f as => do
      let fv ← withMemo cached f (evalNode cached env f)
      let avs ← evalList cached env as
      EvM.lift (fv.call avs [] [])
  | .callKw f as ns vs => do
      let avs ← evalList cached env as
      let kvs ← evalList cached env vs
      let fv ← withMemo cached f (evalNode cached env f)
      EvM.lift (fv.call avs ns kvs)
  | .subscript a i => do
      let av ← withMemo cached a (evalNode cached env a)
      let iv ← withMemo cached i (evalNode cached env i)
      EvM.lift (av.index iv)
  | .lookup a n => do
      let av ← withMemo cached a (evalNode cached env a)
      EvM.lift (av.getattr n)
  | .cse c p sc => fun s =>
      -- CSECachingMapperMixin.map_common_subexpression
      if c.hasList then (.error .typeError, s) else
      match findBy Expr.pyEq (.cse c p sc) s.cse with
      | some v => (.ok v, s)
      | none =>
        match withMemo cached c (evalNode cached env c) s with
        | (.ok v, s') => (.ok v, { s' with cse := (.cse c p sc, v) :: s'.cse })
        | (.error err, s') => (.error err, s')
  | .subst .. => EvM.throw .unsupportedExpr
  | .deriv .. => EvM.throw .unsupportedExpr
  | .slice _ => EvM.throw .unsupportedExpr
  | .nan => EvM.pure .inexact
  | .wildcard => EvM.throw .notImplemented
  | .dotWild _ => EvM.throw .notImplemented
  | .starWild _ => EvM.throw .notImplemented
  | .funcSym => EvM.throw .notImplemented
  | .tuple cs => do
      let vs ← evalList cached env cs
      EvM.pure (.tuple vs)
  | .list cs => do
      let vs ← evalList cached env cs
      EvM.pure (.list vs)
def evalFold (cached : Bool) (env : Env) (o : NaryOp) (acc : Value) : List Expr → EvM Value
  | [] => EvM.pure acc
  | c :: cs => do
      let v ← withMemo cached c (evalNode cached env c)
      let acc' ← EvM.lift (o.apply acc v)
      evalFold cached env o acc' cs
def evalReduce (cached : Bool) (env : Env) (o : NaryOp) : List Expr → EvM Value
  | [] => EvM.throw .typeError
  | c :: cs => do
      let v ← withMemo cached c (evalNode cached env c)
      evalFold cached env o v cs
def evalAny (cached : Bool) (env : Env) : List Expr → EvM Value
  | [] => EvM.pure (.bool false)
  | c :: cs => do
      let v ← withMemo cached c (evalNode cached env c)
      let t ← EvM.lift v.truthy
      if t then EvM.pure (.bool true) else evalAny cached env cs
def evalAll (cached : Bool) (env : Env) : List Expr → EvM Value
  | [] => EvM.pure (.bool true)
  | c :: cs => do
      let v ← withMemo cached c (evalNode cached env c)
      let t ← EvM.lift v.truthy
      if t then evalAll cached env cs else EvM.pure (.bool false)
def evalMinMax (cached : Bool) (env : Env) (isMin : Bool) (cur : Option Value) :
    List Expr → EvM Value
  | [] => match cur with
    | some m => EvM.pure m
    | none => EvM.throw .valueError
  | c :: cs => do
      let v ← withMemo cached c (evalNode cached env c)
      match cur with
      | none => evalMinMax cached env isMin (some v) cs
      | some m =>
        let better ← EvM.lift (Value.better isMin v m)
        evalMinMax cached env isMin (some (if better then v else m)) cs
def evalList (cached : Bool) (env : Env) : List Expr → EvM (List Value)
  | [] => EvM.pure []
  | c :: cs => do
      let v ← withMemo cached c (evalNode cached env c)
      let vs ← evalList cached env cs
      EvM.pure (v :: vs)
end

def evalG (cached : Bool) (env : Env) (e : Expr) : EvM Value :=
  withMemo cached e (evalNode cached env e)

/-- A history of calls on one evaluator instance, starting from state `s`. -/
def runHist (cached : Bool) (env : Env) : List Expr → EvState → List R
  | [], _ => []
  | e :: es, s =>
    let (r, s') := evalG cached env e s
    r :: runHist cached env es s'

end PV
