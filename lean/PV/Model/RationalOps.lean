import PV.Model.AlgoTable
/-
  C19 — `pymbolic.rational.Rational` arithmetic and `pymbolic.primitives.quotient` on Python ints.

  What the source computes depends on what `/` means on two ints.  The file was written for
  Python 2, where `int / int` is FLOOR division; every `/` in `rational.py` and in
  `traits.EuclideanRingTraits.lcm` divides exactly there (proved: PV/Properties/C19Rational.lean).
  Under Python 3 `/` is TRUE division: `Rational.__init__` stores two FLOATS, `traits(float)` is
  `FieldTraits()`, which has neither `gcd` nor `lcm` nor `get_unit`, and every arithmetic method of
  a `Rational` built by the constructor raises `AttributeError`.

  Both readings are modelled and tied to the table regenerated from the source:

    * `C19Table.py2`        the SAME table with every `/` read as `//` (the Python-2 reading: a
                            purely syntactic map over the statement language)
    * `ratInit … ratPow`    the methods under the Python-2 reading, on integer fields
                            (`gcd` is the model of `extended_euclidean(q, r)[0]`, PV/Model/Algo.lean)
    * `ratPy3`              what the methods do under Python 3 on objects built by the constructor

  Core Lean only: no imports outside PV.
-/
namespace PV.Algo

/-! ## the Python-2 reading of a table: `/` is `//` -/

def C19Bin.py2 : C19Bin → C19Bin
  | .truediv => .floordiv
  | o => o

mutual
def C19E.py2 : C19E → C19E
  | .var x => .var x
  | .int i => .int i
  | .none => .none
  | .bool b => .bool b
  | .bin op a b => .bin op.py2 a.py2 b.py2
  | .neg a => .neg a.py2
  | .not a => .not a.py2
  | .cmp op a b => .cmp op a.py2 b.py2
  | .and a b => .and a.py2 b.py2
  | .or a b => .or a.py2 b.py2
  | .tuple es => .tuple (C19E.py2L es)
  | .index a i => .index a.py2 i.py2
  | .slice a lo st => .slice a.py2 lo.py2 st.py2
  | .attr a n => .attr a.py2 n
  | .isinst a cs => .isinst a.py2 cs
  | .isinstOf a b => .isinstOf a.py2 b.py2
  | .call fn args => .call fn (C19E.py2L args)
  | .method r n args => .method r.py2 n (C19E.py2L args)
  | .new c args => .new c (C19E.py2L args)
  | .comp elt tgt it => .comp elt.py2 tgt it.py2
  | .twiddle s num den => .twiddle s.py2 (C19E.py2L num) den.py2
  | .commonTraits args => .commonTraits (C19E.py2L args)
def C19E.py2L : List C19E → List C19E
  | [] => []
  | e :: es => e.py2 :: C19E.py2L es
end

def C19T.py2 : C19T → C19T
  | .pat p => .pat p
  | .index x i => .index x i.py2
  | .attr x a => .attr x a

mutual
def C19S.py2 : C19S → C19S
  | .assign t e => .assign t.py2 e.py2
  | .aug x op e => .aug x op.py2 e.py2
  | .append x e => .append x e.py2
  | .pop x => .pop x
  | .sortByFirst x => .sortByFirst x
  | .ite c a b => .ite c.py2 (C19S.py2L a) (C19S.py2L b)
  | .while c b => .while c.py2 (C19S.py2L b)
  | .for p it b => .for p it.py2 (C19S.py2L b)
  | .ret e => .ret e.py2
  | .raise k => .raise k
  | .tryExcept b k h => .tryExcept (C19S.py2L b) k (C19S.py2L h)
  | .assert c => .assert c.py2
  | .pass => .pass
def C19S.py2L : List C19S → List C19S
  | [] => []
  | s :: ss => s.py2 :: C19S.py2L ss
end

def C19Fn.py2 (f : C19Fn) : C19Fn := { f with body := C19S.py2L f.body }

/-- the table under the Python-2 reading of `/` -/
def C19Table.py2 (t : C19Table) : C19Table := { t with fns := t.fns.map C19Fn.py2 }

/-! ## which functions the reading touches -/

mutual
def C19E.usesTruediv : C19E → Bool
  | .bin op a b => op == .truediv || a.usesTruediv || b.usesTruediv
  | .neg a => a.usesTruediv
  | .not a => a.usesTruediv
  | .cmp _ a b => a.usesTruediv || b.usesTruediv
  | .and a b => a.usesTruediv || b.usesTruediv
  | .or a b => a.usesTruediv || b.usesTruediv
  | .tuple es => C19E.usesTruedivL es
  | .index a i => a.usesTruediv || i.usesTruediv
  | .slice a lo st => a.usesTruediv || lo.usesTruediv || st.usesTruediv
  | .attr a _ => a.usesTruediv
  | .isinst a _ => a.usesTruediv
  | .isinstOf a b => a.usesTruediv || b.usesTruediv
  | .call _ args => C19E.usesTruedivL args
  | .method r _ args => r.usesTruediv || C19E.usesTruedivL args
  | .new _ args => C19E.usesTruedivL args
  | .comp elt _ it => elt.usesTruediv || it.usesTruediv
  | .twiddle s num den => s.usesTruediv || C19E.usesTruedivL num || den.usesTruediv
  | .commonTraits args => C19E.usesTruedivL args
  | _ => false
def C19E.usesTruedivL : List C19E → Bool
  | [] => false
  | e :: es => e.usesTruediv || C19E.usesTruedivL es
end

mutual
def C19S.usesTruediv : C19S → Bool
  | .assign (.index _ i) e => i.usesTruediv || e.usesTruediv
  | .assign _ e => e.usesTruediv
  | .aug _ op e => op == .truediv || e.usesTruediv
  | .append _ e => e.usesTruediv
  | .ite c a b => c.usesTruediv || C19S.usesTruedivL a || C19S.usesTruedivL b
  | .while c b => c.usesTruediv || C19S.usesTruedivL b
  | .for _ it b => it.usesTruediv || C19S.usesTruedivL b
  | .ret e => e.usesTruediv
  | .tryExcept b _ h => C19S.usesTruedivL b || C19S.usesTruedivL h
  | .assert c => c.usesTruediv
  | _ => false
def C19S.usesTruedivL : List C19S → Bool
  | [] => false
  | s :: ss => s.usesTruediv || C19S.usesTruedivL ss
end

/-- the names of the functions of a table in which a `/` occurs (the ones `py2` changes) -/
def C19Table.truedivSites (t : C19Table) : List String :=
  (t.fns.filter fun f => C19S.usesTruedivL f.body).map (·.name)

/-! ## results and operands -/

/-- what a `Rational` method returns on integer data: a plain int, a `Rational` with these two
fields, or an exception -/
inductive RatRes where
  | int (i : Int)
  | rat (n d : Int)
  | raise (kind : String)
  deriving Repr, DecidableEq, Inhabited

/-- the other operand: a plain int or a `Rational` object (its two fields) -/
inductive RatArg where
  | int (i : Int)
  | rat (n d : Int)
  deriving Repr, DecidableEq, Inhabited

def RatRes.bind : RatRes → (Int → Int → RatRes) → RatRes
  | .rat n d, f => f n d
  | .int i, _ => .int i
  | .raise k, _ => .raise k

/-! ## the Python-2 reading on integer fields -/

/-- `Rational(numerator, denominator)`: both divided by the unit (sign) of the denominator;
`IntegerTraits.get_unit(0)` raises `RuntimeError`.  No reduction to lowest terms. -/
def ratInit (n d : Int) : RatRes :=
  if d < 0 then .rat (-n) (-d)
  else if d > 0 then .rat n d
  else .raise "RuntimeError"

/-- `Rational(other)` for an operand that is not a `Rational` (`denominator=1`) -/
def RatArg.fields : RatArg → Int × Int
  | .int i => (i, 1)
  | .rat n d => (n, d)

/-- `primitives.quotient(n, d)` on two ints:
```
    if not (denominator-1): return numerator
    …  c_traits = traits.common_traits(numerator, denominator)      # IntegerTraits
       if isinstance(c_traits, traits.EuclideanRingTraits): return rat.Rational(numerator, denominator)
``` -/
def ratQuotient (n d : Int) : RatRes :=
  if d - 1 = 0 then .int n else ratInit n d

/-- `Rational.__add__` / `__radd__` on the fields `(n1, d1)`, `(n2, d2)`:
```
    t = traits.common_traits(self.Denominator, newother.Denominator)
    newden = t.lcm(self.Denominator, newother.Denominator)          # a * b / cls.gcd(a, b)
    newnum = self.Numerator * newden/self.Denominator + \
             newother.Numerator * newden/newother.Denominator
    gcd = t.gcd(newden, newnum)
    return primitives.quotient(newnum/gcd, newden/gcd)
``` -/
def ratAdd (n1 d1 n2 d2 : Int) : RatRes :=
  let g0 := gcd d1 d2
  if g0 = 0 then .raise "ZeroDivisionError" else
  let newden := Int.fdiv (d1 * d2) g0
  if d1 = 0 then .raise "ZeroDivisionError" else
  if d2 = 0 then .raise "ZeroDivisionError" else
  let newnum := Int.fdiv (n1 * newden) d1 + Int.fdiv (n2 * newden) d2
  let g := gcd newden newnum
  if g = 0 then .raise "ZeroDivisionError" else
  ratQuotient (Int.fdiv newnum g) (Int.fdiv newden g)

/-- `Rational.__mul__` / `__rmul__`:
```
    gcd_1 = t.gcd(self.Numerator, newother.Denominator)
    gcd_2 = t.gcd(newother.Numerator, self.Denominator)
    new_num = self.Numerator/gcd_1 * newother.Numerator/gcd_2
    new_denom = self.Denominator/gcd_2 * newother.Denominator/gcd_1
    if not (new_denom-1): return new_num
    return Rational(new_num, new_denom)
``` -/
def ratMul (n1 d1 n2 d2 : Int) : RatRes :=
  let g1 := gcd n1 d2
  let g2 := gcd n2 d1
  if g1 = 0 then .raise "ZeroDivisionError" else
  if g2 = 0 then .raise "ZeroDivisionError" else
  let nn := Int.fdiv (Int.fdiv n1 g1 * n2) g2
  let nd := Int.fdiv (Int.fdiv d1 g2 * d2) g1
  if nd - 1 = 0 then .int nn else ratInit nn nd

/-- `Rational.__neg__`: `Rational(-self.Numerator, self.Denominator)` -/
def ratNeg (n d : Int) : RatRes := ratInit (-n) d

/-- `-other` for the operand of `__sub__` -/
def ratNegArg : RatArg → RatRes
  | .int i => .int (-i)
  | .rat n d => ratNeg n d

/-- `Rational.__sub__`: `self.__add__(-other)` -/
def ratSub (n1 d1 : Int) (other : RatArg) : RatRes :=
  match ratNegArg other with
  | .int i => ratAdd n1 d1 i 1
  | .rat n d => ratAdd n1 d1 n d
  | .raise k => .raise k

/-- `Rational.__rsub__`: `(-self).__radd__(other)` -/
def ratRsub (n1 d1 : Int) (other : RatArg) : RatRes :=
  (ratNeg n1 d1).bind fun n d => ratAdd n d other.fields.1 other.fields.2

/-- `Rational.__div__` (the `/` of Python 2):
`self.__mul__(Rational(other.Denominator, other.Numerator))` -/
def ratDiv (n1 d1 : Int) (other : RatArg) : RatRes :=
  (ratInit other.fields.2 other.fields.1).bind fun n d => ratMul n1 d1 n d

/-- `Rational.__rdiv__`: `Rational(self.Denominator, self.Numerator).__rmul__(other)` -/
def ratRdiv (n1 d1 : Int) (other : RatArg) : RatRes :=
  (ratInit d1 n1).bind fun n d => ratMul n d other.fields.1 other.fields.2

/-- `Rational.__pow__` as coded: `Rational(self.Denominator**other, self.Numerator**other)` —
numerator and denominator are EXCHANGED (`ratPow_inverted`) -/
def ratPow (n d : Int) (k : Nat) : RatRes := ratInit (d ^ k) (n ^ k)

/-- `Rational.reciprocal`: `Rational(self.Denominator, self.Numerator)` -/
def ratReciprocal (n d : Int) : RatRes := ratInit d n

/-! ## Python 3 on objects built by the constructor -/

inductive RatOp where
  | add | radd | sub | rsub | mul | rmul | div | rdiv | neg | reciprocal
  deriving Repr, DecidableEq, Inhabited

def RatOp.method : RatOp → String
  | .add => "Rational.__add__" | .radd => "Rational.__radd__" | .sub => "Rational.__sub__"
  | .rsub => "Rational.__rsub__" | .mul => "Rational.__mul__" | .rmul => "Rational.__rmul__"
  | .div => "Rational.__div__" | .rdiv => "Rational.__rdiv__" | .neg => "Rational.__neg__"
  | .reciprocal => "Rational.reciprocal"

/-- Python 3, `self = Rational(n, d)` with `d ≠ 0` (two floats): every one of these methods ends
in an attribute look-up on `FieldTraits()` — `lcm` (`__add__`), `gcd` (`__mul__`), `get_unit`
(every `Rational(float, float)`) — and raises `AttributeError` -/
def ratPy3 (_ : RatOp) : RatRes := .raise "AttributeError"

/-- Python 3, `Rational(n, d) ** k`: `float ** int` is computed first (`0.0 ** negative` raises
`ZeroDivisionError`), then `Rational(float, float)` raises `AttributeError` -/
def ratPowPy3 (n : Int) (k : Int) : RatRes :=
  if k < 0 ∧ n = 0 then .raise "ZeroDivisionError" else .raise "AttributeError"

end PV.Algo
