import PV.Model.Cse
/-
  C12.  The histogram based tagger of pymbolic/mapper/cse_tagger.py.

    `c12HistWalk` : CSEWalkMapper — a WalkMapper whose `visit` counts every visited node in
                    `subexpr_histogram` (a dict keyed by the expression, Python `==`) and always
                    descends; nothing else is overridden, so wrappers are walked like any node.
    `c12HistTag`  : CSETagMapper — an IdentityMapper whose `map_call` (bound to the handlers of 20
                    node classes) returns `CommonSubexpression(expr)` when the histogram holds a
                    count > 1 for the node and otherwise rebuilds the node as IdentityMapper does.
                    It inherits `IdentityMapper.map_common_subexpression`, which replaces a
                    wrapper whose mapped child `is_zero` by the constant 0.
-/
namespace PV

/-- `self.subexpr_histogram[expr] = self.subexpr_histogram.get(expr, 0) + 1; return True` -/
def c12HistVisit (e : Expr) (h : Counts) : Except CseErr Counts :=
  if e.hasList then throw .unhashable
  else pure (h.set (.plain e) ((h.find (.plain e)).getD 0 + 1))

mutual
def c12HistWalk : Expr → Counts → Except CseErr Counts
  | .const (.str _), _ => throw .foreign
  | .const .none, _ => throw .foreign
  | .const c, h => c12HistVisit (.const c) h
  | .var x, h => c12HistVisit (.var x) h
  | .nan, h => c12HistVisit .nan h
  | .wildcard, h => c12HistVisit .wildcard h
  | .dotWild n, h => c12HistVisit (.dotWild n) h
  | .starWild n, h => c12HistVisit (.starWild n) h
  | .funcSym, h => c12HistVisit .funcSym h
  | .nary o cs, h => do
      let h1 ← c12HistVisit (.nary o cs) h
      c12HistWalkL cs h1
  | .bin .lshift a b, h => do               -- shift first, as coded
      let h1 ← c12HistVisit (.bin .lshift a b) h
      let h2 ← c12HistWalk b h1
      c12HistWalk a h2
  | .bin .rshift a b, h => do
      let h1 ← c12HistVisit (.bin .rshift a b) h
      let h2 ← c12HistWalk b h1
      c12HistWalk a h2
  | .bin o a b, h => do
      let h1 ← c12HistVisit (.bin o a b) h
      let h2 ← c12HistWalk a h1
      c12HistWalk b h2
  | .un o a, h => do
      let h1 ← c12HistVisit (.un o a) h
      c12HistWalk a h1
  | .cmp o a b, h => do
      let h1 ← c12HistVisit (.cmp o a b) h
      let h2 ← c12HistWalk a h1
      c12HistWalk b h2
  | .ite c t e, h => do
      let h1 ← c12HistVisit (.ite c t e) h
      let h2 ← c12HistWalk c h1
      let h3 ← c12HistWalk t h2
      c12HistWalk e h3
  | .call f as, h => do
      let h1 ← c12HistVisit (.call f as) h
      let h2 ← c12HistWalk f h1
      c12HistWalkL as h2
  | .callKw f as ns vs, h => do
      let h1 ← c12HistVisit (.callKw f as ns vs) h
      let h2 ← c12HistWalk f h1
      let h3 ← c12HistWalkL as h2
      c12HistWalkL vs h3
  | .subscript a i, h => do
      let h1 ← c12HistVisit (.subscript a i) h
      let h2 ← c12HistWalk a h1
      c12HistWalk i h2
  | .lookup a n, h => do
      let h1 ← c12HistVisit (.lookup a n) h
      c12HistWalk a h1
  | .cse c p s, h => do
      let h1 ← c12HistVisit (.cse c p s) h
      c12HistWalk c h1
  | .subst c vs xs, h => do
      let h1 ← c12HistVisit (.subst c vs xs) h
      let h2 ← c12HistWalk c h1
      c12HistWalkL xs h2
  | .deriv c vs, h => do
      let h1 ← c12HistVisit (.deriv c vs) h
      c12HistWalk c h1
  | .slice cs, h => do
      let h1 ← c12HistVisit (.slice cs) h
      c12HistWalkSlice cs h1
  | .tuple cs, h => do
      let h1 ← c12HistVisit (.tuple cs) h
      c12HistWalkL cs h1
  | .list cs, h => do
      let h1 ← c12HistVisit (.list cs) h
      c12HistWalkL cs h1
def c12HistWalkL : List Expr → Counts → Except CseErr Counts
  | [], h => pure h
  | c :: cs, h => do
      let h1 ← c12HistWalk c h
      c12HistWalkL cs h1
/-- `map_slice`: `None` parts are skipped -/
def c12HistWalkSlice : List Expr → Counts → Except CseErr Counts
  | [], h => pure h
  | .const .none :: cs, h => c12HistWalkSlice cs h
  | c :: cs, h => do
      let h1 ← c12HistWalk c h
      c12HistWalkSlice cs h1
end

/-- the node classes whose handler is `CSETagMapper.map_call` -/
def Expr.isTagOp : Expr → Bool
  | .nary .min _ | .nary .max _ => false
  | .nary _ _ => true
  | .bin _ _ _ => true
  | .un _ _ => true
  | .cmp _ _ _ => true
  | .ite _ _ _ => true
  | .call _ _ => true
  | _ => false

/-- what `CSETagMapper.map_call` decides before it descends: `none` = rebuild as IdentityMapper
does, `some w` = return the fresh wrapper `w` -/
def c12TagMode (hist : Counts) (e : Expr) : Except CseErr (Option Expr) :=
  if e.isTagOp then
    if e.hasList then throw .unhashable              -- `.get(expr, 0)` hashes the node
    else if decide ((hist.find (.plain e)).getD 0 > 1) then pure (some (.cse e none evalScope))
    else pure none
  else pure none

mutual
def c12HistTag (hist : Counts) : Expr → Except CseErr Expr
  | .const (.str _) => throw .foreign
  | .const .none => throw .foreign
  | .const c => pure (.const c)
  | .var x => pure (.var x)
  | .nan => pure .nan
  | .wildcard => pure .wildcard
  | .dotWild n => pure (.dotWild n)
  | .starWild n => pure (.starWild n)
  | .funcSym => pure .funcSym
  | .nary o cs => do
      match ← c12TagMode hist (.nary o cs) with
      | some w => pure w
      | none => do
        let cs' ← c12HistTagL hist cs
        pure (.nary o cs')
  | .bin o a b => do
      match ← c12TagMode hist (.bin o a b) with
      | some w => pure w
      | none => do
        let a' ← c12HistTag hist a
        let b' ← c12HistTag hist b
        pure (.bin o a' b')
  | .un o a => do
      match ← c12TagMode hist (.un o a) with
      | some w => pure w
      | none => do
        let a' ← c12HistTag hist a
        pure (.un o a')
  | .cmp o a b => do
      match ← c12TagMode hist (.cmp o a b) with
      | some w => pure w
      | none => do
        let a' ← c12HistTag hist a
        let b' ← c12HistTag hist b
        pure (.cmp o a' b')
  | .ite c t e => do
      match ← c12TagMode hist (.ite c t e) with
      | some w => pure w
      | none => do
        let c' ← c12HistTag hist c
        let t' ← c12HistTag hist t
        let e' ← c12HistTag hist e
        pure (.ite c' t' e')
  | .call f as => do
      match ← c12TagMode hist (.call f as) with
      | some w => pure w
      | none => do
        let f' ← c12HistTag hist f
        let as' ← c12HistTagL hist as
        pure (.call f' as')
  | .callKw f as ns vs => do
      let f' ← c12HistTag hist f
      let as' ← c12HistTagL hist as
      let vs' ← c12HistTagL hist vs
      pure (.callKw f' as' ns vs')
  | .subscript a i => do
      let a' ← c12HistTag hist a
      let i' ← c12HistTag hist i
      pure (.subscript a' i')
  | .lookup a n => do
      let a' ← c12HistTag hist a
      pure (.lookup a' n)
  | .cse c p s => do
      -- IdentityMapper.map_common_subexpression: `if is_zero(result): return 0`
      let c' ← c12HistTag hist c
      if c'.isZero then pure zero else pure (.cse c' p s)
  | .subst c vs xs => do
      let c' ← c12HistTag hist c
      let xs' ← c12HistTagL hist xs
      pure (.subst c' vs xs')
  | .deriv c vs => do
      let c' ← c12HistTag hist c
      pure (.deriv c' vs)
  | .slice cs => do
      let cs' ← c12HistTagSlice hist cs
      pure (.slice cs')
  | .tuple cs => do
      let cs' ← c12HistTagL hist cs
      pure (.tuple cs')
  | .list cs => do
      let cs' ← c12HistTagL hist cs
      pure (.list cs')
def c12HistTagL (hist : Counts) : List Expr → Except CseErr (List Expr)
  | [] => pure []
  | c :: cs => do
      let c' ← c12HistTag hist c
      let cs' ← c12HistTagL hist cs
      pure (c' :: cs')
def c12HistTagSlice (hist : Counts) : List Expr → Except CseErr (List Expr)
  | [] => pure []
  | .const .none :: cs => do
      let cs' ← c12HistTagSlice hist cs
      pure (.const .none :: cs')
  | c :: cs => do
      let c' ← c12HistTag hist c
      let cs' ← c12HistTagSlice hist cs
      pure (c' :: cs')
end

/-- `w = CSEWalkMapper(); w(e); CSETagMapper(w)(e)` -/
def c12HistTagRun (e : Expr) : Except CseErr Expr := do
  let h ← c12HistWalk e []
  c12HistTag h e

end PV
