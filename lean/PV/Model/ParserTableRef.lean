import PV.Model.ParserTable
/-
  C07, T-gen.  The parser table the hand-written model `PV/Model/Parser.lean` is tied to: what
  `extract/parser.py` read from `pymbolic/parser.py` when the model was last adapted to the
  source, one named definition per row (written by tools/mkparsertableref.py).
  `PV/Proofs/ParserTable*.lean` prove, once and for all inputs, that the interpreter of
  `PV/Model/ParserTable.lean` run on THIS table is the hand-written parser;
  `PV.C07.parser_table_current` proves on every run that the table regenerated from the
  current source (`PV.Generated.c07ParserTable`) is this table.
-/
namespace PV

def c07ModelComp : List (C07Tag × String) := [
    (⟨"greater", .sym ">"⟩, ">"),
    (⟨"greaterequal", .sym ">="⟩, ">="),
    (⟨"less", .sym "<"⟩, "<"),
    (⟨"lessequal", .sym "<="⟩, "<="),
    (⟨"equal", .sym "=="⟩, "=="),
    (⟨"notequal", .sym "!="⟩, "!=")]

def c07ModelJoin : C07Tm :=
  (.cond (.isInst "right" [.Slice]) (.mk1 .Slice (.tcons false (.var "left") (.tcons true (.attr (.var "right") "children") .tnil))) (.mk1 .Slice (.tcons false (.var "left") (.tcons false (.var "right") .tnil))))

def c07ModelTerminals : List C07TermRow := [
    ⟨⟨"int", .int⟩, .intOf⟩,
    ⟨⟨"float", .float⟩, .floatOf⟩,
    ⟨⟨"imaginary", .imaginary⟩, .complexOf⟩,
    ⟨⟨"True", .tTrue⟩, .constBool true "True"⟩,
    ⟨⟨"False", .tFalse⟩, .constBool false "False"⟩,
    ⟨⟨"identifier", .identifier⟩, .variable false⟩,
    ⟨⟨"if", .sym "if"⟩, .variable true⟩]

def c07Pre_colon : C07PreRow :=
  { tag := ⟨"colon", .sym ":"⟩, body := [
      .s (.advance),
      .s (.tryParse "next_expr" (.prec .slice) "left_exp" (.mk2 .joinToSlice .none (.var "next_expr")) "left_exp" (.mk1 .Slice (.tcons false .none .tnil)))] }

def c07Pre_times : C07PreRow :=
  { tag := ⟨"times", .sym "*"⟩, body := [
      .s (.advance),
      .s (.assign "left_exp" (.mk0 .Wildcard))] }

def c07Pre_plus : C07PreRow :=
  { tag := ⟨"plus", .sym "+"⟩, body := [
      .s (.advance),
      .s (.parse "left_exp" (.prec .unary))] }

def c07Pre_minus : C07PreRow :=
  { tag := ⟨"minus", .sym "-"⟩, body := [
      .s (.advance),
      .s (.parse "$1" (.prec .unary)),
      .s (.assign "left_exp" (.neg (.var "$1")))] }

def c07Pre_not : C07PreRow :=
  { tag := ⟨"not", .sym "not"⟩, body := [
      .s (.advance),
      .s (.parse "$1" (.prec .unary)),
      .s (.assign "left_exp" (.mk1 .LogicalNot (.var "$1")))] }

def c07Pre_bitwisenot : C07PreRow :=
  { tag := ⟨"bitwisenot", .sym "~"⟩, body := [
      .s (.advance),
      .s (.parse "$1" (.prec .unary)),
      .s (.assign "left_exp" (.mk1 .BitwiseNot (.var "$1")))] }

def c07Pre_openpar : C07PreRow :=
  { tag := ⟨"openpar", .sym "("⟩, body := [
      .s (.advance),
      .ifc (.isNext ⟨"closepar", .sym ")"⟩) [.assign "left_exp" .tnil] [.parse "left_exp" .dflt],
      .s (.expect ⟨"closepar", .sym ")"⟩),
      .s (.advance),
      .s (.assign "left_exp" (.cond (.isInst "left_exp" [.tuple]) (.mk1 .FinalizedTuple (.var "left_exp")) (.var "left_exp")))] }

def c07Pre_openbracket : C07PreRow :=
  { tag := ⟨"openbracket", .sym "["⟩, body := [
      .s (.advance),
      .ifc (.isNext ⟨"closebracket", .sym "]"⟩) [.assign "left_exp" .tnil] [.parse "left_exp" .dflt],
      .s (.expect ⟨"closebracket", .sym "]"⟩),
      .s (.advance),
      .s (.assign "left_exp" (.cond (.isInst "left_exp" [.tuple]) (.mk1 .FinalizedList (.var "left_exp")) (.mk1 .FinalizedList (.lst (.tcons false (.var "left_exp") .tnil)))))] }

def c07Post_openpar : C07PostRow :=
  { test := .is ⟨"openpar", .sym "("⟩, prec := .call, strict := true, body := [
      .s (.advance),
      .s (.arglist "args" "kwargs"),
      .s (.assign "left_exp" (.cond (.truthy "kwargs") (.mk3 .CallWithKwargs (.var "left_exp") (.var "args") (.mk1 .immutabledict (.var "kwargs"))) (.mk2 .Call (.var "left_exp") (.var "args")))),
      .s (.setDid)] }

def c07Post_openbracket : C07PostRow :=
  { test := .is ⟨"openbracket", .sym "["⟩, prec := .call, strict := true, body := [
      .s (.advance),
      .s (.expectNotEnd),
      .s (.parse "$1" .dflt),
      .s (.assign "left_exp" (.mk2 .Subscript (.var "left_exp") (.var "$1"))),
      .s (.expect ⟨"closebracket", .sym "]"⟩),
      .s (.advance),
      .s (.setDid)] }

def c07Post_if : C07PostRow :=
  { test := .is ⟨"if", .sym "if"⟩, prec := .ifp, strict := true, body := [
      .s (.assign "then_expr" (.var "left_exp")),
      .s (.advance),
      .s (.expectNotEnd),
      .s (.parse "condition" (.prec .ifp)),
      .s (.expect ⟨"else", .sym "else"⟩),
      .s (.advance),
      .s (.parse "else_expr" .dflt),
      .s (.assign "left_exp" (.mk3 .If (.var "condition") (.var "then_expr") (.var "else_expr"))),
      .s (.setDid)] }

def c07Post_dot : C07PostRow :=
  { test := .is ⟨"dot", .sym "."⟩, prec := .call, strict := true, body := [
      .s (.advance),
      .s (.expect ⟨"identifier", .identifier⟩),
      .s (.assign "left_exp" (.mk2 .Lookup (.var "left_exp") .nextStr)),
      .s (.advance),
      .s (.setDid)] }

def c07Post_plus : C07PostRow :=
  { test := .is ⟨"plus", .sym "+"⟩, prec := .plus, strict := true, body := [
      .s (.advance),
      .s (.parse "right_exp" (.prec .plus)),
      .s (.assign "left_exp" (.cond (.isInst "left_exp" [.Sum]) (.mk1 .Sum (.tcons true (.attr (.var "left_exp") "children") (.tcons false (.var "right_exp") .tnil))) (.mk1 .Sum (.tcons false (.var "left_exp") (.tcons false (.var "right_exp") .tnil))))),
      .s (.setDid)] }

def c07Post_minus : C07PostRow :=
  { test := .is ⟨"minus", .sym "-"⟩, prec := .plus, strict := true, body := [
      .s (.advance),
      .s (.parse "right_exp" (.prec .plus)),
      .s (.assign "left_exp" (.cond (.isInst "left_exp" [.Sum]) (.mk1 .Sum (.tcat (.attr (.var "left_exp") "children") (.tcons false (.neg (.var "right_exp")) .tnil))) (.mk1 .Sum (.tcons false (.var "left_exp") (.tcons false (.neg (.var "right_exp")) .tnil))))),
      .s (.setDid)] }

def c07Post_times : C07PostRow :=
  { test := .is ⟨"times", .sym "*"⟩, prec := .times, strict := true, body := [
      .s (.advance),
      .s (.parse "right_exp" (.prec .plus)),
      .s (.assign "left_exp" (.cond (.isInst "left_exp" [.Product]) (.mk1 .Product (.tcons true (.attr (.var "left_exp") "children") (.tcons false (.var "right_exp") .tnil))) (.mk1 .Product (.tcons false (.var "left_exp") (.tcons false (.var "right_exp") .tnil))))),
      .s (.setDid)] }

def c07Post_floordiv : C07PostRow :=
  { test := .is ⟨"floordiv", .sym "//"⟩, prec := .times, strict := true, body := [
      .s (.advance),
      .s (.parse "$1" (.prec .times)),
      .s (.assign "left_exp" (.mk2 .FloorDiv (.var "left_exp") (.var "$1"))),
      .s (.setDid)] }

def c07Post_over : C07PostRow :=
  { test := .is ⟨"over", .sym "/"⟩, prec := .times, strict := true, body := [
      .s (.advance),
      .s (.parse "$1" (.prec .times)),
      .s (.assign "left_exp" (.mk2 .Quotient (.var "left_exp") (.var "$1"))),
      .s (.setDid)] }

def c07Post_modulo : C07PostRow :=
  { test := .is ⟨"modulo", .sym "%"⟩, prec := .times, strict := true, body := [
      .s (.advance),
      .s (.parse "$1" (.prec .times)),
      .s (.assign "left_exp" (.mk2 .Remainder (.var "left_exp") (.var "$1"))),
      .s (.setDid)] }

def c07Post_exp : C07PostRow :=
  { test := .is ⟨"exp", .sym "**"⟩, prec := .power, strict := true, body := [
      .s (.advance),
      .s (.parse "$1" (.prec .times)),
      .s (.assign "left_exp" (.mk2 .Power (.var "left_exp") (.var "$1"))),
      .s (.setDid)] }

def c07Post_and : C07PostRow :=
  { test := .is ⟨"and", .sym "and"⟩, prec := .land, strict := true, body := [
      .s (.advance),
      .s (.parse "$1" (.prec .land)),
      .s (.assign "left_exp" (.mk1 .LogicalAnd (.tcons false (.var "left_exp") (.tcons false (.var "$1") .tnil)))),
      .s (.setDid)] }

def c07Post_or : C07PostRow :=
  { test := .is ⟨"or", .sym "or"⟩, prec := .lor, strict := true, body := [
      .s (.advance),
      .s (.parse "$1" (.prec .lor)),
      .s (.assign "left_exp" (.mk1 .LogicalOr (.tcons false (.var "left_exp") (.tcons false (.var "$1") .tnil)))),
      .s (.setDid)] }

def c07Post_bitwiseor : C07PostRow :=
  { test := .is ⟨"bitwiseor", .sym "|"⟩, prec := .bor, strict := true, body := [
      .s (.advance),
      .s (.parse "$1" (.prec .bor)),
      .s (.assign "left_exp" (.mk1 .BitwiseOr (.tcons false (.var "left_exp") (.tcons false (.var "$1") .tnil)))),
      .s (.setDid)] }

def c07Post_bitwisexor : C07PostRow :=
  { test := .is ⟨"bitwisexor", .sym "^"⟩, prec := .bxor, strict := true, body := [
      .s (.advance),
      .s (.parse "$1" (.prec .bxor)),
      .s (.assign "left_exp" (.mk1 .BitwiseXor (.tcons false (.var "left_exp") (.tcons false (.var "$1") .tnil)))),
      .s (.setDid)] }

def c07Post_bitwiseand : C07PostRow :=
  { test := .is ⟨"bitwiseand", .sym "&"⟩, prec := .band, strict := true, body := [
      .s (.advance),
      .s (.parse "$1" (.prec .band)),
      .s (.assign "left_exp" (.mk1 .BitwiseAnd (.tcons false (.var "left_exp") (.tcons false (.var "$1") .tnil)))),
      .s (.setDid)] }

def c07Post_rightshift : C07PostRow :=
  { test := .is ⟨"rightshift", .sym ">>"⟩, prec := .shift, strict := true, body := [
      .s (.advance),
      .s (.parse "$1" (.prec .shift)),
      .s (.assign "left_exp" (.mk2 .RightShift (.var "left_exp") (.var "$1"))),
      .s (.setDid)] }

def c07Post_leftshift : C07PostRow :=
  { test := .is ⟨"leftshift", .sym "<<"⟩, prec := .shift, strict := true, body := [
      .s (.advance),
      .s (.parse "$1" (.prec .shift)),
      .s (.assign "left_exp" (.mk2 .LeftShift (.var "left_exp") (.var "$1"))),
      .s (.setDid)] }

def c07Post_comp : C07PostRow :=
  { test := .inComp, prec := .comparison, strict := true, body := [
      .s (.advance),
      .s (.parse "$1" (.prec .comparison)),
      .s (.assign "left_exp" (.mk3 .Comparison (.var "left_exp") .compOp (.var "$1"))),
      .s (.setDid)] }

def c07Post_colon : C07PostRow :=
  { test := .is ⟨"colon", .sym ":"⟩, prec := .slice, strict := false, body := [
      .s (.advance),
      .s (.assertC (.not (.isInst "left_exp" [.Slice]))),
      .s (.tryParse "next_expr" (.prec .slice) "left_exp" (.mk2 .joinToSlice (.var "left_exp") (.var "next_expr")) "left_exp" (.mk1 .Slice (.tcons false (.var "left_exp") (.tcons false .none .tnil)))),
      .s (.setDid)] }

def c07Post_comma : C07PostRow :=
  { test := .is ⟨"comma", .sym ","⟩, prec := .comma, strict := true, body := [
      .s (.advance),
      .ifc (.or (.atEnd 0) (.nextTagIs 0 ⟨"closepar", .sym ")"⟩)) [.assign "left_exp" (.cond (.and (.isInst "left_exp" [.tuple, .list]) (.not (.isInst "left_exp" [.FinalizedContainer]))) (.var "left_exp") (.tcons false (.var "left_exp") .tnil))] [.parse "new_el" (.prec .comma), .assign "left_exp" (.cond (.and (.isInst "left_exp" [.tuple, .list]) (.not (.isInst "left_exp" [.FinalizedContainer]))) (.tcons true (.var "left_exp") (.tcons false (.var "new_el") .tnil)) (.tcons false (.var "left_exp") (.tcons false (.var "new_el") .tnil)))],
      .s (.setDid)] }

def c07ModelPrefixes : List C07PreRow :=
  [c07Pre_colon, c07Pre_times, c07Pre_plus, c07Pre_minus, c07Pre_not, c07Pre_bitwisenot, c07Pre_openpar, c07Pre_openbracket]

def c07ModelPostfixes : List C07PostRow :=
  [c07Post_openpar,
   c07Post_openbracket,
   c07Post_if,
   c07Post_dot,
   c07Post_plus,
   c07Post_minus,
   c07Post_times,
   c07Post_floordiv,
   c07Post_over,
   c07Post_modulo,
   c07Post_exp,
   c07Post_and,
   c07Post_or,
   c07Post_bitwiseor,
   c07Post_bitwisexor,
   c07Post_bitwiseand,
   c07Post_rightshift,
   c07Post_leftshift,
   c07Post_comp,
   c07Post_colon,
   c07Post_comma]

def c07ModelExit : C07Tm :=
  (.cond (.isInst "left_exp" [.FinalizedTuple]) (.mk1 .tuple (.var "left_exp")) (.var "left_exp"))

def c07ModelArglist : C07Arglist :=
  { sep := ⟨"comma", .sym ","⟩, close := ⟨"closepar", .sym ")"⟩, kwName := ⟨"identifier", .identifier⟩, kwEq := ⟨"assign", .sym "="⟩, kwLvl := (.prec .comma), posLvl := (.prec .comma) }

def c07ModelTable : C07ParserTable := {
  compTable := c07ModelComp,
  joinToSlice := c07ModelJoin,
  floatReplaces := ["d", "D"],
  ctors := [
    ("Sum", ["children"]),
    ("Product", ["children"]),
    ("BitwiseOr", ["children"]),
    ("BitwiseXor", ["children"]),
    ("BitwiseAnd", ["children"]),
    ("LogicalOr", ["children"]),
    ("LogicalAnd", ["children"]),
    ("Quotient", ["numerator", "denominator"]),
    ("FloorDiv", ["numerator", "denominator"]),
    ("Remainder", ["numerator", "denominator"]),
    ("Power", ["base", "exponent"]),
    ("LeftShift", ["shiftee", "shift"]),
    ("RightShift", ["shiftee", "shift"]),
    ("LogicalNot", ["child"]),
    ("BitwiseNot", ["child"]),
    ("Comparison", ["left", "operator", "right"]),
    ("If", ["condition", "then", "else_"]),
    ("Call", ["function", "parameters"]),
    ("CallWithKwargs", ["function", "parameters", "kw_parameters"]),
    ("Subscript", ["aggregate", "index"]),
    ("Lookup", ["aggregate", "name"]),
    ("Slice", ["children"]),
    ("Wildcard", []),
    ("Variable", ["name"])],
  terminals := c07ModelTerminals,
  prefixes := c07ModelPrefixes,
  postfixes := c07ModelPostfixes,
  exprDefault := 0,
  exprExit := c07ModelExit,
  arglist := c07ModelArglist,
  call := { dropped := "whitespace", dflt := 0, endCheck := true } }

end PV
