import PV.Model.CCode
/-
  C14.  The C-expressible integer fragment `cFragM` / `cFrag` of the C code mapper and its reference
  meaning `denV` (Python's operators on ints and bools under the guards of the property), as
  executable definitions: `PV.C14.ccode_value_c_partial` (PV/Properties/C14.lean) is stated with
  them, and the driver evaluates them so that the correspondence run compares `denV` with the real
  evaluator and with gcc on every generated expression of the fragment.
-/
namespace PV.C14
open PV

def sumL : List Int → Int
  | [] => 0
  | x :: xs => x + sumL xs

def prodL : List Int → Int
  | [] => 1
  | x :: xs => x * prodL xs

/-- a value of the integer fragment: a Python int or a Python bool -/
inductive CVal where
  | i (n : Int)
  | b (x : Bool)
  deriving Repr, DecidableEq

/-- the evaluator's value -/
def CVal.toValue : CVal → Value
  | .i n => .int n
  | .b x => .bool x

/-- the number C computes: `True` is 1, `False` is 0 -/
def CVal.toInt : CVal → Int
  | .i n => n
  | .b x => c14B2I x

/-- Python's `&`, `^`, `|` (bool for two bools, else int) on non-negative operands -/
def bitV (op : NaryOp) (x y : CVal) : Option CVal :=
  match op, x, y with
  | .band, .b p, .b q => some (.b (p && q))
  | .bor, .b p, .b q => some (.b (p || q))
  | .bxor, .b p, .b q => some (.b (p != q))
  | .band, x, y => if 0 ≤ x.toInt ∧ 0 ≤ y.toInt then some (.i (Int.ofNat (x.toInt.toNat &&& y.toInt.toNat))) else none
  | .bor, x, y => if 0 ≤ x.toInt ∧ 0 ≤ y.toInt then some (.i (Int.ofNat (x.toInt.toNat ||| y.toInt.toNat))) else none
  | .bxor, x, y => if 0 ≤ x.toInt ∧ 0 ≤ y.toInt then some (.i (Int.ofNat (x.toInt.toNat ^^^ y.toInt.toNat))) else none
  | _, _, _ => none

mutual
/-- the meaning of the integer fragment; `none` outside the fragment or outside the guards -/
def denV (env : Env) : Expr → Option CVal
  | .const (.int n) => some (.i n)
  | .var x => (envInt env x).map .i
  | .nary .sum cs => (denVL env cs).map fun vs => .i (sumL (vs.map CVal.toInt))
  | .nary .prod cs => (denVL env cs).map fun vs => .i (prodL (vs.map CVal.toInt))
  | .nary .band (c :: cs) => match denV env c with
    | some w => denVBit env .band w cs
    | none => none
  | .nary .bxor (c :: cs) => match denV env c with
    | some w => denVBit env .bxor w cs
    | none => none
  | .nary .bor (c :: cs) => match denV env c with
    | some w => denVBit env .bor w cs
    | none => none
  | .nary .land cs => denVAll env cs
  | .nary .lor cs => denVAny env cs
  | .nary .min [a, b] => match denV env a, denV env b with
    | some x, some y => some (if y.toInt < x.toInt then y else x)
    | _, _ => none
  | .nary .max [a, b] => match denV env a, denV env b with
    | some x, some y => some (if x.toInt < y.toInt then y else x)
    | _, _ => none
  | .bin .floordiv a b => match denV env a, denV env b with
    | some x, some y => if 0 ≤ x.toInt ∧ 0 < y.toInt then some (.i (x.toInt / y.toInt)) else none
    | _, _ => none
  | .bin .rem a b => match denV env a, denV env b with
    | some x, some y => if 0 ≤ x.toInt ∧ 0 < y.toInt then some (.i (x.toInt % y.toInt)) else none
    | _, _ => none
  | .bin .pow a (.const (.int n)) =>
    if n = 2 then (denV env a).map (fun x => .i (x.toInt * x.toInt)) else none
  | .bin .lshift a b => match denV env a, denV env b with
    | some x, some y =>
      if 0 ≤ x.toInt ∧ 0 ≤ y.toInt ∧ y.toInt ≤ 4096 then some (.i (x.toInt * 2 ^ y.toInt.toNat))
      else none
    | _, _ => none
  | .bin .rshift a b => match denV env a, denV env b with
    | some x, some y =>
      if 0 ≤ x.toInt ∧ 0 ≤ y.toInt ∧ y.toInt ≤ 4096 then some (.i (x.toInt / 2 ^ y.toInt.toNat))
      else none
    | _, _ => none
  | .un .lnot a => (denV env a).map fun x => .b (x.toInt == 0)
  | .un .bnot a => (denV env a).map fun x => .i (-x.toInt - 1)
  | .cmp o a b => match denV env a, denV env b with
    | some x, some y => some (.b (c14CmpInt o x.toInt y.toInt))
    | _, _ => none
  | .ite c t e => match denV env c with
    | some w => if w.toInt = 0 then denV env e else denV env t
    | none => none
  | _ => none
def denVL (env : Env) : List Expr → Option (List CVal)
  | [] => some []
  | c :: cs => match denV env c, denVL env cs with
    | some v, some vs => some (v :: vs)
    | _, _ => none
/-- `reduce(op, …)` continued from the running value -/
def denVBit (env : Env) (op : NaryOp) (acc : CVal) : List Expr → Option CVal
  | [] => some acc
  | c :: cs => match denV env c with
    | some w => match bitV op acc w with
      | some acc' => denVBit env op acc' cs
      | none => none
    | none => none
/-- `all(…)`: stops at the first false operand -/
def denVAll (env : Env) : List Expr → Option CVal
  | [] => some (.b true)
  | c :: cs => match denV env c with
    | some w => if w.toInt = 0 then some (.b false) else denVAll env cs
    | none => none
/-- `any(…)`: stops at the first true operand -/
def denVAny (env : Env) : List Expr → Option CVal
  | [] => some (.b false)
  | c :: cs => match denV env c with
    | some w => if w.toInt = 0 then denVAny env cs else some (.b true)
    | none => none
end

def isRem : Expr → Bool
  | .bin .rem _ _ => true
  | _ => false

def isPow : Expr → Bool
  | .bin .pow _ _ => true
  | _ => false

/-- `-1 * …`: the product that `map_sum` prints with a minus sign -/
def negShape : Expr → Bool
  | .nary .prod (.const (.int n) :: _) => n == -1
  | _ => false

/-- what `get_neg_product` returns for a product `-1 * …` -/
def negBody : Expr → Expr
  | .nary .prod [_, b] => b
  | .nary .prod (_ :: rest) => .nary .prod rest
  | e => e

def isBitwise : Expr → Bool
  | .nary .band _ | .nary .bxor _ | .nary .bor _ => true
  | _ => false

mutual
/-- `m = false`: integer constants, variables, sums (first term not of the form `-1 * …`), products
of at least two factors none of which is a remainder, floor division, remainder whose divisor is
not a power, and `x**2`.  `m = true` adds shifts, comparisons whose operands are not bitwise
operations, `&`/`^`/`|`/`and`/`or` of at least two operands, `not`, `~`, `If`, and `Min`/`Max` of two
operands. -/
def cFragM (m : Bool) : Expr → Bool
  | .const (.int _) => true
  | .var _ => true
  | .nary .sum (c :: cs) => cFragM m c && !negShape c && cFragML m cs
  | .nary .prod (c1 :: c2 :: cs) => cFragM m c1 && !isRem c1 && cFragMP m (c2 :: cs)
  | .nary .band (c1 :: c2 :: cs) => m && cFragM m c1 && cFragML m (c2 :: cs)
  | .nary .bxor (c1 :: c2 :: cs) => m && cFragM m c1 && cFragML m (c2 :: cs)
  | .nary .bor (c1 :: c2 :: cs) => m && cFragM m c1 && cFragML m (c2 :: cs)
  | .nary .land (c1 :: c2 :: cs) => m && cFragM m c1 && cFragML m (c2 :: cs)
  | .nary .lor (c1 :: c2 :: cs) => m && cFragM m c1 && cFragML m (c2 :: cs)
  | .nary .min [a, b] => m && cFragM m a && cFragM m b
  | .nary .max [a, b] => m && cFragM m a && cFragM m b
  | .bin .floordiv a b => cFragM m a && cFragM m b
  | .bin .rem a b => cFragM m a && cFragM m b && !isPow b
  | .bin .pow (.var _) (.const (.int n)) => n == 2
  | .bin .lshift a b => m && cFragM m a && cFragM m b
  | .bin .rshift a b => m && cFragM m a && cFragM m b
  | .un _ a => m && cFragM m a
  | .cmp _ a b => m && cFragM m a && cFragM m b && !isBitwise a && !isBitwise b
  | .ite c t e => m && cFragM m c && cFragM m t && cFragM m e
  | _ => false
def cFragML (m : Bool) : List Expr → Bool
  | [] => true
  | c :: cs => cFragM m c && cFragML m cs
def cFragMP (m : Bool) : List Expr → Bool
  | [] => true
  | c :: cs => cFragM m c && !isRem c && cFragMP m cs
end

/-- the C-expressible integer fragment covered by `ccode_value_c_partial` -/
abbrev cFrag (e : Expr) : Bool := cFragM true e

end PV.C14
