import PV.Model.CCode
/-
  C14.  Mappers constructed from an EXPLICIT assignment list: `CCodeMapper.copy(cse_name_list=L)`.

  `copy()` passes the mapper's own list; a caller may pass any list — the empty one to start the
  body of a new C function with the same settings, or the assignments of an earlier point.  The new
  mapper is `CCodeMapper(self.reverse, self.cse_prefix, self.complex_constant_base_type, L)`: all it
  knows (`cse_to_name`, `cse_names`) is rebuilt from `L` by the constructor (`CSt.ofList`); nothing
  else of the parent's allocator state reaches it.
-/
namespace PV

/-- `copy(cse_name_list=l)` -/
def CSt.copyWithList (st : CSt) (l : List CEntry) : CSt := CSt.ofList st.reverse st.pfx l

/-- the list a caller passes: the first `k` assignments of some mapper's list followed by
`(name, expression)` pairs it computes itself -/
def bodyList (src : CSt) (k : Nat) (pairs : List (String × Expr)) : List CEntry :=
  src.nameList.take k ++ pairs.map fun p => { name := p.1, val := .expr p.2 }

/-- operations on a pool of mappers: those of `COpn`, and `pool[i].copy(cse_name_list=L)` with
`L = bodyList pool[j] k pairs` -/
inductive CBodyOp where
  | op (o : COpn)
  | copyList (i j k : Nat) (pairs : List (String × Expr))

def runBodyOps (S : PrintPrec) : List CSt → List CBodyOp → Except CErr (List CStepOut × List CSt)
  | pool, [] => pure ([], pool)
  | pool, .op o :: ops => do
      let (o1, pool1) ← runOps S pool [o]
      let (outs, pool') ← runBodyOps S pool1 ops
      pure (o1 ++ outs, pool')
  | pool, .copyList i j k pairs :: ops =>
    match pool[i]?, pool[j]? with
    | some st, some src => do
        let (outs, pool') ← runBodyOps S (pool ++ [st.copyWithList (bodyList src k pairs)]) ops
        pure (.made pool.length :: outs, pool')
    | _, _ => throw .noClaim

end PV
