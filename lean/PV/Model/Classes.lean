/-
  C01 — the class table (T-gen).

  One record per `Expression` subclass reachable from the live modules, regenerated on every check
  by `extract/classes.py` into `PV/Generated/Classes.lean`.  For a class declared with
  `@expr_dataclass()` the record lists what the GENERATED source text of its methods
  (pymbolic/primitives.py:_augment_expression_dataclass, read back from
  `cls.__eq__.__globals__["_MODULE_SOURCE_CODE"]` with `ast`) actually mentions:
    `eqFields`          the `self.f == other.f` conjuncts of the generated `__eq__`
    `eqClassChecked`    `__eq__` tests `self.__class__` against `other.__class__`
    `hashFields`        the elements of the tuple the generated `__hash__` hashes
    `hashInstalled`     the generated `__hash__` is the class's `__hash__`
    `getstateFields`    the tuple `__getstate__` returns
    `setstateFields`    the names `__setstate__` assigns
    `initArgNames`      the tuple `init_arg_names` returns (the same literal guards the legacy branch)
    `getinitargsFields` the tuple `__getinitargs__` returns
  together with the dataclass field names in order, the `frozen` flag of the dataclass and the
  `mapper_method`.  For undecorated classes (`sub`: below a decorated class; `legacy`: not) the
  record has the init-arg names (when the class states them), the nearest decorated ancestor
  (`base`, whose generated methods the instances run), and whether the class is hashable / brings
  a hand-written `__eq__` / `__hash__`.

  `ClassTable.Ok` is the decidable side condition of the C01 theorems.
-/
namespace PV

inductive ClassKind where
  /-- declared with `@expr_dataclass()` -/
  | dataclass
  /-- undecorated subclass of a decorated class: runs the generated methods of `base` -/
  | sub
  /-- no decorated ancestor: `Expression.__eq__` / `Expression.__hash__` (or its own) -/
  | legacy
  deriving Repr, DecidableEq, Inhabited

structure ClassInfo where
  name : String
  module : String
  kind : ClassKind
  /-- nearest decorated class in the MRO (the class itself for `dataclass`, "" for `legacy`) -/
  base : String
  /-- dataclass field names in order (`dataclass`); init-arg names (`sub`, `legacy`; [] unknown) -/
  fields : List String
  eqFields : List String
  eqClassChecked : Bool
  hashFields : List String
  hashInstalled : Bool
  getstateFields : List String
  setstateFields : List String
  initArgNames : List String
  getinitargsFields : List String
  frozen : Bool
  mapperMethod : Option String
  /-- `cls.__hash__ is not None` -/
  hashable : Bool
  /-- the class's effective `__eq__` / `__hash__` is hand-written (neither generated nor
  `Expression`'s): what it does is described by the record `C01OwnEqInfo` of `ownDefiner` (below) and
  modelled in lean/PV/Model/EqHashOwn.lean; `eqGen` / `hashGen` do not apply -/
  ownEq : Bool
  ownHash : Bool
  /-- names of the proper ancestors of the class that are `Expression` subclasses, in MRO order
  (`Expression` itself excluded); used for `isinstance` tests and for CPython's "a proper subclass
  on the right is asked first" rule of `==` -/
  ancestors : List String := []
  /-- the class in the MRO whose hand-written `__eq__` / `__hash__` the instances run ("" when
  `ownEq` is false): a record of `C01OwnEqInfo` (below) describes what those methods do -/
  ownDefiner : String := ""
  deriving Repr, Inhabited

abbrev ClassTable := List ClassInfo

def ClassTable.find? (t : ClassTable) (c : String) : Option ClassInfo :=
  List.find? (fun i => i.name == c) t

/-- the generated methods mention every dataclass field, in order, and nothing else; the class is
frozen, hashable, and dispatches -/
def ClassInfo.okDataclass (i : ClassInfo) : Bool :=
  i.base == i.name && decide i.fields.Nodup &&
  i.eqFields == i.fields && i.eqClassChecked &&
  i.hashFields == i.fields && i.hashInstalled &&
  i.getstateFields == i.fields && i.setstateFields == i.fields &&
  i.initArgNames == i.fields && i.getinitargsFields == i.fields &&
  i.frozen && i.mapperMethod.isSome && i.hashable && !i.ownEq && !i.ownHash

/-- a class that defines `__eq__` by hand also defines `__hash__`, and is hashable -/
def ClassInfo.okLegacy (i : ClassInfo) : Bool :=
  i.hashable && (!i.ownEq || i.ownHash)

def ClassInfo.ok (t : ClassTable) (i : ClassInfo) : Bool :=
  match i.kind with
  | .dataclass => i.okDataclass
  | .sub =>
      i.okLegacy && decide i.fields.Nodup &&
      (match t.find? i.base with
       | some b => b.kind == .dataclass
       | none => false)
  | .legacy => i.okLegacy && i.base == ""

/-- the decidable side condition: class names are unique and every record is in order -/
def ClassTable.Ok (t : ClassTable) : Bool :=
  decide (t.map (·.name)).Nodup && t.all (fun i => i.ok t)

/-- The class whose generated methods an instance of class `c` runs, and whether it takes their
LEGACY branch (`self.__class__ is not cls and self.init_arg_names != (<field names>)`:
`is_equal` / `get_hash`).  For a `legacy` class: `Expression.__eq__/__hash__`, always legacy. -/
def ClassTable.template? (t : ClassTable) (c : String) : Option (ClassInfo × Bool) :=
  match t.find? c with
  | none => none
  | some i =>
    match i.kind with
    | .dataclass => some (i, false)
    | .sub =>
      match t.find? i.base with
      | some b => some (b, i.fields != b.initArgNames)
      | none => none
    | .legacy => some (i, true)

/-- Does `setattr(obj, f, …)` / `delattr(obj, f)` on an instance of class `c` raise
`dataclasses.FrozenInstanceError`?  The frozen dataclass's `__setattr__` is
`if type(self) is cls or name in <fields>: raise FrozenInstanceError`, inherited by subclasses. -/
def ClassTable.frozenFor (t : ClassTable) (c f : String) : Bool :=
  match t.find? c with
  | none => false
  | some i =>
    match i.kind with
    | .dataclass => i.frozen
    | .sub =>
      match t.find? i.base with
      | some b => b.frozen && b.fields.contains f
      | none => false
    | .legacy => false

/-- every declared field / init arg of every class is protected against rebinding -/
def ClassTable.Immutable (t : ClassTable) : Bool :=
  t.all fun i => i.fields.all fun f => t.frozenFor i.name f

/-! ### interpreter mode

`expr_dataclass` creates the dataclass with `frozen=__debug__` (pymbolic/primitives.py; the
extractor reads this keyword from the decorator's source into `Generated.c01FrozenSource`): the
`frozen` flag of a record is what the class has in the DEFAULT mode (`__debug__` true); under
`python -O` the same decorator yields classes that are not frozen. -/

/-- the value of the `frozen=` keyword in the decorator's `dataclass(…)` call -/
inductive C01FrozenSource where
  /-- `frozen=__debug__` -/
  | debugFlag
  /-- `frozen=True` -/
  | always
  /-- `frozen=False` (or no keyword) -/
  | never
  deriving Repr, DecidableEq, Inhabited

/-- what `frozen=<src>` evaluates to in an interpreter with `__debug__ = debug` -/
def C01FrozenSource.eval (src : C01FrozenSource) (debug : Bool) : Bool :=
  match src with
  | .debugFlag => debug
  | .always => true
  | .never => false

/-- the class table as the interpreter with `__debug__ = debug` builds it: the decorated classes
are frozen iff the decorator's keyword evaluates to true (and the class was frozen in default mode
at all) -/
def ClassTable.inMode (t : ClassTable) (src : C01FrozenSource) (debug : Bool) : ClassTable :=
  t.map fun i => { i with frozen := i.frozen && src.eval debug }

/-! ### hand-written `__eq__` / `__hash__` (the legacy number-like classes)

`extract/classes.py` reads the SOURCE of the hand-written methods of every class whose effective
`__eq__` is neither generated nor `Expression`'s (today: `Polynomial`, `Rational`) with `ast` and
records which of the two known shapes they have and which attributes they mention; any other shape
is an extraction error.

    polynomial shape                                   rational shape
      def __eq__(self, other):                           def __eq__(self, other):
          return (isinstance(other, C)                       if not isinstance(other, C):
                  and self.A == other.A and …)                   other = C(other)
                                                             return self.A == other.A and …
      def __hash__(self):                                def __hash__(self):
          return hash((type(self).__name__,                  if self.D == 1:
                       self.A, …))                               return hash(self.N)
                                                             return hash((type(self).__name__, self.A, …))
      `__ne__`: `not self.__eq__(other)` (own or `Expression`'s) in both shapes -/

inductive C01OwnShape where
  | polynomial
  | rational
  deriving Repr, DecidableEq, Inhabited

structure C01OwnEqInfo where
  /-- the class that DEFINES the methods (`C` above) -/
  name : String
  shape : C01OwnShape
  /-- the attributes `__getinitargs__` returns, in order: the positional fields of an instance -/
  initAttrs : List String
  /-- the attributes `__eq__` compares (`self.A == other.A and …`), in order -/
  eqAttrs : List String
  /-- `__eq__` tests `isinstance(other, C)` (not class identity) -/
  eqIsinstance : Bool
  /-- `__eq__` replaces a non-instance operand by `C(other)` -/
  eqCoerces : Bool
  /-- the tuple `__hash__` hashes starts with `type(self).__name__` -/
  hashTagged : Bool
  /-- … followed by these attributes -/
  hashAttrs : List String
  /-- rational shape: `if self.<hashUnitAttr> == 1: return hash(self.<hashUnitValue>)` -/
  hashUnitAttr : Option String
  hashUnitValue : Option String
  /-- `!=` is `not self.__eq__(other)` -/
  neIsNotEq : Bool
  /-- the constructor has the expected text (rational: divides numerator and denominator by the
  unit of the denominator and stores them; polynomial: stores base, `tuple(data)`, unit, order) -/
  initAsExpected : Bool
  deriving Repr, Inhabited

/-- the decidable side condition on a record: the hash covers exactly what `__eq__` compares, both
are init args, `!=` negates `==` -/
def C01OwnEqInfo.ok (o : C01OwnEqInfo) : Bool :=
  decide o.initAttrs.Nodup && o.eqIsinstance && o.hashTagged && o.neIsNotEq && o.initAsExpected &&
  o.hashAttrs == o.eqAttrs && o.eqAttrs.all (o.initAttrs.contains ·) &&
  (match o.shape with
   | .polynomial => !o.eqCoerces && o.hashUnitAttr.isNone && o.hashUnitValue.isNone
   | .rational =>
       o.eqCoerces && o.initAttrs == o.eqAttrs &&
       (match o.eqAttrs, o.hashUnitAttr, o.hashUnitValue with
        | [n, d], some ua, some uv => ua == d && uv == n
        | _, _, _ => false))

/-- every class with a hand-written `__eq__` has a record (of its definer), is a `legacy` class,
and brings `__hash__` along from the same definer -/
def ClassTable.OwnOk (t : ClassTable) (owns : List C01OwnEqInfo) : Bool :=
  decide (owns.map (·.name)).Nodup && owns.all (·.ok) &&
  t.all fun i =>
    if i.ownEq || i.ownHash then
      i.ownEq && i.ownHash && i.kind == .legacy &&
      (i.ownDefiner == i.name || i.ancestors.contains i.ownDefiner) &&
      owns.any (·.name == i.ownDefiner)
    else i.ownDefiner == ""

end PV
