/-
  C01 — the class table (T-gen).

  One record per `Expression` subclass reachable from the live modules, regenerated on every check
  by `extract/classes.py` into `PV/Generated/Classes.lean`.  For a class declared with
  `@expr_dataclass()` the record lists what the GENERATED source text of its methods
  (pymbolic/primitives.py:_augment_expression_dataclass, read back from
  `cls.__eq__.__globals__["_MODULE_SOURCE_CODE"]` with `ast`) actually mentions:
    `eqFields`          the `self.f == other.f` conjuncts of the generated `__eq__`
    `eqClassChecked`    `__eq__` tests `self.__class__` against `other.__class__`
    `hashFields`        the elements of the tuple the generated `__hash__` hashes
    `hashInstalled`     the generated `__hash__` is the class's `__hash__`
    `getstateFields`    the tuple `__getstate__` returns
    `setstateFields`    the names `__setstate__` assigns
    `initArgNames`      the tuple `init_arg_names` returns (the same literal guards the legacy branch)
    `getinitargsFields` the tuple `__getinitargs__` returns
  together with the dataclass field names in order, the `frozen` flag of the dataclass and the
  `mapper_method`.  For undecorated classes (`sub`: below a decorated class; `legacy`: not) the
  record has the init-arg names (when the class states them), the nearest decorated ancestor
  (`base`, whose generated methods the instances run), and whether the class is hashable / brings
  a hand-written `__eq__` / `__hash__`.

  `ClassTable.Ok` is the decidable side condition of the C01 theorems.
-/
namespace PV

inductive ClassKind where
  /-- declared with `@expr_dataclass()` -/
  | dataclass
  /-- undecorated subclass of a decorated class: runs the generated methods of `base` -/
  | sub
  /-- no decorated ancestor: `Expression.__eq__` / `Expression.__hash__` (or its own) -/
  | legacy
  deriving Repr, DecidableEq, Inhabited

structure ClassInfo where
  name : String
  module : String
  kind : ClassKind
  /-- nearest decorated class in the MRO (the class itself for `dataclass`, "" for `legacy`) -/
  base : String
  /-- dataclass field names in order (`dataclass`); init-arg names (`sub`, `legacy`; [] unknown) -/
  fields : List String
  eqFields : List String
  eqClassChecked : Bool
  hashFields : List String
  hashInstalled : Bool
  getstateFields : List String
  setstateFields : List String
  initArgNames : List String
  getinitargsFields : List String
  frozen : Bool
  mapperMethod : Option String
  /-- `cls.__hash__ is not None` -/
  hashable : Bool
  /-- the class's effective `__eq__` / `__hash__` is hand-written (neither generated nor
  `Expression`'s): such classes are outside the model -/
  ownEq : Bool
  ownHash : Bool
  deriving Repr, Inhabited

abbrev ClassTable := List ClassInfo

def ClassTable.find? (t : ClassTable) (c : String) : Option ClassInfo :=
  List.find? (fun i => i.name == c) t

/-- the generated methods mention every dataclass field, in order, and nothing else; the class is
frozen, hashable, and dispatches -/
def ClassInfo.okDataclass (i : ClassInfo) : Bool :=
  i.base == i.name && decide i.fields.Nodup &&
  i.eqFields == i.fields && i.eqClassChecked &&
  i.hashFields == i.fields && i.hashInstalled &&
  i.getstateFields == i.fields && i.setstateFields == i.fields &&
  i.initArgNames == i.fields && i.getinitargsFields == i.fields &&
  i.frozen && i.mapperMethod.isSome && i.hashable && !i.ownEq && !i.ownHash

/-- a class that defines `__eq__` by hand also defines `__hash__`, and is hashable -/
def ClassInfo.okLegacy (i : ClassInfo) : Bool :=
  i.hashable && (!i.ownEq || i.ownHash)

def ClassInfo.ok (t : ClassTable) (i : ClassInfo) : Bool :=
  match i.kind with
  | .dataclass => i.okDataclass
  | .sub =>
      i.okLegacy && decide i.fields.Nodup &&
      (match t.find? i.base with
       | some b => b.kind == .dataclass
       | none => false)
  | .legacy => i.okLegacy && i.base == ""

/-- the decidable side condition: class names are unique and every record is in order -/
def ClassTable.Ok (t : ClassTable) : Bool :=
  decide (t.map (·.name)).Nodup && t.all (fun i => i.ok t)

/-- The class whose generated methods an instance of class `c` runs, and whether it takes their
LEGACY branch (`self.__class__ is not cls and self.init_arg_names != (<field names>)`:
`is_equal` / `get_hash`).  For a `legacy` class: `Expression.__eq__/__hash__`, always legacy. -/
def ClassTable.template? (t : ClassTable) (c : String) : Option (ClassInfo × Bool) :=
  match t.find? c with
  | none => none
  | some i =>
    match i.kind with
    | .dataclass => some (i, false)
    | .sub =>
      match t.find? i.base with
      | some b => some (b, i.fields != b.initArgNames)
      | none => none
    | .legacy => some (i, true)

/-- Does `setattr(obj, f, …)` / `delattr(obj, f)` on an instance of class `c` raise
`dataclasses.FrozenInstanceError`?  The frozen dataclass's `__setattr__` is
`if type(self) is cls or name in <fields>: raise FrozenInstanceError`, inherited by subclasses. -/
def ClassTable.frozenFor (t : ClassTable) (c f : String) : Bool :=
  match t.find? c with
  | none => false
  | some i =>
    match i.kind with
    | .dataclass => i.frozen
    | .sub =>
      match t.find? i.base with
      | some b => b.frozen && b.fields.contains f
      | none => false
    | .legacy => false

/-- every declared field / init arg of every class is protected against rebinding -/
def ClassTable.Immutable (t : ClassTable) : Bool :=
  t.all fun i => i.fields.all fun f => t.frozenFor i.name f

end PV
