import PV.Model.Expr
import PV.Model.PyEq
/-
  C16 — the matchpy BRIDGE of pymbolic (pymbolic/interop/matchpy/{__init__,tofrom,mapper}.py).

  * `MTerm`   : matchpy terms as the bridge builds them: the atoms `Scalar` / `Id` / `ComparisonOp`
                (dataclass atoms with a `value` and a `variable_name`), one operation class per
                pymbolic node type (`MOp`, the table `MOp.row` = arity and flags as DECLARED by the
                classes; regenerated from the live classes into `PV/Generated/MatchpyOps.lean` and
                compared by `decide` in `PV.C16.flag_table_current`), `TupleOp`, and wildcards
                (dot / star / plus, with a name).
  * `mk`      : matchpy's `_OperationMeta.__call__`: flatten nested applications of an operation
                declared associative, apply one-identity, SORT the operands of an operation declared
                commutative with `list.sort()`.
  * `pySort`  : CPython 3.12 `list.sort` for fewer than 64 elements (`count_run` + `binarysort`),
                exact for ANY comparison — the bridge's `__lt__` is not a strict weak order
                (a dot wildcard is below a star wildcard and vice versa).
  * `MTerm.lt`, `MTerm.eq`, `MTerm.repr` : `PymbolicOp.__lt__` / `_Constant.__lt__` /
                `Wildcard.__lt__` (compare class names, else `str(self.operands)`), the generated
                dataclass `__eq__`, the generated dataclass `__repr__`.
  * `toM`, `fromM` : `ToMatchpyExpressionMapper`, `FromMatchpyExpressionMapper` (with the node
                types they refuse and the exception raised).
  * `toFromReplacement`, `matchConv` : `ToFromReplacement.__call__` and the conversion of a
                substitution in `match` / `match_anywhere`.
  matchpy's matcher itself is NOT modelled (trusted parameter).
-/
namespace PV.Matchpy
open PV

/-! ### operation classes and their declared flags -/

inductive WildKind where
  | dot | star | plus
  deriving Repr, DecidableEq, Inhabited

def WildKind.minCount : WildKind → Nat
  | .dot => 1 | .star => 0 | .plus => 1

def WildKind.fixed : WildKind → Bool
  | .dot => true | .star => false | .plus => false

def WildKind.all : List WildKind := [.dot, .star, .plus]

def WildKind.name : WildKind → String
  | .dot => "dot" | .star => "star" | .plus => "plus"

/-- the `Operation` subclasses declared in pymbolic/interop/matchpy/__init__.py -/
inductive MOp where
  | tupleOp | variable | call | subscript
  | trueDiv | floorDiv | modulo | power | leftShift | rightShift
  | sum | product | logicalOr | logicalAnd | bitwiseOr | bitwiseAnd | bitwiseXor
  | logicalNot | bitwiseNot | comparison | ite
  deriving Repr, DecidableEq, Inhabited

def MOp.all : List MOp :=
  [.tupleOp, .variable, .call, .subscript, .trueDiv, .floorDiv, .modulo, .power, .leftShift,
   .rightShift, .sum, .product, .logicalOr, .logicalAnd, .bitwiseOr, .bitwiseAnd, .bitwiseXor,
   .logicalNot, .bitwiseNot, .comparison, .ite]

/-- one row of the flag / arity table: class name, `arity = Arity(minCount, fixed)`, the three
flags matchpy reads, the operand fields of the dataclass in order (`packed`: ONE field holds the
whole operand tuple), and `_mapper_method` -/
structure OpRow where
  name : String
  minCount : Nat
  fixed : Bool
  comm : Bool
  assoc : Bool
  oneId : Bool
  fields : List String
  packed : Bool
  method : String
  deriving Repr, DecidableEq, Inhabited

def binRow (name method : String) : OpRow :=
  ⟨name, 2, true, false, false, false, ["x1", "x2"], false, method⟩

def acRow (name method : String) : OpRow :=
  ⟨name, 0, false, true, true, false, ["children"], true, method⟩

def unRow (name method : String) : OpRow :=
  ⟨name, 1, true, false, false, false, ["x"], false, method⟩

/-- the table as the model uses it (hand-written; `PV.C16.flag_table_current` proves it equal to
the table regenerated from the live classes) -/
def MOp.row : MOp → OpRow
  | .tupleOp => ⟨"TupleOp", 0, false, false, false, false, ["_operands"], true, "map_tuple_op"⟩
  | .variable => ⟨"Variable", 1, true, false, false, false, ["id"], false, "map_variable"⟩
  | .call => ⟨"Call", 2, true, false, false, false, ["function", "args"], false, "map_call"⟩
  | .subscript =>
      ⟨"Subscript", 2, true, false, false, false, ["aggregate", "indices"], false, "map_subscript"⟩
  | .trueDiv => binRow "TrueDiv" "map_true_div"
  | .floorDiv => binRow "FloorDiv" "map_floor_div"
  | .modulo => binRow "Modulo" "map_modulo"
  | .power => binRow "Power" "map_power"
  | .leftShift => binRow "LeftShift" "map_left_shift"
  | .rightShift => binRow "RightShift" "map_right_shift"
  | .sum => acRow "Sum" "map_sum"
  | .product => acRow "Product" "map_product"
  | .logicalOr => acRow "LogicalOr" "map_logical_or"
  | .logicalAnd => acRow "LogicalAnd" "map_logical_and"
  | .bitwiseOr => acRow "BitwiseOr" "map_bitwise_or"
  | .bitwiseAnd => acRow "BitwiseAnd" "map_bitwise_and"
  | .bitwiseXor => acRow "BitwiseXor" "map_bitwise_xor"
  | .logicalNot => unRow "LogicalNot" "map_logical_not"
  | .bitwiseNot => unRow "BitwiseNot" "map_bitwise_not"
  | .comparison =>
      ⟨"Comparison", 3, true, false, false, false, ["left", "operator", "right"], false,
        "map_comparison"⟩
  | .ite => ⟨"If", 3, true, false, false, false, ["condition", "then", "else_"], false, "map_if"⟩

def opTable : List OpRow := MOp.all.map MOp.row

/-- the atom classes: name, dataclass fields in order, `_mapper_method` if the class has one -/
structure AtomRow where
  name : String
  fields : List String
  method : Option String
  deriving Repr, DecidableEq, Inhabited

def atomTable : List AtomRow :=
  [⟨"Scalar", ["value", "variable_name", "_mapper_method"], some "map_scalar"⟩,
   ⟨"Id", ["value", "variable_name"], none⟩,
   ⟨"ComparisonOp", ["value", "variable_name"], none⟩]

/-- `(kind, min_count, fixed_size)` of `Wildcard.dot / star / plus` -/
def wildTable : List (String × Nat × Bool) :=
  WildKind.all.map fun k => (k.name, k.minCount, k.fixed)

/-- the pymbolic node type an operation class stands for (n-ary ones) -/
def MOp.nary? : MOp → Option NaryOp
  | .sum => some .sum | .product => some .prod | .logicalOr => some .lor
  | .logicalAnd => some .land | .bitwiseOr => some .bor | .bitwiseAnd => some .band
  | .bitwiseXor => some .bxor | _ => none

def MOp.bin? : MOp → Option BinOp
  | .trueDiv => some .quot | .floorDiv => some .floordiv | .modulo => some .rem
  | .power => some .pow | .leftShift => some .lshift | .rightShift => some .rshift | _ => none

def MOp.un? : MOp → Option UnOp
  | .logicalNot => some .lnot | .bitwiseNot => some .bnot | _ => none

/-- `ToMatchpyExpressionMapper.map_sum` … : the class an n-ary node is sent to (`none`: no handler,
`Min` / `Max`) -/
def mopOfNary : NaryOp → Option MOp
  | .sum => some .sum | .prod => some .product | .lor => some .logicalOr
  | .land => some .logicalAnd | .bor => some .bitwiseOr | .band => some .bitwiseAnd
  | .bxor => some .bitwiseXor | .min => none | .max => none

def mopOfBin : BinOp → MOp
  | .quot => .trueDiv | .floordiv => .floorDiv | .rem => .modulo | .pow => .power
  | .lshift => .leftShift | .rshift => .rightShift

def mopOfUn : UnOp → MOp
  | .lnot => .logicalNot | .bnot => .bitwiseNot

/-- the `map_*` methods `ToMatchpyExpressionMapper` defines itself (every other node type is
refused); regenerated and compared in `PV.C16.handler_table_current` -/
def toHandlers : List String :=
  ["map_constant", "map_variable", "map_call", "map_subscript", "map_sum", "map_product",
   "map_quotient", "map_floor_div", "map_remainder", "map_power", "map_left_shift",
   "map_right_shift", "map_bitwise_not", "map_bitwise_or", "map_bitwise_and", "map_bitwise_xor",
   "map_logical_not", "map_logical_or", "map_logical_and", "map_comparison", "map_if",
   "map_dot_wildcard", "map_star_wildcard"]

/-- the `map_*` methods of `FromMatchpyExpressionMapper` -/
def fromHandlers : List String :=
  ["map_scalar", "map_variable", "map_call", "map_subscript", "map_true_div", "map_floor_div",
   "map_modulo", "map_power", "map_left_shift", "map_right_shift", "map_sum", "map_product",
   "map_logical_or", "map_logical_and", "map_bitwise_or", "map_bitwise_and", "map_bitwise_xor",
   "map_logical_not", "map_bitwise_not", "map_comparison", "map_if"]

/-! ### terms -/

/-- a matchpy term built from the bridge's classes; `vn` is the `variable_name` field -/
inductive MTerm where
  | scalar (c : Const) (vn : Option String)
  | id (s : String) (vn : Option String)
  | cmpOp (s : String) (vn : Option String)
  | op (o : MOp) (args : List MTerm) (vn : Option String)
  | wild (k : WildKind) (name : Option String)
  deriving Repr, Inhabited

mutual
/-- structural equality (Lean `=`) as a Boolean function -/
def MTerm.beq : MTerm → MTerm → Bool
  | .scalar c v, .scalar c' v' => c == c' && v == v'
  | .id s v, .id s' v' => s == s' && v == v'
  | .cmpOp s v, .cmpOp s' v' => s == s' && v == v'
  | .op o as v, .op o' as' v' => o == o' && MTerm.beqL as as' && v == v'
  | .wild k n, .wild k' n' => k == k' && n == n'
  | _, _ => false
def MTerm.beqL : List MTerm → List MTerm → Bool
  | [], [] => true
  | a :: as, b :: bs => MTerm.beq a b && MTerm.beqL as bs
  | _, _ => false
end

mutual
/-- Python `==` of two terms: the dataclass-generated `__eq__` (same class, field-wise `==`; the
value of a `Scalar` compares like Python numbers, `1 == True == 1.0`) and `Wildcard.__eq__` -/
def MTerm.eq : MTerm → MTerm → Bool
  | .scalar c v, .scalar c' v' => c.pyEq c' && v == v'
  | .id s v, .id s' v' => s == s' && v == v'
  | .cmpOp s v, .cmpOp s' v' => s == s' && v == v'
  | .op o as v, .op o' as' v' => o == o' && MTerm.eqL as as' && v == v'
  | .wild k n, .wild k' n' => k == k' && n == n'
  | _, _ => false
def MTerm.eqL : List MTerm → List MTerm → Bool
  | [], [] => true
  | a :: as, b :: bs => MTerm.eq a b && MTerm.eqL as bs
  | _, _ => false
end

/-! ### `repr` (what `str(self.operands)` in `PymbolicOp.__lt__` is made of) -/

/-- `repr` of a Python str; exact for strings without quote, backslash and control characters
(`MTerm.reprExact`) -/
def pyStrRepr (s : String) : String := "'" ++ s ++ "'"

def plainChar (c : Char) : Bool := c.toNat ≥ 32 && c.toNat < 127 && c != '\'' && c != '\\'

def plainStr (s : String) : Bool := s.toList.all plainChar

def optStrRepr : Option String → String
  | none => "None"
  | some s => pyStrRepr s

/-- `repr` / `str` of a constant value (`str(self.value)` in `_Constant.__lt__`) -/
def constRepr : Const → String
  | .int n => toString n
  | .bool b => if b then "True" else "False"
  | .flt r _ _ => r
  | .str s => pyStrRepr s
  | .none => "None"

/-- `repr` of a Python tuple from the `repr`s of its elements -/
def tupleRepr : List String → String
  | [] => "()"
  | [x] => "(" ++ x ++ ",)"
  | xs => "(" ++ ", ".intercalate xs ++ ")"

/-- `f1=r1, f2=r2, ` for the operand fields -/
def fieldsRepr : List String → List String → String
  | f :: fs, r :: rs => f ++ "=" ++ r ++ ", " ++ fieldsRepr fs rs
  | _, _ => ""

def pyBoolRepr (b : Bool) : String := if b then "True" else "False"

mutual
/-- the dataclass-generated `__repr__` (`Sum(children=(…), variable_name=None)`) and
`Wildcard.__repr__` -/
def MTerm.repr : MTerm → String
  | .scalar c vn =>
      "Scalar(value=" ++ constRepr c ++ ", variable_name=" ++ optStrRepr vn
        ++ ", _mapper_method='map_scalar')"
  | .id s vn => "Id(value=" ++ pyStrRepr s ++ ", variable_name=" ++ optStrRepr vn ++ ")"
  | .cmpOp s vn =>
      "ComparisonOp(value=" ++ pyStrRepr s ++ ", variable_name=" ++ optStrRepr vn ++ ")"
  | .wild k n =>
      let base := "Wildcard(" ++ toString k.minCount ++ ", " ++ pyBoolRepr k.fixed
      match n with
      | some nm => if nm == "" then base ++ ")" else base ++ ", variable_name=" ++ nm ++ ")"
      | none => base ++ ")"
  | .op o args vn =>
      let r := o.row
      let rs := MTerm.reprL args
      r.name ++ "(" ++
        (if r.packed then r.fields.headD "" ++ "=" ++ tupleRepr rs ++ ", "
         else fieldsRepr r.fields rs)
        ++ "variable_name=" ++ optStrRepr vn ++ ")"
def MTerm.reprL : List MTerm → List String
  | [] => []
  | t :: ts => t.repr :: MTerm.reprL ts
end

mutual
/-- are `repr` / `==` of this term exact in the model? (plain strings, finite floats, every
fixed-arity operation with exactly its declared number of operands) -/
def MTerm.reprExact : MTerm → Bool
  | .scalar c vn =>
      (match c with
       | .int _ => true | .bool _ => true | .flt _ _ d => d != 0 | _ => false)
      && (vn.map plainStr).getD true
  | .id s vn => plainStr s && (vn.map plainStr).getD true
  | .cmpOp s vn => plainStr s && (vn.map plainStr).getD true
  | .wild _ n => (n.map plainStr).getD true
  | .op o args vn =>
      (o.row.packed || args.length == o.row.fields.length) && MTerm.reprExactL args
      && (vn.map plainStr).getD true
def MTerm.reprExactL : List MTerm → Bool
  | [] => true
  | t :: ts => t.reprExact && MTerm.reprExactL ts
end

/-! ### `<` -/

def MTerm.typeName : MTerm → String
  | .scalar .. => "Scalar"
  | .id .. => "Id"
  | .cmpOp .. => "ComparisonOp"
  | .op o _ _ => o.row.name
  | .wild .. => "Wildcard"

def vnLt (a b : Option String) : Bool := decide (a.getD "" < b.getD "")

/-- `a < b` as `list.sort()` evaluates it on operands: `PymbolicOp.__lt__`, `_Constant.__lt__`,
`Wildcard.__lt__` (NOT a strict weak order: `dot < star` and `star < dot`).  `TupleOp` inherits
matchpy's `Operation.__lt__`, which is not modelled (a `TupleOp` is never an operand of a
commutative operation); for it the class-name rule is used. -/
def MTerm.lt : MTerm → MTerm → Bool
  | .wild k n, .wild k' n' =>
      if k.minCount != k'.minCount || k.fixed != k'.fixed then
        decide (k.minCount < k'.minCount) || (k.fixed && !k'.fixed)
      else if n != n' then vnLt n n'
      else false
  | .scalar c v, .scalar c' v' =>
      if c.pyEq c' then vnLt v v' else decide (constRepr c < constRepr c')
  | .id s v, .id s' v' => if s == s' then vnLt v v' else decide (s < s')
  | .cmpOp s v, .cmpOp s' v' => if s == s' then vnLt v v' else decide (s < s')
  | .op o as v, .op o' as' v' =>
      if o == o' then
        if MTerm.eqL as as' then vnLt v v'
        else decide (tupleRepr (MTerm.reprL as) < tupleRepr (MTerm.reprL as'))
      else decide (o.row.name < o'.row.name)
  | a, b => decide (a.typeName < b.typeName)

/-! ### CPython 3.12 `list.sort()` for n < 64 -/

section sort
variable {α : Type} (lt : α → α → Bool)

/-- length of the run after the first two elements: `prev` is the last element of the run -/
def runTail (desc : Bool) (prev : α) : List α → Nat
  | [] => 0
  | x :: xs =>
    if desc then (if lt x prev then 1 + runTail desc x xs else 0)
    else (if lt x prev then 0 else 1 + runTail desc x xs)

/-- `count_run`: (length of the leading natural run, is it strictly descending) -/
def countRun : List α → Nat × Bool
  | [] => (0, false)
  | [_] => (1, false)
  | a :: b :: rest =>
    let desc := lt b a
    (2 + runTail lt desc b rest, desc)

/-- the binary search of `binarysort`: the position in `[l, r)` of `sorted` where `pivot` goes -/
def binPos (pivot : α) (sorted : List α) : Nat → Nat → Nat → Nat
  | 0, l, _ => l
  | fuel + 1, l, r =>
    if l < r then
      let p := l + (r - l) / 2
      match sorted[p]? with
      | some x => if lt pivot x then binPos pivot sorted fuel l p else binPos pivot sorted fuel (p + 1) r
      | none => l
    else l

def insertAt (xs : List α) (i : Nat) (x : α) : List α := xs.take i ++ x :: xs.drop i

/-- `binarysort`: insert the remaining elements one by one into the sorted prefix -/
def binInsertAll (sorted : List α) : List α → List α
  | [] => sorted
  | x :: xs =>
    binInsertAll (insertAt sorted (binPos lt x sorted (sorted.length + 1) 0 sorted.length) x) xs

/-- `list.sort()` (exact for fewer than 64 elements: one run, extended by `binarysort`) -/
def pySort (xs : List α) : List α :=
  if xs.length < 2 then xs else
  let (n, desc) := countRun lt xs
  let run := xs.take n
  binInsertAll lt (if desc then run.reverse else run) (xs.drop n)

end sort

/-! ### constructing an operation: `_OperationMeta.__call__` -/

/-- `_simplify`, associative part: operands that are applications of the same class are replaced
by their operands -/
def flattenOps (o : MOp) : List MTerm → List MTerm
  | [] => []
  | .op o' as vn :: rest =>
      if o' == o then as ++ flattenOps o rest else .op o' as vn :: flattenOps o rest
  | t :: rest => t :: flattenOps o rest

/-- is the term a wildcard that is not a dot wildcard (one-identity does not apply to it) -/
def isSeqWild : MTerm → Bool
  | .wild k _ => !(k.minCount == 1 && k.fixed)
  | _ => false

/-- `cls(*operands)`: flatten (associative), one-identity, sort (commutative) -/
def mk (o : MOp) (args : List MTerm) : MTerm :=
  let r := o.row
  let a1 := if r.assoc then flattenOps o args else args
  let built := MTerm.op o (if r.comm then pySort MTerm.lt a1 else a1) none
  if r.oneId then
    match a1 with
    | [t] => if isSeqWild t then built else t
    | _ => built
  else built

/-! ### the two mappers -/

/-- exceptions of the bridge (`noClaim`: the model makes no statement) -/
inductive MErr where
  | unsupported        -- UnsupportedExpressionError: no handler on the MRO
  | notImplemented     -- NotImplementedError: abstract handler of the base Mapper reached
  | foreign            -- ValueError: invalid foreign object (str, None)
  | attrError          -- AttributeError: the term has no `_mapper_method` / the mapper no such method
  | typeError          -- TypeError: unhashable Multiset in `Mapper.rec`
  | noClaim
  deriving Repr, DecidableEq, Inhabited

abbrev MR := Except MErr

/-- `Subscript.index_tuple` -/
def indexTuple : Expr → List Expr
  | .tuple cs => cs
  | e => [e]

mutual
/-- `ToMatchpyExpressionMapper` (operands are converted left to right; the first refusal wins) -/
def toM : Expr → MR MTerm
  | .const (.int n) => pure (.scalar (.int n) none)
  | .const (.bool b) => pure (.scalar (.bool b) none)
  | .const (.flt r n d) => pure (.scalar (.flt r n d) none)
  | .const (.str _) => throw .foreign
  | .const .none => throw .foreign
  | .var x => pure (mk .variable [.id x none])
  | .call f as => do
      let f' ← toM f
      let as' ← toML as
      pure (mk .call [f', mk .tupleOp as'])
  | .subscript a (.tuple cs) => do
      let a' ← toM a
      let is' ← toML cs
      pure (mk .subscript [a', mk .tupleOp is'])
  | .subscript a i => do
      let a' ← toM a
      let i' ← toM i
      pure (mk .subscript [a', mk .tupleOp [i']])
  | .nary o cs =>
      match mopOfNary o with
      | some mo => do
          let cs' ← toML cs
          pure (mk mo cs')
      | none => throw .unsupported
  | .bin o a b => do
      let a' ← toM a
      let b' ← toM b
      pure (mk (mopOfBin o) [a', b'])
  | .un o a => do
      let a' ← toM a
      pure (mk (mopOfUn o) [a'])
  | .cmp o a b => do
      let a' ← toM a
      let b' ← toM b
      pure (mk .comparison [a', .cmpOp o.sym none, b'])
  | .ite c t e => do
      let c' ← toM c
      let t' ← toM t
      let e' ← toM e
      pure (mk .ite [c', t', e'])
  | .dotWild n => pure (.wild .dot (some n))
  | .starWild n => pure (.wild .star (some n))
  | .callKw .. => throw .notImplemented
  | .lookup .. => throw .notImplemented
  | .nan => throw .notImplemented
  | .wildcard => throw .notImplemented
  | .funcSym => throw .notImplemented
  | .tuple _ => throw .notImplemented
  | .list _ => throw .notImplemented
  | .cse .. => throw .unsupported
  | .subst .. => throw .unsupported
  | .deriv .. => throw .unsupported
  | .slice _ => throw .unsupported
def toML : List Expr → MR (List MTerm)
  | [] => pure []
  | c :: cs => do
      let c' ← toM c
      let cs' ← toML cs
      pure (c' :: cs')
end

mutual
/-- `FromMatchpyExpressionMapper` on the shapes the bridge builds (`noClaim` on every other
shape, e.g. a `Call` whose `args` is not a `TupleOp`) -/
def fromM : MTerm → MR Expr
  | .scalar c _ => pure (.const c)
  | .id .. => throw .attrError
  | .cmpOp .. => throw .attrError
  | .wild .. => throw .attrError
  | .op .variable [.id s _] _ => pure (.var s)
  | .op .variable [.cmpOp s _] _ => pure (.var s)        -- `expr.id.value` of any string atom
  | .op .variable [.op ..] _ => throw .attrError         -- an operation has no `.value`
  | .op .variable [.wild ..] _ => throw .attrError
  | .op .call [f, .op .tupleOp as _] _ => do
      let f' ← fromM f
      let as' ← fromML as
      pure (.call f' as')
  | .op .call [f, .op _ _ _] _ => do                      -- `expr.args._operands` of a non-TupleOp
      let _ ← fromM f
      throw .attrError
  | .op .call [f, .scalar ..] _ => do
      let _ ← fromM f
      throw .attrError
  | .op .call [f, .id ..] _ => do
      let _ ← fromM f
      throw .attrError
  | .op .call [f, .cmpOp ..] _ => do
      let _ ← fromM f
      throw .attrError
  | .op .call [f, .wild ..] _ => do
      let _ ← fromM f
      throw .attrError
  | .op .subscript [a, .op .tupleOp is _] _ => do
      let a' ← fromM a
      let is' ← fromML is
      pure (.subscript a' (.tuple is'))
  | .op .trueDiv [a, b] _ => do pure (.bin .quot (← fromM a) (← fromM b))
  | .op .floorDiv [a, b] _ => do pure (.bin .floordiv (← fromM a) (← fromM b))
  | .op .modulo [a, b] _ => do pure (.bin .rem (← fromM a) (← fromM b))
  | .op .power [a, b] _ => do pure (.bin .pow (← fromM a) (← fromM b))
  | .op .leftShift [a, b] _ => do pure (.bin .lshift (← fromM a) (← fromM b))
  | .op .rightShift [a, b] _ => do pure (.bin .rshift (← fromM a) (← fromM b))
  | .op .sum cs _ => do pure (.nary .sum (← fromML cs))
  | .op .product cs _ => do pure (.nary .prod (← fromML cs))
  | .op .logicalOr cs _ => do pure (.nary .lor (← fromML cs))
  | .op .logicalAnd cs _ => do pure (.nary .land (← fromML cs))
  | .op .bitwiseOr cs _ => do pure (.nary .bor (← fromML cs))
  | .op .bitwiseAnd cs _ => do pure (.nary .band (← fromML cs))
  | .op .bitwiseXor cs _ => do pure (.nary .bxor (← fromML cs))
  | .op .logicalNot [a] _ => do pure (.un .lnot (← fromM a))
  | .op .bitwiseNot [a] _ => do pure (.un .bnot (← fromM a))
  | .op .comparison [l, .cmpOp s _, r] _ => do
      let l' ← fromM l
      let r' ← fromM r
      match CmpOp.ofSym? s with
      | some o => pure (.cmp o l' r')
      | none => throw .noClaim
  | .op .ite [c, t, e] _ => do pure (.ite (← fromM c) (← fromM t) (← fromM e))
  | .op .tupleOp _ _ => throw .attrError
  | _ => throw .noClaim
def fromML : List MTerm → MR (List Expr)
  | [] => pure []
  | c :: cs => do
      let c' ← fromM c
      let cs' ← fromML cs
      pure (c' :: cs')
end

/-- the conversion round trip `FromMatchpyExpressionMapper()(ToMatchpyExpressionMapper()(e))` -/
def roundtrip (e : Expr) : MR Expr := toM e >>= fromM

/-! ### `ToFromReplacement.__call__`, and the substitution conversion of `match` -/

/-- a value of a matchpy substitution: one term (dot wildcard), a `Multiset` (sequence wildcard
below a commutative operation: `(element, multiplicity)` in iteration order), a tuple (sequence
wildcard elsewhere), or anything else -/
inductive MArg where
  | one (t : MTerm)
  | multiset (items : List (MTerm × Nat))
  | tuple (ts : List MTerm)
  | other
  deriving Repr, Inhabited

/-- what the user's callback receives -/
inductive PArg where
  | one (e : Expr)
  | multiset (items : List (Expr × Nat))
  | tuple (es : List Expr)
  deriving Repr, Inhabited

/-- `d[k] = v` on a Python dict (insertion-ordered; an existing `==` key keeps its place and its
key object, the value is OVERWRITTEN) -/
def dictSet (k : Expr) (v : Nat) : List (Expr × Nat) → List (Expr × Nat)
  | [] => [(k, v)]
  | (k', v') :: rest => if k'.pyEq k then (k', v) :: rest else (k', v') :: dictSet k v rest

/-- `{self.from_matchpy_expr(expr): count for expr, count in arg.items()}` -/
def convItems : List (MTerm × Nat) → List (Expr × Nat) → MR (List (Expr × Nat))
  | [], acc => pure acc
  | (t, n) :: rest, acc => do
      let e ← fromM t
      convItems rest (dictSet e n acc)

/-- one keyword argument of `ToFromReplacement.__call__`; `Multiset(mapping)` keeps the entries
with a positive multiplicity -/
def convArg : MArg → MR PArg
  | .one t => do pure (.one (← fromM t))
  | .multiset items => do
      let d ← convItems items []
      pure (.multiset (d.filter fun p => p.2 > 0))
  | .tuple ts => do pure (.tuple (← fromML ts))
  | .other => throw .notImplemented

def convArgs : List (String × MArg) → MR (List (String × PArg))
  | [] => pure []
  | (k, a) :: rest => do
      let a' ← convArg a
      let rest' ← convArgs rest
      pure ((k, a') :: rest')

/-- `ToFromReplacement(f, to, from)(**kwargs)` -/
def toFromReplacement (f : List (String × PArg) → Expr) (kwargs : List (String × MArg)) :
    MR MTerm := do
  let kw ← convArgs kwargs
  toM (f kw)

/-- `{name: from_matchpy_expr(expr) for name, expr in subst.items()}` in `match` /
`match_anywhere`: `Mapper.rec` hashes its argument (a `Multiset` is unhashable) and reads
`_mapper_method` (a tuple has none) -/
def matchConv : List (String × MArg) → MR (List (String × Expr))
  | [] => pure []
  | (k, a) :: rest => do
      let e ← match a with
        | .one t => fromM t
        | .multiset _ => throw .typeError
        | .tuple _ => throw .attrError
        | .other => throw .noClaim
      let rest' ← matchConv rest
      pure ((k, e) :: rest')

/-! ### wire format -/

def optToSexp : Option String → Sexp
  | some s => Sexp.str s
  | none => .atom "nil"

mutual
def MTerm.toSexp : MTerm → Sexp
  | .scalar c vn => Sexp.mk "Scalar" [c.toSexp, optToSexp vn]
  | .id s vn => Sexp.mk "Id" [Sexp.str s, optToSexp vn]
  | .cmpOp s vn => Sexp.mk "ComparisonOp" [Sexp.str s, optToSexp vn]
  | .wild k n => Sexp.mk "Wildcard" [Sexp.ofNat k.minCount, Sexp.ofBool k.fixed, optToSexp n]
  | .op o args vn => Sexp.mk o.row.name [.list (MTerm.toSexpL args), optToSexp vn]
def MTerm.toSexpL : List MTerm → List Sexp
  | [] => []
  | t :: ts => t.toSexp :: MTerm.toSexpL ts
end

def MOp.ofName? (s : String) : Option MOp := MOp.all.find? fun o => o.row.name == s

def constOfSexp? : Sexp → Option Const
  | s => match Expr.ofSexp? s with
    | some (.const c) => some c
    | _ => none

mutual
partial def MTerm.ofSexp? : Sexp → Option MTerm
  | .list [.atom "Scalar", c, vn] => do pure (.scalar (← constOfSexp? c) (← optStr? vn))
  | .list [.atom "Id", s, vn] => do pure (.id (← s.text) (← optStr? vn))
  | .list [.atom "ComparisonOp", s, vn] => do pure (.cmpOp (← s.text) (← optStr? vn))
  | .list [.atom "Wildcard", .atom "1", .atom "true", n] => do pure (.wild .dot (← optStr? n))
  | .list [.atom "Wildcard", .atom "0", .atom "false", n] => do pure (.wild .star (← optStr? n))
  | .list [.atom "Wildcard", .atom "1", .atom "false", n] => do pure (.wild .plus (← optStr? n))
  | .list [.atom h, .list args, vn] => do
      pure (.op (← MOp.ofName? h) (← MTerm.ofSexpL? args) (← optStr? vn))
  | _ => none
partial def MTerm.ofSexpL? : List Sexp → Option (List MTerm)
  | [] => some []
  | c :: cs => do pure ((← MTerm.ofSexp? c) :: (← MTerm.ofSexpL? cs))
end

def MErr.toSexp : MErr → Sexp
  | .unsupported => Sexp.mk "err" [.atom "UnsupportedExpressionError"]
  | .notImplemented => Sexp.mk "err" [.atom "NotImplementedError"]
  | .foreign => Sexp.mk "err" [.atom "ValueError"]
  | .attrError => Sexp.mk "err" [.atom "AttributeError"]
  | .typeError => Sexp.mk "err" [.atom "TypeError"]
  | .noClaim => Sexp.mk "noclaim" []

end PV.Matchpy
