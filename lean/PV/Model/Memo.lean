import PV.Model.PyEq
import PV.Model.Traverse
/-
  C05.  Memoizing mappers, generically.

  * `Prog`        : a handler (`map_*` method) as a first-order program: it returns, raises, or asks
                    the dispatcher (`self.rec`) for the result of another key and continues with
                    that result (so it may look at earlier results before asking for the next one).
  * `plain`       : the non-memoizing dispatcher (`Mapper.__call__`): plain recursion.
  * `callC`       : `CachedMapper.__call__` / `rec`: key computation (hashing may raise), look-aside
                    cache lookup, dispatch, store — the cache is threaded through the whole
                    recursion and survives exceptions, as it does on a Python mapper instance.
                    The state also records every COMPLETED handler computation (`log`) and the
                    hit/miss outcome of every cache lookup (`trace`).
  * `Key`, `ArgKey`: the concrete cache key `(type(expr), expr, args, immutabledict(kwargs))`.
  * `Code`, `Opts`, `optimize`: what `__call__` / `rec` / `get_cache_key` do, as a small syntax,
                    and the AST rewrites of `pymbolic.mapper.optimize.optimize_mapper` as functions
                    on it, with the cache keys each dispatch site computes.
-/
namespace PV.Memo
open PV

/-! ## Handlers as programs -/

inductive Prog (K X R : Type) where
  | ret : R → Prog K X R
  | fail : X → Prog K X R
  | call : K → (R → Prog K X R) → Prog K X R

abbrev Ans (X R : Type) := Except X R

variable {K X R : Type}

/-- run a handler body; `rec` answers the dispatch requests (`none` = out of fuel) -/
def interp (rec : K → Option (Ans X R)) : Prog K X R → Option (Ans X R)
  | .ret r => some (.ok r)
  | .fail x => some (.error x)
  | .call k cont => match rec k with
    | none => none
    | some (.error x) => some (.error x)
    | some (.ok r) => interp rec (cont r)

/-- ask for the results of a list of keys, left to right, then continue with all of them -/
def callAll : List K → (List R → Prog K X R) → Prog K X R
  | [], cont => cont []
  | k :: ks, cont => .call k fun r => callAll ks fun rs => cont (r :: rs)

/-- A mapper class, as far as memoization is concerned. -/
structure Spec (K X R : Type) where
  /-- equality of cache keys (`stored == query`) -/
  keq : K → K → Bool
  /-- the handler family: the `map_*` method the key is dispatched to -/
  h : K → Prog K X R
  /-- does the dispatcher consult the cache for this key (all keys for `CachedMapper`; only
  common-subexpression nodes for the CSE mix-in) -/
  cacheable : K → Bool := fun _ => true
  /-- hashing the key raises (a Python list inside the expression) -/
  unhashable : K → Option X := fun _ => none

/-- the non-memoizing counterpart: `Mapper.__call__` -/
def plain (S : Spec K X R) : Nat → K → Option (Ans X R)
  | 0, _ => none
  | n+1, k => interp (plain S n) (S.h k)

/-- State of one mapper instance. -/
structure St (K R : Type) where
  /-- `_cache`, newest entry first -/
  cache : List (K × R) := []
  /-- keys whose handler ran to completion through the caching dispatcher, newest first -/
  log : List K := []
  /-- every cache lookup: (was it a hit, key), newest first -/
  trace : List (Bool × K) := []

/-- `dict.get`: the first entry whose stored key equals the query -/
def lookup (keq : K → K → Bool) (k : K) : List (K × R) → Option R
  | [] => none
  | (k', r) :: rest => if keq k' k then some r else lookup keq k rest

/-- run a handler body with the caching dispatcher `rec` -/
def interpC (rec : K → St K R → Option (Ans X R × St K R)) :
    Prog K X R → St K R → Option (Ans X R × St K R)
  | .ret r, s => some (.ok r, s)
  | .fail x, s => some (.error x, s)
  | .call k cont, s => match rec k s with
    | none => none
    | some (.error x, s') => some (.error x, s')
    | some (.ok r, s') => interpC rec (cont r) s'

/-- `CachedMapper.__call__` (= `rec`) -/
def callC (S : Spec K X R) : Nat → K → St K R → Option (Ans X R × St K R)
  | 0, _, _ => none
  | n+1, k, s =>
    if S.cacheable k then
      match S.unhashable k with
      | some x => some (.error x, s)
      | none =>
        match lookup S.keq k s.cache with
        | some r => some (.ok r, { s with trace := (true, k) :: s.trace })
        | none =>
          match interpC (callC S n) (S.h k) { s with trace := (false, k) :: s.trace } with
          | none => none
          | some (.error x, s') => some (.error x, s')
          | some (.ok r, s') =>
            some (.ok r, { s' with cache := (k, r) :: s'.cache, log := k :: s'.log })
    else interpC (callC S n) (S.h k) s

/-- a history of top-level calls on ONE instance (each with fuel `n`) -/
def runHistC (S : Spec K X R) (n : Nat) : List K → St K R → List (Option (Ans X R)) × St K R
  | [], s => ([], s)
  | k :: ks, s =>
    match callC S n k s with
    | none => let (rs, s') := runHistC S n ks s; (none :: rs, s')
    | some (a, s1) => let (rs, s') := runHistC S n ks s1; (some a :: rs, s')

/-- how often a key (up to key equality) was computed -/
def countKey (keq : K → K → Bool) (k : K) (log : List K) : Nat :=
  (log.filter fun k' => keq k' k).length

/-- every dispatch request a handler body can make satisfies `P` (whatever results it is given) -/
inductive CallsOK (P : K → Prop) : Prog K X R → Prop where
  | ret (r : R) : CallsOK P (.ret r)
  | fail (x : X) : CallsOK P (.fail x)
  | call (k : K) (cont : R → Prog K X R) : P k → (∀ r, CallsOK P (cont r)) → CallsOK P (.call k cont)

/-! ## The concrete cache key -/

/-- extra arguments of a call: positional values and keyword values (insertion order) -/
structure ArgKey where
  args : List Const := []
  kwargs : List (String × Const) := []
  deriving Repr, Inhabited

/-- `tuple == tuple` on argument tuples -/
def constsEq : List Const → List Const → Bool
  | [], [] => true
  | a :: as, b :: bs => a.pyEq b && constsEq as bs
  | _, _ => false

def kwLookup (n : String) : List (String × Const) → Option Const
  | [] => none
  | (m, v) :: rest => if m = n then some v else kwLookup n rest

/-- `immutabledict == immutabledict` (keyword names are distinct): same size, same bindings -/
def kwEq (a b : List (String × Const)) : Bool :=
  a.length == b.length &&
    a.all fun p => match kwLookup p.1 b with
      | some w => p.2.pyEq w
      | none => false

def ArgKey.pyEq (a b : ArgKey) : Bool := constsEq a.args b.args && kwEq a.kwargs b.kwargs

/-- one dispatch: the expression and the extra arguments; the cache key is
`(type(expr), expr, args, immutabledict(kwargs))` -/
structure Key where
  expr : Expr
  args : ArgKey := {}
  deriving Inhabited

/-- equality of `CachedMapper` keys -/
def Key.eq (a b : Key) : Bool := a.expr.keyEq b.expr && a.args.pyEq b.args

/-- equality of `CSECachingMapperMixin` keys `(expr, *args)` -/
def Key.cseEq (a b : Key) : Bool := a.expr.pyEq b.expr && constsEq a.args.args b.args.args

def Key.isCse (k : Key) : Bool := match k.expr with | .cse .. => true | _ => false

/-- a `CachedMapper` subclass with handler family `h` -/
def cachedSpec {X R : Type} (h : Key → Prog Key X R) (typeError : X) : Spec Key X R where
  keq := Key.eq
  h := h
  unhashable := fun k => if k.expr.hasList then some typeError else none

/-- a plain mapper with the `CSECachingMapperMixin`: only common-subexpression nodes are looked up,
by `(expr, *args)` -/
def cseMixinSpec {X R : Type} (h : Key → Prog Key X R) (typeError : X) : Spec Key X R where
  keq := Key.cseEq
  h := h
  cacheable := Key.isCse
  unhashable := fun k => if k.expr.hasList then some typeError else none

/-! ## A stock mapper as a `Prog` family: `DependencyMapper` (flags as in C09), arguments are
passed along unchanged -/

def kids (k : Key) (es : List Expr) : List Key := es.map fun e => { expr := e, args := k.args }

def unionAll (rs : List (List Expr)) : List Expr := rs.foldl unionPy []

def depRet (e : Expr) : Prog Key DepErr (List Expr) :=
  if e.hasList then .fail .unhashable else .ret [e]

/-- `map_slice`: `None` parts are skipped -/
def sliceKids : List Expr → List Expr
  | [] => []
  | .const .none :: cs => sliceKids cs
  | c :: cs => c :: sliceKids cs

def depsProg (fl : DepFlags) (k : Key) : Prog Key DepErr (List Expr) :=
  let all (es : List Expr) : Prog Key DepErr (List Expr) :=
    callAll (kids k es) fun rs => .ret (unionAll rs)
  match k.expr with
  | .const (.str _) => .fail .foreign
  | .const .none => .fail .foreign
  | .const _ => .ret []
  | .var x => .ret [.var x]
  | .call f as =>
    match fl.calls with
    | .descend => all as
    | .yes => depRet (.call f as)
    | .no => all (f :: as)
  | .callKw f as ns vs =>
    match fl.calls with
    | .descend => all (as ++ vs)
    | .yes => depRet (.callKw f as ns vs)
    | .no => all (f :: (as ++ vs))
  | .lookup a n => if fl.lookups then depRet (.lookup a n) else all [a]
  | .subscript a i => if fl.subscripts then depRet (.subscript a i) else all [a, i]
  | .cse c p s =>
    if c.hasList then .fail .unhashable
    else if fl.cses then .ret [.cse c p s] else all [c]
  | .nary _ cs => all cs
  | .bin _ a b => all [a, b]
  | .un _ a => all [a]
  | .cmp _ a b => all [a, b]
  | .ite c t e => all [c, t, e]
  | .slice cs => all (sliceKids cs)
  | .tuple cs => all cs
  | .list cs => all cs
  | .nan => .ret []
  | .wildcard => .ret []
  | .dotWild _ => .ret []
  | .starWild _ => .ret []
  | .funcSym => .ret []
  | .subst .. => .fail .unsupported
  | .deriv .. => .fail .unsupported

/-- `CachedDependencyMapper` (memo table of `CachedMapper`) -/
def depsSpec (fl : DepFlags) : Spec Key DepErr (List Expr) := cachedSpec (depsProg fl) .unhashable

/-- a node counter as a `Prog` family: 1 + the counts of the children (`Expr.children` order) -/
def sizeProg (k : Key) : Prog Key DepErr Nat :=
  callAll (kids k k.expr.children) fun rs => .ret (1 + rs.foldl (· + ·) 0)

def sizeSpec : Spec Key DepErr Nat := cachedSpec sizeProg .unhashable

/-! ## The optimizer (`pymbolic.mapper.optimize.optimize_mapper`)

What matters for memoization is which cache keys a dispatch computes.  `Code` is the relevant part
of a mapper class: the signature and returned tuple of `get_cache_key`, the signature and body of
`__call__` (= `rec`), and the `self.rec(child, *args, **kwargs)` sites inside the handlers. -/

inductive KeyPart where
  | ty | expr | args | kwargs
  deriving Repr, DecidableEq

/-- does a function take `*args` / `**kwargs` -/
structure Sig where
  vararg : Bool := true
  kwarg : Bool := true
  deriving Repr, DecidableEq

inductive KeyExpr where
  /-- `self.get_cache_key(expr, *args, **kwargs)` (the flags: is `*args` / `**kwargs` passed) -/
  | getKeyCall (star dstar : Bool)
  /-- a literal tuple expression, e.g. `(type(expr), expr)` -/
  | tuple (parts : List KeyPart)
  deriving Repr, DecidableEq

inductive Disp where
  /-- `self.rec(expr, *args, **kwargs)`: a method call that lands in `__call__` -/
  | recCall (star dstar : Bool)
  /-- `method(expr, *args, **kwargs)` after `getattr(self, expr.mapper_method)` (or `rec_fallback`) -/
  | method (star dstar : Bool)
  /-- `result if (result := self._cache.get((cache_key := KEY), _NOT_IN_CACHE)) is not _NOT_IN_CACHE
  else _set_and_return(self._cache, cache_key, INNER)` -/
  | cached (key : KeyExpr) (inner : Disp)
  deriving Repr, DecidableEq

structure Code where
  getKeySig : Sig := {}
  getKeyBody : List KeyPart := [.ty, .expr, .args, .kwargs]
  callSig : Sig := {}
  callBody : Disp := .cached (.getKeyCall true true) (.method true true)
  handlerSig : Sig := {}
  recSite : Disp := .recCall true true
  deriving Repr, DecidableEq

/-- `CachedMapper` as written -/
def Code.stock : Code := {}

/-- a user subclass whose handlers take and forward exactly the extra arguments it uses
(`def map_sum(self, expr[, *args][, **kwargs])` … `self.rec(child[, *args][, **kwargs])`) and that
overrides `get_cache_key` accordingly: `def get_cache_key(self, expr[, *args][, **kwargs]): return (type(expr), expr[, args][,
immutabledict(kwargs)])` -/
def Code.user (keyArgs keyKwargs : Bool) : Code :=
  { getKeySig := { vararg := keyArgs, kwarg := keyKwargs },
    getKeyBody := [.ty, .expr] ++ (if keyArgs then [.args] else []) ++
      (if keyKwargs then [.kwargs] else []),
    handlerSig := { vararg := keyArgs, kwarg := keyKwargs },
    recSite := .recCall keyArgs keyKwargs }

structure Opts where
  dropArgs : Bool := false
  dropKwargs : Bool := false
  inlineRec : Bool := false
  inlineCache : Bool := false
  inlineGetCacheKey : Bool := false
  deriving Repr, DecidableEq

/-! ### the rewrites -/

def KeyExpr.dropStar (da dk : Bool) : KeyExpr → KeyExpr
  | .getKeyCall s d => .getKeyCall (s && !da) (d && !dk)
  | t => t

/-- `_VarArgsRemover.visit_Call`: starred arguments / `**` keywords are removed from every call -/
def Disp.dropStar (da dk : Bool) : Disp → Disp
  | .recCall s d => .recCall (s && !da) (d && !dk)
  | .method s d => .method (s && !da) (d && !dk)
  | .cached k i => .cached (k.dropStar da dk) (i.dropStar da dk)

def Sig.drop (da dk : Bool) (s : Sig) : Sig :=
  { vararg := s.vararg && !da, kwarg := s.kwarg && !dk }

/-- `drop_args` / `drop_kwargs`: `*args` / `**kwargs` disappear from every signature and every call
(the bodies are otherwise unchanged: a tuple that mentions `args` keeps mentioning it) -/
def Code.dropVarArgs (da dk : Bool) (c : Code) : Code :=
  { c with getKeySig := c.getKeySig.drop da dk, callSig := c.callSig.drop da dk,
           handlerSig := c.handlerSig.drop da dk,
           callBody := c.callBody.dropStar da dk, recSite := c.recSite.dropStar da dk }

def Code.dropArgs (c : Code) : Code := c.dropVarArgs true false
def Code.dropKwargs (c : Code) : Code := c.dropVarArgs false true

def KeyExpr.inlineKey (body : List KeyPart) : KeyExpr → KeyExpr
  | .getKeyCall _ _ => .tuple body
  | t => t

def Disp.inlineKey (body : List KeyPart) : Disp → Disp
  | .cached k i => .cached (k.inlineKey body) (i.inlineKey body)
  | d => d

/-- `_CacheKeyInliner`: every `self.get_cache_key(...)` call is replaced by the returned expression -/
def Code.inlineGetCacheKey (c : Code) : Code :=
  { c with callBody := c.callBody.inlineKey c.getKeyBody, recSite := c.recSite.inlineKey c.getKeyBody }

/-- `_RecInliner.visit_Call` on one `self.rec(...)` call: with `inline_rec` the method lookup is
done in place; with `inline_cache` the result is wrapped in a cache lookup whose key is the
hard-wired tuple `(type(expr), expr)` -/
def Disp.inlineRecCache (inlineRec inlineCache : Bool) : Disp → Disp
  | .recCall s d =>
    let inner := if inlineRec then Disp.method s d else Disp.recCall s d
    if inlineCache then .cached (.tuple [.ty, .expr]) inner else inner
  | .method s d => .method s d
  | .cached k i => .cached k (i.inlineRecCache inlineRec inlineCache)

def Code.inlineRec (c : Code) : Code :=
  { c with callBody := c.callBody.inlineRecCache true false,
           recSite := c.recSite.inlineRecCache true false }

def Code.inlineCache (c : Code) : Code :=
  { c with callBody := c.callBody.inlineRecCache false true,
           recSite := c.recSite.inlineRecCache false true }

/-- `optimize_mapper(**opts)(cls)`: per method, `_VarArgsRemover`, then `_CacheKeyInliner`, then
`_RecInliner` -/
def optimize (o : Opts) (c : Code) : Code :=
  let c := c.dropVarArgs o.dropArgs o.dropKwargs
  let c := if o.inlineGetCacheKey then c.inlineGetCacheKey else c
  { c with callBody := c.callBody.inlineRecCache o.inlineRec o.inlineCache,
           recSite := c.recSite.inlineRecCache o.inlineRec o.inlineCache }

/-! ### which keys a dispatch computes -/

inductive KVal where
  | ty (t : TypeTag)
  | expr (e : Expr)
  | args (a : List Const)
  | kwargs (k : List (String × Const))

/-- `==` on the components of key tuples -/
def KVal.eq : KVal → KVal → Bool
  | .ty a, .ty b => a == b
  | .expr a, .expr b => a.pyEq b
  | .args a, .args b => constsEq a b
  | .kwargs a, .kwargs b => kwEq a b
  | _, _ => false

/-- `tuple == tuple` -/
def tupleEq : List KVal → List KVal → Bool
  | [], [] => true
  | a :: as, b :: bs => a.eq b && tupleEq as bs
  | _, _ => false

inductive KErr where
  | nameError      -- `args` / `kwargs` is not defined in the rewritten function
  | typeError      -- unexpected positional / keyword argument
  deriving Repr, DecidableEq

/-- local variables of the executing method (`none`: the name is not bound) -/
structure Frame where
  expr : Expr
  args : Option (List Const)
  kwargs : Option (List (String × Const))

/-- calling a method with signature `sig` -/
def bindSig (sig : Sig) (e : Expr) (a : List Const) (kw : List (String × Const)) :
    Except KErr Frame :=
  if !sig.vararg && !a.isEmpty then .error .typeError
  else if !sig.kwarg && !kw.isEmpty then .error .typeError
  else .ok { expr := e, args := if sig.vararg then some a else none,
             kwargs := if sig.kwarg then some kw else none }

def Frame.part (f : Frame) : KeyPart → Except KErr KVal
  | .ty => .ok (.ty f.expr.typeTag)
  | .expr => .ok (.expr f.expr)
  | .args => match f.args with
    | some a => .ok (.args a)
    | none => .error .nameError
  | .kwargs => match f.kwargs with
    | some k => .ok (.kwargs k)
    | none => .error .nameError

def Frame.parts (f : Frame) : List KeyPart → Except KErr (List KVal)
  | [] => .ok []
  | p :: ps => do
    let v ← f.part p
    let vs ← f.parts ps
    pure (v :: vs)

/-- the values `*args` / `**kwargs` forward at a call -/
def Frame.star (f : Frame) (s : Bool) : Except KErr (List Const) :=
  if s then (match f.args with | some a => .ok a | none => .error .nameError) else .ok []

def Frame.dstar (f : Frame) (d : Bool) : Except KErr (List (String × Const)) :=
  if d then (match f.kwargs with | some k => .ok k | none => .error .nameError) else .ok []

def KeyExpr.eval (c : Code) (f : Frame) : KeyExpr → Except KErr (List KVal)
  | .tuple ps => f.parts ps
  | .getKeyCall s d => do
    let a ← f.star s
    let kw ← f.dstar d
    let g ← bindSig c.getKeySig f.expr a kw
    g.parts c.getKeyBody

/-- keys consulted (outermost first) by a dispatch expression that contains no `self.rec` -/
def Disp.keysFlat (c : Code) (f : Frame) : Disp → Except KErr (List (List KVal))
  | .recCall _ _ => .ok []
  | .method s d => do
    let a ← f.star s
    let kw ← f.dstar d
    let _ ← bindSig c.handlerSig f.expr a kw
    pure []
  | .cached k i => do
    let kv ← k.eval c f
    let rest ← i.keysFlat c f
    pure (kv :: rest)

/-- keys consulted (outermost first) by a dispatch expression; `self.rec` enters `__call__` -/
def Disp.keys (c : Code) (f : Frame) : Disp → Except KErr (List (List KVal))
  | .recCall s d => do
    let a ← f.star s
    let kw ← f.dstar d
    let g ← bindSig c.callSig f.expr a kw
    c.callBody.keysFlat c g
  | .method s d => Disp.keysFlat c f (.method s d)
  | .cached k i => do
    let kv ← k.eval c f
    let rest ← i.keys c f
    pure (kv :: rest)

/-- The cache keys one dispatch of `k` goes through: at top level (`mapper(expr, *args,
**kwargs)`), or at a `self.rec(...)` site inside a handler that itself received `k.args`. -/
def siteKeys (c : Code) (top : Bool) (k : Key) : Except KErr (List (List KVal)) :=
  if top then do
    let f ← bindSig c.callSig k.expr k.args.args k.args.kwargs
    c.callBody.keysFlat c f
  else do
    let f ← bindSig c.handlerSig k.expr k.args.args k.args.kwargs
    c.recSite.keys c f

/-- do two dispatches share a cache entry (some key of the one equals some key of the other) -/
def shares (ks1 ks2 : List (List KVal)) : Bool := ks1.any fun a => ks2.any fun b => tupleEq a b

/-- the documented / evident preconditions of an option set on a class and a call: dropped
`*args` / `**kwargs` are neither passed nor mentioned by `get_cache_key`; the hard-wired inlined key
`(type(expr), expr)` is the class's own key and no extra arguments are passed -/
def Allowed (o : Opts) (keyArgs keyKwargs : Bool) (k : Key) : Bool :=
  (!o.dropArgs || (!keyArgs && k.args.args.isEmpty)) &&
  (!o.dropKwargs || (!keyKwargs && k.args.kwargs.isEmpty)) &&
  (!o.inlineCache || (!keyArgs && !keyKwargs)) &&
  (keyArgs || k.args.args.isEmpty) && (keyKwargs || k.args.kwargs.isEmpty)

end PV.Memo
