/-
  PV/Model/OptCollect.lean — C05: how `optimize_mapper` gathers the methods of the class it flattens
  (pymbolic/mapper/optimize.py, `wrapper`, "gather relevant method definitions"), and what the
  flattened class body binds its names to.

      method_defs = {}                                   # name -> definition, insertion ordered
      for entry in cls_ast.body:
          if isinstance(entry, ast.FunctionDef): method_defs[entry.name] = entry
          else:                                  other_contents.append(entry)
      for name in dir(cls):
          if not name.startswith("__") or name == "__call__":
              method = getattr(cls, name)
              if isinstance(method, (property, cached_property)): continue
              method_ast = _get_ast_for_method(method)   # the source of the function Python resolved
              if name != method_ast.name: method_ast = _replace(method_ast, name=name)
              method_defs[method_ast.name] = method_ast
      ...
      body = [rewritten definitions, sorted by name] + other_contents

  A definition is represented by the identity `α` of its source text (the body the flattened class
  will run under that name).  Import-free.
-/
namespace PV.OptCollect

/-- `d[k] = v` on an insertion-ordered dictionary -/
def setD {α : Type} : List (String × α) → String → α → List (String × α)
  | [], k, v => [(k, v)]
  | (k', v') :: r, k, v => if k' == k then (k, v) :: r else (k', v') :: setD r k v

/-- `d.get(k)` -/
def getD {α : Type} : List (String × α) → String → Option α
  | [], _ => none
  | (k', v') :: r, k => if k' == k then some v' else getD r k

/-- `not name.startswith("__") or name == "__call__"` -/
def gathered (n : String) : Bool := !(n.startsWith "__") || n == "__call__"

/-- one name of `dir(cls)` with what `getattr(cls, name)` is: a property (skipped), or a function
with the identity of its source text and its `__name__` -/
structure DirRow (α : Type) where
  name : String
  isProperty : Bool
  body : α
  defName : String
deriving Repr, DecidableEq

/-- is the row one the loop writes into `method_defs`? -/
def DirRow.taken {α : Type} (r : DirRow α) : Bool := gathered r.name && !r.isProperty

/-- the loop over `dir(cls)`, started from the class's own definitions -/
def collect {α : Type} (own : List (String × α)) (dir : List (DirRow α)) : List (String × α) :=
  dir.foldl (fun d r => if r.taken then setD d r.name r.body else d) own

/-- the class namespace after the flattened body ran: the definitions, then the class-level
assignments `a = b` of the original body (`other_contents`), in order -/
def flatNamespace {α : Type} (defs : List (String × α)) (aliases : List (String × String)) :
    List (String × α) :=
  aliases.foldl (fun ns ab => match getD ns ab.2 with
                              | some v => setD ns ab.1 v
                              | none => ns) defs

/-- every assignment `a = b` of the class body binds `a` to what `b` is bound to in the class as
written (true of any class body Python has executed, as long as `b` is a gathered method name) -/
def AliasesAgree {α : Type} (dir : List (DirRow α)) (aliases : List (String × String)) : Prop :=
  ∀ ab ∈ aliases, ∀ r ∈ dir, r.taken = true → r.name = ab.1 →
    ∃ q ∈ dir, q.taken = true ∧ q.name = ab.2 ∧ q.body = r.body

/-! two tempting "optimisations" of the loop that are NOT the loop -/

/-- re-use a definition already collected under the function's own `__name__` instead of going back
to the source of the function that was resolved -/
def collectByDefName {α : Type} (own : List (String × α)) (dir : List (DirRow α)) :
    List (String × α) :=
  dir.foldl (fun d r => if r.taken then setD d r.name ((getD d r.defName).getD r.body) else d) own

/-- emit `alias = target` assignments (by `__name__`) instead of separate definitions: returns the
definitions and the assignments, the namespace is `flatNamespace` of both -/
def collectAliasing {α : Type} (own : List (String × α)) (dir : List (DirRow α)) :
    List (String × α) × List (String × String) :=
  dir.foldl (fun (da : List (String × α) × List (String × String)) r =>
      if r.taken then
        if r.name == r.defName then (setD da.1 r.name r.body, da.2)
        else (da.1, da.2 ++ [(r.name, r.defName)])
      else da) (own, [])

/-- One user class as read by `extract/optcollect.py`: the class AS WRITTEN (the definitions and the
class-level `a = b` assignments of its body, in order; every name of `dir(cls)` with what Python's
`getattr` resolves it to) and the class AS REWRITTEN by the live `optimize_mapper()` (the definitions
and assignments of the emitted class body, in order).  Source texts are numbered (`Nat`): equal
numbers = the same text up to the name of the definition. -/
structure ClassRow where
  cls : String
  own : List (String × Nat)
  aliases : List (String × String)
  dir : List (DirRow Nat)
  flatDefs : List (String × Nat)
  flatAliases : List (String × String)
deriving Repr, DecidableEq

/-- the names of a dictionary -/
def keysD {α : Type} (d : List (String × α)) : List String := d.map (·.1)

/-- two dictionaries answer every look-up of a name either of them has alike -/
def agreeD (a b : List (String × Nat)) : Bool :=
  (keysD a ++ keysD b).all (fun k => getD a k == getD b k)

/-- `dir(cls)` lists every name once -/
def distinctNames {α : Type} : List (DirRow α) → Bool
  | [] => true
  | r :: rs => rs.all (fun q => q.name != r.name) && distinctNames rs

/-- every class-level assignment `a = b` of the body binds `a` to what `b` is bound to (Boolean form
of `AliasesAgree`, on numbered texts) -/
def aliasesAgreeB (dir : List (DirRow Nat)) (aliases : List (String × String)) : Bool :=
  aliases.all (fun ab => dir.all (fun r =>
    !(r.taken && r.name == ab.1) ||
      dir.any (fun q => q.taken && q.name == ab.2 && q.body == r.body)))

/-- the flattened class resolves every gathered name to the text Python resolves it to on the class
as written -/
def resolvesB (flat : List (String × Nat)) (dir : List (DirRow Nat)) : Bool :=
  dir.all (fun r => !r.taken || getD flat r.name == some r.body)

end PV.OptCollect
