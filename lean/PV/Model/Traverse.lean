import PV.Model.Ops
/-
  Stock traversals as coded in pymbolic/mapper/__init__.py and friends:
    * `substM`      : SubstitutionMapper over IdentityMapper (C08), result + "is a new object" flag
    * `deps`        : DependencyMapper (C09)
    * `walk`        : WalkMapper event trace (C04)
    * `combineL`    : CombineMapper with list concatenation as `combine` (C04)
    * `numNodes`, `flops`, `flopsCse` (C09)
-/
namespace PV

/-- Python class name of a node (wire format and `skip` sets). -/
def Expr.kind : Expr → String
  | .const (.int _) => "int" | .const (.bool _) => "bool" | .const (.flt ..) => "float"
  | .const (.str _) => "str" | .const .none => "NoneType"
  | .var _ => "Variable"
  | .nary o _ => o.name
  | .bin o _ _ => o.name
  | .un o _ => o.name
  | .cmp .. => "Comparison" | .ite .. => "If" | .call .. => "Call" | .callKw .. => "CallWithKwargs"
  | .subscript .. => "Subscript" | .lookup .. => "Lookup" | .cse .. => "CommonSubexpression"
  | .subst .. => "Substitution" | .deriv .. => "Derivative" | .slice _ => "Slice" | .nan => "NaN"
  | .wildcard => "Wildcard" | .dotWild _ => "DotWildcard" | .starWild _ => "StarWildcard"
  | .funcSym => "FunctionSymbol" | .tuple _ => "tuple" | .list _ => "list"

/-! ### Substitution (C08) -/

/-- A substitution map as given to `substitute`: keys are names or expressions. -/
structure SubstMap where
  byExpr : List (Expr × Expr) := []
  byName : List (String × Expr) := []
  deriving Inhabited

def SubstMap.findExpr (σ : SubstMap) (e : Expr) : Option Expr :=
  match σ.byExpr.find? (fun p => p.1.pyEq e) with
  | some p => some p.2
  | none => none

def SubstMap.findName (σ : SubstMap) (x : String) : Option Expr :=
  match σ.byName.find? (fun p => p.1 == x) with
  | some p => some p.2
  | none => none

/-- `make_subst_func`: by expression, then (variables only) by name -/
def SubstMap.apply (σ : SubstMap) (e : Expr) : Option Expr :=
  match σ.findExpr e with
  | some r => some r
  | none => match e with
    | .var x => σ.findName x
    | _ => none

mutual
/-- result tree and whether it is a NEW object (`false` ⇒ the identical input object is returned) -/
def substM (σ : SubstMap) : Expr → Expr × Bool
  | .var x => match σ.apply (.var x) with
    | some r => (r, true)
    | none => (.var x, false)
  | .subscript a i => match σ.apply (.subscript a i) with
    | some r => (r, true)
    | none =>
      let (a', ca) := substM σ a
      let (i', ci) := substM σ i
      if ca || ci then (.subscript a' i', true) else (.subscript a i, false)
  | .lookup a n => match σ.apply (.lookup a n) with
    | some r => (r, true)
    | none =>
      let (a', ca) := substM σ a
      if ca then (.lookup a' n, true) else (.lookup a n, false)
  | .const c => (.const c, false)
  | .nary o cs =>
      let (cs', ch) := substL σ cs
      if ch then (.nary o cs', true) else (.nary o cs, false)
  | .bin o a b =>
      let (a', ca) := substM σ a
      let (b', cb) := substM σ b
      if ca || cb then (.bin o a' b', true) else (.bin o a b, false)
  | .un o a =>
      let (a', ca) := substM σ a
      if ca then (.un o a', true) else (.un o a, false)
  | .cmp o a b =>
      let (a', ca) := substM σ a
      let (b', cb) := substM σ b
      if ca || cb then (.cmp o a' b', true) else (.cmp o a b, false)
  | .ite c t e =>
      let (c', cc) := substM σ c
      let (t', ct) := substM σ t
      let (e', ce) := substM σ e
      if cc || ct || ce then (.ite c' t' e', true) else (.ite c t e, false)
  | .call f as =>
      let (f', cf) := substM σ f
      let (as', ca) := substL σ as
      if cf || ca then (.call f' as', true) else (.call f as, false)
  | .callKw f as ns vs =>
      let (f', cf) := substM σ f
      let (as', ca) := substL σ as
      let (vs', cv) := substL σ vs
      if cf || ca || cv then (.callKw f' as' ns vs', true) else (.callKw f as ns vs, false)
  | .cse c p s =>
      -- IdentityMapper.map_common_subexpression: a zero child collapses the wrapper to 0
      let (c', cc) := substM σ c
      if c'.isZero then (zero, true)
      else if cc then (.cse c' p s, true) else (.cse c p s, false)
  | .subst c vs xs =>
      let (c', cc) := substM σ c
      let (xs', cx) := substL σ xs
      if cc || cx then (.subst c' vs xs', true) else (.subst c vs xs, false)
  | .deriv c vs =>
      let (c', cc) := substM σ c
      if cc then (.deriv c' vs, true) else (.deriv c vs, false)
  | .slice cs =>
      let (cs', ch) := substL σ cs
      if ch then (.slice cs', true) else (.slice cs, false)
  | .tuple cs =>
      let (cs', ch) := substL σ cs
      if ch then (.tuple cs', true) else (.tuple cs, false)
  | .list cs => ((.list (substL σ cs).1), true)        -- map_list always builds a new list
  | .nan => (.nan, false)
  | .wildcard => (.wildcard, false)
  | .dotWild n => (.dotWild n, false)
  | .starWild n => (.starWild n, false)
  | .funcSym => (.funcSym, false)
def substL (σ : SubstMap) : List Expr → List Expr × Bool
  | [] => ([], false)
  | c :: cs =>
      let (c', cc) := substM σ c
      let (cs', ccs) := substL σ cs
      (c' :: cs', cc || ccs)
end

/-! ### Dependencies (C09) -/

inductive CallMode where
  | yes | no | descend
  deriving Repr, DecidableEq, Inhabited

structure DepFlags where
  subscripts : Bool := true
  lookups : Bool := true
  calls : CallMode := .yes
  cses : Bool := false
  deriving Repr, Inhabited

/-- left-biased union of sets represented as duplicate-free lists under Python `==` -/
def unionPy (a b : List Expr) : List Expr :=
  b.foldl (fun acc x => if acc.any (fun y => y.pyEq x) then acc else acc ++ [x]) a

inductive DepErr where
  | unsupported            -- UnsupportedExpressionError / NotImplementedError
  | foreign
  | unhashable             -- TypeError from the CSE cache
  deriving Repr, DecidableEq, Inhabited

/-- a one-element result set `{e}`: building it hashes `e` -/
def depSingle (e : Expr) : Except DepErr (List Expr) :=
  if e.hasList then throw .unhashable else pure [e]

mutual
def deps (fl : DepFlags) : Expr → Except DepErr (List Expr)
  | .const (.str _) => throw .foreign
  | .const .none => throw .foreign
  | .const _ => pure []
  | .var x => pure [.var x]
  | .call f as =>
    match fl.calls with
    | .descend => depsL fl as
    | .yes => depSingle (.call f as)
    | .no => do
        let a ← deps fl f
        let b ← depsL fl as
        pure (unionPy a b)
  | .callKw f as ns vs =>
    match fl.calls with
    | .descend => do
        let a ← depsL fl as
        let b ← depsL fl vs
        pure (unionPy a b)
    | .yes => depSingle (.callKw f as ns vs)
    | .no => do
        let a ← deps fl f
        let b ← depsL fl as
        let c ← depsL fl vs
        pure (unionPy (unionPy a b) c)
  | .lookup a n => if fl.lookups then depSingle (.lookup a n) else deps fl a
  | .subscript a i =>
    if fl.subscripts then depSingle (.subscript a i) else do
      let x ← deps fl a
      let y ← deps fl i
      pure (unionPy x y)
  | .cse c p s =>
    if c.hasList then throw .unhashable
    else if fl.cses then pure [.cse c p s] else deps fl c
  | .nary _ cs => depsL fl cs
  | .bin _ a b => do
      let x ← deps fl a
      let y ← deps fl b
      pure (unionPy x y)
  | .un _ a => deps fl a
  | .cmp _ a b => do
      let x ← deps fl a
      let y ← deps fl b
      pure (unionPy x y)
  | .ite c t e => do
      let x ← deps fl c
      let y ← deps fl t
      let z ← deps fl e
      pure (unionPy (unionPy x y) z)
  | .slice cs => depsSlice fl cs
  | .tuple cs => depsL fl cs
  | .list cs => depsL fl cs
  | .nan => pure []
  | .wildcard => pure []
  | .dotWild _ => pure []
  | .starWild _ => pure []
  | .funcSym => pure []
  | .subst .. => throw .unsupported
  | .deriv .. => throw .unsupported
def depsL (fl : DepFlags) : List Expr → Except DepErr (List Expr)
  | [] => pure []
  | c :: cs => do
      let x ← deps fl c
      let y ← depsL fl cs
      pure (unionPy x y)
/-- `map_slice`: `None` parts are skipped -/
def depsSlice (fl : DepFlags) : List Expr → Except DepErr (List Expr)
  | [] => pure []
  | .const .none :: cs => depsSlice fl cs
  | c :: cs => do
      let x ← deps fl c
      let y ← depsSlice fl cs
      pure (unionPy x y)
end

/-! ### WalkMapper (C04) -/

structure Event where
  post : Bool            -- false = visit, true = post_visit
  node : Expr
  args : Bool            -- were the extra positional/keyword arguments passed along?
  deriving Inhabited

/-- visit, children (unless `visit` returned False), post_visit -/
def wrapWalk (skip : List String) (args : Bool) (e : Expr) (inner : Except DepErr (List Event)) :
    Except DepErr (List Event) :=
  if skip.contains e.kind then pure [⟨false, e, args⟩]
  else do
    let i ← inner
    pure (⟨false, e, args⟩ :: i ++ [⟨true, e, args⟩])

def leafWalk (args : Bool) (e : Expr) : Except DepErr (List Event) :=
  pure [⟨false, e, args⟩, ⟨true, e, args⟩]

mutual
/-- the sequence of `visit` / `post_visit` calls made by a `WalkMapper` whose `visit` returns
`False` exactly on the node kinds in `skip`; `args` is whether this call received the extra
arguments -/
def walk (skip : List String) (args : Bool) : Expr → Except DepErr (List Event)
  | .const (.str _) => throw .foreign
  | .const .none => throw .foreign
  | .const c => leafWalk args (.const c)
  | .var x => leafWalk args (.var x)
  | .wildcard => leafWalk args .wildcard
  | .dotWild n => leafWalk args (.dotWild n)
  | .starWild n => leafWalk args (.starWild n)
  | .funcSym => leafWalk args .funcSym
  | .nan => leafWalk args .nan
  | .nary o cs => wrapWalk skip args (.nary o cs) (walkL skip args cs)
  | .bin .lshift a b => wrapWalk skip args (.bin .lshift a b) (do   -- shift first, as coded
      let x ← walk skip args b
      let y ← walk skip args a
      pure (x ++ y))
  | .bin .rshift a b => wrapWalk skip args (.bin .rshift a b) (do
      let x ← walk skip args b
      let y ← walk skip args a
      pure (x ++ y))
  | .bin o a b => wrapWalk skip args (.bin o a b) (do
      let x ← walk skip args a
      let y ← walk skip args b
      pure (x ++ y))
  | .un o a => wrapWalk skip args (.un o a) (walk skip args a)
  | .cmp o a b => wrapWalk skip args (.cmp o a b) (do
      let x ← walk skip args a
      let y ← walk skip args b
      pure (x ++ y))
  | .ite c t e => wrapWalk skip args (.ite c t e) (do
      let x ← walk skip args c
      let y ← walk skip args t
      let z ← walk skip args e
      pure (x ++ y ++ z))
  | .call f as => wrapWalk skip args (.call f as) (do
      let x ← walk skip args f
      let y ← walkL skip args as
      pure (x ++ y))
  | .callKw f as ns vs => wrapWalk skip args (.callKw f as ns vs) (do
      let x ← walk skip args f
      let y ← walkL skip args as
      let z ← walkL skip args vs
      pure (x ++ y ++ z))
  | .subscript a i => wrapWalk skip args (.subscript a i) (do
      let x ← walk skip args a
      let y ← walk skip args i
      pure (x ++ y))
  | .lookup a n => wrapWalk skip args (.lookup a n) (walk skip args a)
  | .cse c p s => wrapWalk skip args (.cse c p s) (walk skip args c)
  | .deriv c vs => wrapWalk skip args (.deriv c vs) (walk skip args c)
  | .tuple cs => wrapWalk skip args (.tuple cs) (walkL skip args cs)
  | .list cs => wrapWalk skip args (.list cs) (walkL skip args cs)
  | .slice cs => wrapWalk skip args (.slice cs) (walkSlice skip args cs)
  | .subst c vs xs => wrapWalk skip args (.subst c vs xs) (do
      let x ← walk skip args c
      let y ← walkL skip args xs
      pure (x ++ y))
def walkL (skip : List String) (args : Bool) : List Expr → Except DepErr (List Event)
  | [] => pure []
  | c :: cs => do
      let x ← walk skip args c
      let y ← walkL skip args cs
      pure (x ++ y)
/-- `map_slice`: every child that is not `None`, once, in order -/
def walkSlice (skip : List String) (args : Bool) : List Expr → Except DepErr (List Event)
  | [] => pure []
  | c :: cs => do
      let x ← walkOpt skip args c
      let y ← walkSlice skip args cs
      pure (x ++ y)
def walkOpt (skip : List String) (args : Bool) : Expr → Except DepErr (List Event)
  | .const .none => pure []
  | e => walk skip args e
end

/-! ### CombineMapper with list concatenation (C04): which children are folded, in which order -/

mutual
def combineL : Expr → Except DepErr (List Expr)
  | .const (.str _) => throw .foreign
  | .const .none => throw .foreign
  | .const c => pure [.const c]
  | .var x => pure [.var x]
  | .wildcard => pure [.wildcard]
  | .dotWild n => pure [.dotWild n]
  | .starWild n => pure [.starWild n]
  | .funcSym => pure [.funcSym]
  | .nan => throw .unsupported
  | .nary _ cs => combineLL cs
  | .bin _ a b => do pure ((← combineL a) ++ (← combineL b))
  | .un _ a => combineL a
  | .cmp _ a b => do pure ((← combineL a) ++ (← combineL b))
  | .ite c t e => do pure ((← combineL c) ++ (← combineL t) ++ (← combineL e))
  | .call f as => do pure ((← combineL f) ++ (← combineLL as))
  | .callKw f as _ vs => do pure ((← combineL f) ++ (← combineLL as) ++ (← combineLL vs))
  | .subscript a i => do pure ((← combineL a) ++ (← combineL i))
  | .lookup a _ => combineL a
  | .cse c _ _ => combineL c
  | .tuple cs => combineLL cs
  | .list cs => combineLL cs
  | .slice _ => throw .unsupported
  | .subst .. => throw .unsupported
  | .deriv .. => throw .unsupported
def combineLL : List Expr → Except DepErr (List Expr)
  | [] => pure []
  | c :: cs => do pure ((← combineL c) ++ (← combineLL cs))
end

/-! ### node count and flop counters (C09) -/

def dedupBy (eq : Expr → Expr → Bool) (xs : List Expr) : List Expr :=
  xs.foldl (fun acc x => if acc.any (fun y => eq y x) then acc else acc ++ [x]) []

/-- `get_num_nodes`: distinct `(type, node)` keys reached by the cached walk -/
def numNodes (e : Expr) : Except DepErr Nat :=
  if e.hasList then throw .unhashable
  else do
    let ev ← walk [] false e
    pure (dedupBy Expr.keyEq ((ev.filter (·.post)).map (·.node))).length

mutual
/-- `FlopCounterBase` handlers; `seen` is the CSE seen-set of `CSEAwareFlopCounter`
(`cseAware = false`: plain `FlopCounter`) -/
def flopsG (cseAware : Bool) : Expr → List Expr → Except DepErr (Nat × List Expr)
  | .const (.str _), _ => throw .foreign
  | .const .none, _ => throw .foreign
  | .const _, seen => pure (0, seen)
  | .var _, seen => pure (0, seen)
  | .nary .sum cs, seen => do
      let (n, seen') ← flopsL cseAware cs seen
      pure (n + (cs.length - 1), seen')
  | .nary .prod cs, seen => do
      let (n, seen') ← flopsL cseAware cs seen
      pure (n + (cs.length - 1), seen')
  | .nary _ cs, seen => flopsL cseAware cs seen
  | .bin .quot a b, seen => do
      let (x, s1) ← flopsG cseAware a seen
      let (y, s2) ← flopsG cseAware b s1
      pure (1 + x + y, s2)
  | .bin .floordiv a b, seen => do
      let (x, s1) ← flopsG cseAware a seen
      let (y, s2) ← flopsG cseAware b s1
      pure (1 + x + y, s2)
  | .bin .pow a b, seen => do
      let (x, s1) ← flopsG cseAware a seen
      let (y, s2) ← flopsG cseAware b s1
      pure (1 + x + y, s2)
  | .bin _ a b, seen => do
      let (x, s1) ← flopsG cseAware a seen
      let (y, s2) ← flopsG cseAware b s1
      pure (x + y, s2)
  | .un _ a, seen => flopsG cseAware a seen
  | .cmp _ a b, seen => do
      let (x, s1) ← flopsG cseAware a seen
      let (y, s2) ← flopsG cseAware b s1
      pure (x + y, s2)
  | .ite c t e, seen => do
      let (x, s1) ← flopsG cseAware c seen
      let (y, s2) ← flopsG cseAware t s1
      let (z, s3) ← flopsG cseAware e s2
      pure (x + y + z, s3)
  | .call f as, seen => do
      let (x, s1) ← flopsG cseAware f seen
      let (y, s2) ← flopsL cseAware as s1
      pure (x + y, s2)
  | .callKw f as _ vs, seen => do
      let (x, s1) ← flopsG cseAware f seen
      let (y, s2) ← flopsL cseAware as s1
      let (z, s3) ← flopsL cseAware vs s2
      pure (x + y + z, s3)
  | .subscript a i, seen => do
      let (x, s1) ← flopsG cseAware a seen
      let (y, s2) ← flopsG cseAware i s1
      pure (x + y, s2)
  | .lookup a _, seen => flopsG cseAware a seen
  | .cse c p s, seen =>
      if cseAware then
        if c.hasList then throw .unhashable
        else if seen.any (fun k => k.pyEq (.cse c p s)) then pure (0, seen)
        else flopsG cseAware c (seen ++ [.cse c p s])
      else flopsG cseAware c seen
  | .tuple cs, seen => flopsL cseAware cs seen
  | .list cs, seen => flopsL cseAware cs seen
  | _, _ => throw .unsupported
def flopsL (cseAware : Bool) : List Expr → List Expr → Except DepErr (Nat × List Expr)
  | [], seen => pure (0, seen)
  | c :: cs, seen => do
      let (x, s1) ← flopsG cseAware c seen
      let (y, s2) ← flopsL cseAware cs s1
      pure (x + y, s2)
end

end PV
