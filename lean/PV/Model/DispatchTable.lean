import PV.Model.Dispatch
/-
  C04, T-gen of the dispatch CODE.  `extract/dispatch.py` reads the source of `Mapper.__call__`
  and `Mapper.rec_fallback` (pymbolic/mapper/__init__.py) statement by statement into the small
  statement language below (`lean/PV/Generated/Dispatch.lean`); a statement shape the reader does
  not know is an `ExtractError`.  `dRun` is the interpreter of that language: what the statements
  do on an object described the way the dispatch model (`PV/Model/Dispatch.lean`) describes it —
  an expression by the `mapper_method` values along the MRO of its class (most derived first), a
  foreign object by its kind — for a mapper given by the handler names it implements.

  The language has NO statement that reads or writes anything but the three locals
  `method_name`, `method`, `result` and the loop variable `cls`: a dispatch routine that keeps
  state between calls (module-level / class-level / instance-level memo tables) is not expressible
  and is therefore an extraction error, never a table.
-/
namespace PV

/-- whose `mapper_method` attribute is read -/
inductive DAttrOf where
  | expr       -- `getattr(expr, "mapper_method", None)`
  | cls        -- `getattr(cls, "mapper_method", None)`  (the loop variable)
  deriving Repr, DecidableEq, Inhabited

inductive DVar where
  | methodName | method
  deriving Repr, DecidableEq, Inhabited

inductive DCond where
  | isNotNone (v : DVar)       -- `v is not None`
  | truthy (v : DVar)          -- `v`
  | isExpression               -- `isinstance(expr, primitives.Expression)`
  deriving Repr, DecidableEq, Inhabited

/-- one statement of a dispatch routine; every call passes `(expr, *args, **kwargs)` on unchanged
(the reader refuses anything else) -/
inductive DStmt where
  | getName (of : DAttrOf)         -- `method_name = getattr(<of>, "mapper_method", None)`
  | getMethod                      -- `method = getattr(self, method_name, None)`
  | callAssign                     -- `result = method(expr, *args, **kwargs)`
  | returnResult                   -- `return result`
  | returnCall                     -- `return method(expr, *args, **kwargs)`
  | returnHook                     -- `return self.handle_unsupported_expression(expr, *args, **kwargs)`
  | returnForeign                  -- `return self.map_foreign(expr, *args, **kwargs)`
  | ifS (c : DCond) (body orelse : List DStmt)
  | forMro (skip : Nat) (body orelse : List DStmt)
      -- `for cls in type(expr).__mro__[skip:]: body` + `else: orelse`
  deriving Repr, Inhabited

/-- `combine` of a stock combine mapper, as the source has it -/
inductive C04CombineBody where
  | notImplemented     -- `raise NotImplementedError`
  | reduceOr           -- `return reduce(operator.or_, values, set())` (both names the standard ones)
  | sum                -- `return sum(values)`
  deriving Repr, DecidableEq, Inhabited

/-- the dispatch routines of `pymbolic.mapper.Mapper` as read from the source -/
structure C04DispatchSource where
  /-- parameter list of `__call__` is `(self, expr, *args, **kwargs)` -/
  callSig : Bool
  /-- statements of `Mapper.__call__` (docstring dropped) -/
  call : List DStmt
  /-- parameter list of `rec_fallback` is `(self, expr, *args, **kwargs)` -/
  fallbackSig : Bool
  /-- statements of `Mapper.rec_fallback` -/
  fallback : List DStmt
  /-- `Mapper.rec is Mapper.__call__` (class body: `rec = __call__`) -/
  recIsCall : Bool
  /-- the mapper classes of `pymbolic.mapper` that define `__call__` / `rec` / `rec_fallback`
  themselves (class, attribute), sorted -/
  overriders : List (String × String)
  deriving Repr, Inhabited

/-- the object a dispatch routine is run on -/
inductive DInput where
  | expr (mro : List (Option String))   -- an `Expression`: `mapper_method` along the MRO
  | foreign (k : ForeignKind)           -- anything else (no `mapper_method` attribute)
  deriving Repr, Inhabited

/-- a local: not yet assigned / `None` / a value (a handler NAME; for `method` the bound method of
that name) -/
inductive DVal where
  | unbound | pyNone | val (s : String)
  deriving Repr, DecidableEq, Inhabited

structure DState where
  methodName : DVal := .unbound
  method : DVal := .unbound
  result : DVal := .unbound
  cls : Option (Option String) := none       -- the loop variable: its `mapper_method` value
  deriving Repr, Inhabited

inductive DRun where
  | ret (r : DispatchResult)    -- the routine returned what `r` stands for
  | fellOff                     -- end of the body reached: returns `None`
  | stuck                       -- NameError / call of `None`: outside the model
  deriving Repr, DecidableEq, Inhabited

inductive DStep where
  | cont (st : DState)
  | done (r : DRun)
  deriving Repr, Inhabited

def DVal.ofOpt : Option String → DVal
  | some s => .val s
  | none => .pyNone

def DInput.mro : DInput → List (Option String)
  | .expr mro => mro
  | .foreign _ => []

/-- `getattr(expr, "mapper_method", None)`: an expression's own class is the head of its MRO -/
def DInput.ownName : DInput → DVal
  | .expr mro => .ofOpt mro.head?.join
  | .foreign _ => .pyNone

def DState.get (st : DState) : DVar → DVal
  | .methodName => st.methodName
  | .method => st.method

/-- truth value of a condition; `none` = the variable is unbound.  A handler name is truthy iff it
is non-empty; a bound method is always truthy. -/
def dCond (inp : DInput) (st : DState) : DCond → Option Bool
  | .isNotNone v =>
    match st.get v with
    | .unbound => none
    | .pyNone => some false
    | .val _ => some true
  | .truthy v =>
    match st.get v with
    | .unbound => none
    | .pyNone => some false
    | .val s => some (match v with | .methodName => s != "" | .method => true)
  | .isExpression => some (match inp with | .expr _ => true | .foreign _ => false)

/-- the loop: `body` once per class, leaving as soon as it returns -/
def dLoop (body : DState → DStep) : DState → List (Option String) → DStep
  | st, [] => .cont st
  | st, c :: cs =>
    match body { st with cls := some c } with
    | .cont st' => dLoop body st' cs
    | .done r => .done r

mutual
def dExecStmt (hs : List String) (inp : DInput) (st : DState) : DStmt → DStep
  | .getName .expr => .cont { st with methodName := inp.ownName }
  | .getName .cls =>
    match st.cls with
    | some c => .cont { st with methodName := .ofOpt c }
    | none => .done .stuck
  | .getMethod =>
    match st.methodName with
    | .val m => .cont { st with method := if hs.contains m then .val m else .pyNone }
    | _ => .done .stuck
  | .callAssign =>
    match st.method with
    | .val m => .cont { st with result := .val m }
    | _ => .done .stuck
  | .returnResult =>
    match st.result with
    | .val m => .done (.ret (.handler m))
    | _ => .done .stuck
  | .returnCall =>
    match st.method with
    | .val m => .done (.ret (.handler m))
    | _ => .done .stuck
  | .returnHook => .done (.ret .unsupported)
  | .returnForeign =>
    match inp with
    | .foreign k => .done (.ret (dispatchForeign k))
    | .expr _ => .done .stuck
  | .ifS c body orelse =>
    match dCond inp st c with
    | some true => dExecBlock hs inp st body
    | some false => dExecBlock hs inp st orelse
    | none => .done .stuck
  | .forMro skip body orelse =>
    match dLoop (fun s => dExecBlock hs inp s body) st (inp.mro.drop skip) with
    | .cont st' => dExecBlock hs inp st' orelse
    | .done r => .done r

def dExecBlock (hs : List String) (inp : DInput) (st : DState) : List DStmt → DStep
  | [] => .cont st
  | s :: rest =>
    match dExecStmt hs inp st s with
    | .cont st' => dExecBlock hs inp st' rest
    | .done r => .done r
end

/-- run a routine from fresh locals -/
def dRun (prog : List DStmt) (hs : List String) (inp : DInput) : DRun :=
  match dExecBlock hs inp {} prog with
  | .cont _ => .fellOff
  | .done r => r

/-- the table the dispatch model (`dispatchExpr`, `dispatchFallback`) was written against:

```
def __call__(self, expr, *args, **kwargs):
    method_name = getattr(expr, "mapper_method", None)
    if method_name is not None:
        method = getattr(self, method_name, None)
        if method is not None:
            result = method(expr, *args, **kwargs)
            return result
    if isinstance(expr, primitives.Expression):
        for cls in type(expr).__mro__[1:]:
            method_name = getattr(cls, "mapper_method", None)
            if method_name:
                method = getattr(self, method_name, None)
                if method:
                    return method(expr, *args, **kwargs)
        else:
            return self.handle_unsupported_expression(expr, *args, **kwargs)
    else:
        return self.map_foreign(expr, *args, **kwargs)
rec = __call__
```
and `rec_fallback` = the second `if` alone. -/
def dispatchLoopBodyLit : List DStmt :=
  [.getName .cls,
   .ifS (.truthy .methodName)
     [.getMethod,
      .ifS (.truthy .method) [.returnCall] []] []]

def dispatchTailLit : List DStmt :=
  [.ifS .isExpression
     [.forMro 1 dispatchLoopBodyLit [.returnHook]]
     [.returnForeign]]

def dispatchSourceLit : C04DispatchSource :=
  { callSig := true,
    call :=
      [.getName .expr,
       .ifS (.isNotNone .methodName)
         [.getMethod,
          .ifS (.isNotNone .method) [.callAssign, .returnResult] []] []] ++ dispatchTailLit,
    fallbackSig := true,
    fallback := dispatchTailLit,
    recIsCall := true,
    overriders := [("CachedMapper", "__call__"), ("CachedMapper", "rec"),
      ("CachingMapperMixin", "__call__"), ("CachingMapperMixin", "rec"), ("Mapper", "__call__"),
      ("Mapper", "rec"), ("Mapper", "rec_fallback")] }

end PV
