import PV.Model.Sexp
/-
  The expression IR of pymbolic as one nested inductive type.

  One constructor per *shape* of node class; the class is a tag:
    nary  : Sum Product BitwiseOr BitwiseXor BitwiseAnd LogicalOr LogicalAnd Min Max
    bin   : Quotient FloorDiv Remainder Power LeftShift RightShift
    un    : BitwiseNot LogicalNot
  plus Call, CallWithKwargs (keyword names and values as two parallel lists, insertion order),
  Subscript, Lookup, Comparison, If, CommonSubexpression, Substitution, Derivative, Slice
  (`None` parts are `const none`), NaN, wildcards, FunctionSymbol, and the foreign containers
  tuple / list.  Constants: int, bool, float (its repr and the exact rational value num/den of the double;
  den = 0 for nan/inf), str, None.
-/
namespace PV

inductive Const where
  | int (n : Int)
  | bool (b : Bool)
  | flt (repr : String) (num : Int) (den : Nat)
  | str (s : String)
  | none
  deriving Repr, DecidableEq, Inhabited, Hashable

inductive NaryOp where
  | sum | prod | bor | bxor | band | lor | land | min | max
  deriving Repr, DecidableEq, Inhabited, Hashable

inductive BinOp where
  | quot | floordiv | rem | pow | lshift | rshift
  deriving Repr, DecidableEq, Inhabited, Hashable

inductive UnOp where
  | bnot | lnot
  deriving Repr, DecidableEq, Inhabited, Hashable

inductive CmpOp where
  | eq | ne | lt | le | gt | ge
  deriving Repr, DecidableEq, Inhabited, Hashable

inductive Expr where
  | const (c : Const)
  | var (name : String)
  | nary (op : NaryOp) (cs : List Expr)
  | bin (op : BinOp) (a b : Expr)
  | un (op : UnOp) (a : Expr)
  | cmp (op : CmpOp) (a b : Expr)
  | ite (c t e : Expr)
  | call (f : Expr) (args : List Expr)
  | callKw (f : Expr) (args : List Expr) (kwNames : List String) (kwVals : List Expr)
  | subscript (a i : Expr)
  | lookup (a : Expr) (name : String)
  | cse (child : Expr) (pfx : Option String) (scope : String)
  | subst (child : Expr) (vars : List String) (vals : List Expr)
  | deriv (child : Expr) (vars : List String)
  | slice (cs : List Expr)
  | nan
  | wildcard
  | dotWild (name : String)
  | starWild (name : String)
  | funcSym
  | tuple (cs : List Expr)
  | list (cs : List Expr)
  deriving Repr, Inhabited

/-! Structural (Lean) equality as a Boolean function; `decEq` is derived from it below. -/
mutual
def Expr.beq : Expr → Expr → Bool
  | .const a, .const b => a == b
  | .var a, .var b => a == b
  | .nary o cs, .nary o' cs' => o == o' && Expr.beqL cs cs'
  | .bin o a b, .bin o' a' b' => o == o' && Expr.beq a a' && Expr.beq b b'
  | .un o a, .un o' a' => o == o' && Expr.beq a a'
  | .cmp o a b, .cmp o' a' b' => o == o' && Expr.beq a a' && Expr.beq b b'
  | .ite c t e, .ite c' t' e' => Expr.beq c c' && Expr.beq t t' && Expr.beq e e'
  | .call f as, .call f' as' => Expr.beq f f' && Expr.beqL as as'
  | .callKw f as ns vs, .callKw f' as' ns' vs' =>
      Expr.beq f f' && Expr.beqL as as' && ns == ns' && Expr.beqL vs vs'
  | .subscript a i, .subscript a' i' => Expr.beq a a' && Expr.beq i i'
  | .lookup a n, .lookup a' n' => Expr.beq a a' && n == n'
  | .cse c p s, .cse c' p' s' => Expr.beq c c' && p == p' && s == s'
  | .subst c vs xs, .subst c' vs' xs' => Expr.beq c c' && vs == vs' && Expr.beqL xs xs'
  | .deriv c vs, .deriv c' vs' => Expr.beq c c' && vs == vs'
  | .slice cs, .slice cs' => Expr.beqL cs cs'
  | .nan, .nan => true
  | .wildcard, .wildcard => true
  | .dotWild a, .dotWild b => a == b
  | .starWild a, .starWild b => a == b
  | .funcSym, .funcSym => true
  | .tuple cs, .tuple cs' => Expr.beqL cs cs'
  | .list cs, .list cs' => Expr.beqL cs cs'
  | _, _ => false
def Expr.beqL : List Expr → List Expr → Bool
  | [], [] => true
  | a :: as, b :: bs => Expr.beq a b && Expr.beqL as bs
  | _, _ => false
end

instance : BEq Expr := ⟨Expr.beq⟩

/-! Size, used as a generic measure. -/
mutual
def Expr.size : Expr → Nat
  | .nary _ cs => 1 + Expr.sizeL cs
  | .bin _ a b => 1 + a.size + b.size
  | .un _ a => 1 + a.size
  | .cmp _ a b => 1 + a.size + b.size
  | .ite c t e => 1 + c.size + t.size + e.size
  | .call f as => 1 + f.size + Expr.sizeL as
  | .callKw f as _ vs => 1 + f.size + Expr.sizeL as + Expr.sizeL vs
  | .subscript a i => 1 + a.size + i.size
  | .lookup a _ => 1 + a.size
  | .cse c _ _ => 1 + c.size
  | .subst c _ xs => 1 + c.size + Expr.sizeL xs
  | .deriv c _ => 1 + c.size
  | .slice cs => 1 + Expr.sizeL cs
  | .tuple cs => 1 + Expr.sizeL cs
  | .list cs => 1 + Expr.sizeL cs
  | _ => 1
def Expr.sizeL : List Expr → Nat
  | [] => 0
  | c :: cs => c.size + Expr.sizeL cs
end

/-- Direct expression-valued children, in dataclass field order. -/
def Expr.children : Expr → List Expr
  | .nary _ cs => cs
  | .bin _ a b => [a, b]
  | .un _ a => [a]
  | .cmp _ a b => [a, b]
  | .ite c t e => [c, t, e]
  | .call f as => f :: as
  | .callKw f as _ vs => f :: (as ++ vs)
  | .subscript a i => [a, i]
  | .lookup a _ => [a]
  | .cse c _ _ => [c]
  | .subst c _ xs => c :: xs
  | .deriv c _ => [c]
  | .slice cs => cs
  | .tuple cs => cs
  | .list cs => cs
  | _ => []

/-! `list` nodes are Python lists: unhashable, so is every node that contains one. -/
mutual
def Expr.hasList : Expr → Bool
  | .list _ => true
  | .nary _ cs => Expr.hasListL cs
  | .bin _ a b => a.hasList || b.hasList
  | .un _ a => a.hasList
  | .cmp _ a b => a.hasList || b.hasList
  | .ite c t e => c.hasList || t.hasList || e.hasList
  | .call f as => f.hasList || Expr.hasListL as
  | .callKw f as _ vs => f.hasList || Expr.hasListL as || Expr.hasListL vs
  | .subscript a i => a.hasList || i.hasList
  | .lookup a _ => a.hasList
  | .cse c _ _ => c.hasList
  | .subst c _ xs => c.hasList || Expr.hasListL xs
  | .deriv c _ => c.hasList
  | .slice cs => Expr.hasListL cs
  | .tuple cs => Expr.hasListL cs
  | _ => false
def Expr.hasListL : List Expr → Bool
  | [] => false
  | c :: cs => c.hasList || Expr.hasListL cs
end

/-! ### Wire format -/

def NaryOp.name : NaryOp → String
  | .sum => "Sum" | .prod => "Product" | .bor => "BitwiseOr" | .bxor => "BitwiseXor"
  | .band => "BitwiseAnd" | .lor => "LogicalOr" | .land => "LogicalAnd"
  | .min => "Min" | .max => "Max"

def NaryOp.ofName? : String → Option NaryOp
  | "Sum" => some .sum | "Product" => some .prod | "BitwiseOr" => some .bor
  | "BitwiseXor" => some .bxor | "BitwiseAnd" => some .band | "LogicalOr" => some .lor
  | "LogicalAnd" => some .land | "Min" => some .min | "Max" => some .max | _ => none

def BinOp.name : BinOp → String
  | .quot => "Quotient" | .floordiv => "FloorDiv" | .rem => "Remainder" | .pow => "Power"
  | .lshift => "LeftShift" | .rshift => "RightShift"

def BinOp.ofName? : String → Option BinOp
  | "Quotient" => some .quot | "FloorDiv" => some .floordiv | "Remainder" => some .rem
  | "Power" => some .pow | "LeftShift" => some .lshift | "RightShift" => some .rshift
  | _ => none

def UnOp.name : UnOp → String
  | .bnot => "BitwiseNot" | .lnot => "LogicalNot"

def UnOp.ofName? : String → Option UnOp
  | "BitwiseNot" => some .bnot | "LogicalNot" => some .lnot | _ => none

def CmpOp.sym : CmpOp → String
  | .eq => "==" | .ne => "!=" | .lt => "<" | .le => "<=" | .gt => ">" | .ge => ">="

def CmpOp.ofSym? : String → Option CmpOp
  | "==" => some .eq | "!=" => some .ne | "<" => some .lt | "<=" => some .le
  | ">" => some .gt | ">=" => some .ge | _ => none

def Const.toSexp : Const → Sexp
  | .int n => Sexp.mk "Int" [Sexp.ofInt n]
  | .bool b => Sexp.mk "Bool" [Sexp.ofBool b]
  | .flt r n d => Sexp.mk "Flt" [Sexp.str r, Sexp.ofInt n, Sexp.ofNat d]
  | .str s => Sexp.mk "Str" [Sexp.str s]
  | .none => .atom "nil"

def optStrToSexp : Option String → Sexp
  | some s => Sexp.str s
  | none => .atom "nil"

mutual
def Expr.toSexp : Expr → Sexp
  | .const c => c.toSexp
  | .var n => Sexp.mk "Var" [Sexp.str n]
  | .nary o cs => Sexp.mk o.name (Expr.toSexpL cs)
  | .bin o a b => Sexp.mk o.name [a.toSexp, b.toSexp]
  | .un o a => Sexp.mk o.name [a.toSexp]
  | .cmp o a b => Sexp.mk "Comparison" [a.toSexp, Sexp.str o.sym, b.toSexp]
  | .ite c t e => Sexp.mk "If" [c.toSexp, t.toSexp, e.toSexp]
  | .call f as => Sexp.mk "Call" [f.toSexp, .list (Expr.toSexpL as)]
  | .callKw f as ns vs =>
      Sexp.mk "CallKw" [f.toSexp, .list (Expr.toSexpL as), .list (ns.map Sexp.str),
        .list (Expr.toSexpL vs)]
  | .subscript a i => Sexp.mk "Subscript" [a.toSexp, i.toSexp]
  | .lookup a n => Sexp.mk "Lookup" [a.toSexp, Sexp.str n]
  | .cse c p s => Sexp.mk "CSE" [c.toSexp, optStrToSexp p, Sexp.str s]
  | .subst c vs xs => Sexp.mk "Substitution" [c.toSexp, .list (vs.map Sexp.str), .list (Expr.toSexpL xs)]
  | .deriv c vs => Sexp.mk "Derivative" [c.toSexp, .list (vs.map Sexp.str)]
  | .slice cs => Sexp.mk "Slice" (Expr.toSexpL cs)
  | .nan => Sexp.mk "NaN" []
  | .wildcard => Sexp.mk "Wildcard" []
  | .dotWild n => Sexp.mk "DotWildcard" [Sexp.str n]
  | .starWild n => Sexp.mk "StarWildcard" [Sexp.str n]
  | .funcSym => Sexp.mk "FunctionSymbol" []
  | .tuple cs => Sexp.mk "Tuple" (Expr.toSexpL cs)
  | .list cs => Sexp.mk "List" (Expr.toSexpL cs)
def Expr.toSexpL : List Expr → List Sexp
  | [] => []
  | c :: cs => c.toSexp :: Expr.toSexpL cs
end

def strList? (xs : List Sexp) : Option (List String) := xs.mapM Sexp.text

def optStr? : Sexp → Option (Option String)
  | .atom "nil" => some none
  | s => s.text.map some

mutual
partial def Expr.ofSexp? : Sexp → Option Expr
  | .atom "nil" => some (.const .none)
  | .list (.atom "Int" :: [n]) => n.int?.map (fun n => .const (.int n))
  | .list [.atom "Bool", .atom "true"] => some (.const (.bool true))
  | .list [.atom "Bool", .atom "false"] => some (.const (.bool false))
  | .list [.atom "Flt", r, n, d] => do pure (.const (.flt (← r.text) (← n.int?) (← d.nat?)))
  | .list [.atom "Str", r] => r.text.map (fun r => .const (.str r))
  | .list [.atom "Var", n] => n.text.map .var
  | .list [.atom "Comparison", a, o, b] => do
      let o ← o.text >>= CmpOp.ofSym?
      pure (.cmp o (← Expr.ofSexp? a) (← Expr.ofSexp? b))
  | .list [.atom "If", c, t, e] => do
      pure (.ite (← Expr.ofSexp? c) (← Expr.ofSexp? t) (← Expr.ofSexp? e))
  | .list [.atom "Call", f, .list as] => do
      pure (.call (← Expr.ofSexp? f) (← Expr.ofSexpL? as))
  | .list [.atom "CallKw", f, .list as, .list ns, .list vs] => do
      pure (.callKw (← Expr.ofSexp? f) (← Expr.ofSexpL? as) (← strList? ns) (← Expr.ofSexpL? vs))
  | .list [.atom "Subscript", a, i] => do pure (.subscript (← Expr.ofSexp? a) (← Expr.ofSexp? i))
  | .list [.atom "Lookup", a, n] => do pure (.lookup (← Expr.ofSexp? a) (← n.text))
  | .list [.atom "CSE", c, p, s] => do pure (.cse (← Expr.ofSexp? c) (← optStr? p) (← s.text))
  | .list [.atom "Substitution", c, .list vs, .list xs] => do
      pure (.subst (← Expr.ofSexp? c) (← strList? vs) (← Expr.ofSexpL? xs))
  | .list [.atom "Derivative", c, .list vs] => do pure (.deriv (← Expr.ofSexp? c) (← strList? vs))
  | .list (.atom "Slice" :: cs) => do pure (.slice (← Expr.ofSexpL? cs))
  | .list [.atom "NaN"] => some .nan
  | .list [.atom "Wildcard"] => some .wildcard
  | .list [.atom "DotWildcard", n] => n.text.map .dotWild
  | .list [.atom "StarWildcard", n] => n.text.map .starWild
  | .list [.atom "FunctionSymbol"] => some .funcSym
  | .list (.atom "Tuple" :: cs) => do pure (.tuple (← Expr.ofSexpL? cs))
  | .list (.atom "List" :: cs) => do pure (.list (← Expr.ofSexpL? cs))
  | .list (.atom h :: args) =>
      match NaryOp.ofName? h with
      | some o => do pure (.nary o (← Expr.ofSexpL? args))
      | none =>
        match BinOp.ofName? h, args with
        | some o, [a, b] => do pure (.bin o (← Expr.ofSexp? a) (← Expr.ofSexp? b))
        | _, _ =>
          match UnOp.ofName? h, args with
          | some o, [a] => do pure (.un o (← Expr.ofSexp? a))
          | _, _ => none
  | _ => none
partial def Expr.ofSexpL? : List Sexp → Option (List Expr)
  | [] => some []
  | c :: cs => do pure ((← Expr.ofSexp? c) :: (← Expr.ofSexpL? cs))
end

end PV
