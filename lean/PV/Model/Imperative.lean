import PV.Model.Traverse
/-
  Statement streams as coded in pymbolic/imperative/{statement,transform,analysis,utils}.py (C20).

    * `Stmt`                       : Assignment / ConditionalAssignment / Nop records
    * `GenState.call`, `pyGen`     : pytools.UniqueNameGenerator.__call__ (naming scheme mirrored exactly
                                     for ASCII names; the search loop carries fuel)
    * `NameGen`                    : the generator as a parameter (contract: `NameGen.Fresh`)
    * `fuseG` / `fuse`             : fuse_statement_streams_with_unique_ids
    * `Kind.reads`, `Kind.written` : get_read_variables / get_written_variables AS CODED
                                     (`get_vars(expr)` scans `self.rhs` whatever `expr` is)
    * `disambiguateG`              : disambiguate_identifiers; the iteration order of the Python set
                                     `id_a & id_b` is a parameter (`order`)
    * `closure`, `reduce`, `dotEdges` : the closure-then-reduction loops of get_dot_dependency_graph

  Python sets/frozensets of strings are duplicate-free lists (insertion order; sorted on the wire),
  dicts are association lists in insertion order.
-/
namespace PV.Imp
open PV

/-! ### finite sets of names -/

def insertS (xs : List String) (x : String) : List String := if x ∈ xs then xs else xs ++ [x]
def unionS (a b : List String) : List String := b.foldl insertS a
def interS (a b : List String) : List String := a.filter (fun x => x ∈ b)
def dedupS (xs : List String) : List String := unionS [] xs

/-! ### statements -/

/-- `assign lhs rhs none` is an `Assignment`, `assign lhs rhs (some c)` a `ConditionalAssignment`
(its default condition is the constant `True`), `nop` a `Nop`. -/
inductive Kind where
  | assign (lhs rhs : Expr) (cond : Option Expr)
  | nop
  deriving Repr, Inhabited

structure Stmt where
  id : String
  dependsOn : List String
  kind : Kind
  deriving Repr, Inhabited

/-! ### pytools.UniqueNameGenerator -/

structure GenState where
  existing : List String
  counters : List (String × Nat)
  deriving Repr, Inhabited

def isWordChar (c : Char) : Bool := c.isAlphanum || c == '_'

def digitsVal (ds : List Char) : Nat := ds.foldl (fun n c => 10 * n + (c.toNat - '0'.toNat)) 0

/-- `UNIQUE_NAME_GEN_COUNTER_RE = ^(?P<based_on>\w+)_(?P<counter>\d+)$` (ASCII names): the counter
is the maximal run of digits at the end, preceded by `_`, preceded by a non-empty word. -/
def splitCounter (s : String) : Option (String × Nat) :=
  let rev := s.toList.reverse
  let ds := (rev.takeWhile Char.isDigit).reverse
  match rev.dropWhile Char.isDigit with
  | '_' :: p =>
      if !ds.isEmpty && !p.isEmpty && p.all isWordChar then
        some (String.ofList p.reverse, digitsVal ds) else none
  | _ => none

def numbered (base : String) (num : Nat) : String := base ++ "_" ++ toString num

/-- the `for try_counter, try_var_name in generate_numbered_unique_names(...)` loop from `num` on
(Python: unbounded; it stops after at most `len(existing_names) + 1` tries, the fuel given) -/
def searchName (existing : List String) (base : String) : Nat → Nat → Option (Nat × String)
  | 0, _ => none
  | fuel + 1, num =>
    if numbered base num ∈ existing then searchName existing base fuel (num + 1)
    else some (num + 1, numbered base num)

def setCounter (cs : List (String × Nat)) (k : String) (v : Nat) : List (String × Nat) :=
  match cs with
  | [] => [(k, v)]
  | (k', v') :: rest => if k' == k then (k, v) :: rest else (k', v') :: setCounter rest k v

/-- the counter to start from: the one recorded for `based_on`, else the one parsed off its end
(which also strips it from the base), else none -/
def GenState.baseCounter (g : GenState) (basedOn : String) : String × Option Nat :=
  match g.counters.lookup basedOn with
  | some c => (basedOn, some c)
  | none =>
    match splitCounter basedOn with
    | some (b, c) => (b, some c)
    | none => (basedOn, none)

/-- first non-conflicting name of `generate_numbered_unique_names(base, counter)` -/
def GenState.find (g : GenState) (base : String) : Option Nat → Option (Nat × String)
  | none =>
    if base ∈ g.existing then searchName g.existing base (g.existing.length + 1) 0
    else some (0, base)
  | some c => searchName g.existing base (g.existing.length + 1) c

/-- `UniqueNameGenerator.__call__(based_on)` with empty forced prefix/suffix; `none` = the search
ran out of fuel (pytools: `ValueError("could not find a non-conflicting name")`, unreachable). -/
def GenState.call (g : GenState) (basedOn : String) : Option (String × GenState) :=
  let bc := g.baseCounter basedOn
  match g.find bc.1 bc.2 with
  | none => none
  | some (c, name) =>
    some (name, { existing := insertS g.existing name, counters := setCounter g.counters bc.1 c })

/-- A name generator as a parameter: state, `UniqueNameGenerator(existing_names)`, `__call__`, and
the set of names it will not hand out. -/
structure NameGen (σ : Type) where
  init : List String → σ
  call : σ → String → Option (String × σ)
  used : σ → List String

/-- the contract of `UniqueNameGenerator`: a generated name is not among the used ones, and is used
from then on (together with everything used before) -/
structure NameGen.Fresh {σ : Type} (G : NameGen σ) : Prop where
  init_used : ∀ xs x, x ∈ G.used (G.init xs) ↔ x ∈ xs
  call_fresh : ∀ s b n s', G.call s b = some (n, s') → n ∉ G.used s
  call_used : ∀ s b n s', G.call s b = some (n, s') → ∀ x, x ∈ G.used s' ↔ (x = n ∨ x ∈ G.used s)

def pyGen : NameGen GenState where
  init := fun xs => { existing := dedupS xs, counters := [] }
  call := GenState.call
  used := GenState.existing

/-! ### fuse_statement_streams_with_unique_ids -/

inductive ImpErr where
  | keyError                -- `old_b_id_to_new_b_id[dep_id]` for an id that is not in the second stream
  | noName                  -- the name generator gave up
  | dep (e : DepErr)        -- raised by the dependency mapper
  | typeError               -- "unexpected type of LHS"
  | assertion               -- subscripted left-hand side whose aggregate is not a variable
  | attribute               -- `dep.name` on something without a name
  | badOrder                -- the supplied set-iteration order is not a permutation of the clash set
  | noFixpoint              -- closure loop out of fuel
  deriving Repr, DecidableEq, Inhabited

/-- dict `m[k] = v` -/
def assocSet (m : List (String × String)) (k v : String) : List (String × String) :=
  match m with
  | [] => [(k, v)]
  | (k', v') :: rest => if k' == k then (k, v) :: rest else (k', v') :: assocSet rest k v

/-- first loop: new ids for the statements of the second stream, in order -/
def renameIds {σ : Type} (G : NameGen σ) :
    σ → List Stmt → List (String × String) → Option (List Stmt × List (String × String) × σ)
  | s, [], m => some ([], m, s)
  | s, b :: bs, m =>
    match G.call s b.id with
    | none => none
    | some (n, s') =>
      match renameIds G s' bs (assocSet m b.id n) with
      | none => none
      | some (bs', m', s'') => some ({ b with id := n } :: bs', m', s'')

/-- `frozenset(old_b_id_to_new_b_id[dep_id] for dep_id in stmtb.depends_on)` -/
def remapDeps (m : List (String × String)) : List String → Except ImpErr (List String)
  | [] => pure []
  | d :: ds =>
    match m.lookup d with
    | none => throw .keyError
    | some n => do
      let r ← remapDeps m ds
      pure (if n ∈ r then r else n :: r)

def remapAll (m : List (String × String)) : List Stmt → Except ImpErr (List Stmt)
  | [] => pure []
  | b :: bs => do
    let d ← remapDeps m b.dependsOn
    let r ← remapAll m bs
    pure ({ b with dependsOn := d } :: r)

def fuseG {σ : Type} (G : NameGen σ) (A B : List Stmt) :
    Except ImpErr (List Stmt × List (String × String)) :=
  match renameIds G (G.init (A.map (·.id))) B [] with
  | none => throw .noName
  | some (bs, m, _) => do
    let bs' ← remapAll m bs
    pure (A ++ bs', m)

def fuse := fuseG pyGen

/-- repeated fusion, left to right: `fuse(fuse(fuse(S₀, S₁), S₂), …)` -/
def fuseAllG {σ : Type} (G : NameGen σ) : List Stmt → List (List Stmt) → Except ImpErr (List Stmt)
  | acc, [] => pure acc
  | acc, S :: rest => do
    let r ← fuseG G acc S
    fuseAllG G r.1 rest

/-! ### read and written variables, as coded -/

/-- `Statement.get_dependency_mapper()`: `DependencyMapper(include_subscripts=False,
include_lookups=False, include_calls="descend_args")` -/
def stmtFlags : DepFlags := { subscripts := false, lookups := false, calls := .descend, cses := false }

/-- `frozenset(dep.name for dep in …)` -/
def depNames : List Expr → Except ImpErr (List String)
  | [] => pure []
  | .var n :: r => do
    let rest ← depNames r
    pure (if n ∈ rest then rest else n :: rest)
  | _ :: _ => throw .attribute

def varsOf (e : Expr) : Except ImpErr (List String) :=
  match deps stmtFlags e with
  | .error err => throw (.dep err)
  | .ok r => depNames r

/-- `Assignment.get_written_variables` (a `Nop` writes nothing) -/
def Kind.written : Kind → Except ImpErr (List String)
  | .nop => pure []
  | .assign (.var n) _ _ => pure [n]
  | .assign (.subscript (.var n) _) _ _ => pure [n]
  | .assign (.subscript _ _) _ _ => throw .assertion
  | .assign _ _ _ => throw .typeError

/-- `Assignment.get_read_variables`: `get_vars(self.rhs) | get_vars(self.lhs)` where `get_vars`
ignores its argument and scans `self.rhs`; the left-hand side is never looked at. -/
def readsAssign (_lhs rhs : Expr) : Except ImpErr (List String) := do
  let a ← varsOf rhs
  let b ← varsOf rhs        -- the call `get_vars(self.lhs)`
  pure (unionS a b)

/-- `get_read_variables` through the MRO: ConditionalAssignment → ConditionalStatement →
Assignment -/
def Kind.reads : Kind → Except ImpErr (List String)
  | .nop => pure []
  | .assign l r none => readsAssign l r
  | .assign l r (some c) => do
    let a ← readsAssign l r
    let k ← varsOf c
    pure (unionS a k)

/-- analysis.get_all_used_identifiers -/
def usedIdentifiers : List Stmt → Except ImpErr (List String)
  | [] => pure []
  | s :: rest => do
    let r ← s.kind.reads
    let w ← s.kind.written
    let tl ← usedIdentifiers rest
    pure (unionS (unionS r w) tl)

/-! ### disambiguate_identifiers -/

/-- `stmt.map_expressions(mapper)` (include_lhs=True) -/
def Kind.mapExprs (f : Expr → Expr) : Kind → Kind
  | .nop => .nop
  | .assign l r c => .assign (f l) (f r) (c.map f)

def Stmt.mapExprs (f : Expr → Expr) (s : Stmt) : Stmt := { s with kind := s.kind.mapExprs f }

/-- the loop `for clash in id_a & id_b: if should_disambiguate_name(clash): …` over the clashes
that pass the filter, in the given order -/
def unclash {σ : Type} (G : NameGen σ) : σ → List String → Option (List (String × String))
  | _, [] => some []
  | s, c :: cs =>
    match G.call s c with
    | none => none
    | some (n, s') =>
      match unclash G s' cs with
      | none => none
      | some m => some ((c, n) :: m)

def substOfRenaming (m : List (String × String)) : SubstMap :=
  { byName := m.map fun p => (p.1, Expr.var p.2) }

/-- `order`: the order in which Python iterates over the set `id_a & id_b`, restricted to the
names that pass the filter (observable as the key order of the returned dict) -/
def disambiguateG {σ : Type} (G : NameGen σ) (filter : String → Bool) (order : List String)
    (A B : List Stmt) : Except ImpErr (List Stmt × List (String × String)) := do
  let idA ← usedIdentifiers A
  let idB ← usedIdentifiers B
  let clashes := (interS idA idB).filter filter
  if !(order.isPerm clashes) then throw .badOrder
  match unclash G (G.init (unionS idA idB)) order with
  | none => throw .noName
  | some m =>
    let sub := substOfRenaming m
    pure (B.map (Stmt.mapExprs fun e => (substM sub e).1), m)

def disambiguate := @disambiguateG _ pyGen

def disambiguateAndFuseG {σ : Type} (G : NameGen σ) (filter : String → Bool) (order : List String)
    (A B : List Stmt) :
    Except ImpErr (List Stmt × List (String × String) × List (String × String)) := do
  let (B', sub) ← disambiguateG G filter order A B
  let (fused, m) ← fuseG G A B'
  pure (fused, sub, m)

/-! ### utils.get_dot_dependency_graph: closure, reduction -/

/-- `dep_graph`: a dict from statement id to a set of ids -/
abbrev Graph := List (String × List String)

def Graph.get (g : Graph) (k : String) : List String :=
  match g.lookup k with
  | some vs => vs
  | none => []

def Graph.keys (g : Graph) : List String := g.map (·.1)

/-- replace the set stored under an existing key -/
def Graph.modify (g : Graph) (k : String) (f : List String → List String) : Graph :=
  match g with
  | [] => []
  | (k', vs) :: rest => if k' == k then (k', f vs) :: rest else (k', vs) :: Graph.modify rest k f

/-- `dep_graph.setdefault(k, set()).add(v)` -/
def Graph.addEdge (g : Graph) (k v : String) : Graph :=
  match g with
  | [] => [(k, [v])]
  | (k', vs) :: rest =>
    if k' == k then (k', insertS vs v) :: rest else (k', vs) :: Graph.addEdge rest k v

def buildGraph (ss : List Stmt) : Graph :=
  ss.foldl (fun g s => s.dependsOn.foldl (fun g d => g.addEdge s.id d) g) []

/-- innermost loop of the closure: `for stmt_3 in …: if stmt_3 not in dep_graph[stmt_1]: add` -/
def closeInner (g : Graph) (s1 : String) : List String → Graph × Bool
  | [] => (g, false)
  | s3 :: rest =>
    if s3 ∈ g.get s1 then closeInner g s1 rest
    else
      let r := closeInner (g.modify s1 (fun vs => insertS vs s3)) s1 rest
      (r.1, true)

/-- `for stmt_2 in dep_graph[stmt_1].copy(): for stmt_3 in dep_graph.get(stmt_2, set()).copy()` -/
def closeMid (g : Graph) (s1 : String) : List String → Graph × Bool
  | [] => (g, false)
  | s2 :: rest =>
    let r1 := closeInner g s1 (g.get s2)
    let r2 := closeMid r1.1 s1 rest
    (r2.1, r1.2 || r2.2)

/-- one sweep `for stmt_1 in dep_graph` -/
def closeOuter (g : Graph) : List String → Graph × Bool
  | [] => (g, false)
  | s1 :: rest =>
    let r1 := closeMid g s1 (g.get s1)
    let r2 := closeOuter r1.1 rest
    (r2.1, r1.2 || r2.2)

/-- `while True: … if not changed_something: break` -/
def closure : Nat → Graph → Option Graph
  | 0, _ => none
  | fuel + 1, g =>
    let r := closeOuter g g.keys
    if r.2 then closure fuel r.1 else some r.1

/-- `for stmt_3 in …: if stmt_3 in dep_graph[stmt_1]: dep_graph[stmt_1].remove(stmt_3)` -/
def reduceInner (g : Graph) (s1 : String) : List String → Graph
  | [] => g
  | s3 :: rest =>
    if s3 ∈ g.get s1 then reduceInner (g.modify s1 (fun vs => vs.filter (fun v => v != s3))) s1 rest
    else reduceInner g s1 rest

def reduceMid (g : Graph) (s1 : String) : List String → Graph
  | [] => g
  | s2 :: rest => reduceMid (reduceInner g s1 (g.get s2)) s1 rest

def reduceOuter (g : Graph) : List String → Graph
  | [] => g
  | s1 :: rest => reduceOuter (reduceMid g s1 (g.get s1)) rest

def reduce (g : Graph) : Graph := reduceOuter g g.keys

def Graph.edges (g : Graph) : List (String × String) :=
  g.flatMap fun kv => kv.2.map fun v => (kv.1, v)

def fuelFor (g : Graph) : Nat :=
  let n := (unionS g.keys (g.flatMap (·.2))).length
  g.keys.length * n + 1

/-- the `a -> b` lines of the dot text -/
def dotEdges (ss : List Stmt) : Except ImpErr (List (String × String)) :=
  let g := buildGraph ss
  match closure (fuelFor g) g with
  | none => throw .noFixpoint
  | some c => pure (reduce c).edges

/-! ### utils.get_dot_dependency_graph: the text (added for the T-gen tie of C20; the hooks and the
statement stringifier are parameters) -/

/-- `get_node_attrs(stmt)`: `label="…",shape="box",tooltip="…"` with the id as label when
`use_stmt_ids` is true, as tooltip otherwise -/
def dotNodeAttrs (useIds : Bool) (str : Stmt → String) (s : Stmt) : String :=
  if useIds then "label=\"" ++ s.id ++ "\",shape=\"box\",tooltip=\"" ++ str s ++ "\""
  else "label=\"" ++ str s ++ "\",shape=\"box\",tooltip=\"" ++ s.id ++ "\""

/-- `'"{}" [{}];'.format(stmt.id, get_node_attrs(stmt))` -/
def dotNodeLine (useIds : Bool) (str : Stmt → String) (s : Stmt) : String :=
  "\"" ++ s.id ++ "\" [" ++ dotNodeAttrs useIds str s ++ "];"

/-- `f"{stmt_1} -> {stmt_2}"` -/
def dotEdgeLine (e : String × String) : String := e.1 ++ " -> " ++ e.2

/-- the list `lines` at the end: preamble, `rankdir`, one line per statement in stream order, one
line per edge of the transitive reduction, the additional lines -/
def dotLines (pre post : List String) (useIds : Bool) (str : Stmt → String) (ss : List Stmt)
    (es : List (String × String)) : List String :=
  pre ++ ["rankdir=BT;"] ++ ss.map (dotNodeLine useIds str) ++ es.map dotEdgeLine ++ post

/-- the returned text -/
def dotText (pre post : List String) (useIds : Bool) (str : Stmt → String) (ss : List Stmt) :
    Except ImpErr String := do
  let es ← dotEdges ss
  pure ("digraph code {\n" ++ "\n".intercalate (dotLines pre post useIds str ss es) ++ "\n}")

end PV.Imp
