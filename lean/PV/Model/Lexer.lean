import PV.Model.Parser
/-
  C06/C07.  Model of the LEXER of `pymbolic.parser.Parser`: `pytools.lex.lex` run on
  `Parser.lex_table`, followed by what `Parser.__call__` / `parse_terminal` do with the lexed
  items (drop whitespace, `int(text)`, `parse_float(text)`).

  * `pytools.lex.lex(table, s)`: at every position the rules of the table are tried IN ORDER, the
    first rule with a match of non-zero length wins (a zero-length match counts as no match);
    no rule matches: `InvalidTokenError(s, i)`.  A rule body is an `RE`, a tuple of sub-rules
    matched one after the other (every one with non-zero length), or a tuple starting with `"|"`
    (first alternative with non-zero length); a string inside a tuple names another rule and is
    looked up in `dict(lex_table)`.
  * The table is DATA here (`LexTable`, same shape as the Python list): the current table is
    regenerated from the live module into `PV/Generated/Lex.lean`; `Lexer.table` is the literal the
    model and its theorems were written against (`PV.C06.lex_table_current`: they are equal).
  * Each regular expression is recognised by its SOURCE STRING (`reOf`): a literal (with
    backslash-escaped punctuation), a literal followed by `\b`, or one of the eight
    character-class expressions of the table (five float forms, integer, identifier,
    whitespace), for which a deterministic matcher is written out below.  Python's `re` is a
    backtracking matcher; for these expressions the first successful path is the greedy one (see
    the comment at each matcher), so the matchers return exactly `match.end()`.
  * `\b` is modelled with the ASCII word characters `[A-Za-z0-9_]`.  Python's `\w` is Unicode
    aware; the difference cannot be observed through `lex`: no rule of the table can consume a
    non-ASCII character, so a string containing one is rejected (`InvalidTokenError`) by code and
    model alike, at the same index (the index of the first character that starts no token does
    not depend on how the text before it is split).  The correspondence stream sends such strings.

  Everything is on `List Char` (code points, like Python `str` indices).  Import-free.
-/
namespace PV.Lexer
open PV

/-! ### the table as data -/

inductive Item where
  | re (src : String)        -- `pytools.lex.RE(src)`
  | ref (tag : String)       -- a rule name inside a tuple: `rule_dict[tag]`
  deriving Repr, DecidableEq, Inhabited

inductive Body where
  | one (i : Item)           -- `(tag, RE(...))`
  | seq (is : List Item)     -- `(tag, (r1, r2, …))`
  | alt (is : List Item)     -- `(tag, ("|", r1, r2, …))`
  deriving Repr, DecidableEq, Inhabited

abbrev LexTable := List (String × Body)

/-! ### character classes -/

/-- `[0-9]` -/
def isDigit (c : Char) : Bool := 48 ≤ c.toNat && c.toNat ≤ 57
/-- `[a-zA-Z]` -/
def isAlpha (c : Char) : Bool := (97 ≤ c.toNat && c.toNat ≤ 122) || (65 ≤ c.toNat && c.toNat ≤ 90)
/-- `[@$a-z_A-Z_]` -/
def isIdStart (c : Char) : Bool := c == '@' || c == '$' || c == '_' || isAlpha c
/-- `[@$a-zA-Z_0-9]` -/
def isIdCont (c : Char) : Bool := isIdStart c || isDigit c
/-- `\w`, ASCII part -/
def isWord (c : Char) : Bool := isAlpha c || isDigit c || c == '_'
/-- `[ \n\t]` -/
def isSpace (c : Char) : Bool := c == ' ' || c == '\n' || c == '\t'
/-- `[eEdD]` -/
def isExpChar (c : Char) : Bool := c == 'e' || c == 'E' || c == 'd' || c == 'D'
/-- `[+-]` -/
def isSign (c : Char) : Bool := c == '+' || c == '-'

/-! ### matchers: `some rest` = the expression matches a prefix, `rest` is what follows it -/

/-- `\b` after a word character: the next character is not a word character (or the end) -/
def boundary : List Char → Bool
  | [] => true
  | c :: _ => !isWord c

/-- a literal -/
def litM : List Char → List Char → Option (List Char)
  | [], cs => some cs
  | _ :: _, [] => none
  | k :: ks, c :: cs => if c = k then litM ks cs else none

/-- a literal followed by `\b` -/
def kwM (l cs : List Char) : Option (List Char) :=
  match litM l cs with
  | some r => if boundary r then some r else none
  | none => none

/-- `[class]+`, greedy -/
def plusM (p : Char → Bool) : List Char → Option (List Char)
  | [] => none
  | c :: cs => if p c then some (cs.dropWhile p) else none

/-- `[eEdD][+-]?[0-9]+`.  The sign is taken when present: without it `[0-9]+` would have to match
the sign character, so giving it back never helps. -/
def expM : List Char → Option (List Char)
  | [] => none
  | x :: cs =>
    if isExpChar x then
      match cs with
      | s :: cs' => if isSign s then plusM isDigit cs' else plusM isDigit cs
      | [] => none
    else none

/-- `(…)?`, greedy -/
def optM (m : List Char → Option (List Char)) (cs : List Char) : List Char :=
  match m cs with
  | some r => r
  | none => cs

/-- `[0-9]+\.[0-9]*([eEdD][+-]?[0-9]+)?([a-zA-Z]*)`: no position of this expression can fail after
the dot, so the greedy path is the match. -/
def float1M (cs : List Char) : Option (List Char) :=
  match plusM isDigit cs with
  | some ('.' :: r) => some ((optM expM (r.dropWhile isDigit)).dropWhile isAlpha)
  | _ => none

/-- `[0-9]+(\.[0-9]*)?[eEdD][+-]?[0-9]+([a-zA-Z]*)\b`.  Backtracking cannot rescue a failed `\b`:
a shorter letter run ends between two letters, a shorter digit run between two digits; a shorter
first digit run or a skipped `(\.[0-9]*)` leaves a digit / the dot in front of `[eEdD]`. -/
def float2M (cs : List Char) : Option (List Char) :=
  match plusM isDigit cs with
  | none => none
  | some r1 =>
    let r2 := match r1 with
      | '.' :: r => r.dropWhile isDigit
      | _ => r1
    match expM r2 with
    | none => none
    | some r3 =>
      let r4 := r3.dropWhile isAlpha
      if boundary r4 then some r4 else none

/-- `[0-9]*\.[0-9]+([eEdD][+-]?[0-9]+)?([a-zA-Z]*)` -/
def float3M (cs : List Char) : Option (List Char) :=
  match cs.dropWhile isDigit with
  | '.' :: r =>
    match plusM isDigit r with
    | some r' => some ((optM expM r').dropWhile isAlpha)
    | none => none
  | _ => none

/-- `[0-9]*\.[0-9]+[eEdD][+-]?[0-9]+([a-zA-Z]*)\b` (never reached: whatever it matches, the third
form matches first) -/
def float4M (cs : List Char) : Option (List Char) :=
  match cs.dropWhile isDigit with
  | '.' :: r =>
    match plusM isDigit r with
    | some r' =>
      match expM r' with
      | some r3 =>
        let r4 := r3.dropWhile isAlpha
        if boundary r4 then some r4 else none
      | none => none
    | none => none
  | _ => none

/-- `[0-9]+([a-zA-Z]+)` -/
def float5M (cs : List Char) : Option (List Char) :=
  match plusM isDigit cs with
  | some r => plusM isAlpha r
  | none => none

/-- `[@$a-z_A-Z_][@$a-zA-Z_0-9]*` -/
def identM : List Char → Option (List Char)
  | [] => none
  | c :: cs => if isIdStart c then some (cs.dropWhile isIdCont) else none

/-- `[ \n\t]*` (may match the empty string: `lex` then treats it as no match) -/
def wsM (cs : List Char) : Option (List Char) := some (cs.dropWhile isSpace)

/-! ### regular expressions recognised by their source -/

inductive Re where
  | lit (l : List Char)
  | kw (l : List Char)
  | float1 | float2 | float3 | float4 | float5 | int | ident | ws
  deriving Repr, DecidableEq, Inhabited

def Re.run : Re → List Char → Option (List Char)
  | .lit l => litM l
  | .kw l => kwM l
  | .float1 => float1M
  | .float2 => float2M
  | .float3 => float3M
  | .float4 => float4M
  | .float5 => float5M
  | .int => plusM isDigit
  | .ident => identM
  | .ws => wsM

/-- characters with a special meaning in a regular expression -/
def isMeta (c : Char) : Bool := ".^$*+?{}[]\\|()".toList.contains c

/-- a source without operators: plain characters and backslash-escaped punctuation -/
def unescape : List Char → Option (List Char)
  | [] => some []
  | '\\' :: c :: cs =>
    if isWord c || c.toNat ≥ 128 then none else (unescape cs).map (c :: ·)
  | c :: cs => if isMeta c then none else (unescape cs).map (c :: ·)

/-- `l ++ "\b"` ↦ `l` -/
def stripB : List Char → Option (List Char)
  | [] => none
  | ['\\', 'b'] => some []
  | c :: cs => (stripB cs).map (c :: ·)

def lastIsWord : List Char → Bool
  | [] => false
  | [c] => isWord c
  | _ :: cs => lastIsWord cs

def srcFloat1 : String := "[0-9]+\\.[0-9]*([eEdD][+-]?[0-9]+)?([a-zA-Z]*)"
def srcFloat2 : String := "[0-9]+(\\.[0-9]*)?[eEdD][+-]?[0-9]+([a-zA-Z]*)\\b"
def srcFloat3 : String := "[0-9]*\\.[0-9]+([eEdD][+-]?[0-9]+)?([a-zA-Z]*)"
def srcFloat4 : String := "[0-9]*\\.[0-9]+[eEdD][+-]?[0-9]+([a-zA-Z]*)\\b"
def srcFloat5 : String := "[0-9]+([a-zA-Z]+)"
def srcInt : String := "[0-9]+"
def srcIdent : String := "[@$a-z_A-Z_][@$a-zA-Z_0-9]*"
def srcWs : String := "[ \n\t]*"

/-- the matcher of a regular-expression source; `none`: a source the model does not know -/
def reOf (src : String) : Option Re :=
  if src = srcFloat1 then some .float1
  else if src = srcFloat2 then some .float2
  else if src = srcFloat3 then some .float3
  else if src = srcFloat4 then some .float4
  else if src = srcFloat5 then some .float5
  else if src = srcInt then some .int
  else if src = srcIdent then some .ident
  else if src = srcWs then some .ws
  else
    let cs := src.toList
    match stripB cs with
    | some l =>
      match unescape l with
      | some u => if lastIsWord u then some (.kw u) else none
      | none => none
    | none =>
      match unescape cs with
      | some [] => none
      | some u => some (.lit u)
      | none => none

/-- `match.end() - start` of `RE(src).match(s, start)`, `0` without a match -/
def reLen (src : String) (cs : List Char) : Nat :=
  match reOf src with
  | some r =>
    match r.run cs with
    | some rest => cs.length - rest.length
    | none => 0
  | none => 0

/-! ### `_matches_rule` and `lex` -/

/-- `dict(lex_table)[tag]`: the LAST entry with that tag -/
def dictGet (tbl : LexTable) (tag : String) : Option Body :=
  match tbl.reverse.find? (fun r => r.1 == tag) with
  | some r => some r.2
  | none => none

/-- a tuple of sub-rules: `none` = some sub-rule matched with length 0 (`break`) -/
def seqLen (m : Item → List Char → Nat) : List Item → List Char → Option Nat
  | [], _ => some 0
  | i :: is, cs =>
    let n := m i cs
    if n = 0 then none
    else match seqLen m is (cs.drop n) with
      | some k => some (n + k)
      | none => none

/-- a `"|"` tuple: the first alternative with non-zero length -/
def altLen (m : Item → List Char → Nat) : List Item → List Char → Nat
  | [], _ => 0
  | i :: is, cs =>
    let n := m i cs
    if n = 0 then altLen m is cs else n

def bodyLen (m : Item → List Char → Nat) : Body → List Char → Nat
  | .one i, cs => m i cs
  | .seq is, cs => (seqLen m is cs).getD 0
  | .alt is, cs => altLen m is cs

/-- an item of a body that a rule name refers to (names inside such a body are not followed:
`tableOk` rejects tables that would need it) -/
def innerLen : Item → List Char → Nat
  | .re src, cs => reLen src cs
  | .ref _, _ => 0

/-- `_matches_rule` for an item of a top-level rule body -/
def itemLen (tbl : LexTable) : Item → List Char → Nat
  | .re src, cs => reLen src cs
  | .ref tag, cs =>
    match dictGet tbl tag with
    | some b => bodyLen innerLen b cs
    | none => 0

def ruleLen (tbl : LexTable) (b : Body) (cs : List Char) : Nat := bodyLen (itemLen tbl) b cs

/-- the `for name, rule in lex_table` loop: first rule with a non-zero match -/
def firstMatch (tbl : LexTable) : LexTable → List Char → Option (String × Nat)
  | [], _ => none
  | (tag, body) :: rules, cs =>
    let n := ruleLen tbl body cs
    if n = 0 then firstMatch tbl rules cs else some (tag, n)

def itemKnown : Item → Bool
  | .re src => (reOf src).isSome
  | .ref _ => false

def bodyItems : Body → List Item
  | .one i => [i]
  | .seq is => is
  | .alt is => is

/-- the table is of the shape the model covers: every source is known, tuples are non-empty, a
rule name refers to a rule whose body contains sources only -/
def tableOk (tbl : LexTable) : Bool :=
  tbl.all fun r =>
    !(bodyItems r.2).isEmpty &&
    (bodyItems r.2).all fun i =>
      match i with
      | .re src => (reOf src).isSome
      | .ref tag =>
        match dictGet tbl tag with
        | some b => !(bodyItems b).isEmpty && (bodyItems b).all itemKnown
        | none => false

inductive LexErr where
  | invalidToken (idx : Nat)   -- `pytools.lex.InvalidTokenError`, `.index`
  | floatText                  -- `float(text)` raises ValueError (letter tag, incomplete exponent)
  | nonFinite                  -- the literal overflows to `inf`: tokens carry finite values only
  | intTooLong                 -- `int(text)`: more than 4300 digits (ValueError since Python 3.11)
  | imaginary                  -- an `imaginary` item (`assert match_obj` fails in `lex`)
  | unsupportedTable           -- the table has a shape / a source the model does not cover
  deriving Repr, DecidableEq, Inhabited

/-- a lexed item: tag and text (the index is the sum of the lengths before it) -/
abbrev Lexed := String × List Char

/-- the `while i < len(s)` loop; `fuel` ≥ number of characters left -/
def lexLoop (tbl : LexTable) : Nat → Nat → List Char → Except LexErr (List Lexed)
  | _, _, [] => pure []
  | 0, i, _ :: _ => throw (.invalidToken i)
  | fuel + 1, i, c :: cs =>
    match firstMatch tbl tbl (c :: cs) with
    | none => throw (.invalidToken i)
    | some (tag, n) => do
      let rest ← lexLoop tbl fuel (i + n) ((c :: cs).drop n)
      pure ((tag, (c :: cs).take n) :: rest)

/-- `pytools.lex.lex(table, s)` (whitespace items included) -/
def lexRawWith (tbl : LexTable) (cs : List Char) : Except LexErr (List Lexed) :=
  if tableOk tbl then lexLoop tbl cs.length 0 cs else throw .unsupportedTable

/-! ### numeric literals: `int(text)`, `float(text)`, `repr(float)` on exact rationals -/

/-- round `p/q` (`p, q > 0`) to the nearest double, ties to even: `some (m, e)` stands for
`m·2^e` with `e ≥ -1074`, `m ≤ 2^53`; `none`: overflow (`inf`) -/
def roundRatio (p q : Nat) : Option (Nat × Int) :=
  let e0 : Int := (p.log2 : Int) - (q.log2 : Int) - 53
  let mant (e : Int) : Nat × Nat :=
    if e ≥ 0 then (p, q * 2 ^ e.toNat) else (p * 2 ^ (-e).toNat, q)
  let nd0 := mant e0
  let e1 : Int := if nd0.1 / nd0.2 ≥ 2 ^ 53 then e0 + 1 else e0
  let e : Int := if e1 < -1074 then -1074 else e1
  let nd := mant e
  let m := nd.1 / nd.2
  let r := nd.1 % nd.2
  let m' := if 2 * r > nd.2 || (2 * r == nd.2 && m % 2 == 1) then m + 1 else m
  if e > 971 || (e == 971 && m' == 2 ^ 53) then none else some (m', e)

/-- the double nearest to `M·10^E` -/
def roundDecimal (M : Nat) (E : Int) : Option (Nat × Int) :=
  if M = 0 then some (0, 0)
  else
    let k : Int := ((Nat.toDigits 10 M).length : Int)
    if E + k > 310 then none
    else if E + k < -330 then some (0, 0)
    else if E ≥ 0 then roundRatio (M * 10 ^ E.toNat) 1
    else roundRatio M (10 ^ (-E).toNat)

/-- `(m·2^e).as_integer_ratio()` -/
def ratioOf (m : Nat) (e : Int) : Int × Nat :=
  if m = 0 then (0, 1)
  else if e ≥ 0 then ((m * 2 ^ e.toNat : Nat), 1)
  else
    let d := 2 ^ (-e).toNat
    let g := Nat.gcd m d
    ((m / g : Nat), d / g)

/-- `10^dl ≤ p/q` -/
def pow10Le (dl : Int) (p q : Nat) : Bool :=
  if dl ≥ 0 then decide (10 ^ dl.toNat * q ≤ p) else decide (q ≤ p * 10 ^ (-dl).toNat)

/-- `⌊log10 (p/q)⌋` for `p, q > 0` -/
def floorLog10 (p q : Nat) : Int :=
  let est : Int := ((p.log2 : Int) - (q.log2 : Int)) * 30103 / 100000
  match [est + 2, est + 1, est, est - 1, est - 2].find? (fun d => pow10Le d p q) with
  | some d => d
  | none => est - 3

/-- the `nd`-digit decimals next to `vp/vq` that read back as `target`, the closer one first
(`(c, k)` stands for `c·10^k`) -/
def tryDigits (vp vq : Nat) (target : Int × Nat) (dl : Int) (nd : Nat) : Option (Nat × Int) :=
  let k : Int := dl - ((nd : Int) - 1)
  let s : Nat × Nat := if k ≥ 0 then (vp, vq * 10 ^ k.toNat) else (vp * 10 ^ (-k).toNat, vq)
  let lo := s.1 / s.2
  let r := s.1 % s.2
  let ok (c : Nat) : Bool :=
    match roundDecimal c k with
    | some me => ratioOf me.1 me.2 == target
    | none => false
  if r = 0 then some (lo, k)
  else
    match ok lo, ok (lo + 1) with
    | true, true =>
      if 2 * r < s.2 then some (lo, k)
      else if 2 * r > s.2 then some (lo + 1, k)
      else some (if lo % 2 = 0 then lo else lo + 1, k)
    | true, false => some (lo, k)
    | false, true => some (lo + 1, k)
    | false, false => none

def stripTrailingZeros (ds : List Char) : List Char :=
  (ds.reverse.dropWhile (· == '0')).reverse

/-- shortest digit string that reads back as `m·2^e` (`m > 0`) and the position of the decimal
point (David Gay's mode 0, what `repr(float)` uses) -/
def shortestDigits (m : Nat) (e : Int) : List Char × Int :=
  let v : Nat × Nat := if e ≥ 0 then (m * 2 ^ e.toNat, 1) else (m, 2 ^ (-e).toNat)
  let target := ratioOf m e
  let dl := floorLog10 v.1 v.2
  let found := (List.range 17).findSome? fun i => tryDigits v.1 v.2 target dl (i + 1)
  let ck : Nat × Int := match found with
    | some ck => ck
    | none =>
      let k : Int := dl - 16
      let s : Nat × Nat := if k ≥ 0 then (v.1, v.2 * 10 ^ k.toNat) else (v.1 * 10 ^ (-k).toNat, v.2)
      ((2 * s.1 + s.2) / (2 * s.2), k)
  let ds := Nat.toDigits 10 ck.1
  (stripTrailingZeros ds, (ds.length : Int) + ck.2)

/-- `float_repr_style == 'short'`: fixed notation for `-4 < decpt ≤ 16`, else `d.ddde±XX` -/
def formatRepr (ds : List Char) (decpt : Int) : List Char :=
  if -4 < decpt ∧ decpt ≤ 16 then
    if decpt ≤ 0 then '0' :: '.' :: (List.replicate (-decpt).toNat '0' ++ ds)
    else if decpt.toNat < ds.length then ds.take decpt.toNat ++ '.' :: ds.drop decpt.toNat
    else ds ++ List.replicate (decpt.toNat - ds.length) '0' ++ ['.', '0']
  else
    let ex := decpt - 1
    let exd := Nat.toDigits 10 ex.natAbs
    let exd := if exd.length < 2 then '0' :: exd else exd
    let mant := match ds with
      | [] => ['0']
      | [d] => [d]
      | d :: rest => d :: '.' :: rest
    mant ++ 'e' :: (if ex < 0 then '-' else '+') :: exd

/-- `repr` of the non-negative double `m·2^e` -/
def reprDouble (m : Nat) (e : Int) : List Char :=
  if m = 0 then ['0', '.', '0']
  else
    let dd := shortestDigits m e
    formatRepr dd.1 dd.2

/-- the text of a `float` item read as `float(text.replace("d","e").replace("D","e"))`:
`some (M, E)` = `M·10^E`; `none`: ValueError -/
def parseFloatText (cs : List Char) : Option (Nat × Int) :=
  let ip := cs.takeWhile isDigit
  let r1 := cs.dropWhile isDigit
  let fr : List Char × List Char := match r1 with
    | '.' :: r => (r.takeWhile isDigit, r.dropWhile isDigit)
    | _ => ([], r1)
  if ip.isEmpty && fr.1.isEmpty then none
  else
    let M := Nat.ofDigitChars 10 (ip ++ fr.1) 0
    match fr.2 with
    | [] => some (M, -(fr.1.length : Int))
    | x :: r3 =>
      if isExpChar x then
        let sg : Bool × List Char := match r3 with
          | '-' :: r => (true, r)
          | '+' :: r => (false, r)
          | _ => (false, r3)
        if sg.2.isEmpty || !sg.2.all isDigit then none
        else
          let ex : Int := (Nat.ofDigitChars 10 sg.2 0 : Nat)
          some (M, (if sg.1 then -ex else ex) - (fr.1.length : Int))
      else none

/-- the token of a `float` item: repr of the value, value as a reduced fraction -/
def floatTok (text : List Char) : Except LexErr Tok :=
  match parseFloatText text with
  | none => throw .floatText
  | some (M, E) =>
    match roundDecimal M E with
    | none => throw .nonFinite
    | some (m, e) =>
      let nd := ratioOf m e
      pure (.flt (String.ofList (reprDouble m e)) nd.1 nd.2)

/-! ### from lexed items to the tokens of the parser model -/

/-- what `Parser.__call__` / `parse_terminal` make of one lexed item (`none`: whitespace, dropped) -/
def tokOf (l : Lexed) : Except LexErr (Option Tok) :=
  if l.1 = "whitespace" then pure none
  else if l.1 = "int" then
    if l.2.length > 4300 then throw .intTooLong else pure (some (.int (Nat.ofDigitChars 10 l.2 0)))
  else if l.1 = "float" then do
    let t ← floatTok l.2
    pure (some t)
  else if l.1 = "imaginary" then throw .imaginary
  else if l.1 = "identifier" then pure (some (.ident (String.ofList l.2)))
  else if l.1 = "True" then pure (some .tTrue)
  else if l.1 = "False" then pure (some .tFalse)
  else pure (some (.sym (String.ofList l.2)))

def toksOf : List Lexed → Except LexErr (List Tok)
  | [] => pure []
  | l :: ls => do
    let t ← tokOf l
    let ts ← toksOf ls
    pure (match t with
      | some t => t :: ts
      | none => ts)

/-- the token list the parser model starts from -/
def lexWith (tbl : LexTable) (s : String) : Except LexErr (List Tok) := do
  let ls ← lexRawWith tbl s.toList
  toksOf ls

/-! ### the table the model was written against (`Parser.lex_table`) -/

def table : LexTable :=
  [("equal", .one (.re "==")),
   ("notequal", .one (.re "!=")),
   ("equal", .one (.re "==")),
   ("leftshift", .one (.re "\\<\\<")),
   ("rightshift", .one (.re "\\>\\>")),
   ("lessequal", .one (.re "\\<=")),
   ("greaterequal", .one (.re "\\>=")),
   ("less", .one (.re "\\<")),
   ("greater", .one (.re "\\>")),
   ("assign", .one (.re "=")),
   ("and", .one (.re "and\\b")),
   ("or", .one (.re "or\\b")),
   ("not", .one (.re "not\\b")),
   ("if", .one (.re "if\\b")),
   ("else", .one (.re "else\\b")),
   ("imaginary", .seq [.ref "float", .re "j"]),
   ("float", .alt [.re "[0-9]+\\.[0-9]*([eEdD][+-]?[0-9]+)?([a-zA-Z]*)",
                   .re "[0-9]+(\\.[0-9]*)?[eEdD][+-]?[0-9]+([a-zA-Z]*)\\b",
                   .re "[0-9]*\\.[0-9]+([eEdD][+-]?[0-9]+)?([a-zA-Z]*)",
                   .re "[0-9]*\\.[0-9]+[eEdD][+-]?[0-9]+([a-zA-Z]*)\\b",
                   .re "[0-9]+([a-zA-Z]+)"]),
   ("int", .one (.re "[0-9]+")),
   ("plus", .one (.re "\\+")),
   ("minus", .one (.re "-")),
   ("exp", .one (.re "\\*\\*")),
   ("times", .one (.re "\\*")),
   ("floordiv", .one (.re "//")),
   ("over", .one (.re "/")),
   ("modulo", .one (.re "%")),
   ("bitwiseand", .one (.re "\\&")),
   ("bitwiseor", .one (.re "\\|")),
   ("bitwisenot", .one (.re "\\~")),
   ("bitwisexor", .one (.re "\\^")),
   ("openpar", .one (.re "\\(")),
   ("closepar", .one (.re "\\)")),
   ("openbracket", .one (.re "\\[")),
   ("closebracket", .one (.re "\\]")),
   ("True", .one (.re "True\\b")),
   ("False", .one (.re "False\\b")),
   ("identifier", .one (.re "[@$a-z_A-Z_][@$a-zA-Z_0-9]*")),
   ("whitespace", .one (.re "[ \n\t]*")),
   ("comma", .one (.re ",")),
   ("dot", .one (.re "\\.")),
   ("colon", .one (.re "\\:"))]

/-- the lexer of the current code -/
def lexRaw (cs : List Char) : Except LexErr (List Lexed) := lexRawWith table cs

/-- `lex : String → Except LexErr (List Tok)` -/
def lex (s : String) : Except LexErr (List Tok) := lexWith table s

/-! ### strings to trees -/

inductive StrErr where
  | lex (e : LexErr)
  | parse (e : PErr)
  deriving Repr, DecidableEq, Inhabited

/-- `Parser.__call__(expr_str, min_precedence)` -/
def parseStringWith (tbl : LexTable) (P : ParserPrec) (minPrec : Nat) (s : String) :
    Except StrErr Expr :=
  match lexWith tbl s with
  | .error e => .error (.lex e)
  | .ok ts =>
    match parseTop P minPrec ts with
    | .ok e => .ok e
    | .error e => .error (.parse e)

def parseString (P : ParserPrec) (minPrec : Nat) (s : String) : Except StrErr Expr :=
  parseStringWith table P minPrec s

end PV.Lexer
