import PV.Model.AlgoFft
import PV.Model.Ops
/-
  PV.Model.SymFft — `pymbolic.algorithm.sym_fft`: the SAME recursion `fft` run on expression
  objects.  `sym_fft(x, sign)` is

      NearZeroKiller()(fft(wrap_intermediate(x), sign=sign, wrap_intermediate=wrap_intermediate))

  with `wrap_intermediate(v)` = every entry wrapped in `CommonSubexpression` when `len(v) > 1`.
  Inside `fft` the numpy object arrays hold expressions, so `+` and `*` are the overloaded
  operators of `Expression` (`Ops.bin`, PV/Model/Ops.lean — flattening of sums and products,
  `x * 1 → x`, `0 + x → x`) and the wrapper is applied to every block of sub-transforms.

    * `c19FftW`   the recursion of `fft` with its wrapper hook (`c19Fft` is the instance with the
                  identity wrapper: `c19FftW_id`, PV/Proofs/SymFft.lean)
    * `symFft`    the instance on expression trees (carrier `Option Expr`: `none` = an operator
                  refused its operands), with the twiddle factors as a PARAMETER: `tw e` is the
                  expression that stands for the `e`-th power of the root of unity of the
                  top-level length (`exp(sign·(-2πi)·e/n)`); `symTw z` is the choice `1` for
                  `e = 0` (numpy's `exp(0)` is exactly `1`, which `x * 1 → x` folds away) and
                  `Power(z, e)` otherwise

  What stays outside: the complex exponential of numpy (its values are floats; here: a symbolic
  root), `NearZeroKiller` (it rewrites complex float constants only: the identity on these trees),
  the parameter-processing block of `fft` (recognised by shape, `fft_preamble_current`).

  Core Lean only: no imports outside PV.
-/
namespace PV.Algo

/-- one level of `fft` with the wrapper applied to every block
`wrap_intermediate_with_level(level, fft(x[n1::N1], …) * twiddles)` -/
def c19FftStepW {α : Type u} (add mul : α → α → α) (zero : α) (rp : Nat → Nat → α)
    (wrap : List α → List α) (sub : List α → List α) (x : List α) : List α :=
  let N1 := (findFactors x.length).1
  let N2 := (findFactors x.length).2
  let subFfts : List (List α) :=
    (List.range N1).map fun n1 =>
      wrap (c19VecMul mul (sub (stride x n1 N1)) (c19Twiddles rp N1 N2 n1))
  (List.range N1).flatMap fun k1 =>
    c19PySum add zero
      (subFfts.zipIdx.map fun (p : List α × Nat) => c19VecScale mul p.1 (rp N1 (p.2 * k1)))

def c19FftAuxW {α : Type u} (add mul : α → α → α) (zero : α) (rp : Nat → Nat → α)
    (wrap : List α → List α) : Nat → List α → List α
  | 0, x => x
  | fuel + 1, x =>
    if x.length = 1 then x
    else c19FftStepW add mul zero rp wrap (c19FftAuxW add mul zero rp wrap fuel) x

/-- `fft(x, sign, wrap_intermediate=wrap, …)` for `len(x) ≥ 1` (the legacy parameter
`wrap_intermediate` is handed down to every level of the recursion) -/
def c19FftW {α : Type u} (add mul : α → α → α) (zero : α) (rp : Nat → Nat → α)
    (wrap : List α → List α) (x : List α) : List α :=
  c19FftAuxW add mul zero rp wrap x.length x

/-! ## the instance on expression trees -/

/-- `a <op> b` on two objects an object array may hold: two Python numbers are combined by
Python itself (`constBin`), anything else goes through the overloaded operators (`Ops.bin`);
`none`: the operator raised / the model abstains -/
def symBin (o : PyBinOp) (a b : Expr) : Option Expr :=
  match a, b with
  | .const x, .const y => (constBin o x y).toOption
  | _, _ => (Ops.bin o a b).toOption

def symOp (o : PyBinOp) (x y : Option Expr) : Option Expr :=
  match x, y with
  | some a, some b => symBin o a b
  | _, _ => none

/-- `CommonSubexpression(e)` (no prefix, evaluation scope) -/
def symCse (e : Expr) : Expr := .cse e none "pymbolic_eval"

/-- `wrap_intermediate` of `sym_fft` -/
def symWrap (v : List (Option Expr)) : List (Option Expr) :=
  if v.length > 1 then v.map (Option.map symCse) else v

/-- the symbolic twiddle for the exponent `e`: `1` for `e = 0`, `Power(z, e)` otherwise -/
def symTw (z : String) (e : Nat) : Expr :=
  if e = 0 then .const (.int 1) else .bin .pow (.var z) (.const (.int e))

/-- `fft(wrap_intermediate(x), sign, wrap_intermediate=wrap_intermediate)` on the expressions
`xs`, the twiddle `exp(sign·(-2πi)·k/m)` being the expression `tw e`, `e = (n/m·k) mod n`
(`n = len(x)`; the exponential has period `n` in `e`, and of the exponents the recursion
produces only `e = 0` is a multiple of `n`: the recombination radix `N1` is prime) -/
def symFft (tw : Nat → Expr) (xs : List Expr) : List (Option Expr) :=
  c19FftW (symOp .add) (symOp .mul) (some zero)
    (fun m k => some (tw ((xs.length / m * k) % xs.length))) symWrap (symWrap (xs.map some))

/-- all entries, or `none` when an operator application failed -/
def symFftAll (tw : Nat → Expr) (xs : List Expr) : Option (List Expr) :=
  (symFft tw xs).mapM id

end PV.Algo
