import PV.Model.EvalTable
/-
  C02 — histories of evaluations in ONE PROCESS.

  A process creates many evaluator objects: every call of `evaluate` / `evaluate_kw` builds a fresh
  mapper around the environment it is given, and a program may keep a few long-lived mapper
  instances (each around its own, fixed environment) and call them repeatedly.  The only state of
  the evaluator as coded is per INSTANCE (`_cse_cache_dict`, `CachedMapper._cache`: `EvState`), so
  the model of a process threads one `EvState` per long-lived instance and starts every fresh
  object from the empty state.  Nothing is shared between objects.
-/
namespace PV

/-- one evaluation of a process history: on a fresh object (`inst = none`: `evaluate`,
`evaluate_kw`, `EvaluationMapper(env)(e)`, …) or on the long-lived instance number `k` -/
structure ProcStep where
  inst : Option Nat
  cached : Bool
  env : Env
  e : Expr

/-- the evaluator state of every long-lived instance used so far (most recent first) -/
abbrev ProcState := List (Nat × EvState)

def ProcState.stateOf : ProcState → Nat → EvState
  | [], _ => {}
  | (k', s) :: rest, k => if k' = k then s else ProcState.stateOf rest k

/-- run a process history with the instance-level evaluator `ev` -/
def runProcWith (ev : Bool → Env → Expr → EvM Value) : List ProcStep → ProcState → List R
  | [], _ => []
  | st :: rest, ps =>
    match st.inst with
    | none => (ev st.cached st.env st.e {}).1 :: runProcWith ev rest ps
    | some k =>
      let r := ev st.cached st.env st.e (ProcState.stateOf ps k)
      r.1 :: runProcWith ev rest ((k, r.2) :: ps)

/-- the hand-written model of the evaluator, over a process history -/
def runProc : List ProcStep → ProcState → List R := runProcWith evalG

/-- the table interpreter (handler table regenerated from the source), over a process history -/
def c02RunProcT (T : C02EvalTable) : List ProcStep → ProcState → List R :=
  runProcWith (c02EvalGT T)

end PV
