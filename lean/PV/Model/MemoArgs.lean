import PV.Model.Memo
import PV.Model.CacheTable
/-
  C05.  Cache keys whose EXTRA ARGUMENTS are arbitrary hashable values, not only scalars.

  `PV.Memo.Key` (Memo.lean) carries positional / keyword arguments that are constants.  The keys a
  sloppy `get_cache_key` confuses differ in the SHAPE of the extra arguments: a positional
  `("k", 7)` pair vs the keyword argument `k=7`, `(1, 2)` passed as one argument vs `1, 2`, `()` vs
  no argument at all.  Here the arguments are values built from constants and (nested) tuples —
  `Expr` restricted to `.const` / `.tuple`, compared by Python `==` (`Expr.pyEq`).

    * `KeyV`, `KeyV.eq`, `KeyV.cseEq`   the stock key `(type(expr), expr, args, immutabledict(kwargs))`
                                         and the mix-in key `(expr, *args)` on such arguments
    * `Key.toV`                          the scalar keys of Memo.lean are the special case
    * `c05KeyValsV`, `c05TupleEqV`       the reading of a regenerated key-tuple table (CacheTable.lean)
                                         on such arguments
    * `KeyV.flat`, `KeyV.flatEq`         a FLAT key `(type(expr), expr, *args, *kwargs.items())`:
                                         the kind of key the property excludes (witnesses in
                                         PV/Properties/C05Args.lean)
    * `firstIdx`, `internHist`           a history of `KeyV` calls renamed into a history of `Key`
                                         calls (every combination of extra arguments is replaced by
                                         the index of the first `==` combination): lets the driver
                                         run the handler families of Memo.lean on such histories
-/
namespace PV.Memo
open PV

/-- extra arguments of a call: positional values and keyword values (in the order passed) -/
structure ArgKeyV where
  args : List Expr := []
  kwargs : List (String × Expr) := []
  deriving Inhabited

def kwLookupV (n : String) : List (String × Expr) → Option Expr
  | [] => none
  | (m, v) :: rest => if m = n then some v else kwLookupV n rest

/-- `immutabledict == immutabledict` (keyword names are distinct): same size, same bindings -/
def kwEqV (a b : List (String × Expr)) : Bool :=
  a.length == b.length &&
    a.all fun p => match kwLookupV p.1 b with
      | some w => p.2.pyEq w
      | none => false

/-- `(args, immutabledict(kwargs)) == (args', immutabledict(kwargs'))` -/
def ArgKeyV.pyEq (a b : ArgKeyV) : Bool := Expr.pyEqL a.args b.args && kwEqV a.kwargs b.kwargs

structure KeyV where
  expr : Expr
  args : ArgKeyV := {}
  deriving Inhabited

/-- equality of `CachedMapper` keys `(type(expr), expr, args, immutabledict(kwargs))` -/
def KeyV.eq (a b : KeyV) : Bool := a.expr.keyEq b.expr && a.args.pyEq b.args

/-- equality of `CSECachingMapperMixin` keys `(expr, *args)` -/
def KeyV.cseEq (a b : KeyV) : Bool := Expr.pyEqL (a.expr :: a.args.args) (b.expr :: b.args.args)

/-- scalar arguments are values -/
def ArgKey.toV (a : ArgKey) : ArgKeyV :=
  { args := a.args.map .const, kwargs := a.kwargs.map fun p => (p.1, .const p.2) }

def Key.toV (k : Key) : KeyV := { expr := k.expr, args := k.args.toV }

/-! ## reading a key-tuple table on such arguments -/

inductive KValV where
  | ty (t : TypeTag)
  | expr (e : Expr)
  | args (a : List Expr)
  | kwargs (k : List (String × Expr))

/-- `==` on the components of key tuples -/
def KValV.eq : KValV → KValV → Bool
  | .ty a, .ty b => a == b
  | .expr a, .expr b => a.pyEq b
  | .args a, .args b => Expr.pyEqL a b
  | .kwargs a, .kwargs b => kwEqV a b
  | _, _ => false

/-- `tuple == tuple` -/
def tupleEqV : List KValV → List KValV → Bool
  | [], [] => true
  | a :: as, b :: bs => a.eq b && tupleEqV as bs
  | _, _ => false

/-- the values of the components of a key tuple for one dispatch (`c05KeyVals` on `KeyV`) -/
def c05KeyValsV (k : KeyV) : List C05KeyItem → List KValV
  | [] => []
  | .part .ty :: r => .ty k.expr.typeTag :: c05KeyValsV k r
  | .part .expr :: r => .expr k.expr :: c05KeyValsV k r
  | .part .args :: r => .args k.args.args :: c05KeyValsV k r
  | .part .kwargs :: r => .kwargs k.args.kwargs :: c05KeyValsV k r
  | .splatArgs :: r => k.args.args.map KValV.expr ++ c05KeyValsV k r

/-- Python `==` of the key tuples two dispatches build from the same key expression -/
def c05TupleEqV (items : List C05KeyItem) (a b : KeyV) : Bool :=
  tupleEqV (c05KeyValsV a items) (c05KeyValsV b items)

/-! ## a flat key -/

/-- `(expr, *args, *kwargs.items())` after `type(expr)`: positional arguments and keyword items
spliced into ONE tuple (the keyword items in the order given; for one keyword argument this is
`sorted(kwargs.items())`) -/
def KeyV.flat (k : KeyV) : List Expr :=
  k.expr :: (k.args.args ++ k.args.kwargs.map fun p => .tuple [.const (.str p.1), p.2])

def KeyV.flatEq (a b : KeyV) : Bool :=
  a.expr.typeTag == b.expr.typeTag && Expr.pyEqL a.flat b.flat

/-! ## histories: renaming combinations of extra arguments -/

/-- index of the first element of `cs` related to `a` (`cs.length` if there is none) -/
def firstIdx {α : Type} (r : α → α → Bool) (a : α) : List α → Nat
  | [] => 0
  | c :: cs => if r c a then 0 else firstIdx r a cs + 1

/-- a call with arbitrary argument values as a call with ONE scalar argument: the index of the
first combination of the history that is `==` to its own -/
def internKey (combos : List ArgKeyV) (k : KeyV) : Key :=
  { expr := k.expr, args := { args := [.int (firstIdx ArgKeyV.pyEq k.args combos)] } }

def internHist (ks : List KeyV) : List Key :=
  ks.map (internKey (ks.map (·.args)))

end PV.Memo
