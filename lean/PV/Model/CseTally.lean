import PV.Model.Cse
/-
  C12, end to end.  What an evaluator really DOES when it evaluates tagged expressions.

    `evalCnt`   : a thin counting copy of `evalTr` (the `EvaluationMapper` with the CSE result
                  cache).  On top of the `child` / `call` events of `evalTr` its log records
                    * `arithN o a b` / `arithB o a b` : one binary arithmetic operation was performed
                      (one `+` of `sum(...)`, one `*` of `product(...)`, one `/`, `//`, `%`, `**`)
                      — what a counting number bound in the environment observes;
                    * `node e` : the handler (`map_sum`, `map_product`, `map_quotient`,
                      `map_floor_div`, `map_remainder`, `map_power`, `map_call`) of the operation
                      node `e` has returned.
                  The functions of the environment are a parameter (`C12Sem`: they are assumed to
                  be pure, nothing else): `c12SemApp` is the symbolic application of `evalTr`.
    `c12Plan`   : the REFERENCE "every distinct operation once" of the harness oracle
                  (`reference_counts` with the one-level classifier): a memoising walk over the
                  ORIGINAL expressions that performs an operation unless an operation with the same
                  normalised key (`NormalizedKeyGetter`: sums and products up to the order of their
                  operands, the operands as written) has been performed before.
    `C12Tally`  : numbers of additions, multiplications, divisions, …, and the calls.
-/
namespace PV

/-! ### the counting evaluator -/

/-- what the functions of the environment compute: name, positional values, keyword names and
values.  Any (pure) function is allowed. -/
abbrev C12Sem := String → List Value → List String → List Value → R

/-- the symbolic application used by `evalTr` / `Value.call` -/
def c12SemApp : C12Sem := fun f as ns vs => pure (.app f as ns vs)

def c12AffineGo : Nat → List Value → Value → R
  | _, [], acc => pure acc
  | k, v :: vs, acc => do
      let t ← Value.mul (.int ((k : Int) + 2)) v
      let acc' ← Value.add acc t
      c12AffineGo (k + 1) vs acc'

/-- the counting function of the harness (`CntFunc`): `1 + Σ (k + 2) * v_k`, a number -/
def c12SemAffine : C12Sem := fun _ as _ _ => c12AffineGo 0 as (.int 1)

inductive C12Ev where
  /-- the child of wrapper `w` was computed (value `v`) and stored in `_cse_cache_dict` -/
  | child (w : Expr) (v : Value)
  /-- the environment function `f` was invoked -/
  | call (f : String) (args : List Value) (kwNames : List String) (kwVals : List Value)
  /-- one step `acc ∘ v` of the fold of an n-ary node -/
  | arithN (o : NaryOp) (a b : Value)
  /-- the operation of a binary node -/
  | arithB (o : BinOp) (a b : Value)
  /-- the handler of the operation node `e` has returned -/
  | node (e : Expr)
  deriving Inhabited

/-- newest event first -/
abbrev C12Log := List C12Ev

/-- `_cse_cache_dict` (newest entry first), read off the log -/
def c12CacheOf : C12Log → List (Expr × Value)
  | [] => []
  | .child w v :: rest => (w, v) :: c12CacheOf rest
  | _ :: rest => c12CacheOf rest

abbrev C12M (α : Type) := C12Log → Except Err α × C12Log

@[inline] def C12M.pure {α} (a : α) : C12M α := fun t => (.ok a, t)
@[inline] def C12M.throw {α} (e : Err) : C12M α := fun t => (.error e, t)
@[inline] def C12M.bind {α β} (x : C12M α) (f : α → C12M β) : C12M β := fun t =>
  match x t with
  | (.ok a, t') => f a t'
  | (.error e, t') => (.error e, t')
@[inline] def C12M.lift {α} (x : Except Err α) : C12M α := fun t => (x, t)
/-- append one event -/
@[inline] def C12M.emit (e : C12Ev) : C12M Unit := fun t => (.ok (), e :: t)

instance : Monad C12M where
  pure := C12M.pure
  bind := C12M.bind

/-- the handler of `e` has returned: logged for the operation classes of the property -/
def c12Done (e : Expr) : C12M Unit := fun t =>
  if e.isCseOp then (.ok (), .node e :: t) else (.ok (), t)

/-- applying an evaluated callee: the call is logged iff a function is really invoked -/
def c12Call (sem : C12Sem) (fv : Value) (args : List Value) (ns : List String) (kvs : List Value) :
    C12M Value :=
  fun t => match fv with
    | .func name => (sem name args ns kvs, .call name args ns kvs :: t)
    | .inexact => (.error .noClaim, t)
    | _ => (.error .typeError, t)

mutual
def evalCnt (sem : C12Sem) (env : Env) : Expr → C12M Value
  | .const c => C12M.lift c.den
  | .var x => match env.get x with
    | some v => C12M.pure v
    | none => C12M.throw (.unknownVar x)
  | .nary .sum cs => do
      let r ← evalCntFold sem env .sum (.int 0) cs
      c12Done (.nary .sum cs)
      C12M.pure r
  | .nary .prod cs => do
      let r ← evalCntFold sem env .prod (.int 1) cs
      c12Done (.nary .prod cs)
      C12M.pure r
  | .nary .bor cs => evalCntReduce sem env .bor cs
  | .nary .bxor cs => evalCntReduce sem env .bxor cs
  | .nary .band cs => evalCntReduce sem env .band cs
  | .nary .lor cs => evalCntAny sem env cs
  | .nary .land cs => evalCntAll sem env cs
  | .nary .min cs => evalCntMinMax sem env true none cs
  | .nary .max cs => evalCntMinMax sem env false none cs
  | .bin o a b => do
      let x ← evalCnt sem env a
      let y ← evalCnt sem env b
      C12M.emit (.arithB o x y)
      let r ← C12M.lift (o.apply x y)
      c12Done (.bin o a b)
      C12M.pure r
  | .un .bnot a => do
      let x ← evalCnt sem env a
      C12M.lift x.invert
  | .un .lnot a => do
      let x ← evalCnt sem env a
      let t ← C12M.lift x.truthy
      C12M.pure (.bool (!t))
  | .cmp o a b => do
      let x ← evalCnt sem env a
      let y ← evalCnt sem env b
      C12M.lift (Value.cmp o x y)
  | .ite c t e => do
      let cv ← evalCnt sem env c
      let tv ← C12M.lift cv.truthy
      if tv then evalCnt sem env t else evalCnt sem env e
  | .call f as => do
      let fv ← evalCnt sem env f
      let avs ← evalCntList sem env as
      let r ← c12Call sem fv avs [] []
      c12Done (.call f as)
      C12M.pure r
  | .callKw f as ns vs => do
      let avs ← evalCntList sem env as
      let kvs ← evalCntList sem env vs
      let fv ← evalCnt sem env f
      c12Call sem fv avs ns kvs
  | .subscript a i => do
      let av ← evalCnt sem env a
      let iv ← evalCnt sem env i
      C12M.lift (av.index iv)
  | .lookup a n => do
      let av ← evalCnt sem env a
      C12M.lift (av.getattr n)
  | .cse c p sc => fun t =>
      if c.hasList then (.error .typeError, t) else
      match findBy Expr.pyEq (.cse c p sc) (c12CacheOf t) with
      | some v => (.ok v, t)
      | none =>
        match evalCnt sem env c t with
        | (.ok v, t') => (.ok v, .child (.cse c p sc) v :: t')
        | (.error err, t') => (.error err, t')
  | .subst .. => C12M.throw .unsupportedExpr
  | .deriv .. => C12M.throw .unsupportedExpr
  | .slice _ => C12M.throw .unsupportedExpr
  | .nan => C12M.pure .inexact
  | .wildcard => C12M.throw .notImplemented
  | .dotWild _ => C12M.throw .notImplemented
  | .starWild _ => C12M.throw .notImplemented
  | .funcSym => C12M.throw .notImplemented
  | .tuple cs => do
      let vs ← evalCntList sem env cs
      C12M.pure (.tuple vs)
  | .list cs => do
      let vs ← evalCntList sem env cs
      C12M.pure (.list vs)
def evalCntFold (sem : C12Sem) (env : Env) (o : NaryOp) (acc : Value) : List Expr → C12M Value
  | [] => C12M.pure acc
  | c :: cs => do
      let v ← evalCnt sem env c
      C12M.emit (.arithN o acc v)
      let acc' ← C12M.lift (o.apply acc v)
      evalCntFold sem env o acc' cs
def evalCntReduce (sem : C12Sem) (env : Env) (o : NaryOp) : List Expr → C12M Value
  | [] => C12M.throw .typeError
  | c :: cs => do
      let v ← evalCnt sem env c
      evalCntFold sem env o v cs
def evalCntAny (sem : C12Sem) (env : Env) : List Expr → C12M Value
  | [] => C12M.pure (.bool false)
  | c :: cs => do
      let v ← evalCnt sem env c
      let t ← C12M.lift v.truthy
      if t then C12M.pure (.bool true) else evalCntAny sem env cs
def evalCntAll (sem : C12Sem) (env : Env) : List Expr → C12M Value
  | [] => C12M.pure (.bool true)
  | c :: cs => do
      let v ← evalCnt sem env c
      let t ← C12M.lift v.truthy
      if t then evalCntAll sem env cs else C12M.pure (.bool false)
def evalCntMinMax (sem : C12Sem) (env : Env) (isMin : Bool) (cur : Option Value) :
    List Expr → C12M Value
  | [] => match cur with
    | some m => C12M.pure m
    | none => C12M.throw .valueError
  | c :: cs => do
      let v ← evalCnt sem env c
      match cur with
      | none => evalCntMinMax sem env isMin (some v) cs
      | some m =>
        let better ← C12M.lift (Value.better isMin v m)
        evalCntMinMax sem env isMin (some (if better then v else m)) cs
/-- `[m(e) for e in exprs]` on ONE evaluator: in order, the first exception aborts -/
def evalCntList (sem : C12Sem) (env : Env) : List Expr → C12M (List Value)
  | [] => C12M.pure []
  | c :: cs => do
      let v ← evalCnt sem env c
      let vs ← evalCntList sem env cs
      C12M.pure (v :: vs)
end

/-- forgetting the arithmetic and handler events: the log of `evalTr` -/
def c12Erase : C12Log → Log
  | [] => []
  | .child w v :: rest => .child w v :: c12Erase rest
  | .call f as ns vs :: rest => .call f as ns vs :: c12Erase rest
  | _ :: rest => c12Erase rest

/-! ### what is counted -/

inductive C12Kind where
  | nary (o : NaryOp)       -- one step of the fold of a sum (an addition), of a product, …
  | bin (o : BinOp)         -- a division, floor division, remainder, power, shift
  | call                    -- an invocation of an environment function
  deriving DecidableEq, Inhabited

def C12Ev.kind? : C12Ev → Option C12Kind
  | .arithN o _ _ => some (.nary o)
  | .arithB o _ _ => some (.bin o)
  | .call .. => some .call
  | _ => none

/-- the number of operations of kind `k` a log records -/
def c12Count (k : C12Kind) : C12Log → Nat
  | [] => 0
  | e :: rest => (if e.kind? = some k then 1 else 0) + c12Count k rest

/-- the operation nodes whose handler returned, newest first -/
def c12Nodes : C12Log → List Expr
  | [] => []
  | .node e :: rest => e :: c12Nodes rest
  | _ :: rest => c12Nodes rest

/-- the calls (function, positional values), newest first -/
def c12Calls : C12Log → List (String × List Value)
  | [] => []
  | .call f as _ _ :: rest => (f, as) :: c12Calls rest
  | _ :: rest => c12Calls rest

/-- the number of operations of kind `k` ONE evaluation of the handler of `e` performs itself
(operands not included): a sum of n operands is n additions starting from 0, as `sum(...)` does -/
def c12CostNode (k : C12Kind) : Expr → Nat
  | .nary o cs => if k = .nary o then cs.length else 0
  | .bin o _ _ => if k = .bin o then 1 else 0
  | .call _ _ => if k = .call then 1 else 0
  | _ => 0

def c12Cost (k : C12Kind) : List Expr → Nat
  | [] => 0
  | e :: es => c12CostNode k e + c12Cost k es

structure C12Tally where
  add : Nat
  mul : Nat
  div : Nat
  floordiv : Nat
  mod : Nat
  pow : Nat
  call : Nat
  deriving DecidableEq, Repr, Inhabited

def c12TallyOfLog (t : C12Log) : C12Tally :=
  ⟨c12Count (.nary .sum) t, c12Count (.nary .prod) t, c12Count (.bin .quot) t,
   c12Count (.bin .floordiv) t, c12Count (.bin .rem) t, c12Count (.bin .pow) t, c12Count .call t⟩

def c12TallyOfNodes (ns : List Expr) : C12Tally :=
  ⟨c12Cost (.nary .sum) ns, c12Cost (.nary .prod) ns, c12Cost (.bin .quot) ns,
   c12Cost (.bin .floordiv) ns, c12Cost (.bin .rem) ns, c12Cost (.bin .pow) ns, c12Cost .call ns⟩

/-! ### the reference: every distinct operation once -/

/-- same normalised key (Python `==` of the keys of `NormalizedKeyGetter`) -/
def c12SameKey (a b : Expr) : Bool := (normalizedKey a).eq (normalizedKey b)

/-- an operation with the key of `e` is in the memo `d` -/
def c12Has (d : List Expr) (e : Expr) : Bool := d.any fun s => c12SameKey s e

mutual
/-- `reference_counts(…, onelevel_class)`: `d` is the memo (the operations performed so far, in
the order in which they were performed); an operation whose key is in the memo is not performed
again and its operands are not looked at; otherwise the operands come first, left to right (for a
call: the function, then the parameters), then the operation itself. -/
def c12Plan : Expr → List Expr → List Expr
  | .nary o cs, d => if c12Has d (.nary o cs) then d else c12PlanL cs d ++ [.nary o cs]
  | .bin o a b, d =>
      if c12Has d (.bin o a b) then d else c12Plan b (c12Plan a d) ++ [.bin o a b]
  | .call f as, d =>
      if c12Has d (.call f as) then d else c12PlanL as (c12Plan f d) ++ [.call f as]
  | _, d => d
def c12PlanL : List Expr → List Expr → List Expr
  | [], d => d
  | c :: cs, d => c12PlanL cs (c12Plan c d)
end

/-- the reference tally of a list of input expressions -/
def c12RefTally (es : List Expr) : C12Tally := c12TallyOfNodes (c12PlanL es [])

/-- tag the list, then evaluate ALL tagged expressions with ONE evaluator -/
def c12TagRun (sem : C12Sem) (env : Env) (es : List Expr) :
    Except CseErr (List Expr × (Except Err (List Value) × C12Log)) := do
  let out ← tagAll es
  pure (out, evalCntList sem env out [])

/-- the tally of that run (`none`: tagging or some evaluation raised) -/
def c12RunTally (sem : C12Sem) (env : Env) (es : List Expr) : Option C12Tally :=
  match c12TagRun sem env es with
  | .ok (_, (.ok _, t)) => some (c12TallyOfLog t)
  | _ => none

/-- the operation nodes whose handler ran in that run, oldest first -/
def c12RunNodes (sem : C12Sem) (env : Env) (es : List Expr) : Option (List Expr) :=
  match c12TagRun sem env es with
  | .ok (_, (.ok _, t)) => some (c12Nodes t).reverse
  | _ => none

end PV
