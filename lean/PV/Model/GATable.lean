import PV.Model.GA
/-
  C18 (T-gen).  The functions of `pymbolic/geometric_algebra/__init__.py` as plain DATA —
  regenerated from the live source of the tree under test by extract/geometric_algebra.py into
  lean/PV/Generated/GATable.lean — and the reading of that data:

    * `C18Expr`, `C18Stmt`, `C18Fn`, `C18Class`, `C18Module`
        a small Python subset: names, integer literals, the arithmetic / bit / comparison /
        boolean operators, attribute access, indexing, calls (positional + keyword), dict / list /
        tuple displays, dict comprehensions and generators; assignments (names, tuples of names,
        `d[k] = v`, `self.a = v`), augmented assignments, `if`, `while`, `for`, `return`, `raise`,
        `del d[k]`, `pass`, `assert` (kept as text), function-level `from m import n as a`;
        functions with their parameters, defaults and decorators; class bodies with their
        methods, aliases (`orthogonal_blade_product_weight = generic_blade_product_weight`) and
        bases.
    * `c18Eval`, `c18Exec`, `c18RunFn`, `c18CallIn`, `c18Call`
        what such a program does on values (`C18Val`): Python ints, coefficients of an arbitrary
        type `R`, bools, `None`, lists / tuples, bitmap→coefficient dicts (`MVOf R`, in insertion
        order, with the `dictGet / dictSet / dictDel` of the model), `MultiVector` instances,
        the (one) `Space`, classes, functions.  Operators on `MultiVector` operands dispatch to
        the dunder methods OF THE TABLE, attribute look-up on classes goes through the class
        rows OF THE TABLE (aliases and bases resolved like Python does), names resolve to
        locals, then the functions / classes / imports OF THE TABLE, then builtins.

  Nothing here knows the current source.  What is NOT table-driven (and is therefore the trusted
  meaning of the table language) is listed where it is defined: the builtins `c18Prim`, the
  operators on ints/coefficients `c18BinVal`, the attributes of the `Space` object `c18SpaceAttr`
  (metric, `is_orthogonal`, `dimensions`: numpy code, kept as pinned source text in the table),
  the set-iteration order of `__add__` (the model's choice), `integer_power` (C19's model).

  Loops: `for` is structural recursion over the materialised item list; every execution of a
  `while` loop may iterate at most `fuel` times (`.fuel` otherwise); calls need no fuel: the
  function list is topologically sorted (callers first) and a call resolves in the TAIL of the
  list behind the running function (`c18CallIn`), which for an acyclic call graph with unique
  names is Python's look-up by name.

  PV/Proofs/GATable.lean proves that for the regenerated table these readings ARE the
  hand-written model of PV/Model/GA.lean, for all inputs.
-/
namespace PV.GA

/-! ## syntax -/

inductive C18Bin where
  | add | sub | mul | truediv | floordiv | mod | pow | band | bor | bxor | shl | shr
  deriving Repr, DecidableEq, Inhabited

inductive C18Cmp where
  | eq | ne | lt | le | gt | ge | is | isNot | isIn | notIn
  deriving Repr, DecidableEq, Inhabited

inductive C18Un where
  | neg | pos | not
  deriving Repr, DecidableEq, Inhabited

inductive C18Expr where
  | name (n : String)
  | nat (n : Nat)
  | str (s : String)
  | none
  | bin (op : C18Bin) (a b : C18Expr)
  | un (op : C18Un) (a : C18Expr)
  | cmp (op : C18Cmp) (a b : C18Expr)
  | and (a b : C18Expr)
  | or (a b : C18Expr)
  | ifExp (c t e : C18Expr)
  | attr (e : C18Expr) (a : String)
  /-- `e[i]`, `e[i, j]` -/
  | index (e : C18Expr) (idx : List C18Expr)
  /-- `f(args…, k=v…)` for an `f` that is not an attribute access -/
  | call (f : C18Expr) (args : List C18Expr) (kwNames : List String) (kwVals : List C18Expr)
  /-- `recv.m(args…, k=v…)` -/
  | callMethod (recv : C18Expr) (m : String) (args : List C18Expr) (kwNames : List String)
      (kwVals : List C18Expr)
  /-- `{k: v, …}` -/
  | dict (keys vals : List C18Expr)
  | list (items : List C18Expr)
  | tuple (items : List C18Expr)
  /-- `{k: v for targets in iter}` -/
  | dictComp (k v : C18Expr) (targets : List String) (iter : C18Expr)
  /-- `[elt for targets in iter if conds…]` (`kind = "list"`), the generator expression
  (`"gen"`), the set comprehension (`"set"`) -/
  | gen (kind : String) (elt : C18Expr) (targets : List String) (iter : C18Expr)
      (conds : List C18Expr)
  deriving Repr, Inhabited

/-- an assignment target -/
inductive C18Target where
  | name (n : String)
  /-- `obj[i] = …` for a local `obj` -/
  | index (obj : String) (i : C18Expr)
  /-- `obj.a = …` for a local `obj` -/
  | attr (obj : String) (a : String)
  /-- `(x, y)` as one element of an unpacking target: `(x, y), = …` -/
  | names (ns : List String)
  deriving Repr, Inhabited

inductive C18Stmt where
  /-- `t = e`; with `unpack`: `t1, t2, … = e` -/
  | assign (targets : List C18Target) (unpack : Bool) (e : C18Expr)
  /-- `t op= e` -/
  | aug (t : C18Target) (op : C18Bin) (e : C18Expr)
  | ifThen (c : C18Expr) (body orelse : List C18Stmt)
  | while (c : C18Expr) (body : List C18Stmt)
  | forIn (targets : List String) (iter : C18Expr) (body : List C18Stmt)
  | ret (e : C18Expr)
  /-- `raise Exc(…)` / `raise Exc` -/
  | raise (exc : String)
  /-- `del obj[i]` -/
  | del (obj : String) (i : C18Expr)
  | pass
  /-- `assert …`, kept as source text: assumed to hold (not executed) -/
  | assert (src : String)
  /-- `from module import name as asname` inside a function -/
  | importFrom (module name asname : String)
  deriving Repr, Inhabited

/-- a function / method definition -/
structure C18Fn where
  /-- `name` for module-level functions, `Class.name` for methods -/
  qual : String
  /-- the name of the `def` -/
  name : String
  params : List String
  /-- the trailing parameters that have defaults, with the default expressions -/
  defaults : List (String × C18Expr)
  /-- the local variables of the body other than the parameters, in the order in which the body
  first binds them (what Python's compiler makes `fast locals`: assignment, `for` and import
  targets; comprehension targets live in their own scope) -/
  locals : List String
  /-- decorator names, outermost first (`property`, `staticmethod`, `memoize_method`, `memoize`) -/
  decorators : List String
  body : List C18Stmt
  deriving Repr, Inhabited

inductive C18Attr where
  /-- `def name(…)` in the class body: the function `qual` of the function list; `kind` is
  `"plain"`, `"static"` or `"property"` -/
  | method (qual kind : String)
  /-- `name = other_name` in the class body (bound to what `other_name` is bound to there) -/
  | alias (target : String)
  /-- a definition this table does not translate (pinned text in `C18Module.pinned`) or a class
  attribute that is not a function -/
  | other (src : String)
  deriving Repr, DecidableEq, Inhabited

structure C18Class where
  name : String
  bases : List String
  attrs : List (String × C18Attr)
  deriving Repr, DecidableEq, Inhabited

structure C18Module where
  /-- translated functions, topologically sorted: a function only calls functions behind it -/
  fns : List C18Fn
  /-- `fns.map (·.qual)` -/
  fnNames : List String
  classes : List C18Class
  /-- module-level imports: local name ↦ qualified name -/
  imports : List (String × String)
  /-- definitions kept as (normalised) source text: qualified name ↦ text -/
  pinned : List (String × String)
  deriving Repr, Inhabited

/-! ## values -/

inductive C18Val (R : Type) where
  | none
  | bool (b : Bool)
  /-- a non-negative Python int -/
  | nat (n : Nat)
  /-- the negative Python int `-(n + 1)` -/
  | neg (n : Nat)
  /-- a coefficient -/
  | coef (r : R)
  | str (s : String)
  /-- a list; also the materialised form of `range`, `enumerate`, `dict.items()/keys()/values()`,
  sets, `sorted`, list comprehensions and generators -/
  | list (xs : List (C18Val R))
  | tuple (xs : List (C18Val R))
  /-- a dict from bitmaps to coefficients, in insertion order -/
  | dict (d : MVOf R)
  /-- a dict from index tuples to coefficients -/
  | tdict (d : List (List Nat × R))
  /-- a one-dimensional numpy array of coefficients -/
  | vec (xs : List R)
  /-- a `MultiVector` instance (under construction while an attribute is missing) -/
  | obj (hasSpace : Bool) (data : Option (MVOf R))
  /-- THE space (the model has one ambient space) and its `metric_matrix` -/
  | space
  | metric
  | cls (name : String)
  | fn (qual : String)
  | prim (name : String)
  /-- a hash value -/
  | hash (h : Nat)
  | notImplemented
  /-- the content of a local variable that has not been bound yet -/
  | unbound
  deriving Inhabited

/-- a Python int -/
def C18Val.ofInt {R : Type} : Int → C18Val R
  | .ofNat n => .nat n
  | .negSucc n => .neg n

/-- a complete `MultiVector` with data `d` -/
abbrev C18Val.mv {R : Type} (d : MVOf R) : C18Val R := .obj true (some d)

inductive C18Res (α : Type) where
  | ok (a : α)
  /-- a Python exception of that class -/
  | raise (exc : String)
  /-- the reading gives this program no meaning here -/
  | stuck (why : String)
  /-- a `while` loop ran out of fuel -/
  | fuel
  deriving Repr, Inhabited

def C18Res.bind {α β : Type} : C18Res α → (α → C18Res β) → C18Res β
  | .ok a, f => f a
  | .raise e, _ => .raise e
  | .stuck w, _ => .stuck w
  | .fuel, _ => .fuel

instance : Monad C18Res where
  pure := .ok
  bind := C18Res.bind

abbrev C18Env (R : Type) := List (String × C18Val R)

section Interp
variable {R : Type}

def c18Get (n : String) : C18Env R → Option (C18Val R)
  | [] => none
  | (m, v) :: rest => if m = n then some v else c18Get n rest

/-- bind a local: an existing binding is replaced in place, a new one goes to the end -/
def c18Set (n : String) (v : C18Val R) : C18Env R → C18Env R
  | [] => [(n, v)]
  | (m, w) :: rest => if m = n then (m, v) :: rest else (m, w) :: c18Set n v rest

/-- what the interpretation of one space / coefficient type depends on -/
structure C18Ctx (R : Type) where
  /-- `pymbolic.primitives.is_zero` on coefficients -/
  z : R → Bool
  /-- Python `==` on coefficients -/
  ceq : R → R → Bool
  /-- `/` on coefficients (`ZeroDivisionError` is decided by `z`) -/
  div : R → R → R
  /-- `space.metric_matrix[i, i]` -/
  g : Nat → R
  /-- `space.basis_names` -/
  names : List String
  /-- `space.is_orthogonal` -/
  orth : Bool
  /-- the space is `get_euclidean_space(len(names))` -/
  euclid : Bool
  /-- `hash(space)`, `hash(bits)`, `hash(coeff)` -/
  hspace : Nat
  hb : Nat → Nat
  hc : R → Nat

def C18Ctx.dims (Γ : C18Ctx R) : Nat := Γ.names.length

variable [Add R] [Mul R] [Neg R] [OfNat R 0] [OfNat R 1]

/-- a Python int as a coefficient (what `int * coeff`, `int + coeff` coerce to) -/
def c18OfNat : Nat → R
  | 0 => 0
  | 1 => 1
  | n + 2 => c18OfNat (n + 1) + 1

def c18OfInt : Int → R
  | .ofNat n => c18OfNat n
  | .negSucc n => -(c18OfNat (n + 1))

/-- the Python int a value is (`bool` is a subclass of `int` but is kept apart here) -/
def C18Val.toInt? : C18Val R → Option Int
  | .nat n => some (Int.ofNat n)
  | .neg n => some (Int.negSucc n)
  | _ => Option.none

/-- `d.items()` -/
def c18Items (d : MVOf R) : List (C18Val R) :=
  d.map fun (k, c) => .tuple [.nat k, .coef c]

def c18TItems (d : List (List Nat × R)) : List (C18Val R) :=
  d.map fun (k, c) => .tuple [.tuple (k.map fun i => .nat i), .coef c]

/-- the values a `for` / comprehension iterates over -/
def c18Iter : C18Val R → Option (List (C18Val R))
  | .list xs => some xs
  | .tuple xs => some xs
  | .dict d => some (d.map fun (k, _) => .nat k)
  | .tdict d => some (d.map fun (k, _) => .tuple (k.map fun i => .nat i))
  | .vec xs => some (xs.map .coef)
  | _ => Option.none

def c18Truthy : C18Val R → Option Bool
  | .none => some false
  | .bool b => some b
  | .nat n => some (n != 0)
  | .neg _ => some true
  | .list xs => some (!xs.isEmpty)
  | .tuple xs => some (!xs.isEmpty)
  | .dict d => some (!d.isEmpty)
  | .tdict d => some (!d.isEmpty)
  | .str s => some (s != "")
  | .obj _ (some d) => some (!d.isEmpty)   -- only through `MultiVector.__bool__` of the table
  | _ => Option.none

/-- Python `==` where this reading defines it -/
def c18ValEq (Γ : C18Ctx R) : C18Val R → C18Val R → Option Bool
  | .nat a, .nat b => some (a == b)
  | .neg a, .neg b => some (a == b)
  | .nat _, .neg _ => some false
  | .neg _, .nat _ => some false
  | .bool a, .bool b => some (a == b)
  | .nat a, .bool b => some (a == (if b then 1 else 0))
  | .bool a, .nat b => some ((if a then 1 else 0) == b)
  | .none, .none => some true
  | .none, .nat _ => some false
  | .nat _, .none => some false
  | .str a, .str b => some (a == b)
  | .coef a, .coef b => some (Γ.ceq a b)
  | .coef a, .nat b => some (Γ.ceq a (c18OfNat b))
  | .nat a, .coef b => some (Γ.ceq (c18OfNat a) b)
  | .dict a, .dict b =>
    some (a.length == b.length && a.all fun (k, v) =>
      match dictGet b k with | some w => Γ.ceq v w | Option.none => false)
  | _, _ => Option.none

/-- `x is y` for the singletons / the one space -/
def c18Is : C18Val R → C18Val R → Option Bool
  | .none, .none => some true
  | .notImplemented, .notImplemented => some true
  | .space, .space => some true
  | .none, _ => some false
  | _, .none => some false
  | .notImplemented, _ => some false
  | _, .notImplemented => some false
  | _, _ => Option.none

/-- the Python int `-n` -/
def c18NegOfNat (n : Nat) : C18Val R := if n = 0 then .nat 0 else .neg (n - 1)

/-- `+ - * // %` on two Python ints of which at least one is negative -/
def c18IntOp (op : C18Bin) (a b : Int) : C18Res (C18Val R) :=
  match op with
  | .add => .ok (.ofInt (a + b))
  | .sub => .ok (.ofInt (a - b))
  | .mul => .ok (.ofInt (a * b))
  | .floordiv => if b = 0 then .raise "ZeroDivisionError" else .ok (.ofInt (Int.fdiv a b))
  | .mod => if b = 0 then .raise "ZeroDivisionError" else .ok (.ofInt (Int.fmod a b))
  | _ => .stuck "operator on a negative int"

/-- an int or a coefficient as a coefficient -/
def c18CoefOf : C18Val R → Option R
  | .nat n => some (c18OfNat n)
  | .neg n => some (-(c18OfNat (n + 1)))
  | .coef c => some c
  | _ => Option.none

/-- `+ - * /` on two coefficients (one of them may have been a Python int) -/
def c18CoefOp (Γ : C18Ctx R) (op : C18Bin) (a b : R) : C18Res (C18Val R) :=
  match op with
  | .add => .ok (.coef (a + b))
  | .sub => .ok (.coef (a + -b))
  | .mul => .ok (.coef (a * b))
  | .truediv => if Γ.z b then .raise "ZeroDivisionError" else .ok (.coef (Γ.div a b))
  | _ => .stuck "operator on coefficients"

/-- equality of two non-negative ints (the elements of the key sets of `__add__`) -/
def c18NatEq : C18Val R → C18Val R → Bool
  | .nat i, .nat j => i == j
  | _, _ => false

/-- the binary operators on ints and coefficients (operands that are `MultiVector`s are
dispatched to the table before this is reached) -/
def c18BinVal (Γ : C18Ctx R) (op : C18Bin) : C18Val R → C18Val R → C18Res (C18Val R)
  | .nat a, .nat b =>
    match op with
    | .add => .ok (.nat (a + b))
    | .sub => .ok (if b ≤ a then .nat (a - b) else .neg (b - a - 1))
    | .mul => .ok (.nat (a * b))
    | .floordiv => if b = 0 then .raise "ZeroDivisionError" else .ok (.nat (a / b))
    | .mod => if b = 0 then .raise "ZeroDivisionError" else .ok (.nat (a % b))
    | .pow => .ok (.nat (a ^ b))
    | .band => .ok (.nat (a &&& b))
    | .bor => .ok (.nat (a ||| b))
    | .bxor => .ok (.nat (a ^^^ b))
    | .shl => .ok (.nat (a <<< b))
    | .shr => .ok (.nat (a >>> b))
    | .truediv => .stuck "int / int"
  | .nat a, .neg b =>
    match op with
    | .mul => .ok (c18NegOfNat (a * (b + 1)))
    | _ => c18IntOp op (Int.ofNat a) (Int.negSucc b)
  | .neg a, .nat b =>
    match op with
    | .mul => .ok (c18NegOfNat ((a + 1) * b))
    | _ => c18IntOp op (Int.negSucc a) (Int.ofNat b)
  | .neg a, .neg b =>
    match op with
    | .mul => .ok (.nat ((a + 1) * (b + 1)))
    | _ => c18IntOp op (Int.negSucc a) (Int.negSucc b)
  | .coef a, .coef b => c18CoefOp Γ op a b
  | .nat a, .coef b => c18CoefOp Γ op (c18OfNat a) b
  | .neg a, .coef b => c18CoefOp Γ op (-(c18OfNat (a + 1))) b
  | .coef a, .nat b => c18CoefOp Γ op a (c18OfNat b)
  | .coef a, .neg b => c18CoefOp Γ op a (-(c18OfNat (b + 1)))
  | .hash a, .hash b =>
    match op with
    | .bxor => .ok (.hash (a ^^^ b))
    | _ => .stuck "operator on hashes"
  | .list a, .list b =>
    match op with
    /- `set | set`: the union, iterated in the model's order (the items of `a`, then the new
    items of `b`); CPython's set order is an implementation detail -/
    | .bor => .ok (.list (a ++ b.filter fun y => !a.any fun x => c18NatEq x y))
    | _ => .stuck "operator on lists"
  | _, _ => .stuck "operator on these operands"

def c18DunderOf : C18Bin → String
  | .add => "add" | .sub => "sub" | .mul => "mul" | .truediv => "truediv"
  | .floordiv => "floordiv" | .mod => "mod" | .pow => "pow" | .band => "and" | .bor => "or"
  | .bxor => "xor" | .shl => "lshift" | .shr => "rshift"

/-! ### classes of the table -/

def c18AssocStr {α : Type} (n : String) : List (String × α) → Option α
  | [] => Option.none
  | (m, v) :: rest => if m = n then some v else c18AssocStr n rest

def c18ClassOf (M : C18Module) (n : String) : Option C18Class := M.classes.find? (·.name == n)

/-- an attribute of a class body, aliases followed inside the same body -/
def c18OwnAttr (c : C18Class) (a : String) : Option C18Attr :=
  match c18AssocStr a c.attrs with
  | some (.alias t) => c18AssocStr t c.attrs
  | r => r

/-- Python attribute look-up on a class: own body, then the bases in order (depth-first; the
classes of this module have at most one base) -/
def c18FindAttr (M : C18Module) : Nat → String → String → Option C18Attr
  | 0, _, _ => Option.none
  | d + 1, cn, a =>
    match c18ClassOf M cn with
    | Option.none => Option.none
    | some c =>
      match c18OwnAttr c a with
      | some r => some r
      | Option.none => c.bases.findSome? fun b => c18FindAttr M d b a

def c18ClassAttr (M : C18Module) (cn a : String) : Option C18Attr :=
  c18FindAttr M (M.classes.length + 1) cn a

/-! ### the interpreter -/

abbrev C18Callee (R : Type) := String → List (C18Val R) → List (String × C18Val R) → C18Res (C18Val R)

/-- everything evaluation depends on -/
structure C18Rt (R : Type) where
  M : C18Module
  Γ : C18Ctx R
  fuel : Nat
  /-- the functions behind the running one -/
  callee : C18Callee R

def c18Builtins : List String :=
  ["len", "int", "bool", "isinstance", "hash", "set", "sorted", "enumerate", "tuple", "list",
   "range", "any", "dict", "abs", "min", "max"]

/-- a global name: the functions / classes / imports of the table, then builtins -/
def c18Global (M : C18Module) (n : String) : C18Res (C18Val R) :=
  if M.fnNames.contains n then .ok (.fn n)
  else if (c18ClassOf M n).isSome then .ok (.cls n)
  else match c18AssocStr n M.imports with
    | some q => .ok (.prim q)
    | Option.none =>
      if n = "NotImplemented" then .ok .notImplemented
      else if c18Builtins.contains n then .ok (.prim n)
      -- a module-level definition kept as pinned text: its meaning is the fixed one of `c18Prim`
      else if (M.pinned.map (·.1)).contains n then .ok (.prim n)
      else .stuck ("unbound name " ++ n)

/-- a name: locals first -/
def c18Lookup (rt : C18Rt R) (n : String) (env : C18Env R) : C18Res (C18Val R) :=
  match c18Get n env with
  | some .unbound => .raise "UnboundLocalError"
  | some v => .ok v
  | Option.none => c18Global rt.M n

/-- insertion into a list of int tuples sorted by Python's tuple order -/
def c18TupleLe : List (C18Val R) → List (C18Val R) → Bool
  | [], _ => true
  | _ :: _, [] => false
  | .nat a :: as, .nat b :: bs => a < b || (a == b && c18TupleLe as bs)
  | _, _ => false

def c18ValLe : C18Val R → C18Val R → Bool
  | .nat a, .nat b => a ≤ b
  | .tuple a, .tuple b => c18TupleLe a b
  | _, _ => false

def c18InsertVal (x : C18Val R) : List (C18Val R) → List (C18Val R)
  | [] => [x]
  | y :: ys => if c18ValLe x y then x :: y :: ys else y :: c18InsertVal x ys

/-- `sorted(xs)` (insertion sort; ints and tuples of ints) -/
def c18Sorted (xs : List (C18Val R)) : List (C18Val R) := xs.foldr c18InsertVal []

def c18Enumerate : Nat → List (C18Val R) → List (C18Val R)
  | _, [] => []
  | n, x :: xs => .tuple [.nat n, x] :: c18Enumerate (n + 1) xs

def c18Dedup : List (C18Val R) → List (C18Val R) → List (C18Val R)
  | acc, [] => acc
  | acc, x :: xs =>
    if acc.any (fun y => c18NatEq x y)
    then c18Dedup acc xs else c18Dedup (acc ++ [x]) xs

/-- `isinstance(v, T)` for the classes the source tests against -/
def c18IsInstance (v : C18Val R) (t : String) : C18Res Bool :=
  match t with
  | "MultiVector" => .ok (match v with | .obj _ _ => true | _ => false)
  | "numpy.ndarray" => .ok (match v with | .vec _ => true | _ => false)
  | "dict" => .ok (match v with | .dict _ => true | .tdict _ => true | _ => false)
  | "tuple" => .ok (match v with | .tuple _ => true | _ => false)
  | "int" => .ok (match v with | .nat _ => true | .neg _ => true | .bool _ => true | _ => false)
  | "numbers.Integral" =>
    .ok (match v with | .nat _ => true | .neg _ => true | .bool _ => true | _ => false)
  | _ => .stuck ("isinstance against " ++ t)

def c18TypeName : C18Val R → Option String
  | .cls n => some n
  | .prim n => some n
  | _ => Option.none

/-- the builtins and imported functions this reading gives a FIXED meaning to -/
def c18Prim (rt : C18Rt R) (name : String) (args : List (C18Val R))
    (kw : List (String × C18Val R)) : C18Res (C18Val R) :=
  match name, args with
  | "len", [.dict d] => .ok (.nat d.length)
  | "len", [.tdict d] => .ok (.nat d.length)
  | "len", [.list xs] => .ok (.nat xs.length)
  | "len", [.tuple xs] => .ok (.nat xs.length)
  | "len", [.vec xs] => .ok (.nat xs.length)
  | "int", [.nat n] => .ok (.nat n)
  | "int", [.neg n] => .ok (.neg n)
  | "int", [.bool b] => .ok (.nat (if b then 1 else 0))
  | "bool", [v] => match c18Truthy v with
    | some b => .ok (.bool b)
    | Option.none => .stuck "bool of this value"
  | "isinstance", [v, t] => match c18TypeName t with
    | some tn => do let b ← c18IsInstance v tn; pure (.bool b)
    | Option.none => .stuck "isinstance against a non-class"
  | "hash", [.space] => .ok (.hash rt.Γ.hspace)
  | "hash", [.nat n] => .ok (.hash (rt.Γ.hb n))
  | "hash", [.coef c] => .ok (.hash (rt.Γ.hc c))
  | "pymbolic.primitives.is_zero", [.coef c] => .ok (.bool (rt.Γ.z c))
  | "pymbolic.primitives.is_zero", [.nat n] => .ok (.bool (rt.Γ.z (c18OfNat n)))
  | "set", [v] => match c18Iter v with
    | some xs => .ok (.list (c18Dedup [] xs))
    | Option.none => .stuck "set of this value"
  | "list", [v] => match c18Iter v with
    | some xs => .ok (.list xs)
    | Option.none => .stuck "list of this value"
  | "tuple", [v] => match c18Iter v with
    | some xs => .ok (.tuple xs)
    | Option.none => .stuck "tuple of this value"
  | "sorted", [v] => match c18Iter v with
    | some xs => .ok (.list (c18Sorted xs))
    | Option.none => .stuck "sorted of this value"
  | "enumerate", [v] => match c18Iter v with
    | some xs => .ok (.list (c18Enumerate 0 xs))
    | Option.none => .stuck "enumerate of this value"
  | "range", [.nat n] => .ok (.list ((List.range n).map fun i => .nat i))
  | "any", [.list xs] =>
    if xs.all (fun x => match x with | .bool _ => true | _ => false)
    then .ok (.bool (xs.any fun x => match x with | .bool true => true | _ => false))
    else .stuck "any of non-bools"
  /- `pytools.single_valued`: the common value; `ValueError` for an empty or mixed iterable -/
  | "pytools.single_valued", [.list (.bool b :: rest)] =>
    if rest.all (fun x => match x with | .bool c => c == b | _ => false) then .ok (.bool b)
    else .raise "ValueError"
  | "pytools.single_valued", [.list []] => .raise "ValueError"
  /- `get_euclidean_space(n)`: THE space when it is that one, outside the one-space reading
  otherwise -/
  | "get_euclidean_space", [.nat n] =>
    if rt.Γ.euclid && n == rt.Γ.dims then .ok .space else .stuck "another space"
  | "get_euclidean_space", [.none] => .raise "TypeError"
  /- `pymbolic.algorithm.integer_power(x, n, one=…)`: the model of C19 (`PV.Algo.integerPower`),
  with `*` on `MultiVector`s dispatched to the table (an exception of a product propagates) -/
  | "pymbolic.algorithm.integer_power", [.obj true (some _), .neg _] => .raise "RuntimeError"
  | "pymbolic.algorithm.integer_power", [.obj true (some x), .nat n] =>
    match c18AssocStr "one" kw with
    | some (.obj true (some one)) =>
        let mul : C18Res (MVOf R) → C18Res (MVOf R) → C18Res (MVOf R) := fun a b =>
          a.bind fun a => b.bind fun b =>
            match rt.callee "MultiVector.__mul__" [.mv a, .mv b] [] with
            | .ok (.obj true (some r)) => .ok r
            | .ok _ => .stuck "integer_power: a product is not a MultiVector"
            | .raise e => .raise e
            | .stuck w => .stuck w
            | .fuel => .fuel
      (PV.Algo.integerPower mul (.ok one) (.ok x) n).bind fun r => .ok (.mv r)
    | _ => .stuck "integer_power without one="
  | _, _ => .stuck ("call of " ++ name)

/-- attributes of the one `Space` object: numpy / memoised code, NOT table-driven (their source
is pinned as text in `C18Module.pinned`) -/
def c18SpaceAttr (Γ : C18Ctx R) (a : String) : C18Res (C18Val R) :=
  match a with
  | "dimensions" => .ok (.nat Γ.dims)
  | "is_orthogonal" => .ok (.bool Γ.orth)
  | "is_euclidean" => .ok (.bool Γ.euclid)
  | "metric_matrix" => .ok .metric
  | "basis_names" => .ok (.list (Γ.names.map .str))
  | _ => .stuck ("Space attribute " ++ a)

/-- call a function value -/
def c18Apply (rt : C18Rt R) (f : C18Val R) (args : List (C18Val R))
    (kw : List (String × C18Val R)) : C18Res (C18Val R) :=
  match f with
  | .fn q => rt.callee q args kw
  | .prim n => c18Prim rt n args kw
  | .cls cn =>
    -- instantiation: `__init__` of the table runs on a fresh object and hands it back
    match c18ClassAttr rt.M cn "__init__" with
    | some (.method q _) => rt.callee q (.obj false Option.none :: args) kw
    | _ => .stuck ("instantiation of " ++ cn)
  | _ => .stuck "call of a non-function"

/-- `v.a` (no call) -/
def c18GetAttr (rt : C18Rt R) (v : C18Val R) (a : String) : C18Res (C18Val R) :=
  match v with
  | .obj sp data =>
    if a = "data" then
      match data with
      | some d => .ok (.dict d)
      | Option.none => .raise "AttributeError"
    else if a = "space" then (if sp then .ok .space else .raise "AttributeError")
    else match c18ClassAttr rt.M "MultiVector" a with
      | some (.method q "property") => rt.callee q [v] []
      | _ => .stuck ("MultiVector attribute " ++ a)
  | .space => c18SpaceAttr rt.Γ a
  | .cls cn =>
    match c18ClassAttr rt.M cn a with
    | some (.method q "static") => .ok (.fn q)
    | _ => .stuck ("class attribute " ++ cn ++ "." ++ a)
  | .prim m => .ok (.prim (m ++ "." ++ a))
  | .vec xs => if a = "shape" then .ok (.tuple [.nat xs.length]) else .stuck ("attribute " ++ a)
  | _ => .stuck ("attribute " ++ a)

/-- `v.m(args)` -/
def c18CallMethod (rt : C18Rt R) (v : C18Val R) (m : String) (args : List (C18Val R))
    (kw : List (String × C18Val R)) : C18Res (C18Val R) :=
  match v with
  | .dict d =>
    match m, args with
    | "items", [] => .ok (.list (c18Items d))
    | "keys", [] => .ok (.list (d.map fun (k, _) => .nat k))
    | "values", [] => .ok (.list (d.map fun (_, c) => .coef c))
    | "get", [.nat k, dflt] =>
      match dictGet d k with
      | some c => .ok (.coef c)
      | Option.none => .ok dflt
    | _, _ => .stuck ("dict method " ++ m)
  | .tdict d =>
    match m, args with
    | "items", [] => .ok (.list (c18TItems d))
    | "keys", [] => .ok (.list (d.map fun (k, _) => .tuple (k.map fun i => .nat i)))
    | "values", [] => .ok (.list (d.map fun (_, c) => .coef c))
    | _, _ => .stuck ("dict method " ++ m)
  | .obj _ _ =>
    match c18ClassAttr rt.M "MultiVector" m with
    | some (.method q "plain") => rt.callee q (v :: args) kw
    | _ => .stuck ("MultiVector method " ++ m)
  | .space =>
    match c18ClassAttr rt.M "Space" m with
    | some (.method q "plain") => rt.callee q (v :: args) kw
    | _ => .stuck ("Space method " ++ m)
  | .cls cn =>
    match c18ClassAttr rt.M cn m with
    | some (.method q "static") => rt.callee q args kw
    | some (.method q "plain") => rt.callee q args kw
    | _ => .stuck ("class method " ++ cn ++ "." ++ m)
  | .str s =>
    match m, args with
    | "join", [.list xs] =>
      if xs.all (fun x => match x with | .str _ => true | _ => false)
      then .ok (.str (s.intercalate (xs.map fun x => match x with | .str t => t | _ => "")))
      else .stuck "join of non-strings"
    | _, _ => .stuck ("str method " ++ m)
  | _ => .stuck ("method " ++ m)

/-- `a op b`, `MultiVector` operands dispatched to the dunder methods of the table (the
reflected method when only the right operand is one) -/
def c18BinOp (rt : C18Rt R) (op : C18Bin) (a b : C18Val R) : C18Res (C18Val R) :=
  match a, b with
  | .obj _ _, _ =>
    match c18ClassAttr rt.M "MultiVector" ("__" ++ c18DunderOf op ++ "__") with
    | some (.method q "plain") =>
      match rt.callee q [a, b] [] with
      | .ok .notImplemented => .raise "TypeError"
      | r => r
    | _ => .raise "TypeError"
  | _, .obj _ _ =>
    match c18ClassAttr rt.M "MultiVector" ("__r" ++ c18DunderOf op ++ "__") with
    | some (.method q "plain") => rt.callee q [b, a] []
    | _ => .raise "TypeError"
  | _, _ => c18BinVal rt.Γ op a b

def c18UnOp (rt : C18Rt R) (op : C18Un) (a : C18Val R) : C18Res (C18Val R) :=
  match op, a with
  | .neg, .nat n => .ok (c18NegOfNat n)
  | .neg, .neg n => .ok (.nat (n + 1))
  | .neg, .coef c => .ok (.coef (-c))
  | .neg, .obj _ _ =>
    match c18ClassAttr rt.M "MultiVector" "__neg__" with
    | some (.method q "plain") => rt.callee q [a] []
    | _ => .raise "TypeError"
  | .pos, .nat n => .ok (.nat n)
  | .pos, .neg n => .ok (.neg n)
  | .not, v =>
    match v with
    | .obj _ _ =>
      match c18ClassAttr rt.M "MultiVector" "__bool__" with
      | some (.method q "plain") =>
        match rt.callee q [v] [] with
        | .ok (.bool b) => .ok (.bool (!b))
        | .ok _ => .raise "TypeError"
        | r => r
      | _ => .stuck "truth of a MultiVector without __bool__"
    | _ => match c18Truthy v with
      | some b => .ok (.bool (!b))
      | Option.none => .stuck "truth of this value"
  | _, _ => .stuck "unary operator on this operand"

/-- truth of a condition (`if`, `while`, `and`, `or`) -/
def c18Cond (rt : C18Rt R) (v : C18Val R) : C18Res Bool :=
  match c18UnOp rt .not v with
  | .ok (.bool b) => .ok (!b)
  | .ok _ => .stuck "truth"
  | .raise e => .raise e
  | .stuck w => .stuck w
  | .fuel => .fuel

def c18CmpOp (rt : C18Rt R) (op : C18Cmp) (a b : C18Val R) : C18Res (C18Val R) :=
  match op with
  | .eq => match a with
    | .obj _ _ =>
      match c18ClassAttr rt.M "MultiVector" "__eq__" with
      | some (.method q "plain") => rt.callee q [a, b] []
      | _ => .stuck "== on a MultiVector without __eq__"
    | _ => match c18ValEq rt.Γ a b with
      | some r => .ok (.bool r)
      | Option.none => .stuck "== on these operands"
  | .ne => match c18ValEq rt.Γ a b with
    | some r => .ok (.bool (!r))
    | Option.none => .stuck "!= on these operands"
  | .is => match c18Is a b with
    | some r => .ok (.bool r)
    | Option.none => .stuck "is on these operands"
  | .isNot => match c18Is a b with
    | some r => .ok (.bool (!r))
    | Option.none => .stuck "is not on these operands"
  | .lt => match a, b with
    | .nat x, .nat y => .ok (.bool (x < y))
    | x, y => match x.toInt?, y.toInt? with
      | some x, some y => .ok (.bool (x < y))
      | _, _ => .stuck "< on these operands"
  | .le => match a, b with
    | .nat x, .nat y => .ok (.bool (x ≤ y))
    | x, y => match x.toInt?, y.toInt? with
      | some x, some y => .ok (.bool (x ≤ y))
      | _, _ => .stuck "<= on these operands"
  | .gt => match a, b with
    | .nat x, .nat y => .ok (.bool (x > y))
    | x, y => match x.toInt?, y.toInt? with
      | some x, some y => .ok (.bool (x > y))
      | _, _ => .stuck "> on these operands"
  | .ge => match a, b with
    | .nat x, .nat y => .ok (.bool (x ≥ y))
    | x, y => match x.toInt?, y.toInt? with
      | some x, some y => .ok (.bool (x ≥ y))
      | _, _ => .stuck ">= on these operands"
  | .isIn => match b with
    | .list xs => .ok (.bool (xs.any fun x => (c18ValEq rt.Γ a x).getD false))
    | .tuple xs => .ok (.bool (xs.any fun x => (c18ValEq rt.Γ a x).getD false))
    | _ => .stuck "in on these operands"
  | .notIn => match b with
    | .list xs => .ok (.bool (!xs.any fun x => (c18ValEq rt.Γ a x).getD false))
    | .tuple xs => .ok (.bool (!xs.any fun x => (c18ValEq rt.Γ a x).getD false))
    | _ => .stuck "not in on these operands"

/-- `e[idx…]` -/
def c18Index (rt : C18Rt R) (v : C18Val R) (idx : List (C18Val R)) : C18Res (C18Val R) :=
  match v, idx with
  | .list xs, [.nat i] =>
    match xs[i]? with
    | some x => .ok x
    | Option.none => .raise "IndexError"
  | .tuple xs, [.nat i] =>
    match xs[i]? with
    | some x => .ok x
    | Option.none => .raise "IndexError"
  | .dict _, [.neg _] => .raise "KeyError"
  | .dict d, [.nat k] =>
    match dictGet d k with
    | some c => .ok (.coef c)
    | Option.none => .raise "KeyError"
  | .metric, [.nat i, .nat j] =>
    if i == j then .ok (.coef (rt.Γ.g i))
    else if rt.Γ.orth then .ok (.coef 0)
    else .stuck "off-diagonal metric entry"
  | _, _ => .stuck "index on these operands"

/-- bind the targets of a `for` / comprehension / unpacking assignment -/
def c18BindNames : List String → C18Val R → C18Env R → C18Res (C18Env R)
  | [n], v, env => .ok (c18Set n v env)
  | ns, .tuple xs, env =>
    if ns.length = xs.length then .ok ((ns.zip xs).foldl (fun e (n, x) => c18Set n x e) env)
    else .raise "ValueError"
  | _, _, _ => .stuck "unpacking a non-tuple"

/-- collect the keys / values of a dict display or comprehension -/
def c18DictPut (kv : C18Val R × C18Val R) (acc : C18Val R) : C18Res (C18Val R) :=
  match acc, kv with
  | .dict d, (.nat k, .coef c) => .ok (.dict (dictSet d k c))
  | .dict d, (.nat k, .nat c) => .ok (.dict (dictSet d k (c18OfNat c)))
  | .dict [], (.tuple ks, .coef c) =>
    match ks.mapM (fun x => match x with
        | .nat i => some i | _ => Option.none) with
    | some idx => .ok (.tdict [(idx, c)])
    | Option.none => .stuck "tuple key"
  | .tdict d, (.tuple ks, .coef c) =>
    match ks.mapM (fun x => match x with
        | .nat i => some i | _ => Option.none) with
    | some idx => .ok (.tdict (d ++ [(idx, c)]))   -- keys of the comprehensions in scope are distinct
    | Option.none => .stuck "tuple key"
  | _, _ => .stuck "dict entry"

def c18ZipKw : List String → List (C18Val R) → List (String × C18Val R)
  | n :: ns, v :: vs => (n, v) :: c18ZipKw ns vs
  | _, _ => []

/-- one item of a dict comprehension `{k: v for targets in …}`: the targets are bound in a copy of
the environment (comprehensions have their own scope), key and value are evaluated there -/
def c18DictCompStep (evK evV : C18Env R → C18Res (C18Val R × C18Env R)) (targets : List String)
    (env : C18Env R) (acc : C18Res (C18Val R)) (x : C18Val R) : C18Res (C18Val R) :=
  acc.bind fun acc => do
    let e ← c18BindNames targets x env
    let (kv, e) ← evK e
    let (vv, _) ← evV e
    c18DictPut (kv, vv) acc

/-- one item of a list comprehension / generator `[elt for targets in … if conds]` -/
def c18GenStep (cond : C18Val R → C18Res Bool)
    (evConds : C18Env R → C18Res (List (C18Val R) × C18Env R))
    (evElt : C18Env R → C18Res (C18Val R × C18Env R)) (targets : List String)
    (env : C18Env R) (acc : C18Res (List (C18Val R))) (x : C18Val R) : C18Res (List (C18Val R)) :=
  acc.bind fun acc => do
    let e ← c18BindNames targets x env
    let (cs, e) ← evConds e
    let keep ← cs.foldl (fun b c => b.bind fun b => do
        let t ← cond c; pure (b && t)) (.ok true)
    if keep then do
      let (y, _) ← evElt e
      pure (acc ++ [y])
    else pure acc

mutual
/-- expressions; evaluation order is Python's (left to right), the environment is threaded
because `d.setdefault(k, v)` on a local `d` updates it -/
def c18Eval (rt : C18Rt R) : C18Expr → C18Env R → C18Res (C18Val R × C18Env R)
  | .name n, env => do let v ← c18Lookup rt n env; pure (v, env)
  | .nat n, env => .ok (.nat n, env)
  | .str s, env => .ok (.str s, env)
  | .none, env => .ok (.none, env)
  | .bin op a b, env => do
    let (x, env) ← c18Eval rt a env
    let (y, env) ← c18Eval rt b env
    let r ← c18BinOp rt op x y
    pure (r, env)
  | .un op a, env => do
    let (x, env) ← c18Eval rt a env
    let r ← c18UnOp rt op x
    pure (r, env)
  | .cmp op a b, env => do
    let (x, env) ← c18Eval rt a env
    let (y, env) ← c18Eval rt b env
    let r ← c18CmpOp rt op x y
    pure (r, env)
  | .and a b, env => do
    let (x, env) ← c18Eval rt a env
    let t ← c18Cond rt x
    if t then c18Eval rt b env else pure (x, env)
  | .or a b, env => do
    let (x, env) ← c18Eval rt a env
    let t ← c18Cond rt x
    if t then pure (x, env) else c18Eval rt b env
  | .ifExp c t e, env => do
    let (x, env) ← c18Eval rt c env
    let b ← c18Cond rt x
    if b then c18Eval rt t env else c18Eval rt e env
  | .attr e a, env => do
    let (v, env) ← c18Eval rt e env
    let r ← c18GetAttr rt v a
    pure (r, env)
  | .index e idx, env => do
    let (v, env) ← c18Eval rt e env
    let (is, env) ← c18EvalList rt idx env
    let r ← c18Index rt v is
    pure (r, env)
  | .callMethod recv m args kwNames kwVals, env => do
    let (v, env) ← c18Eval rt recv env
    let (as, env) ← c18EvalList rt args env
    let (ks, env) ← c18EvalList rt kwVals env
    match v, m, as, recv with
    | .dict d, "setdefault", [.nat k, dflt], .name x =>
      -- `x.setdefault(k, dflt)` on a local dict: a missing key is inserted (at the end)
      match dictGet d k with
      | some c => pure (.coef c, env)
      | Option.none =>
        match dflt with
        | .nat i => pure (.nat i, c18Set x (.dict (dictSet d k (c18OfNat i))) env)
        | .coef c => pure (.coef c, c18Set x (.dict (dictSet d k c)) env)
        | _ => .stuck "setdefault with this default"
    | _, _, _, _ => do
      let r ← c18CallMethod rt v m as (c18ZipKw kwNames ks)
      pure (r, env)
  | .call f args kwNames kwVals, env => do
    let (fv, env) ← c18Eval rt f env
    let (as, env) ← c18EvalList rt args env
    let (ks, env) ← c18EvalList rt kwVals env
    let r ← c18Apply rt fv as (c18ZipKw kwNames ks)
    pure (r, env)
  | .dict keys vals, env => do
    let (ks, env) ← c18EvalList rt keys env
    let (vs, env) ← c18EvalList rt vals env
    let d ← (ks.zip vs).foldl (fun acc kv => acc.bind (c18DictPut kv)) (.ok (.dict []))
    pure (d, env)
  | .list items, env => do
    let (xs, env) ← c18EvalList rt items env
    pure (.list xs, env)
  | .tuple items, env => do
    let (xs, env) ← c18EvalList rt items env
    pure (.tuple xs, env)
  | .dictComp k v targets iter, env => do
    let (it, env) ← c18Eval rt iter env
    match c18Iter it with
    | Option.none => .stuck "iteration over this value"
    | some xs =>
      let d ← xs.foldl (c18DictCompStep (c18Eval rt k) (c18Eval rt v) targets env) (.ok (.dict []))
      pure (d, env)
  | .gen _ elt targets iter conds, env => do
    let (it, env) ← c18Eval rt iter env
    match c18Iter it with
    | Option.none => .stuck "iteration over this value"
    | some xs =>
      let out ← xs.foldl
        (c18GenStep (c18Cond rt) (c18EvalList rt conds) (c18Eval rt elt) targets env) (.ok [])
      pure (.list out, env)

def c18EvalList (rt : C18Rt R) : List C18Expr → C18Env R → C18Res (List (C18Val R) × C18Env R)
  | [], env => .ok ([], env)
  | e :: es, env => do
    let (v, env) ← c18Eval rt e env
    let (vs, env) ← c18EvalList rt es env
    pure (v :: vs, env)
end

/-- result of running (part of) a body -/
inductive C18Out (R : Type) where
  | normal (env : C18Env R)
  | ret (v : C18Val R)
  | raise (exc : String)
  | stuck (why : String)
  | fuel
  deriving Inhabited

def C18Out.ofRes {α : Type} : C18Res α → (α → C18Out R) → C18Out R
  | .ok a, f => f a
  | .raise e, _ => .raise e
  | .stuck w, _ => .stuck w
  | .fuel, _ => .fuel

/-- sequencing: the rest of a statement list runs after a statement that completed normally -/
def C18Out.andThen : C18Out R → (C18Env R → C18Out R) → C18Out R
  | .normal env, k => k env
  | o, _ => o

/-- an `if`: the branch chosen by the (evaluated) condition runs in the environment after it -/
def c18Branch (c : C18Res (Bool × C18Env R)) (t e : C18Env R → C18Out R) : C18Out R :=
  match c with
  | .ok (true, env) => t env
  | .ok (false, env) => e env
  | .raise x => .raise x
  | .stuck w => .stuck w
  | .fuel => .fuel

/-- store into a target -/
def c18Store (rt : C18Rt R) (t : C18Target) (v : C18Val R) (env : C18Env R) :
    C18Res (C18Env R) :=
  match t with
  | .name n => .ok (c18Set n v env)
  | .index obj i => do
    let (k, env) ← c18Eval rt i env
    match c18Get obj env, k with
    | some (.dict d), .nat k =>
      match v with
      | .coef c => .ok (c18Set obj (.dict (dictSet d k c)) env)
      | .nat c => .ok (c18Set obj (.dict (dictSet d k (c18OfNat c))) env)
      | _ => .stuck "dict value"
    | some (.list xs), .nat k =>
      if k < xs.length then .ok (c18Set obj (.list (xs.set k v)) env)
      else .raise "IndexError"
    | _, _ => .stuck "subscript store"
  | .attr obj a =>
    match c18Get obj env, a, v with
    | some (.obj _ data), "space", .space => .ok (c18Set obj (.obj true data) env)
    | some (.obj sp _), "data", .dict d => .ok (c18Set obj (.obj sp (some d)) env)
    | _, _, _ => .stuck ("attribute store " ++ a)
  | .names ns => c18BindNames ns v env

/-- read a target (for augmented assignment) -/
def c18Load (rt : C18Rt R) (t : C18Target) (env : C18Env R) : C18Res (C18Val R × C18Env R) :=
  match t with
  | .name n => do let v ← c18Lookup rt n env; pure (v, env)
  | .index obj i => c18Eval rt (.index (.name obj) [i]) env
  | .attr obj a => c18Eval rt (.attr (.name obj) a) env
  | .names _ => .stuck "augmented assignment to a tuple"

def c18StoreAll (rt : C18Rt R) : List C18Target → List (C18Val R) → C18Env R → C18Res (C18Env R)
  | [], [], env => .ok env
  | t :: ts, v :: vs, env => do
    let env ← c18Store rt t v env
    c18StoreAll rt ts vs env
  | _, _, _ => .raise "ValueError"

/-- a `while` loop: at most `fuel` iterations -/
def c18While (cond : C18Env R → C18Res (Bool × C18Env R)) (body : C18Env R → C18Out R) :
    Nat → C18Env R → C18Out R
  | 0, _ => .fuel
  | n + 1, env =>
    c18Branch (cond env) (fun env => (body env).andThen (c18While cond body n)) .normal

/-- a `for` loop over materialised items -/
def c18For (bind : C18Val R → C18Env R → C18Res (C18Env R)) (body : C18Env R → C18Out R) :
    List (C18Val R) → C18Env R → C18Out R
  | [], env => .normal env
  | x :: xs, env =>
    C18Out.ofRes (bind x env) fun env => (body env).andThen (c18For bind body xs)

/-- the condition of an `if` / `while`: its truth and the environment after evaluating it -/
def c18CondOf (rt : C18Rt R) (c : C18Expr) : C18Env R → C18Res (Bool × C18Env R) := fun env => do
  let (v, env) ← c18Eval rt c env
  let b ← c18Cond rt v
  pure (b, env)

mutual
def c18Exec (rt : C18Rt R) : C18Stmt → C18Env R → C18Out R
  | .assign targets unpack e, env =>
    C18Out.ofRes (c18Eval rt e env) fun (v, env) =>
      if unpack then
        match c18Iter v with
        | some xs => C18Out.ofRes (c18StoreAll rt targets xs env) .normal
        | Option.none => .stuck "unpacking a non-iterable"
      else
        -- `a = b = e`: every target receives the value, left to right
        C18Out.ofRes (c18StoreAll rt targets (targets.map fun _ => v) env) .normal
  | .aug t op e, env =>
    C18Out.ofRes (c18Load rt t env) fun (x, env) =>
    C18Out.ofRes (c18Eval rt e env) fun (y, env) =>
    C18Out.ofRes (c18BinOp rt op x y) fun r =>
    C18Out.ofRes (c18Store rt t r env) .normal
  | .ifThen c body orelse, env =>
    c18Branch (c18CondOf rt c env) (c18ExecList rt body) (c18ExecList rt orelse)
  | .while c body, env =>
    c18While (c18CondOf rt c) (c18ExecList rt body) rt.fuel env
  | .forIn targets iter body, env =>
    C18Out.ofRes (c18Eval rt iter env) fun (it, env) =>
      match c18Iter it with
      | Option.none => .stuck "iteration over this value"
      | some xs => c18For (c18BindNames targets) (c18ExecList rt body) xs env
  | .ret e, env => C18Out.ofRes (c18Eval rt e env) fun (v, _) => .ret v
  | .raise exc, _ => .raise exc
  | .del obj i, env =>
    C18Out.ofRes (c18Eval rt i env) fun (k, env) =>
      match c18Get obj env, k with
      | some (.dict d), .nat k =>
        if (dictGet d k).isSome then .normal (c18Set obj (.dict (dictDel d k)) env)
        else .raise "KeyError"
      | _, _ => .stuck "del on these operands"
  | .pass, env => .normal env
  | .assert _, env => .normal env
  | .importFrom module name asname, env =>
    .normal (c18Set asname (.prim (module ++ "." ++ name)) env)

def c18ExecList (rt : C18Rt R) : List C18Stmt → C18Env R → C18Out R
  | [], env => .normal env
  | s :: rest, env => (c18Exec rt s env).andThen (c18ExecList rt rest)
end

/-- bind the arguments of a call: positionals in order, then keywords, then defaults
(default expressions are constants: evaluated in the empty environment) -/
def c18BindArgs (rt : C18Rt R) (f : C18Fn) : List String → List (C18Val R) →
    List (String × C18Val R) → C18Env R → C18Res (C18Env R)
  | [], [], _, env => .ok env
  | [], _ :: _, _, _ => .raise "TypeError"
  | p :: ps, a :: as, kw, env => c18BindArgs rt f ps as kw (env ++ [(p, a)])
  | p :: ps, [], kw, env =>
    match c18AssocStr p kw with
    | some v => c18BindArgs rt f ps [] kw (env ++ [(p, v)])
    | Option.none =>
      match c18AssocStr p f.defaults with
      | some d =>
        match c18Eval rt d [] with
        | .ok (v, _) => c18BindArgs rt f ps [] kw (env ++ [(p, v)])
        | .raise e => .raise e
        | .stuck w => .stuck w
        | .fuel => .fuel
      | Option.none => .raise "TypeError"

/-- run one function of the table; an `__init__` hands back the object it initialised -/
def c18RunFn (M : C18Module) (Γ : C18Ctx R) (fuel : Nat) (callee : C18Callee R) (f : C18Fn)
    (args : List (C18Val R)) (kw : List (String × C18Val R)) : C18Res (C18Val R) :=
  let rt : C18Rt R := { M := M, Γ := Γ, fuel := fuel, callee := callee }
  match c18BindArgs rt f f.params args kw [] with
  | .ok env =>
    match c18ExecList rt f.body (env ++ f.locals.map fun n => (n, .unbound)) with
    | .normal env =>
      if f.name = "__init__" then
        match c18Get "self" env with
        | some (.obj true (some d)) => .ok (.obj true (some d))
        | _ => .stuck "__init__ left the object incomplete"
      else .ok .none
    | .ret v => .ok v
    | .raise e => .raise e
    | .stuck w => .stuck w
    | .fuel => .fuel
  | .raise e => .raise e
  | .stuck w => .stuck w
  | .fuel => .fuel

/-- call by name inside a (tail of the) function list: the callee of the function found is the
rest of the list behind it -/
def c18CallIn (M : C18Module) (Γ : C18Ctx R) (fuel : Nat) : List C18Fn → C18Callee R
  | [], q, _, _ => .stuck ("unknown function " ++ q)
  | f :: rest, q, args, kw =>
    if f.qual = q then c18RunFn M Γ fuel (c18CallIn M Γ fuel rest) f args kw
    else c18CallIn M Γ fuel rest q args kw

/-- call a function of the module -/
def c18Call (M : C18Module) (Γ : C18Ctx R) (fuel : Nat) : C18Callee R := c18CallIn M Γ fuel M.fns

end Interp

end PV.GA
