/-
  PV.Model.Algo — import-free executable model of the exact-arithmetic helpers of pymbolic:

  * `pymbolic/algorithm.py`   : `integer_power`, `extended_euclidean`, `gcd`, `lcm`,
                                `find_factors`, the index skeleton of `fft`
  * `pymbolic/polynomial.py`  : `_sort_uniq`, `Polynomial.__add__/__neg__/__sub__/__mul__/
                                __pow__/__divmod__` (same base, integer coefficients)
  * `pymbolic/mapper/evaluator.py` : `EvaluationMapper.map_polynomial` (Horner)
  * `pymbolic/traits.py`      : `IntegerTraits.norm = abs`

  Every definition mirrors the control flow of the Python code (loops are recursive functions
  on the loop state).  Where the Python code can raise, the model returns `Option`.
  Definitions whose name ends in `Py` are the exact mirrors of code that turned out to be
  defective (`_sort_uniq`); the same name without `Py` is the repaired variant about which the
  algebraic theorems are proved.

  Core Lean only: no imports.
-/

namespace PV.Algo

/-! ## `integer_power` -/

/-- The `while n > 0:` loop of `integer_power`, loop state `(aux, x, n)`.
```
    while n > 0:
        if n & 1:
            aux *= x
            if n == 1:
                return aux
        x = x * x
        n //= 2
    return aux
``` -/
def integerPowerLoop {α : Type u} (mul : α → α → α) (aux x : α) (n : Nat) : α :=
  if n > 0 then
    if n % 2 = 1 then
      if n = 1 then
        mul aux x
      else
        integerPowerLoop mul (mul aux x) (mul x x) (n / 2)
    else
      integerPowerLoop mul aux (mul x x) (n / 2)
  else
    aux
termination_by n
decreasing_by all_goals omega

/-- `integer_power(x, n, one)` for `n ≥ 0`. -/
def integerPower {α : Type u} (mul : α → α → α) (one : α) (x : α) (n : Nat) : α :=
  integerPowerLoop mul one x n

/-- `integer_power(x, n)` on Python ints; `none` models the `RuntimeError` for `n < 0`. -/
def integerPowerInt (x : Int) (n : Int) : Option Int :=
  if n < 0 then none else some (integerPower (· * ·) 1 x n.toNat)

/-! ## `extended_euclidean`, `gcd`, `lcm` on Python ints -/

/-- With floor modulus the remainder is strictly smaller in absolute value than the divisor
(and has its sign). This is the termination measure of the Euclidean loop. -/
theorem natAbs_fmod_lt (q r : Int) (h : r ≠ 0) : (Int.fmod q r).natAbs < r.natAbs := by
  rcases Int.lt_or_gt_of_ne h with hr | hr
  · have h1 := Int.fmod_nonneg_of_pos (-q) (b := -r) (by omega)
    have h2 := Int.fmod_lt_of_pos (-q) (b := -r) (by omega)
    rw [Int.neg_fmod_neg] at h1 h2
    omega
  · have h1 := Int.fmod_nonneg_of_pos q hr
    have h2 := Int.fmod_lt_of_pos q hr
    omega

/-- The `while r:` loop of `extended_euclidean`; loop state `(q, r, Q, R)` with
`Q = (Q0, Q1)`, `R = (R0, R1)`; `divmod` is Python's floor division.
```
    while r:
        quot, t = divmod(q, r)
        T = Q[0] - quot*R[0], Q[1] - quot*R[1]
        q, r = r, t
        Q, R = R, T
    return q, Q[0], Q[1]
``` -/
def extEuclidLoop (q r Q0 Q1 R0 R1 : Int) : Int × Int × Int :=
  if _hr : r = 0 then
    (q, Q0, Q1)
  else
    let quot := Int.fdiv q r
    let t := Int.fmod q r
    extEuclidLoop r t R0 R1 (Q0 - quot * R0) (Q1 - quot * R1)
termination_by r.natAbs
decreasing_by exact natAbs_fmod_lt q r _hr

/-- `extended_euclidean(q, r)` on Python ints (`t.norm = abs`).  The initial norm test makes
one recursive call with the arguments swapped and swaps the Bézout coefficients back. -/
def extEuclid (q r : Int) : Int × Int × Int :=
  if _h : q.natAbs < r.natAbs then
    let res := extEuclid r q
    (res.1, res.2.2, res.2.1)
  else
    extEuclidLoop q r 1 0 0 1
termination_by (if q.natAbs < r.natAbs then 1 else 0)
decreasing_by
  have h' : ¬ r.natAbs < q.natAbs := by omega
  simp [_h, h']

/-- `gcd(q, r) = extended_euclidean(q, r)[0]`.  May be negative. -/
def gcd (q r : Int) : Int := (extEuclid q r).1

/-- `lcm(q, r) = abs(q*r)//gcd(q, r)`; `none` models the `ZeroDivisionError` raised when
`gcd(q, r) == 0`. -/
def lcm (q r : Int) : Option Int :=
  let g := gcd q r
  if g = 0 then none else some (Int.fdiv ((q * r).natAbs : Int) g)

/-! ## `find_factors` and the index skeleton of `fft` -/

/-- `while n % n1 != 0 and n1 <= max_n1: n1 += 1`. -/
def findFactorsLoop (n n1 maxN1 : Nat) : Nat :=
  if n % n1 ≠ 0 ∧ n1 ≤ maxN1 then findFactorsLoop n (n1 + 1) maxN1 else n1
termination_by maxN1 + 1 - n1
decreasing_by omega

/-- `find_factors(n)`; `int(sqrt(n))` is modelled by the exact integer square root (the Python
code uses floating point `math.sqrt`, which agrees for `n < 2**52`). The parameter-free
correctness statements do not depend on the bound. -/
def findFactors (n : Nat) : Nat × Nat :=
  let maxN1 := Nat.sqrt n + 1
  let n1 := findFactorsLoop n 2 maxN1
  let n1 := if n1 > maxN1 then n else n1
  (n1, n / n1)

/-- `find_factors(n)` including the failure at `n = 0`: there the loop stops at `n1 = 2`,
`2 > max_n1 = 1` resets `n1 = n = 0`, and `n // n1` raises `ZeroDivisionError` (`none`).
For `n ≥ 1` this is `some (findFactors n)`. -/
def findFactorsPy (n : Nat) : Option (Nat × Nat) :=
  if (findFactors n).1 = 0 then none else some (findFactors n)

/-- Python slice `x[start::step]` for `step ≥ 1` (element `start`, then every `step`-th). -/
def stride {α : Type u} (x : List α) (start step : Nat) : List α :=
  match h : x.drop start with
  | [] => []
  | a :: rest => a :: stride rest (step - 1) step
termination_by x.length
decreasing_by
  have h' := congrArg List.length h
  simp only [List.length_drop, List.length_cons] at h'
  omega

/-- The sub-problems `x[n1::N1] for n1 in range(N1)` of one `fft` level. -/
def fftSplit {α : Type u} (x : List α) : List (List α) :=
  let N1 := (findFactors x.length).1
  (List.range N1).map (fun n1 => stride x n1 N1)

/-! ## Sparse polynomials: `List (exponent, coefficient)` -/

abbrev Term := Nat × Int
abbrev Poly := List Term

/-- Specification of the value: `Σ coeff * x^exp`. -/
def evalSpec : List Term → Int → Int
  | [], _ => 0
  | (e, c) :: rest, x => c * x ^ e + evalSpec rest x

/-- Insert `t` before the first element whose exponent is `≥` that of `t` (stable). -/
def insertByExp (t : Term) : List Term → List Term
  | [] => [t]
  | u :: us => if t.1 ≤ u.1 then t :: u :: us else u :: insertByExp t us

/-- `data.sort(key=exp)`: a stable sort by exponent (insertion sort). -/
def sortByExp : List Term → List Term
  | [] => []
  | t :: ts => insertByExp t (sortByExp ts)

/-- EXACT mirror of the merge loop of `_sort_uniq`.  `acc` is `uniq_result` reversed (its head
is `uniq_result[-1]`), `last` is `last_exp`.  `none` models the `IndexError` from
`uniq_result[-1]` on an empty list.  Note that `last_exp` is *not* reset after `pop()`.
```
    for exp, coeff in data:
        if last_exp == exp:
            newcoeff = uniq_result[-1][1]+coeff
            if not newcoeff:
                uniq_result.pop()
            else:
                uniq_result[-1] = last_exp, newcoeff
        else:
            uniq_result.append((exp, coeff))
            last_exp = exp
``` -/
def mergePy (acc : List Term) (last : Option Nat) : List Term → Option (List Term)
  | [] => some acc.reverse
  | (e, c) :: rest =>
    if last = some e then
      match acc with
      | [] => none
      | (_, c') :: acc' =>
        let newcoeff := c' + c
        if newcoeff = 0 then mergePy acc' last rest
        else mergePy ((e, newcoeff) :: acc') last rest
    else
      mergePy ((e, c) :: acc) (some e) rest

/-- `_sort_uniq(data)` exactly as coded. -/
def sortUniqPy (data : List Term) : Option Poly :=
  mergePy [] none (sortByExp data)

/-- Repaired merge loop: identical to `mergePy` except that `last_exp` is reset to `None`
after `uniq_result.pop()`, so a later term with the same exponent starts a fresh entry.
(The `[]` branch is unreachable; it appends.) -/
def mergeFix (acc : List Term) (last : Option Nat) : List Term → List Term
  | [] => acc.reverse
  | (e, c) :: rest =>
    if last = some e then
      match acc with
      | [] => mergeFix [(e, c)] (some e) rest
      | (_, c') :: acc' =>
        let newcoeff := c' + c
        if newcoeff = 0 then mergeFix acc' none rest
        else mergeFix ((e, newcoeff) :: acc') last rest
    else
      mergeFix ((e, c) :: acc) (some e) rest

/-- Repaired `_sort_uniq`. -/
def sortUniq (data : List Term) : Poly :=
  mergeFix [] none (sortByExp data)

/-- `Polynomial.__neg__`. -/
def neg (p : Poly) : Poly := p.map fun t => (t.1, -t.2)

/-- The three `while` loops of `Polynomial.__add__` (same base): a merge of two
exponent-sorted lists, dropping a term when the summed coefficient is zero. -/
def add : Poly → Poly → Poly
  | [], q => q
  | p, [] => p
  | (e1, c1) :: p, (e2, c2) :: q =>
    if e1 = e2 then
      let coeff := c1 + c2
      if coeff ≠ 0 then (e1, coeff) :: add p q else add p q
    else if e1 > e2 then
      (e2, c2) :: add ((e1, c1) :: p) q
    else
      (e1, c1) :: add p ((e2, c2) :: q)
termination_by p q => p.length + q.length

/-- `Polynomial.__sub__`: `self + (-other)`. -/
def sub (p q : Poly) : Poly := add p (neg q)

/-- The double loop of `Polynomial.__mul__` building the list of all products. -/
def mulRaw (p q : Poly) : List Term :=
  p.flatMap fun s => q.map fun o => (s.1 + o.1, s.2 * o.2)

/-- `Polynomial.__mul__` (same base) exactly as coded: `_sort_uniq` of all products. -/
def mulPy (p q : Poly) : Option Poly := sortUniqPy (mulRaw p q)

/-- `Polynomial.__mul__` with the repaired `_sort_uniq`. -/
def mul (p q : Poly) : Poly := sortUniq (mulRaw p q)

/-- `Polynomial.__mul__` / `__rmul__` with a scalar that is not the base:
coefficients are scaled, nothing is dropped (zero coefficients may appear). -/
def scale (p : Poly) (k : Int) : Poly := p.map fun t => (t.1, t.2 * k)

/-- The constant polynomial one, `Polynomial(base, ((0, 1),))`. -/
def one : Poly := [(0, 1)]

/-- `Polynomial.__pow__`: `integer_power(self, n, one)` with the repaired `mul`. -/
def pow (p : Poly) (n : Nat) : Poly := integerPower mul one p n

/-- `Polynomial.__pow__` exactly as coded (errors of `__mul__` propagate). -/
def powPy (p : Poly) (n : Nat) : Option Poly :=
  integerPower (fun a b => a.bind fun a' => b.bind fun b' => mulPy a' b') (some one) (some p) n

/-- `Polynomial.degree`: last exponent, `-1` for empty data. -/
def degree (p : Poly) : Int :=
  match p.getLast? with
  | some t => (t.1 : Int)
  | none => -1

/-- Leading (last) term, `(0, 0)` for empty data (only used when data is non-empty). -/
def leadTerm (p : Poly) : Term := (p.getLast?).getD (0, 0)

/-- The `while rem.degree >= other.degree:` loop of `Polynomial.__divmod__` for integer
coefficients (the non-field branch), with fuel.  Uses the repaired `mul`.
```
        while rem.degree >= other.degree:
            coeff_factor, lead_rem = divmod(rem.Data[-1][1], other_lead_coeff)
            if lead_rem:
                return quot, rem
            deg_diff = rem.Data[-1][0] - other_lead_exp
            this_fac = Polynomial(self.Base, ((deg_diff, coeff_factor),))
            quot += this_fac
            rem -= this_fac * other
        return quot, rem
``` -/
def divmodLoop (other : Poly) : Nat → Poly → Poly → Option (Poly × Poly)
  | 0, _, _ => none
  | fuel + 1, quot, rem =>
    if degree rem ≥ degree other then
      let lc := (leadTerm other).2
      let coeffFactor := Int.fdiv (leadTerm rem).2 lc
      let leadRem := Int.fmod (leadTerm rem).2 lc
      if leadRem ≠ 0 then some (quot, rem)
      else
        let degDiff := (leadTerm rem).1 - (leadTerm other).1
        let thisFac : Poly := [(degDiff, coeffFactor)]
        divmodLoop other fuel (add quot thisFac) (sub rem (mul thisFac other))
    else some (quot, rem)

/-- `Polynomial.__divmod__` (same base, integer coefficients).  `none` models
`ZeroDivisionError` (`other.degree == -1`, or a zero leading coefficient of `other`) and
running out of fuel. -/
def divmod (p other : Poly) : Option (Poly × Poly) :=
  if degree other = -1 then none
  else if (leadTerm other).2 = 0 then none
  else divmodLoop other (p.length + (degree p).toNat + 2) [] p

/-- `Polynomial.__divmod__` (same base, integer coefficients) EXACTLY as coded: the division by
the leading coefficient of `other` happens inside the loop, so a STORED ZERO leading coefficient of
`other` (reachable through `poly * 0`) raises `ZeroDivisionError` only when the loop is entered,
i.e. when `self.degree >= other.degree`; otherwise `(0, self)` is returned.  Agrees with `divmod`
whenever the leading coefficient of `other` is not zero (`divmodPy_eq_divmod`). -/
def divmodPy (p other : Poly) : Option (Poly × Poly) :=
  if degree other = -1 then none
  else if (leadTerm other).2 = 0 then (if degree p ≥ degree other then none else some ([], p))
  else divmodLoop other (p.length + (degree p).toNat + 2) [] p

/-! ## `EvaluationMapper.map_polynomial` (Horner) -/

/-- The `for` loop of `map_polynomial` over `rev_data = data[::-1]`, exact on Python ints:
`none` when `exp - next_exp < 0` (Python would leave the integers: `int ** negative`
is a float or raises `ZeroDivisionError`).
```
        for i, (exp, coeff) in enumerate(rev_data):
            if i+1 < len(rev_data): next_exp = rev_data[i+1][0]
            else: next_exp = 0
            result = (result+coeff)*ev_base**(exp-next_exp)
``` -/
def hornerLoopPy (x : Int) (result : Int) : List Term → Option Int
  | [] => some result
  | (e, c) :: rest =>
    let nextExp := match rest with
      | [] => 0
      | (e', _) :: _ => e'
    if e < nextExp then none
    else hornerLoopPy x ((result + c) * x ^ (e - nextExp)) rest

/-- `map_polynomial` with integer base value `x` and integer coefficients. -/
def evalHornerPy (p : Poly) (x : Int) : Option Int := hornerLoopPy x 0 p.reverse

/-- Same loop with truncated subtraction on exponents (total). Agrees with `hornerLoopPy`
whenever that one stays within the integers. -/
def hornerLoop (x : Int) (result : Int) : List Term → Int
  | [] => result
  | (e, c) :: rest =>
    let nextExp := match rest with
      | [] => 0
      | (e', _) :: _ => e'
    hornerLoop x ((result + c) * x ^ (e - nextExp)) rest

def evalHorner (p : Poly) (x : Int) : Int := hornerLoop x 0 p.reverse


/-! ## `IdentityMapper.map_polynomial`, `Rational.__init__` -/

/-- `IdentityMapper.map_polynomial`.  Expression objects are modelled by their names (`rec` maps a
name to the name of the object it returns; "the same object" is "the same name").  The base and
EVERY coefficient go through `rec`; `none` stands for "`expr` itself is returned", which happens
when the base and ALL coefficients came back identical:
```
        base = self.rec(expr.base, *args, **kwargs)
        data = tuple([(exp, self.rec(coeff, *args, **kwargs)) for exp, coeff in expr.data])
        if base is expr.base and all(t[1] is orig_t[1] for t, orig_t in zip(data, expr.data)):
            return expr
        return expr.__class__(base, data)
``` -/
def c19IdentMapPoly (rec : String → String) (base : String) (data : List (Nat × String)) :
    Option (String × List (Nat × String)) :=
  if rec base = base ∧ data.all (fun t => rec t.2 == t.2) = true then none
  else some (rec base, data.map fun t => (t.1, rec t.2))

/-- what the caller holds after `map_polynomial`: base and data of the returned polynomial -/
def c19IdentMapPolyResult (rec : String → String) (base : String) (data : List (Nat × String)) :
    String × List (Nat × String) :=
  match c19IdentMapPoly rec base data with
  | none => (base, data)
  | some r => r

/-- `Rational.__init__(numerator, denominator)` on Python ints: both are divided (TRUE division,
the quotients are floats — idealised here as the exact fractions `num / unit`, `den / unit`) by the
unit of the denominator, `IntegerTraits.get_unit` (`-1` / `1`, `RuntimeError` for `0`: `none`).
No reduction to lowest terms happens. -/
def c19RationalInit (num den : Int) : Option ((Int × Int) × (Int × Int)) :=
  if den < 0 then some ((num, -1), (den, -1))
  else if den > 0 then some ((num, 1), (den, 1))
  else none

end PV.Algo
