/-
  S-expression wire format shared by the Python harness and the Lean driver.
  Import-free (core Lean only) so that the driver links as a `lean_exe`.

  Grammar:  sexp ::= atom | "(" sexp* ")" | string
  atoms are maximal runs of characters other than whitespace, parentheses and `"`.
  strings are double-quoted with `\\` and `\"` escapes and are read as atoms whose text is
  prefixed by the marker character `"` (so `"x"` and `x` stay distinct).
-/
namespace PV

inductive Sexp where
  | atom (s : String)
  | list (xs : List Sexp)
  deriving Repr, Inhabited, BEq

namespace Sexp

/-- Quote a string as a wire-format string token. -/
def quote (s : String) : String :=
  "\"" ++ (s.toList.foldl (fun acc c =>
    if c == '"' then acc ++ "\\\"" else if c == '\\' then acc ++ "\\\\" else acc.push c) "") ++ "\""

partial def toStr : Sexp → String
  | .atom s => if s.startsWith "\"" then quote (s.drop 1).toString else s
  | .list xs => "(" ++ " ".intercalate (xs.map toStr) ++ ")"

instance : ToString Sexp := ⟨toStr⟩

def isDelim (c : Char) : Bool :=
  c == ' ' || c == '(' || c == ')' || c == '\n' || c == '\t' || c == '\r' || c == '"'

/-- Tokenise into "(" ")" and atoms. Strings become atoms starting with `"`. -/
partial def tokens (cs : List Char) (acc : Array String) : Array String :=
  match cs with
  | [] => acc
  | c :: rest =>
    if c == ' ' || c == '\n' || c == '\t' || c == '\r' then tokens rest acc
    else if c == '(' then tokens rest (acc.push "(")
    else if c == ')' then tokens rest (acc.push ")")
    else if c == '"' then
      let rec str (cs : List Char) (cur : String) : String × List Char :=
        match cs with
        | [] => (cur, [])
        | '\\' :: d :: r => str r (cur.push d)
        | '"' :: r => (cur, r)
        | d :: r => str r (cur.push d)
      let (s, r) := str rest "\""
      tokens r (acc.push s)
    else
      let rec atm (cs : List Char) (cur : String) : String × List Char :=
        match cs with
        | [] => (cur, [])
        | d :: r => if isDelim d then (cur, d :: r) else atm r (cur.push d)
      let (s, r) := atm rest (String.singleton c)
      tokens r (acc.push s)

/-- Parse a token array into one S-expression (stack machine; total). -/
def parseTokens (toks : Array String) : Option Sexp := Id.run do
  let mut stack : List (List Sexp) := [[]]
  for t in toks do
    if t == "(" then
      stack := [] :: stack
    else if t == ")" then
      match stack with
      | top :: next :: rest => stack := (Sexp.list top.reverse :: next) :: rest
      | _ => return none
    else
      match stack with
      | top :: rest => stack := (Sexp.atom t :: top) :: rest
      | [] => return none
  match stack with
  | [[x]] => return some x
  | _ => return none

def parse (s : String) : Option Sexp := parseTokens (tokens s.toList #[])

def str (s : String) : Sexp := .atom ("\"" ++ s)

/-- The text of a string atom (marker stripped), or the atom text itself. -/
def text : Sexp → Option String
  | .atom s => if s.startsWith "\"" then some (s.drop 1).toString else some s
  | _ => none

def int? : Sexp → Option Int
  | .atom s => s.toInt?
  | _ => none

def nat? : Sexp → Option Nat
  | .atom s => s.toNat?
  | _ => none

def mk (head : String) (args : List Sexp) : Sexp := .list (.atom head :: args)

def ofInt (n : Int) : Sexp := .atom (toString n)
def ofNat (n : Nat) : Sexp := .atom (toString n)
def ofBool (b : Bool) : Sexp := .atom (if b then "true" else "false")

end Sexp
end PV
