import PV.Model.Ops
/-
  C03 (T-gen), the NON-arithmetic syntax: the bodies of

      Expression.__getitem__, __call__, attr, a (property), index,
      not_, and_, or_, eq, ne, le, lt, ge, gt, __abs__,
      __le__, __lt__, __ge__, __gt__, __iter__,
      _AttributeLookupCreator.__getattr__

  as PLAIN DATA — regenerated from the live source by extract/operators.py into
  lean/PV/Generated/OperatorsSyntax.lean — and an interpreter of that data.  What the table says:
  which constructor is called, with which arguments in which order (placed by FIELD NAME through
  the dataclass field lists that are read from the source as well), and which normalisation of
  the argument happens before (`isinstance(subscript, EmptyOK)`, `subscript == ()`, `if kwargs`).

  Nothing here knows what the current source says.  PV/Properties/C03Syntax.lean proves that the
  hand-written builders of PV/Model/OpsSyntax.lean ARE this interpreter run on the regenerated
  table, for all operands.
-/
namespace PV

/-- the methods read from the source -/
inductive C03SynName where
  | getitem | call | attr | a | creatorGetattr | index
  | not_ | and_ | or_ | eq | ne | le | lt | ge | gt | abs
  | dle | dlt | dge | dgt | iter
  deriving Repr, DecidableEq, Inhabited

/-- how a method takes its arguments -/
inductive C03SynSig where
  /-- `def m(self)` -/
  | unary
  /-- `def m(self, x)` -/
  | one
  /-- `def m(self, *args, **kwargs)` -/
  | star
  /-- a read-only `property` with getter `def m(self)` -/
  | prop
  deriving Repr, DecidableEq, Inhabited

/-- an expression inside a method body -/
inductive C03SynTerm where
  /-- the receiver -/
  | self
  /-- the single positional parameter (`subscript`, `other`, `name`) -/
  | arg
  /-- `<param>.child`, the payload of an `EmptyOK` -/
  | argChild
  /-- the `*args` tuple -/
  | args
  /-- `immutabledict(kwargs)` -/
  | kwargs
  /-- `self.F` -/
  | selfField (f : String)
  /-- a string literal -/
  | str (s : String)
  /-- a tuple display `(t₁, …, tₙ)` -/
  | tuple (ts : List C03SynTerm)
  /-- `C(t₁, …, tₙ)`: positional call of a class of pymbolic.primitives -/
  | node (cls : String) (fields : List C03SynTerm)
  deriving Repr, Inhabited

inductive C03SynCond where
  /-- `isinstance(<param>, EmptyOK)` -/
  | isEmptyOK
  /-- `<param> == ()` -/
  | eqEmptyTuple
  /-- `if kwargs:` -/
  | kwargsTruthy
  deriving Repr, DecidableEq, Inhabited

/-- a method body as a decision tree -/
inductive C03SynBody where
  | ite (c : C03SynCond) (t e : C03SynBody)
  /-- a recognised statement without effect on the result (`warn(…)`, a local import) -/
  | outside (what : String) (rest : C03SynBody)
  | ret (t : C03SynTerm)
  /-- `return self[<param>]` -/
  | retGetitem
  /-- `raise TypeError(…)` -/
  | raiseTypeError
  deriving Repr, Inhabited

structure C03SynMethod where
  name : C03SynName
  /-- the Python attribute -/
  attr : String
  /-- the class whose `__dict__` holds it -/
  owner : String
  sig : C03SynSig
  body : C03SynBody
  deriving Repr, Inhabited

structure C03SynTable where
  methods : List C03SynMethod
  /-- positional constructor parameters (= dataclass fields, in order) of the classes the bodies
  build; for `_AttributeLookupCreator` the attributes its `__init__` stores its parameters in -/
  ctorFields : List (String × List String)
  deriving Repr, Inhabited

/-! ### the interpreter -/

/-- the Python objects a method body handles -/
inductive SynVal where
  | expr (e : Expr)
  /-- `EmptyOK(child)` -/
  | emptyOK (child : Expr)
  | str (s : String)
  /-- a tuple of operands (`args`, `(self, other)`) -/
  | exprs (es : List Expr)
  /-- a keyword mapping, in insertion order -/
  | kw (names : List String) (vals : List Expr)
  /-- an `_AttributeLookupCreator` with its stored attribute -/
  | creator (aggregate : Expr)
  deriving Inhabited

/-- the arguments of one call -/
structure SynArgs where
  arg : SynVal := .exprs []
  args : List Expr := []
  kwNames : List String := []
  kwVals : List Expr := []
  deriving Inhabited

def Expr.isEmptyTuple : Expr → Bool
  | .tuple [] => true
  | _ => false

/-- a tuple display whose elements are all operands -/
def SynVal.allExprs : List SynVal → Option (List Expr)
  | [] => some []
  | .expr e :: vs => (SynVal.allExprs vs).map (e :: ·)
  | _ :: _ => Option.none

/-- `C(v₁, …, vₙ)`: the values are placed by the FIELD NAMES the source declares for `C` -/
def c03SynMkNode (F : List (String × List String)) (cls : String) (vals : List SynVal) :
    Except OpErr SynVal :=
  match F.lookup cls with
  | Option.none => throw .noClaim
  | some names =>
    if names.length != vals.length then throw .typeError else
    let get (n : String) : Option SynVal := (names.zip vals).lookup n
    if cls == "Subscript" then
      match get "aggregate", get "index" with
      | some (.expr a), some (.expr i) => pure (.expr (.subscript a i))
      | _, _ => throw .noClaim
    else if cls == "Call" then
      match get "function", get "parameters" with
      | some (.expr f), some (.exprs as) => pure (.expr (.call f as))
      | _, _ => throw .noClaim
    else if cls == "CallWithKwargs" then
      match get "function", get "parameters", get "kw_parameters" with
      | some (.expr f), some (.exprs as), some (.kw ns vs) => pure (.expr (.callKw f as ns vs))
      | _, _, _ => throw .noClaim
    else if cls == "Lookup" then
      match get "aggregate", get "name" with
      | some (.expr a), some (.str n) => pure (.expr (.lookup a n))
      | _, _ => throw .noClaim
    else if cls == "LogicalNot" then
      match get "child" with
      | some (.expr a) => pure (.expr (.un .lnot a))
      | _ => throw .noClaim
    else if cls == "LogicalAnd" then
      match get "children" with
      | some (.exprs cs) => pure (.expr (.nary .land cs))
      | _ => throw .noClaim
    else if cls == "LogicalOr" then
      match get "children" with
      | some (.exprs cs) => pure (.expr (.nary .lor cs))
      | _ => throw .noClaim
    else if cls == "Comparison" then
      match get "left", get "operator", get "right" with
      | some (.expr a), some (.str s), some (.expr b) =>
        match CmpOp.ofSym? s with
        | some o => pure (.expr (.cmp o a b))
        | Option.none => throw .noClaim
      | _, _, _ => throw .noClaim
    else if cls == "Variable" then
      match get "name" with
      | some (.str n) => pure (.expr (.var n))
      | _ => throw .noClaim
    else if cls == "_AttributeLookupCreator" then
      match get "aggregate" with
      | some (.expr a) => pure (.creator a)
      | _ => throw .noClaim
    else throw .noClaim

mutual
def C03SynTerm.eval (F : List (String × List String)) (self : SynVal) (A : SynArgs) :
    C03SynTerm → Except OpErr SynVal
  | .self => pure self
  | .arg => pure A.arg
  | .argChild => match A.arg with
    | .emptyOK c => pure (.expr c)
    | _ => throw .noClaim
  | .args => pure (.exprs A.args)
  | .kwargs => pure (.kw A.kwNames A.kwVals)
  | .selfField f => match self with
    | .creator a =>
      if F.lookup "_AttributeLookupCreator" == some [f] then pure (.expr a) else throw .noClaim
    | _ => throw .noClaim
  | .str s => pure (.str s)
  | .tuple ts => do
      match SynVal.allExprs (← C03SynTerm.evalL F self A ts) with
      | some es => pure (.exprs es)
      | Option.none => throw .noClaim
  | .node cls fs => do c03SynMkNode F cls (← C03SynTerm.evalL F self A fs)
def C03SynTerm.evalL (F : List (String × List String)) (self : SynVal) (A : SynArgs) :
    List C03SynTerm → Except OpErr (List SynVal)
  | [] => pure []
  | t :: ts => do
      let v ← t.eval F self A
      pure (v :: (← C03SynTerm.evalL F self A ts))
end

def C03SynCond.eval (A : SynArgs) : C03SynCond → Bool
  | .isEmptyOK => match A.arg with
    | .emptyOK _ => true
    | _ => false
  | .eqEmptyTuple => match A.arg with
    | .expr e => e.isEmptyTuple
    | _ => false
  | .kwargsTruthy => !A.kwNames.isEmpty

def C03SynBody.eval (F : List (String × List String))
    (getitem : SynVal → SynArgs → Except OpErr SynVal) (self : SynVal) (A : SynArgs) :
    C03SynBody → Except OpErr SynVal
  | .ite c t e => if c.eval A then t.eval F getitem self A else e.eval F getitem self A
  | .outside _ rest => rest.eval F getitem self A
  | .ret t => t.eval F self A
  | .retGetitem => getitem self A
  | .raiseTypeError => throw .typeError

def C03SynTable.find (T : C03SynTable) (m : C03SynName) : Option C03SynMethod :=
  T.methods.find? fun r => r.name == m

/-- one call `self.m(…)` by the table (`fuel` bounds `index → __getitem__`); a method the table
does not have is outside the model -/
def c03SynCall (T : C03SynTable) : Nat → C03SynName → SynVal → SynArgs → Except OpErr SynVal
  | 0, _, _, _ => throw .noClaim
  | n + 1, m, self, A =>
    match T.find m with
    | some r => r.body.eval T.ctorFields (c03SynCall T n .getitem) self A
    | Option.none => throw .noClaim

def c03SynFuel : Nat := 3

def synToExpr : Except OpErr SynVal → OpR
  | .ok (.expr e) => pure e
  | .ok _ => throw .noClaim
  | .error e => throw e

end PV
