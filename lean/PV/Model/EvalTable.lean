import PV.Model.Eval
/-
  C02, T-gen tie.  A TABLE-DRIVEN evaluator.

  `extract/evaluator.py` reads, on every run, the source text of every `map_*` handler that the
  dispatch of `EvaluationMapper` / `CachedEvaluationMapper` reaches (pymbolic/mapper/evaluator.py,
  `CSECachingMapperMixin`, the `Mapper` base, `CachedMapper.__call__`/`get_cache_key`,
  `Mapper.map_foreign`, `Comparison.operator_to_name`, `pytools.product`) and writes what the text
  says as plain data of the types below into `lean/PV/Generated/Evaluator.lean`:

    * `C02HExpr` / `C02HProg`: a small language of handler bodies (what the Python text of one
      handler does, statement by statement, operand by operand, in Python's evaluation order);
    * `C02EvalTable`: class → handler reached, handler → body, the foreign-object rules, the
      comparison-operator table, the memo protocol of `CachedMapper.__call__`.

  `c02EvalT T` below gives every table a meaning: it RUNS the handler bodies of `T` on a node.
  Nothing in it knows what any particular handler does; operators, operand order, fold start values,
  laziness of branches and the caches are all read from `T`.  `PV/Properties/C02Table.lean` proves
  that the hand-written model `evalNode`/`evalG` (PV/Model/Eval.lean) IS this interpreter applied to
  the regenerated table.
-/
namespace PV

/-! ### The language of handler bodies -/

/-- binary Python operators (`a + b`, or the function of the same meaning in module `operator`) -/
inductive C02PyBin where
  | add | sub | mul | truediv | floordiv | mod | pow | lshift | rshift | or_ | xor | and_
  deriving Repr, DecidableEq, Inhabited

inductive C02PyUn where
  | invert | not_ | neg | pos
  deriving Repr, DecidableEq, Inhabited

/-- built-ins consuming a generator without a binary operator -/
inductive C02Agg where
  | any | all | min | max
  deriving Repr, DecidableEq, Inhabited

/-- what a comprehension / generator `self.rec(c) for c in …` iterates over -/
inductive C02Iter where
  | field (f : String)      -- `expr.f`
  | self                    -- `expr` itself (a Python tuple / list)
  deriving Repr, DecidableEq, Inhabited

/-- value expressions of a handler body; `expr` is the node being handled -/
inductive C02HExpr where
  | self                                         -- `expr`
  | var (x : String)                             -- a local variable
  | int (n : Int)                                -- an integer literal
  | floatNan                                     -- `nan` / `float("nan")`
  | recF (f : String)                            -- `self.rec(expr.f)`
  | bin (op : C02PyBin) (a b : C02HExpr)         -- `a op b`   (a first)
  | un (op : C02PyUn) (a : C02HExpr)             -- `op a`
  | cmp (op : CmpOp) (a b : C02HExpr)            -- `a < b` …
  | fold (op : C02PyBin) (start : Option Int) (it : C02Iter)
        -- `sum(gen)`, `sum(gen, s)`, `reduce(op, gen)`, `reduce(op, gen, s)`, `pytools.product(gen)`:
        -- left fold of `op` over the LAZILY produced `self.rec(c) for c in it`
  | agg (fn : C02Agg) (it : C02Iter)             -- `any(gen)` / `all(gen)` / `min(gen)` / `max(gen)`
  | listOf (it : C02Iter)                        -- `[self.rec(c) for c in it]`
  | tupleOf (a : C02HExpr)                       -- `tuple(a)`
  | kwOf (f : String)                            -- `{k: self.rec(v) for k, v in expr.f.items()}`
  | callStar (f s : C02HExpr)                    -- `f(*s)`          (f first)
  | callStarKw (f s k : C02HExpr)                -- `f(*s, **k)`     (f, then s, then k)
  | getattrField (a : C02HExpr) (f : String)     -- `getattr(a, expr.f)`
  | index (a i : C02HExpr)                       -- `a[i]`
  | methIndex (a i : C02HExpr)                   -- `a.index(i)`   (pymbolic expressions only)
  | opTableCall (tbl opf : String) (a b : C02HExpr)
        -- `getattr(operator, expr.tbl[expr.opf])(a, b)`
  | isExpression (a : C02HExpr)                  -- `isinstance(a, Expression)`
  | fieldIsNone (f : String)                     -- `expr.f is None`
  | fieldCall (f : String) (a : C02HExpr)        -- `expr.f(a)`
  deriving Repr, DecidableEq, Inhabited

/-- handler bodies: straight-line code ending in `return` / `raise` on every path -/
inductive C02HProg where
  | ret (e : C02HExpr)
  | assign (x : String) (e : C02HExpr) (k : C02HProg)
  | ite (c : C02HExpr) (t e : C02HProg)          -- `if c: t  else: e`
  | raise (exc : String)                         -- `raise exc` / `raise exc(...)`
  | delegate (h : String)                        -- `return self.h(expr, *args, **kwargs)`
  | ctxLookup (attr keyField caught raised payloadField : String)
        -- `try: return self.attr[expr.keyField]  except caught: raise raised(expr.payloadField)`
  | cseCache (uncached : String) (stores : Bool)
        -- `CSECachingMapperMixin.map_common_subexpression`: per-instance dict keyed by
        -- `(expr, *args)`; hit → return; miss → `self.uncached(expr, *args)`, store (iff `stores`)
  deriving Repr, DecidableEq, Inhabited

structure C02ClassEntry where
  cls : String                      -- node class
  fields : List String              -- its dataclass fields, in order
  mapperMethod : String             -- its own `mapper_method`
  handler : Option String           -- handler the dispatch reaches on the evaluator (own name, else
                                    -- the first `mapper_method` of the MRO the mapper implements);
                                    -- `none`: `handle_unsupported_expression`
  deriving Repr, DecidableEq, Inhabited

structure C02HandlerEntry where
  name : String
  definedIn : String
  body : C02HProg
  deriving Repr, DecidableEq, Inhabited

/-- `CachedMapper.__call__` / `get_cache_key` as read from the source -/
structure C02MemoSpec where
  lookupFirst : Bool        -- the cache is consulted (and a hit returned) before dispatching
  keyType : Bool            -- the key contains `type(expr)`
  keyExpr : Bool            -- the key contains `expr`
  storeMethod : Bool        -- result of the node's own handler is stored before it is returned
  storeFallback : Bool      -- result of `rec_fallback` (foreign objects, MRO fallback) is stored
  deriving Repr, DecidableEq, Inhabited

/-- body of the handler `map_foreign` sends numpy arrays to, as recognised by the reader
(`extract/evaluator.py: read_array_handler`) -/
inductive C02ArrayBody where
  /-- `result = numpy.empty(expr.shape, dtype=object); for i in numpy.ndindex(expr.shape):
  result[i] = self.rec(expr[i]); return result` (in the handler of that name) -/
  | ndindexFill (handler : String)
  /-- anything else (its source text) -/
  | other (src : String)
  deriving Repr, DecidableEq, Inhabited

structure C02EvalTable where
  classes : List C02ClassEntry
  handlers : List C02HandlerEntry
  /-- handlers of the evaluator that no node class of the model reaches and whose body is outside
  the handler language (name, reason) -/
  unmodelled : List (String × String)
  /-- `Mapper.map_foreign`: the `isinstance` chain, in order: (test, handler) -/
  foreign : List (String × String)
  /-- exception raised when no rule of `foreign` applies -/
  foreignElse : String
  /-- which Python types of constants are instances of `VALID_CONSTANT_CLASSES` -/
  constKinds : List String
  /-- `Comparison.operator_to_name` -/
  cmpNames : List (String × String)
  /-- mapper class ↦ class whose `__call__` is its `rec` -/
  recOwner : List (String × String)
  memo : C02MemoSpec
  /-- attribute of the mapper in which `EvaluationMapper.__init__` stores the context -/
  contextAttr : String
  /-- `evaluate` / `evaluate_kw` ↦ default mapper class -/
  entryPoints : List (String × String)
  /-- the numpy-array handler -/
  arrayBody : C02ArrayBody := .other ""
  deriving Repr, Inhabited

/-! ### Meaning of the operators named in a table -/

def C02PyBin.apply : C02PyBin → Value → Value → R
  | .add => Value.add
  | .sub => Value.sub
  | .mul => Value.mul
  | .truediv => Value.div
  | .floordiv => Value.floordiv
  | .mod => Value.mod
  | .pow => Value.pow
  | .lshift => Value.lshift
  | .rshift => Value.rshift
  | .or_ => Value.bor
  | .xor => Value.bxor
  | .and_ => Value.band

def C02PyUn.apply : C02PyUn → Value → EvM Value
  | .invert => fun x => EvM.lift x.invert
  | .neg => fun x => EvM.lift x.neg
  | .not_ => fun x => do
      let t ← EvM.lift x.truthy
      EvM.pure (.bool (!t))
  | .pos => fun _ => EvM.throw .noClaim

/-- the two-argument functions of Python's module `operator`, by name -/
def c02OperatorFn : String → Option (Value → Value → R)
  | "eq" => some (Value.cmp .eq)
  | "ne" => some (Value.cmp .ne)
  | "lt" => some (Value.cmp .lt)
  | "le" => some (Value.cmp .le)
  | "gt" => some (Value.cmp .gt)
  | "ge" => some (Value.cmp .ge)
  | "add" => some Value.add
  | "sub" => some Value.sub
  | "mul" => some Value.mul
  | "truediv" => some Value.div
  | "floordiv" => some Value.floordiv
  | "mod" => some Value.mod
  | "pow" => some Value.pow
  | "lshift" => some Value.lshift
  | "rshift" => some Value.rshift
  | "or_" => some Value.bor
  | "xor" => some Value.bxor
  | "and_" => some Value.band
  | _ => none

def c02ErrOfExc : String → Err
  | "NotImplementedError" => .notImplemented
  | "ZeroDivisionError" => .zeroDiv
  | "TypeError" => .typeError
  | "IndexError" => .indexError
  | "AttributeError" => .attrError
  | "UnsupportedExpressionError" => .unsupportedExpr
  | _ => .noClaim

/-! ### Consuming a lazily evaluated sequence of operands
Every operand is a suspended `self.rec(child)` (an `EvM Value`); it runs when the consumer asks for
it, so errors and cache updates happen in the order the Python built-in pulls the generator. -/

/-- left fold: `sum(gen)` (start 0), `product(gen)` (start 1), the tail of `reduce(op, gen)` -/
def c02FoldRuns (f : Value → Value → R) (acc : Value) : List (EvM Value) → EvM Value
  | [] => EvM.pure acc
  | r :: rs => do
      let v ← r
      let acc' ← EvM.lift (f acc v)
      c02FoldRuns f acc' rs

/-- `reduce(op, gen)` without an initial value: `TypeError` on the empty sequence -/
def c02ReduceRuns (f : Value → Value → R) : List (EvM Value) → EvM Value
  | [] => EvM.throw .typeError
  | r :: rs => do
      let v ← r
      c02FoldRuns f v rs

def c02AnyRuns : List (EvM Value) → EvM Value
  | [] => EvM.pure (.bool false)
  | r :: rs => do
      let v ← r
      let t ← EvM.lift v.truthy
      if t then EvM.pure (.bool true) else c02AnyRuns rs

def c02AllRuns : List (EvM Value) → EvM Value
  | [] => EvM.pure (.bool true)
  | r :: rs => do
      let v ← r
      let t ← EvM.lift v.truthy
      if t then c02AllRuns rs else EvM.pure (.bool false)

def c02MinMaxRuns (isMin : Bool) (cur : Option Value) : List (EvM Value) → EvM Value
  | [] => match cur with
    | some m => EvM.pure m
    | none => EvM.throw .valueError
  | r :: rs => do
      let v ← r
      match cur with
      | none => c02MinMaxRuns isMin (some v) rs
      | some m =>
        let better ← EvM.lift (Value.better isMin v m)
        c02MinMaxRuns isMin (some (if better then v else m)) rs

/-- a list comprehension: every operand, left to right -/
def c02ListRuns : List (EvM Value) → EvM (List Value)
  | [] => EvM.pure []
  | r :: rs => do
      let v ← r
      let vs ← c02ListRuns rs
      EvM.pure (v :: vs)

/-! ### A node as the handler sees it -/

/-- value of one attribute of the node.  Expression-valued attributes are given as the suspended
recursive call `self.rec(expr.f)` (handlers never do anything else with them). -/
inductive C02Field where
  | node (run : EvM Value)
  | nodes (runs : List (EvM Value))
  | str (s : String)
  | strs (ss : List String)
  | optStr (s : Option String)
  | kw (names : List String) (runs : List (EvM Value))
  | none

structure C02Ctx where
  env : Env
  /-- the node itself (key of the CSE cache) -/
  node : Expr
  /-- the node as a Python value, when it is one (constants) -/
  selfVal : Option Value
  /-- `self.rec(c) for c in expr` when the node is a Python tuple / list -/
  selfRuns : Option (List (EvM Value))
  fields : List (String × C02Field)

def c02Assoc {α} (k : String) : List (String × α) → Option α
  | [] => none
  | (n, v) :: rest => if n = k then some v else c02Assoc k rest

def C02Ctx.strField (ctx : C02Ctx) (f : String) : Option String :=
  match c02Assoc f ctx.fields with
  | some (.str s) => some s
  | _ => none

def C02Ctx.iter (ctx : C02Ctx) : C02Iter → Option (List (EvM Value))
  | .self => ctx.selfRuns
  | .field f => match c02Assoc f ctx.fields with
    | some (.nodes rs) => some rs
    | _ => none

def C02EvalTable.handlerBody (T : C02EvalTable) (h : String) : Option C02HProg :=
  match T.handlers.find? (fun e => e.name == h) with
  | some e => some e.body
  | none => none

def C02EvalTable.classHandler (T : C02EvalTable) (cls : String) : Option (Option String) :=
  match T.classes.find? (fun e => e.cls == cls) with
  | some e => some e.handler
  | none => none

/-! ### Running a handler body -/

/-- What happens to the value of a subexpression: `none` — it is the result of the handler;
`some k` — the handler continues with `k`.  (The interpreter is written in continuation-passing
style so that the computation it denotes is a flat left-to-right sequence of the node's suspended
recursive calls and operator applications, exactly as the Python text performs them.) -/
abbrev C02Cont := Option (Value → EvM Value)

/-- finish with the computation `m` -/
def C02Cont.run (k : C02Cont) (m : EvM Value) : EvM Value :=
  match k with
  | none => m
  | some k => m >>= k

/-- finish with the value `v` -/
def C02Cont.val (k : C02Cont) (v : Value) : EvM Value :=
  match k with
  | none => EvM.pure v
  | some k => k v

/-- value expressions, operands evaluated in Python's order (left to right; callee before
arguments), then the continuation -/
def c02InterpE (T : C02EvalTable) (ctx : C02Ctx) (loc : List (String × Value)) :
    C02HExpr → C02Cont → EvM Value
  | .self, k => match ctx.selfVal with
    | some v => k.val v
    | none => EvM.throw .noClaim
  | .var x, k => match c02Assoc x loc with
    | some v => k.val v
    | none => EvM.throw .noClaim
  | .int n, k => k.val (.int n)
  | .floatNan, k => k.val .inexact
  | .recF f, k => match c02Assoc f ctx.fields with
    | some (.node r) => k.run r
    | _ => EvM.throw .noClaim
  | .bin op a b, k =>
      c02InterpE T ctx loc a (some fun x =>
      c02InterpE T ctx loc b (some fun y =>
      k.run (EvM.lift (op.apply x y))))
  | .un op a, k =>
      c02InterpE T ctx loc a (some fun x => k.run (op.apply x))
  | .cmp op a b, k =>
      c02InterpE T ctx loc a (some fun x =>
      c02InterpE T ctx loc b (some fun y =>
      k.run (EvM.lift (Value.cmp op x y))))
  | .fold op start it, k => match ctx.iter it with
    | none => EvM.throw .noClaim
    | some rs => match start with
      | some n => k.run (c02FoldRuns op.apply (.int n) rs)
      | none => k.run (c02ReduceRuns op.apply rs)
  | .agg fn it, k => match ctx.iter it with
    | none => EvM.throw .noClaim
    | some rs => match fn with
      | .any => k.run (c02AnyRuns rs)
      | .all => k.run (c02AllRuns rs)
      | .min => k.run (c02MinMaxRuns true none rs)
      | .max => k.run (c02MinMaxRuns false none rs)
  | .listOf it, k => match ctx.iter it with
    | none => EvM.throw .noClaim
    | some rs => do
        let vs ← c02ListRuns rs
        k.val (.list vs)
  | .tupleOf a, k =>
      c02InterpE T ctx loc a (some fun x =>
      match x with
      | .list vs => k.val (.tuple vs)
      | .tuple vs => k.val (.tuple vs)
      | _ => EvM.throw .noClaim)
  | .kwOf f, k => match c02Assoc f ctx.fields with
    | some (.kw ns rs) => do
        let vs ← c02ListRuns rs
        k.val (.record ns vs)           -- a `dict` of keyword arguments (internal encoding)
    | _ => EvM.throw .noClaim
  | .callStar f s, k =>
      c02InterpE T ctx loc f (some fun fv =>
      c02InterpE T ctx loc s (some fun sv =>
      match sv with
      | .list avs => k.run (EvM.lift (fv.call avs [] []))
      | .tuple avs => k.run (EvM.lift (fv.call avs [] []))
      | _ => EvM.throw .noClaim))
  | .callStarKw f s kw, k =>
      c02InterpE T ctx loc f (some fun fv =>
      c02InterpE T ctx loc s (some fun sv =>
      c02InterpE T ctx loc kw (some fun kv =>
      match sv, kv with
      | .list avs, .record ns kvs => k.run (EvM.lift (fv.call avs ns kvs))
      | .tuple avs, .record ns kvs => k.run (EvM.lift (fv.call avs ns kvs))
      | _, _ => EvM.throw .noClaim)))
  | .getattrField a f, k =>
      c02InterpE T ctx loc a (some fun av =>
      match ctx.strField f with
      | some n => k.run (EvM.lift (av.getattr n))
      | none => EvM.throw .noClaim)
  | .index a i, k =>
      c02InterpE T ctx loc a (some fun av =>
      c02InterpE T ctx loc i (some fun iv =>
      k.run (EvM.lift (av.index iv))))
  | .methIndex _ _, _ => EvM.throw .noClaim   -- values of the model are never pymbolic expressions
  | .opTableCall tbl opf a b, k =>
      if tbl = "operator_to_name" then
        match ctx.strField opf with
        | none => EvM.throw .noClaim
        | some sym => match c02Assoc sym T.cmpNames with
          | none => EvM.throw .noClaim
          | some nm => match c02OperatorFn nm with
            | none => EvM.throw .noClaim
            | some fn =>
              c02InterpE T ctx loc a (some fun x =>
              c02InterpE T ctx loc b (some fun y =>
              k.run (EvM.lift (fn x y))))
      else EvM.throw .noClaim
  | .isExpression a, k =>                    -- values of the model are never pymbolic expressions
      c02InterpE T ctx loc a (some fun _ => k.val (.bool false))
  | .fieldIsNone f, k => match c02Assoc f ctx.fields with
    | some .none => k.val (.bool true)
    | some (.optStr Option.none) => k.val (.bool true)
    | some _ => k.val (.bool false)
    | Option.none => EvM.throw .noClaim
  | .fieldCall _ _, _ => EvM.throw .noClaim

/-- statements; `callH` runs another handler of the table on the same node -/
def c02InterpP (T : C02EvalTable) (ctx : C02Ctx) (callH : String → EvM Value) :
    List (String × Value) → C02HProg → EvM Value
  | loc, .ret e => c02InterpE T ctx loc e none
  | loc, .assign x e k =>
      c02InterpE T ctx loc e (some fun v => c02InterpP T ctx callH ((x, v) :: loc) k)
  | loc, .ite c t e =>
      c02InterpE T ctx loc c (some fun cv => do
        let tv ← EvM.lift cv.truthy
        if tv then c02InterpP T ctx callH loc t else c02InterpP T ctx callH loc e)
  | _, .raise exc => EvM.throw (c02ErrOfExc exc)
  | _, .delegate h => callH h
  | _, .ctxLookup attr keyField caught raised payloadField =>
      if attr = T.contextAttr then
        match ctx.strField keyField with
        | none => EvM.throw .noClaim
        | some key => match ctx.env.get key with
          | some v => EvM.pure v
          | none =>
            if caught = "KeyError" ∧ raised = "UnknownVariableError" then
              match ctx.strField payloadField with
              | some p => EvM.throw (.unknownVar p)
              | none => EvM.throw .noClaim
            else EvM.throw .noClaim
      else EvM.throw .noClaim
  | _, .cseCache uncached stores => fun s =>
      if ctx.node.hasList then (.error .typeError, s) else       -- hashing the key raises
      match findBy Expr.pyEq ctx.node s.cse with
      | some v => (.ok v, s)
      | none =>
        match callH uncached s with
        | (.ok v, s') =>
          (.ok v, if stores then { s' with cse := (ctx.node, v) :: s'.cse } else s')
        | (.error err, s') => (.error err, s')

/-- run handler `h` of the table on the node `ctx` (delegations followed up to `fuel` deep) -/
def c02RunHandler (T : C02EvalTable) (ctx : C02Ctx) : Nat → String → EvM Value
  | 0, _ => EvM.throw .noClaim
  | fuel + 1, h => match T.handlerBody h with
    | none => EvM.throw .noClaim
    | some p => c02InterpP T ctx (c02RunHandler T ctx fuel) [] p

/-- dispatch of a pymbolic node of class `cls` -/
def c02Class (T : C02EvalTable) (env : Env) (cls : String) (node : Expr)
    (fields : List (String × C02Field)) : EvM Value :=
  match T.classHandler cls with
  | none => EvM.throw .noClaim
  | some none => EvM.throw .unsupportedExpr
  | some (some h) =>
    c02RunHandler T { env, node, selfVal := none, selfRuns := none, fields } 4 h

/-- first rule of `map_foreign` that applies to an object of Python type `kind` -/
def c02ForeignRule (constKinds : List String) (kind : String) : List (String × String) → Option String
  | [] => none
  | (test, h) :: rest =>
    let hit := match test with
      | "constant" => constKinds.contains kind
      | "list" => kind == "list"
      | "tuple" => kind == "tuple"
      | _ => false                           -- numpy arrays do not exist in the model
    if hit then some h else c02ForeignRule constKinds kind rest

/-- dispatch of a non-pymbolic object -/
def c02Foreign (T : C02EvalTable) (env : Env) (kind : String) (node : Expr)
    (selfVal : Option Value) (selfRuns : Option (List (EvM Value))) : EvM Value :=
  match c02ForeignRule T.constKinds kind T.foreign with
  | none => if T.foreignElse = "ValueError" then EvM.throw .foreign else EvM.throw .noClaim
  | some h => c02RunHandler T { env, node, selfVal, selfRuns, fields := [] } 4 h

/-! ### The memo protocol of `CachedMapper.__call__` -/

def c02MapperClass (cached : Bool) : String :=
  if cached then "CachedEvaluationMapper" else "EvaluationMapper"

def c02MemoActive (T : C02EvalTable) (cached : Bool) : Bool :=
  match c02Assoc (c02MapperClass cached) T.recOwner with
  | some owner => owner == "CachedMapper"
  | none => false

def c02KeyEq (M : C02MemoSpec) (a b : Expr) : Bool :=
  (!M.keyType || a.typeTag == b.typeTag) && (!M.keyExpr || a.pyEq b)

/-- does the dispatch take the node's own handler (as opposed to `rec_fallback`)? -/
def Expr.c02IsForeign : Expr → Bool
  | .const _ | .tuple _ | .list _ => true
  | _ => false

def c02WithMemo (T : C02EvalTable) (cached : Bool) (e : Expr) (k : EvM Value) : EvM Value := fun s =>
  if c02MemoActive T cached then
    if T.memo.keyExpr && e.hasList then (.error .typeError, s)     -- hashing the cache key raises
    else match (if T.memo.lookupFirst then findBy (c02KeyEq T.memo) e s.memo else none) with
    | some v => (.ok v, s)
    | none =>
      match k s with
      | (.ok v, s') =>
        (.ok v, if (if e.c02IsForeign then T.memo.storeFallback else T.memo.storeMethod)
                then { s' with memo := (e, v) :: s'.memo } else s')
      | (.error err, s') => (.error err, s')
  else k s

/-! ### The node classes of the IR: class name, attribute names -/

def Const.c02Kind : Const → String
  | .int _ => "int"
  | .bool _ => "bool"
  | .flt .. => "float"
  | .str _ => "str"
  | .none => "NoneType"

/-- a constant as the Python value it is (floats are `inexact`) -/
def Const.c02Value : Const → Value
  | .int n => .int n
  | .bool b => .bool b
  | .flt .. => .inexact
  | .str s => .str s
  | .none => .none

/-- attribute names of the two-operand classes, in the order of the constructor arguments -/
def BinOp.c02Fields : BinOp → String × String
  | .quot | .floordiv | .rem => ("numerator", "denominator")
  | .pow => ("base", "exponent")
  | .lshift | .rshift => ("shiftee", "shift")

/-- class name and attribute names the IR assumes for every node class (what `harness/sexp.py`
reads and writes); compared with the live dataclasses by `C02.ir_fields_current`. -/
def c02IRFields : List (String × List String) :=
  [("Variable", ["name"]),
   ("Sum", ["children"]), ("Product", ["children"]), ("BitwiseOr", ["children"]),
   ("BitwiseXor", ["children"]), ("BitwiseAnd", ["children"]), ("LogicalOr", ["children"]),
   ("LogicalAnd", ["children"]), ("Min", ["children"]), ("Max", ["children"]),
   ("Quotient", ["numerator", "denominator"]), ("FloorDiv", ["numerator", "denominator"]),
   ("Remainder", ["numerator", "denominator"]), ("Power", ["base", "exponent"]),
   ("LeftShift", ["shiftee", "shift"]), ("RightShift", ["shiftee", "shift"]),
   ("BitwiseNot", ["child"]), ("LogicalNot", ["child"]),
   ("Comparison", ["left", "operator", "right"]),
   ("If", ["condition", "then", "else_"]),
   ("Call", ["function", "parameters"]),
   ("CallWithKwargs", ["function", "parameters", "kw_parameters"]),
   ("Subscript", ["aggregate", "index"]), ("Lookup", ["aggregate", "name"]),
   ("CommonSubexpression", ["child", "prefix", "scope"]),
   ("Substitution", ["child", "variables", "values"]),
   ("Derivative", ["child", "variables"]),
   ("Slice", ["children"]),
   ("NaN", ["data_type"]),
   ("Wildcard", []), ("DotWildcard", ["name"]), ("StarWildcard", ["name"]),
   ("FunctionSymbol", [])]

/-! ### The table-driven evaluator -/

mutual
/-- the handler the table assigns to the node, run on the node; recursive calls `self.rec(child)`
go through the memo protocol of the table -/
def c02EvalT (T : C02EvalTable) (cached : Bool) (env : Env) : Expr → EvM Value
  | .const c => c02Foreign T env c.c02Kind (.const c) (some c.c02Value) none
  | .var x => c02Class T env "Variable" (.var x) [("name", .str x)]
  | .nary o cs =>
      c02Class T env o.name (.nary o cs) [("children", .nodes (c02RunsT T cached env cs))]
  | .bin o a b =>
      c02Class T env o.name (.bin o a b)
        [(o.c02Fields.1, .node (c02WithMemo T cached a (c02EvalT T cached env a))),
         (o.c02Fields.2, .node (c02WithMemo T cached b (c02EvalT T cached env b)))]
  | .un o a =>
      c02Class T env o.name (.un o a)
        [("child", .node (c02WithMemo T cached a (c02EvalT T cached env a)))]
  | .cmp o a b =>
      c02Class T env "Comparison" (.cmp o a b)
        [("left", .node (c02WithMemo T cached a (c02EvalT T cached env a))),
         ("operator", .str o.sym),
         ("right", .node (c02WithMemo T cached b (c02EvalT T cached env b)))]
  | .ite c t e =>
      c02Class T env "If" (.ite c t e)
        [("condition", .node (c02WithMemo T cached c (c02EvalT T cached env c))),
         ("then", .node (c02WithMemo T cached t (c02EvalT T cached env t))),
         ("else_", .node (c02WithMemo T cached e (c02EvalT T cached env e)))]
  | .call f as =>
      c02Class T env "Call" (.call f as)
        [("function", .node (c02WithMemo T cached f (c02EvalT T cached env f))),
         ("parameters", .nodes (c02RunsT T cached env as))]
  | .callKw f as ns vs =>
      c02Class T env "CallWithKwargs" (.callKw f as ns vs)
        [("function", .node (c02WithMemo T cached f (c02EvalT T cached env f))),
         ("parameters", .nodes (c02RunsT T cached env as)),
         ("kw_parameters", .kw ns (c02RunsT T cached env vs))]
  | .subscript a i =>
      c02Class T env "Subscript" (.subscript a i)
        [("aggregate", .node (c02WithMemo T cached a (c02EvalT T cached env a))),
         ("index", .node (c02WithMemo T cached i (c02EvalT T cached env i)))]
  | .lookup a n =>
      c02Class T env "Lookup" (.lookup a n)
        [("aggregate", .node (c02WithMemo T cached a (c02EvalT T cached env a))),
         ("name", .str n)]
  | .cse c p sc =>
      c02Class T env "CommonSubexpression" (.cse c p sc)
        [("child", .node (c02WithMemo T cached c (c02EvalT T cached env c))),
         ("prefix", .optStr p), ("scope", .str sc)]
  | .subst c vars vals =>
      c02Class T env "Substitution" (.subst c vars vals)
        [("child", .node (c02WithMemo T cached c (c02EvalT T cached env c))),
         ("variables", .strs vars), ("values", .nodes (c02RunsT T cached env vals))]
  | .deriv c vars =>
      c02Class T env "Derivative" (.deriv c vars)
        [("child", .node (c02WithMemo T cached c (c02EvalT T cached env c))),
         ("variables", .strs vars)]
  | .slice cs =>
      c02Class T env "Slice" (.slice cs) [("children", .nodes (c02RunsT T cached env cs))]
  | .nan => c02Class T env "NaN" .nan [("data_type", .none)]
  | .wildcard => c02Class T env "Wildcard" .wildcard []
  | .dotWild n => c02Class T env "DotWildcard" (.dotWild n) [("name", .str n)]
  | .starWild n => c02Class T env "StarWildcard" (.starWild n) [("name", .str n)]
  | .funcSym => c02Class T env "FunctionSymbol" .funcSym []
  | .tuple cs =>
      c02Foreign T env "tuple" (.tuple cs) none (some (c02RunsT T cached env cs))
  | .list cs =>
      c02Foreign T env "list" (.list cs) none (some (c02RunsT T cached env cs))
/-- the suspended recursive calls `self.rec(c)` for the elements of a tuple-valued attribute -/
def c02RunsT (T : C02EvalTable) (cached : Bool) (env : Env) : List Expr → List (EvM Value)
  | [] => []
  | c :: cs => c02WithMemo T cached c (c02EvalT T cached env c) :: c02RunsT T cached env cs
end

/-- the mapper instance called on an expression (`__call__` is `rec`) -/
def c02EvalGT (T : C02EvalTable) (cached : Bool) (env : Env) (e : Expr) : EvM Value :=
  c02WithMemo T cached e (c02EvalT T cached env e)

/-- a history of calls on one instance -/
def c02RunHistT (T : C02EvalTable) (cached : Bool) (env : Env) : List Expr → EvState → List R
  | [], _ => []
  | e :: es, s =>
    let (r, s') := c02EvalGT T cached env e s
    r :: c02RunHistT T cached env es s'

/-! ### numpy object arrays (foreign objects, `map_foreign` → the numpy rule) -/

/-- a numpy object array as the model sees it: its shape and its entries in row-major order
(the order of `numpy.ndindex(shape)`) -/
structure C02Array (α : Type) where
  shape : List Nat
  flat : List α
  deriving Repr

/-- The numpy-array handler of table `T` run on an array; `none` when the reader did not recognise
the handler body.  `ndindexFill`: a fresh object array of the same shape, filled index by index
in row-major order with `self.rec(entry)` — the list handler's loop on the entries, first error
wins.  An ndarray is unhashable, so the memoizing mapper's cache key raises before dispatch. -/
def c02ArrayRun (T : C02EvalTable) (cached : Bool) (env : Env) (a : C02Array Expr) :
    EvM (C02Array Value) := fun s =>
  if c02MemoActive T cached && T.memo.keyExpr then (.error .typeError, s)
  else match c02ListRuns (c02RunsT T cached env a.flat) s with
    | (.ok vs, s') => (.ok ⟨a.shape, vs⟩, s')
    | (.error e, s') => (.error e, s')

def c02ArrayT (T : C02EvalTable) (cached : Bool) (env : Env) (a : C02Array Expr) :
    Option (EvM (C02Array Value)) :=
  match T.arrayBody with
  | .other _ => none
  | .ndindexFill _ => some (c02ArrayRun T cached env a)

end PV
