import PV.Model.Ops
import PV.Model.Traverse
import PV.Model.Algo
/-
  C15.  `pymbolic/mapper/coefficient.py` (`CoefficientCollector`) and the linear-algebra part of
  `pymbolic/algorithm.py` (`gaussian_elimination`, `solve_affine_equations_for`).

  * A stride dictionary `{variable: coefficient, 1: constant}` is an insertion-ordered association
    list `Dict = List (Expr × Expr)`; the constant key `1` is the constant `one`, keys are compared
    with Python `==` (`Expr.pyEq`) as `dict` does.
  * Coefficient arithmetic is the arithmetic Python performs on the stored objects
    (`result[var] += stride`, `other_coeffs *= child_coeffs[1]`, `d_num[k] *= Quotient(1, val)`):
    between two constants plain int/bool arithmetic (`constBin`; floats: the model abstains),
    otherwise the overloaded operators of `Expression` (`Ops.bin`, C03).
  * `gaussElim` works on integer matrices (Python ints in numpy object arrays); an augmented row is
    the pair (row of `mat`, row of `rhs`).
  * `solveAffine` mirrors `solve_affine_equations_for` for systems whose collected coefficients are
    plain integers; everything else is `noClaim`.  The iteration order of the Python `set` of
    parameters is not determined by the program text: it is an explicit argument `params`.

  Quirks mirrored on purpose (see PV/Properties/C15.lean for the witnesses):
    - a non-target leaf is returned as the constant term even when a target occurs inside it
      (`a[x]`, `f(x)`), and a `Lookup`/wildcard whose *attribute* name is a target name is taken
      for a target;
    - no check for under- or overdetermined systems beyond "exactly one non-zero entry per column".
-/
namespace PV.Coeff
open PV

inductive CErr where
  | nonlinear          -- RuntimeError("nonlinear expression")
  | assertion          -- AssertionError (`assert len(child_coeffs) == 1`, reflected operators)
  | keyError           -- KeyError (`child_coeffs[1]`)
  | unsupported        -- UnsupportedExpressionError
  | notImplemented     -- NotImplementedError (`map_list`, `map_tuple`)
  | foreign            -- ValueError: invalid foreign object
  | typeError
  | notUnique          -- RuntimeError("cannot uniquely solve for …")
  | remainder          -- RuntimeError("division with remainder in linear solve for …")
  | keyNotUnderstood   -- ValueError("key … not understood")
  | noClaim            -- outside the exact model
  deriving Repr, DecidableEq, Inhabited

abbrev CR (α : Type) := Except CErr α

abbrev Dict := List (Expr × Expr)

def liftOp : OpR → CR Expr
  | .ok e => .ok e
  | .error .typeError => .error .typeError
  | .error .assertion => .error .assertion
  | .error .noClaim => .error .noClaim

/-- `a <op> b` on two stored coefficients: plain Python arithmetic between constants, the
overloaded operator otherwise (exactly the case split of `OpProg.build`). -/
def pyBin (o : PyBinOp) (a b : Expr) : CR Expr :=
  match a, b with
  | .const x, .const y => liftOp (constBin o x y)
  | _, _ => liftOp (Ops.bin o a b)

/-! ### dictionaries -/

/-- `d[k]` / `k in d`: first entry whose stored key `==` the probe -/
def Dict.find (d : Dict) (k : Expr) : Option Expr :=
  match d with
  | [] => none
  | (k', c) :: rest => if k'.pyEq k then some c else Dict.find rest k

/-- `if var in result: result[var] += stride  else: result[var] = stride` -/
def Dict.addTo (d : Dict) (k c : Expr) : CR Dict :=
  match d with
  | [] => pure [(k, c)]
  | (k', c') :: rest =>
    if k'.pyEq k then do
      let s ← pyBin .add c' c
      pure ((k', s) :: rest)
    else do
      let r ← Dict.addTo rest k c
      pure ((k', c') :: r)

/-- the inner loop of `map_sum` over one child dictionary -/
def mergeInto (result : Dict) : Dict → CR Dict
  | [] => pure result
  | (k, c) :: rest => do
      let r ← Dict.addTo result k c
      mergeInto r rest

/-- the outer loop of `map_sum` -/
def sumDicts (result : Dict) : List Dict → CR Dict
  | [] => pure result
  | d :: ds => do
      let r ← mergeInto result d
      sumDicts r ds

/-- `any(k != 1 for k in child_coeffs)` -/
def hasVarKey (d : Dict) : Bool := d.any fun kc => !(kc.1.pyEq one)

/-- The first loop of `map_product` (search for `idx_of_child_with_vars`): the child with
variables, and the remaining children in order.  The loop raises as soon as a second child with a
key `!= 1` is met; that is its only exception, so scanning from the right gives the same result. -/
def splitVars : List Dict → CR (Option Dict × List Dict)
  | [] => pure (none, [])
  | d :: ds => do
      let (v, os) ← splitVars ds
      if hasVarKey d then
        match v with
        | some _ => throw .nonlinear
        | none => pure (some d, os)
      else pure (v, d :: os)

/-- The second loop of `map_product`:
```
    other_coeffs = 1
    for i, child_coeffs in enumerate(children_coeffs):
        if i != idx_of_child_with_vars:
            assert len(child_coeffs) == 1
            other_coeffs *= child_coeffs[1]
``` -/
def otherCoeffs (acc : Expr) : List Dict → CR Expr
  | [] => pure acc
  | d :: ds =>
    if d.length != 1 then throw .assertion
    else match d.find one with
      | none => throw .keyError
      | some c => do
          let acc' ← pyBin .mul acc c
          otherCoeffs acc' ds

/-- `{var: other_coeffs*coeff for var, coeff in d.items()}` -/
def scaleLeft (other : Expr) : Dict → CR Dict
  | [] => pure []
  | (k, c) :: rest => do
      let c' ← pyBin .mul other c
      let r ← scaleLeft other rest
      pure ((k, c') :: r)

/-- `for k in d_num.keys(): d_num[k] *= q` -/
def scaleRight (q : Expr) : Dict → CR Dict
  | [] => pure []
  | (k, c) :: rest => do
      let c' ← pyBin .mul c q
      let r ← scaleRight q rest
      pure ((k, c') :: r)

/-- `len(d) > 1 or 1 not in d` is false: the dictionary looks like `{1: k}` -/
def constOnly (d : Dict) : Option Expr :=
  if d.length > 1 then none else d.find one

/-- `target_names is None or getattr(expr, "name", None) in target_names` for an algebraic leaf.
`Variable`, `Lookup`, `DotWildcard` and `StarWildcard` are the leaf classes with a `name`. -/
def isTarget (tg : Option (List String)) (e : Expr) : Bool :=
  match tg with
  | none => true
  | some names =>
    match e with
    | .var n | .lookup _ n | .dotWild n | .starWild n => names.contains n
    | _ => false

def leafDict (tg : Option (List String)) (e : Expr) : Dict :=
  if isTarget tg e then [(e, one)] else [(one, e)]

/-- `map_algebraic_leaf`: `{expr: 1}` hashes the leaf (a leaf that contains a Python list is
unhashable: TypeError), `{1: expr}` does not -/
def leafR (tg : Option (List String)) (e : Expr) : CR Dict :=
  if isTarget tg e && e.hasList then throw .typeError else pure (leafDict tg e)

mutual
/-- `CoefficientCollector(target_names)(e)` -/
def coeffs (tg : Option (List String)) : Expr → CR Dict
  | .const (.int n) => pure [(one, .const (.int n))]
  | .const (.bool b) => pure [(one, .const (.bool b))]
  | .const (.flt r n d) => pure [(one, .const (.flt r n d))]
  | .const (.str _) => throw .foreign
  | .const .none => throw .foreign
  | .tuple _ => throw .notImplemented
  | .list _ => throw .notImplemented
  | .nary .sum cs => do
      let ds ← coeffsL tg cs
      sumDicts [] ds
  | .nary .prod cs => do
      let ds ← coeffsL tg cs
      let (v, os) ← splitVars ds
      let other ← otherCoeffs one os
      match v with
      | none => pure [(one, other)]
      | some d => scaleLeft other d
  | .bin .quot a b => do
      let dn ← coeffs tg a
      let dd ← coeffs tg b
      match constOnly dd with
      | none => throw .nonlinear
      | some val => scaleRight (.bin .quot one val) dn
  | .bin .pow a b => do
      let db ← coeffs tg a
      let de ← coeffs tg b
      match constOnly de with
      | none => throw .nonlinear
      | some _ =>
        match constOnly db with
        | none => throw .nonlinear
        | some _ => pure [(one, .bin .pow a b)]
  | .var n => leafR tg (.var n)
  | .subscript a i => leafR tg (.subscript a i)
  | .call f as => leafR tg (.call f as)
  | .callKw f as ns vs => leafR tg (.callKw f as ns vs)
  | .lookup a n => leafR tg (.lookup a n)
  | .nan => leafR tg .nan
  | .wildcard => leafR tg .wildcard
  | .dotWild n => leafR tg (.dotWild n)
  | .starWild n => leafR tg (.starWild n)
  | .funcSym => leafR tg .funcSym
  | .nary _ _ => throw .unsupported
  | .bin _ _ _ => throw .unsupported
  | .un _ _ => throw .unsupported
  | .cmp _ _ _ => throw .unsupported
  | .ite _ _ _ => throw .unsupported
  | .cse _ _ _ => throw .unsupported
  | .subst _ _ _ => throw .unsupported
  | .deriv _ _ => throw .unsupported
  | .slice _ => throw .unsupported
/-- `[self.rec(ch) for ch in expr.children]` -/
def coeffsL (tg : Option (List String)) : List Expr → CR (List Dict)
  | [] => pure []
  | c :: cs => do
      let d ← coeffs tg c
      let ds ← coeffsL tg cs
      pure (d :: ds)
end

/-- the syntactic reconstruction `Σ coefficient·key` of a dictionary: `Sum((Product((c, k)), …))` -/
def recon (d : Dict) : Expr := .nary .sum (d.map fun kc => .nary .prod [kc.2, kc.1])

/-! ### `gaussian_elimination` on Python ints -/

abbrev Row := List Int
/-- one row of `mat` together with the same row of `rhs` -/
abbrev ARow := Row × Row

def rowGet (r : Row) (j : Nat) : Int := r.getD j 0

/-- `u_fac*a - i_fac*b`, elementwise -/
def comb (uf pf : Int) (a b : Row) : Row := List.zipWith (fun x y => uf * x - pf * y) a b

/-- body of `for u in range(m)` for one row `r ≠` pivot row `p` (column `j`):
```
    if not mat[u, j]: continue
    ell = lcm(mat[u, j], mat[i, j]); u_fac = ell//mat[u, j]; i_fac = ell//mat[i, j]
    mat[u] = u_fac*mat[u] - i_fac*mat[i];  rhs[u] = u_fac*rhs[u] - i_fac*rhs[i]
```
(`lcm` raises only when both arguments are zero, which cannot happen here: `getD 0`) -/
def elimRow (j : Nat) (p r : ARow) : ARow :=
  let a := rowGet r.1 j
  if a = 0 then r
  else
    let b := rowGet p.1 j
    let ell := (Algo.lcm a b).getD 0
    let uf := Int.fdiv ell a
    let pf := Int.fdiv ell b
    (comb uf pf r.1 p.1, comb uf pf r.2 p.2)

/-- `for u in range(0, m): if u == i: continue …`; `u` is the index of the head of the list -/
def elimAll (j i : Nat) (p : ARow) : Nat → List ARow → List ARow
  | _, [] => []
  | u, r :: rs => (if u = i then r else elimRow j p r) :: elimAll j i p (u + 1) rs

/-- `for k in range(i, m): if mat[k, j]: nonz_row = k; break`; `k` is the index of the head -/
def findPivot (j i : Nat) : Nat → List ARow → Option Nat
  | _, [] => none
  | k, r :: rs => if i ≤ k ∧ rowGet r.1 j ≠ 0 then some k else findPivot j i (k + 1) rs

/-- `s[i], s[k] = s[k], s[i]` -/
def swapRows (s : List ARow) (i k : Nat) : List ARow :=
  match s[i]?, s[k]? with
  | some a, some b => (s.set i b).set k a
  | _, _ => s

/-- the `while i < m and j < n` loop; `j` grows in every iteration, `fuel = n` suffices -/
def gaussLoop (m n : Nat) : Nat → Nat → Nat → List ARow → List ARow
  | 0, _, _, s => s
  | fuel + 1, i, j, s =>
    if i < m ∧ j < n then
      match findPivot j i 0 s with
      | some k =>
        let s1 := swapRows s i k
        match s1[i]? with
        | some p => gaussLoop m n fuel (i + 1) (j + 1) (elimAll j i p 0 s1)
        | none => s1
      | none => gaussLoop m n fuel i (j + 1) s
    else s

/-- `gcd_many(*args)` -/
def gcdMany : List Int → Int
  | [] => 1
  | a :: rest => rest.foldl Algo.gcd a

/-- `g = gcd_many(nonzero entries of mat[i] and rhs[i]); mat[i] //= g; rhs[i] //= g` -/
def normRow (r : ARow) : ARow :=
  let g := gcdMany (r.1.filter (· ≠ 0) ++ r.2.filter (· ≠ 0))
  (r.1.map (Int.fdiv · g), r.2.map (Int.fdiv · g))

/-- `gaussian_elimination(mat, rhs)` for an `m × n` matrix -/
def gaussElim (m n : Nat) (s : List ARow) : List ARow :=
  (gaussLoop m n n 0 0 s).map normRow

/-! ### `solve_affine_equations_for` -/

/-- read off unknown `j` from the reduced system: the row of `rhs_mat` divided by the pivot -/
def solveCol (s : List ARow) (j : Nat) : CR Row :=
  match s.filter (fun r => rowGet r.1 j ≠ 0) with
  | [r] =>
    let d := rowGet r.1 j
    if d.natAbs ≠ 1 then throw .remainder
    else pure (r.2.map (Int.fdiv · d))
  | _ => throw .notUnique

/-- the values of all unknowns of an `m × n` system (matrix level) -/
def solveMat (m n : Nat) (s : List ARow) : CR (List Row) :=
  (List.range n).mapM (solveCol (gaussElim m n s))

/-- ```
    unknown_val = int(rhs_mat[nonz_row, -1]) // div
    for parameter, coeff in zip(parameters_list, rhs_mat[nonz_row]):
        unknown_val += (int(coeff) // div) * parameter
``` (the row is already divided) -/
def assembleLoop (acc : Expr) : List Expr → Row → CR Expr
  | p :: ps, k :: ks => do
      let t ← pyBin .mul (.const (.int k)) p
      let acc' ← pyBin .add acc t
      assembleLoop acc' ps ks
  | _, _ => pure acc

def assembleVal (params : List Expr) (row : Row) : CR Expr :=
  assembleLoop (.const (.int (row.getLastD 0))) params row

/-- index of the first element `==` to `k` -/
def idxOf (keys : List Expr) (k : Expr) : Option Nat :=
  match keys with
  | [] => none
  | k' :: rest => if k'.pyEq k then some 0 else (idxOf rest k).map (· + 1)

def intOf : Expr → CR Int
  | .const (.int n) => pure n
  | _ => throw .noClaim

/-- the two inner loops of "build matrix and rhs" for one side of one equation; contributions
accumulate (`mat[i, j] += lhs_factor*coeff`, `rhs_mat[i, k] += -lhs_factor*coeff`) -/
def assembleSide (unknowns params : List Expr) (factor : Int) (row : ARow) : Dict → CR ARow
  | [] => pure row
  | (key, coeff) :: rest =>
    match idxOf unknowns key with
    | some j => do
        let v ← intOf (← pyBin .mul (.const (.int factor)) coeff)
        assembleSide unknowns params factor (row.1.set j (rowGet row.1 j + v), row.2) rest
    | none =>
      match idxOf params key with
      | some j => do
          let v ← intOf (← pyBin .mul (.const (.int (-factor))) coeff)
          assembleSide unknowns params factor (row.1, row.2.set j (rowGet row.2 j + v)) rest
      | none =>
        if key.pyEq one then do
          let v ← intOf (← pyBin .mul (.const (.int (-factor))) coeff)
          assembleSide unknowns params factor
            (row.1, row.2.set params.length (rowGet row.2 params.length + v)) rest
        else throw .keyNotUnderstood

def zeroRow (n : Nat) : Row := List.replicate n 0

def assembleRow (unknowns params : List Expr) (eq : Expr × Expr) : CR ARow := do
  let dl ← coeffs none eq.1
  let dr ← coeffs none eq.2
  let row ← assembleSide unknowns params 1 (zeroRow unknowns.length, zeroRow (params.length + 1)) dl
  assembleSide unknowns params (-1) row dr

def depErr : DepErr → CErr
  | .unsupported => .unsupported
  | .foreign => .foreign
  | .unhashable => .typeError

def compositeFlags : DepFlags := { subscripts := true, lookups := true, calls := .yes, cses := false }

/-- `parameters`: the union over all equations of `dep_map(lhs) - unknowns`, `dep_map(rhs) -
unknowns` as a duplicate-free list (the Python object is a `set`: its order is not modelled) -/
def paramSet (unknowns : List Expr) : List (Expr × Expr) → CR (List Expr)
  | [] => pure []
  | (l, r) :: rest => do
      let dl ← (deps compositeFlags l).mapError depErr
      let dr ← (deps compositeFlags r).mapError depErr
      let ps ← paramSet unknowns rest
      let keep := fun (xs : List Expr) => xs.filter fun x => !(unknowns.any fun u => u.pyEq x)
      pure (unionPy (unionPy (keep dl) (keep dr)) ps)

def solveRows (params : List Expr) (s : List ARow) : List Nat → CR (List Expr)
  | [] => pure []
  | j :: js => do
      let row ← solveCol s j
      let v ← assembleVal params row
      let vs ← solveRows params s js
      pure (v :: vs)

/-- `solve_affine_equations_for(unknowns, equations)` with the iteration order `params` of the
parameter set made explicit.  Result: the list of `(unknown, value)` in the order of `unknowns`. -/
def solveAffine (names : List String) (eqs : List (Expr × Expr)) (params : List Expr) :
    CR (List (Expr × Expr)) := do
  if names.eraseDups.length != names.length then throw .noClaim
  let unknowns := names.map Expr.var
  let rows ← eqs.mapM (assembleRow unknowns params)
  let s := gaussElim eqs.length unknowns.length rows
  let vals ← solveRows params s (List.range unknowns.length)
  pure (unknowns.zip vals)

end PV.Coeff
