import PV.Model.Algo
/-
  PV.Model.AlgoFft — import-free executable model of the ARITHMETIC of `fft` / `ifft`
  (`pymbolic/algorithm.py`), over an arbitrary carrier `α` with operations `add mul : α → α → α`,
  an element `zero` (the Python int `0` that `sum(...)` starts from) and a function
  `rp : Nat → Nat → α` standing for the twiddle factors:

      rp m k   =   exp(sign * -2j*pi * k / m)        ("the k-th power of the root for length m")

  Every twiddle the code computes with `custom_np.exp(...)` has this shape:

  * `custom_np.exp(sign*-2j*pi*n1/(N1*N2) * custom_np.arange(0, N2, dtype=complex_dtype))`
      is the vector `[rp (N1*N2) (n1*k2) for k2 in range(N2)]`;
  * `scalar_tp(custom_np.exp(sign*(-2j)*pi*n1*k1/N1))` is `rp N1 (n1*k1)`;
  * the recursive call `fft(x[n1::N1], sign, ...)` has `len = N2`, so its own twiddles are
      `rp N2 _`, `rp (its N1) _`, ... : every sub-transform gets its OWN root (for its own length),
      not a power of the parent's root handed down.

  Vectors are `List α`; `x[n1::N1]` is `PV.Algo.stride x n1 N1`; numpy's elementwise `*`, `+` on
  equal-length arrays are `List.zipWith`; `vector * scalar` is a `map`; Python's `sum(gen)` is
  `0 + t0 + t1 + …` where the first `0 + t0` broadcasts the int `0` over `t0`.
  `wrap_intermediate_with_level` is the identity (the default).

  The recursion is on a fuel argument (initialised with `len(x)`; `PV.Proofs.AlgoFft` shows that
  the fuel never runs out: sub-vectors are strictly shorter).

  Core Lean only: no imports outside PV.
-/

namespace PV.Algo

/-- numpy `a * b` for two arrays of equal length (elementwise). -/
def c19VecMul {α : Type u} (mul : α → α → α) (a b : List α) : List α := List.zipWith mul a b

/-- numpy `a + b` for two arrays of equal length (elementwise). -/
def c19VecAdd {α : Type u} (add : α → α → α) (a b : List α) : List α := List.zipWith add a b

/-- numpy `subvec * s` for an array and a scalar. -/
def c19VecScale {α : Type u} (mul : α → α → α) (a : List α) (s : α) : List α :=
  a.map fun v => mul v s

/-- Python `sum(t for t in terms)` on arrays: `((0 + t0) + t1) + …`; the first addition
broadcasts the int `0` (`zero`).  (`terms` is never empty in `fft`: `N1 ≥ 2`.) -/
def c19PySum {α : Type u} (add : α → α → α) (zero : α) : List (List α) → List α
  | [] => []
  | t :: ts => ts.foldl (c19VecAdd add) (t.map fun v => add zero v)

/-- `custom_np.exp(sign*-2j*pi*n1/(N1*N2) * custom_np.arange(0, N2, dtype=complex_dtype))`. -/
def c19Twiddles {α : Type u} (rp : Nat → Nat → α) (N1 N2 n1 : Nat) : List α :=
  (List.range N2).map fun k2 => rp (N1 * N2) (n1 * k2)

/-- One level of `fft` given the function `sub` computing the sub-transforms:
```
    N1, N2 = find_factors(n)
    sub_ffts = [
            wrap_intermediate_with_level(level,
                fft(x[n1::N1], ...) * custom_np.exp(sign*-2j*pi*n1/(N1*N2) * custom_np.arange(0, N2, ...)))
            for n1 in range(N1)]
    return custom_np.concatenate([
        sum(subvec * scalar_tp(custom_np.exp(sign*(-2j)*pi*n1*k1/N1))
            for n1, subvec in enumerate(sub_ffts))
        for k1 in range(N1)
        ], axis=0)
``` -/
def c19FftStep {α : Type u} (add mul : α → α → α) (zero : α) (rp : Nat → Nat → α)
    (sub : List α → List α) (x : List α) : List α :=
  let N1 := (findFactors x.length).1
  let N2 := (findFactors x.length).2
  let subFfts : List (List α) :=
    (List.range N1).map fun n1 =>
      c19VecMul mul (sub (stride x n1 N1)) (c19Twiddles rp N1 N2 n1)
  (List.range N1).flatMap fun k1 =>
    c19PySum add zero
      (subFfts.zipIdx.map fun (p : List α × Nat) => c19VecScale mul p.1 (rp N1 (p.2 * k1)))

/-- The recursion of `fft` with fuel; `if n == 1: return x`, otherwise one Cooley–Tukey level
whose sub-transforms are recursive calls.  (Prime lengths are not special-cased by the code:
`find_factors` returns `(n, 1)`, the sub-vectors have length 1 and the recombination is the
plain O(n²) sum.) -/
def c19FftAux {α : Type u} (add mul : α → α → α) (zero : α) (rp : Nat → Nat → α) :
    Nat → List α → List α
  | 0, x => x
  | fuel + 1, x =>
    if x.length = 1 then x
    else c19FftStep add mul zero rp (c19FftAux add mul zero rp fuel) x

/-- `fft(x, sign, complex_dtype=…, custom_np=…)` for `len(x) ≥ 1`, twiddles given by `rp`. -/
def c19Fft {α : Type u} (add mul : α → α → α) (zero : α) (rp : Nat → Nat → α) (x : List α) :
    List α :=
  c19FftAux add mul zero rp x.length x

/-- `fft` including the failure for `len(x) == 0`: `find_factors(0)` raises
`ZeroDivisionError` (`none`). -/
def c19FftPy {α : Type u} (add mul : α → α → α) (zero : α) (rp : Nat → Nat → α) (x : List α) :
    Option (List α) :=
  match findFactorsPy x.length with
  | none => none
  | some _ => some (c19Fft add mul zero rp x)

/-- `ifft(x) = (1/len(x)) * fft(x, sign=-1, …)`: `rpInv` are the twiddles for `sign = -1`,
`ninv` stands for the scalar `1/len(x)`; `scalar * array` multiplies from the left. -/
def c19Ifft {α : Type u} (add mul : α → α → α) (zero : α) (rpInv : Nat → Nat → α) (ninv : α)
    (x : List α) : List α :=
  (c19Fft add mul zero rpInv x).map fun v => mul ninv v

/-- `ifft` including the failure for `len(x) == 0` (`1/len(x)` raises `ZeroDivisionError`). -/
def c19IfftPy {α : Type u} (add mul : α → α → α) (zero : α) (rpInv : Nat → Nat → α) (ninv : α)
    (x : List α) : Option (List α) :=
  if x.length = 0 then none else some (c19Ifft add mul zero rpInv ninv x)

/-! ### Instance used by the driver: integers modulo `p` -/

/-- `(a + b) % p` -/
def c19AddMod (p : Nat) (a b : Nat) : Nat := (a + b) % p
/-- `(a * b) % p` -/
def c19MulMod (p : Nat) (a b : Nat) : Nat := (a * b) % p

/-- Twiddles in `Z_p` for a transform of top-level length `n` whose root `exp(-2πi·sign/n)` is
represented by `z` (with `z^n = 1 mod p`): the root for a length `m ∣ n` is `z^(n/m)`, so
`rp m k = z^((n/m)*k) mod p`, computed with the model of `integer_power`. -/
def c19RpMod (p n z : Nat) (m k : Nat) : Nat :=
  integerPower (c19MulMod p) (1 % p) (z % p) (n / m * k)

/-- `fft` over `Z_p` as run by the driver. -/
def c19FftMod (p z : Nat) (x : List Nat) : Option (List Nat) :=
  c19FftPy (c19AddMod p) (c19MulMod p) 0 (c19RpMod p x.length z) (x.map (· % p))

/-- `ifft` over `Z_p` as run by the driver (`zinv = z⁻¹`, `ninv = n⁻¹` in `Z_p`). -/
def c19IfftMod (p zinv ninv : Nat) (x : List Nat) : Option (List Nat) :=
  c19IfftPy (c19AddMod p) (c19MulMod p) 0 (c19RpMod p x.length zinv) (ninv % p) (x.map (· % p))

end PV.Algo
