import PV.Model.AlgoFft
/-
  C19 (T-gen).  The BODIES of the exact-arithmetic helpers as plain DATA — regenerated from the live
  source of the tree under test by extract/algorithm.py into lean/PV/Generated/Algo.lean — and the
  reading of that data: a small imperative language (a fragment of Python) with an interpreter.

    * `C19E` / `C19S`        expressions and statements: names, integer / None / bool constants,
                             arithmetic and comparison operators, `and` / `or` / `not`, tuple
                             displays, indexing, slices `a[lo::step]`, attributes, calls of builtins
                             and of table functions, method calls, constructor calls, one-`for`
                             comprehensions, the twiddle factor `exp(sign*-2j*pi*NUM/DEN)`,
                             `traits.common_traits(…)`;
                             assignment (to names, tuples of names, `x[i]`, `x.a`), augmented
                             assignment, `append` / `pop` / `sort(key=first component)`, `if`,
                             `while`, `for`, `return`, `raise`, `try … except K`, `assert`, `pass`
    * `C19V`                 values: None, bool, int, a float idealised as an exact fraction (the
                             result of `int / int`), an element of an abstract carrier `α` (monoid /
                             ring elements, transform samples), an opaque named object, tuples /
                             lists, numpy vectors, objects with attributes
    * `c19EvalE`, `c19Exec`  what an expression / statement does on a store, for any carrier
                             operations `C19Ops α`, any table and any callee oracle `calls`
    * `c19RunFn`             a call of a table function: parameters bound, body run, loops and
                             nested calls bounded by a fuel (names not in the table go to `ext`)

  Nothing here knows the current source: every statement comes from the table argument.
  PV/Proofs/AlgoTable*.lean prove that for the regenerated table these readings ARE the hand-written
  model functions of PV/Model/Algo.lean and AlgoFft.lean (`integerPowerLoop`, `extEuclid`,
  `findFactors`, `sortUniq`, `add`, `mulRaw`, `divmodLoop`, `hornerLoopPy`, `c19FftStep`, …) for
  ALL inputs.

  Idealisations (stated here once; they are the meaning the table language gives):
    * `x op= e` is read as `x = x op e` (true for the immutable operands in scope: ints, tuples,
      `Polynomial` objects, which define no in-place operators);
    * lists local to a function are values (`append`, `pop`, `x[i] = v`, `sort` rebind the name);
    * `int / int` is the exact fraction, `int(sqrt(n))` the exact integer square root;
    * `custom_np.exp(sign*-2j*pi*NUM/DEN)` is `ops.tw sign DEN NUM` (the `NUM`-th power of the root
      of unity for length `DEN`); numpy `*` / `+` are elementwise on vectors of equal length and
      broadcast scalars.

  Core Lean only: no imports outside PV.
-/
namespace PV.Algo

/-! ## syntax -/

inductive C19Bin where
  | add | sub | mul | floordiv | mod | truediv | pow | bitand
  deriving Repr, DecidableEq, Inhabited

inductive C19Cmp where
  | lt | gt | le | ge | eq | ne | is | isNot
  deriving Repr, DecidableEq, Inhabited

/-- binding patterns: `x`, `(p, q, …)` -/
inductive C19P where
  | name (x : String)
  | tuple (ps : List C19P)
  deriving Repr, Inhabited

inductive C19E where
  | var (x : String)
  | int (i : Int)
  | none
  | bool (b : Bool)
  | bin (op : C19Bin) (a b : C19E)
  | neg (a : C19E)
  | not (a : C19E)
  | cmp (op : C19Cmp) (a b : C19E)
  | and (a b : C19E)
  | or (a b : C19E)
  /-- tuple or list display -/
  | tuple (es : List C19E)
  | index (a i : C19E)
  /-- `a[lo::step]`; an absent bound is `.none` -/
  | slice (a lo step : C19E)
  | attr (a : C19E) (name : String)
  /-- `isinstance(a, (C₁, …))` -/
  | isinst (a : C19E) (classes : List String)
  /-- `isinstance(a, b.__class__)` -/
  | isinstOf (a b : C19E)
  /-- a builtin or a function of the table, by qualified name, all parameters positional -/
  | call (fn : String) (args : List C19E)
  | method (recv : C19E) (name : String) (args : List C19E)
  /-- `Cls(args)` -/
  | new (cls : String) (args : List C19E)
  /-- `[elt for tgt in iter]` / `(elt for tgt in iter)` -/
  | comp (elt : C19E) (tgt : C19P) (iter : C19E)
  /-- `custom_np.exp(sign * -2j * pi * num₁ * … / den)` -/
  | twiddle (sign : C19E) (num : List C19E) (den : C19E)
  /-- `traits.common_traits(a₁, …)`: the traits of the arguments reduced with the rule chain
  `commonTraits` of the table -/
  | commonTraits (args : List C19E)
  deriving Repr, Inhabited

/-- assignment targets -/
inductive C19T where
  | pat (p : C19P)
  /-- `x[i] = …` -/
  | index (x : String) (i : C19E)
  /-- `x.a = …` -/
  | attr (x : String) (a : String)
  deriving Repr, Inhabited

inductive C19S where
  | assign (t : C19T) (e : C19E)
  /-- `x op= e` -/
  | aug (x : String) (op : C19Bin) (e : C19E)
  /-- `x.append(e)` -/
  | append (x : String) (e : C19E)
  /-- `x.pop()` as a statement -/
  | pop (x : String)
  /-- `x.sort(key=k)` where `k` returns the first component of a pair -/
  | sortByFirst (x : String)
  | ite (c : C19E) (thn els : List C19S)
  | while (c : C19E) (body : List C19S)
  | for (p : C19P) (iter : C19E) (body : List C19S)
  | ret (e : C19E)
  | raise (kind : String)
  /-- `try: body except kind: handler` -/
  | tryExcept (body : List C19S) (kind : String) (handler : List C19S)
  | assert (c : C19E)
  | pass
  deriving Repr, Inhabited

inductive C19Kind where
  /-- module-level function -/
  | func
  /-- instance method: the receiver is the first argument -/
  | method
  | static
  /-- `__init__`: returns the object it filled -/
  | init
  /-- `name = property(getter)`: read by attribute access -/
  | prop
  deriving Repr, DecidableEq, Inhabited

structure C19Fn where
  /-- qualified name: `algorithm.integer_power`, `Polynomial.__add__` -/
  name : String
  kind : C19Kind
  params : List String
  /-- the default values (constants) of the last `defaults.length` parameters -/
  defaults : List C19E
  body : List C19S
  deriving Repr, Inhabited

structure C19Class where
  name : String
  /-- `cls.__mro__` by name, own class first, without `object` -/
  mro : List String
  deriving Repr, DecidableEq, Inhabited

structure C19Table where
  fns : List C19Fn
  classes : List C19Class
  /-- the if-chain of the two-argument rule function inside `traits.common_traits`, in order:
  `ySubX` (`if isinstance(t_y, t_x.__class__): return t_y`), `xSubY`
  (`if isinstance(t_x, t_y.__class__): return t_x`), `raiseNoCommonTraits` -/
  commonTraits : List String
  deriving Repr, Inhabited

/-! ## values -/

inductive C19V (α : Type) where
  | none
  | bool (b : Bool)
  | int (i : Int)
  /-- a float, idealised as the exact fraction `a / b` -/
  | frac (a b : Int)
  /-- an element of the carrier -/
  | elem (a : α)
  /-- an opaque object compared by name (a variable used as polynomial base, …) -/
  | sym (s : String)
  /-- tuple / list -/
  | tup (vs : List (C19V α))
  /-- numpy 1-d array -/
  | vec (vs : List (C19V α))
  | obj (cls : String) (keys : List String) (vals : List (C19V α))
  deriving Inhabited

/-- result of an evaluation -/
inductive C19R (β : Type) where
  | ok (v : β)
  /-- a Python exception of that class -/
  | raise (kind : String)
  | fuel
  /-- outside the language (type error, unbound name, unmodelled operation) -/
  | stuck (why : String)
  deriving Inhabited

def C19R.bind {β γ : Type} : C19R β → (β → C19R γ) → C19R γ
  | .ok v, f => f v
  | .raise k, _ => .raise k
  | .fuel, _ => .fuel
  | .stuck w, _ => .stuck w

/-- the operations of the carrier -/
structure C19Ops (α : Type) where
  add : α → α → α
  mul : α → α → α
  /-- a Python int meeting a carrier element in `+` / `*` -/
  ofInt : Int → α
  /-- a float `a / b` meeting a carrier element -/
  ofFrac : Int → Int → α
  /-- `exp(sign * -2j*pi * k / m)` -/
  tw : Int → Int → Int → α

abbrev C19Store (α : Type) := List (String × C19V α)

def c19Get {α : Type} (x : String) : C19Store α → Option (C19V α)
  | [] => Option.none
  | (y, v) :: r => if x = y then some v else c19Get x r

/-- rebind `x` in place, or append it -/
def c19Set {α : Type} (x : String) (v : C19V α) : C19Store α → C19Store α
  | [] => [(x, v)]
  | (y, w) :: r => if x = y then (y, v) :: r else (y, w) :: c19Set x v r

/-- outcome of a statement -/
inductive C19O (α : Type) where
  | next (σ : C19Store α)
  | ret (v : C19V α)
  | raise (kind : String)
  | fuel
  | stuck (why : String)
  deriving Inhabited

/-- sequencing: continue with `f` after normal completion -/
def C19O.andThen {α : Type} : C19O α → (C19Store α → C19O α) → C19O α
  | .next σ, f => f σ
  | .ret v, _ => .ret v
  | .raise k, _ => .raise k
  | .fuel, _ => .fuel
  | .stuck w, _ => .stuck w

def C19O.ofR {α β : Type} : C19R β → (β → C19O α) → C19O α
  | .ok v, f => f v
  | .raise k, _ => .raise k
  | .fuel, _ => .fuel
  | .stuck w, _ => .stuck w

/-! ## scalar and vector arithmetic (no objects) -/

/-- arithmetic on two non-container values -/
def c19Scalar {α : Type} (ops : C19Ops α) : C19Bin → C19V α → C19V α → C19R (C19V α)
  | .add, .int a, .int b => .ok (.int (a + b))
  | .sub, .int a, .int b => .ok (.int (a - b))
  | .mul, .int a, .int b => .ok (.int (a * b))
  | .floordiv, .int a, .int b =>
      if b = 0 then .raise "ZeroDivisionError" else .ok (.int (Int.fdiv a b))
  | .mod, .int a, .int b =>
      if b = 0 then .raise "ZeroDivisionError" else .ok (.int (Int.fmod a b))
  | .truediv, .int a, .int b =>
      if b = 0 then .raise "ZeroDivisionError" else .ok (.frac a b)
  | .pow, .int a, .int b =>
      if b < 0 then .stuck "int ** negative leaves the integers" else .ok (.int (a ^ b.toNat))
  | .bitand, .int a, .int b =>
      if 0 ≤ a ∧ 0 ≤ b then .ok (.int ((a.toNat &&& b.toNat : Nat) : Int))
      else .stuck "& on a negative integer"
  | .add, .elem a, .elem b => .ok (.elem (ops.add a b))
  | .mul, .elem a, .elem b => .ok (.elem (ops.mul a b))
  | .add, .int a, .elem b => .ok (.elem (ops.add (ops.ofInt a) b))
  | .add, .elem a, .int b => .ok (.elem (ops.add a (ops.ofInt b)))
  | .mul, .int a, .elem b => .ok (.elem (ops.mul (ops.ofInt a) b))
  | .mul, .elem a, .int b => .ok (.elem (ops.mul a (ops.ofInt b)))
  | .mul, .frac a b, .elem c => .ok (.elem (ops.mul (ops.ofFrac a b) c))
  | .mul, .elem c, .frac a b => .ok (.elem (ops.mul c (ops.ofFrac a b)))
  /- `float / float` (`EvaluationMapper.map_quotient` on a `Rational` built under Python 3) -/
  | .truediv, .frac a b, .frac c d =>
      if c = 0 then .raise "ZeroDivisionError" else .ok (.frac (a * d) (b * c))
  /- `float ** int` (the fields of a `Rational` are floats under Python 3): `(a/b)**k` -/
  | .pow, .frac a b, .int k =>
      if 0 ≤ k then .ok (.frac (a ^ k.toNat) (b ^ k.toNat))
      else if a = 0 then .raise "ZeroDivisionError"
      else .ok (.frac (b ^ (-k).toNat) (a ^ (-k).toNat))
  | _, _, _ => .stuck "operands outside the arithmetic of the language"

def c19ZipM {α : Type} (f : C19V α → C19V α → C19R (C19V α)) :
    List (C19V α) → List (C19V α) → C19R (List (C19V α))
  | a :: as, b :: bs => (f a b).bind fun c => (c19ZipM f as bs).bind fun cs => .ok (c :: cs)
  | _, _ => .ok []

def c19MapM {α β : Type} (f : β → C19R (C19V α)) : List β → C19R (List (C19V α))
  | [] => .ok []
  | a :: as => (f a).bind fun c => (c19MapM f as).bind fun cs => .ok (c :: cs)

/-- arithmetic including numpy vectors (elementwise; scalars broadcast) -/
def c19Arith {α : Type} (ops : C19Ops α) (op : C19Bin) : C19V α → C19V α → C19R (C19V α)
  | .vec as, .vec bs => (c19ZipM (c19Scalar ops op) as bs).bind fun cs => .ok (.vec cs)
  | .vec as, b => (c19MapM (fun a => c19Scalar ops op a b) as).bind fun cs => .ok (.vec cs)
  | a, .vec bs => (c19MapM (fun b => c19Scalar ops op a b) bs).bind fun cs => .ok (.vec cs)
  | a, b => c19Scalar ops op a b

/-- Python `==` on the values the language compares (scalars and names) -/
def c19PyEq {α : Type} : C19V α → C19V α → Option Bool
  | .none, .none => some true
  | .int a, .int b => some (a == b)
  | .bool a, .bool b => some (a == b)
  | .sym a, .sym b => some (a == b)
  | .none, .int _ => some false
  | .int _, .none => some false
  | .none, .sym _ => some false
  | .sym _, .none => some false
  | .int _, .sym _ => some false
  | .sym _, .int _ => some false
  | _, _ => Option.none

def c19Cmp {α : Type} : C19Cmp → C19V α → C19V α → C19R (C19V α)
  | .lt, .int a, .int b => .ok (.bool (a < b))
  | .gt, .int a, .int b => .ok (.bool (a > b))
  | .le, .int a, .int b => .ok (.bool (a ≤ b))
  | .ge, .int a, .int b => .ok (.bool (a ≥ b))
  | .eq, a, b => match c19PyEq a b with
      | some r => .ok (.bool r) | Option.none => .stuck "== outside the language"
  | .ne, a, b => match c19PyEq a b with
      | some r => .ok (.bool (!r)) | Option.none => .stuck "!= outside the language"
  | .is, .none, .none => .ok (.bool true)
  | .is, .none, _ => .ok (.bool false)
  | .is, _, .none => .ok (.bool false)
  | .is, .sym a, .sym b => .ok (.bool (a == b))
  | .isNot, .none, .none => .ok (.bool false)
  | .isNot, .none, _ => .ok (.bool true)
  | .isNot, _, .none => .ok (.bool true)
  | .isNot, .sym a, .sym b => .ok (.bool (a != b))
  | _, _, _ => .stuck "comparison outside the language"

/-- truth value of a value that defines it without a method call -/
def c19Truthy {α : Type} : C19V α → C19R Bool
  | .none => .ok false
  | .bool b => .ok b
  | .int i => .ok (i != 0)
  | .frac a _ => .ok (a != 0)
  | .tup vs => .ok (!vs.isEmpty)
  | .sym _ => .ok true
  | .obj _ _ _ => .ok true
  | _ => .stuck "truth value outside the language"

/-- Python index normalisation: negative indices count from the end -/
def c19NormIndex (len : Nat) (i : Int) : Option Nat :=
  if 0 ≤ i then (if i.toNat < len then some i.toNat else Option.none)
  else if (-i).toNat ≤ len then some (len - (-i).toNat) else Option.none

def c19Index {α : Type} (vs : List (C19V α)) (i : Int) : C19R (C19V α) :=
  match c19NormIndex vs.length i with
  | some k => match vs[k]? with
    | some v => .ok v
    | Option.none => .raise "IndexError"
  | Option.none => .raise "IndexError"

def c19ItemsOf {α : Type} : C19V α → C19R (List (C19V α))
  | .tup vs => .ok vs
  | .vec vs => .ok vs
  | _ => .stuck "not iterable in the language"

/-- `a[lo::step]` for `step ≥ 1`, `a[::-1]` -/
def c19Slice {α : Type} (vs : List (C19V α)) : C19V α → C19V α → C19R (List (C19V α))
  | .none, .int (-1) => .ok vs.reverse
  | .int lo, .int st =>
      if 0 ≤ lo ∧ 1 ≤ st then .ok (stride vs lo.toNat st.toNat) else .stuck "slice bounds"
  | .none, .int st => if 1 ≤ st then .ok (stride vs 0 st.toNat) else .stuck "slice bounds"
  | _, _ => .stuck "slice bounds"

def c19AttrGet {α : Type} (name : String) : List String → List (C19V α) → Option (C19V α)
  | k :: ks, v :: vs => if name = k then some v else c19AttrGet name ks vs
  | _, _ => Option.none

def c19AttrSet {α : Type} (name : String) (v : C19V α) :
    List String → List (C19V α) → List String × List (C19V α)
  | k :: ks, w :: ws =>
      if name = k then (k :: ks, v :: ws)
      else let r := c19AttrSet name v ks ws; (k :: r.1, w :: r.2)
  | _, _ => ([name], [v])

/-- the class names a value is an instance of (own class first) -/
def c19ClassesOf {α : Type} (tbl : C19Table) : C19V α → List String
  | .none => ["NoneType"]
  | .bool _ => ["bool", "int"]
  | .int _ => ["int"]
  | .frac _ _ => ["float"]
  | .elem _ => ["<carrier>"]
  | .sym _ => ["<object>"]
  | .tup _ => ["tuple"]
  | .vec _ => ["ndarray"]
  | .obj c _ _ => match tbl.classes.find? (fun k => k.name = c) with
      | some k => k.mro
      | Option.none => [c]

def c19FindFn (tbl : C19Table) (name : String) : Option C19Fn :=
  tbl.fns.find? (fun f => f.name = name)

/-- Python attribute resolution along the MRO, among the functions of the table -/
def c19ResolveIn (tbl : C19Table) (attr : String) : List String → Option C19Fn
  | [] => Option.none
  | c :: cs => match c19FindFn tbl (c ++ "." ++ attr) with
    | some f => some f
    | Option.none => c19ResolveIn tbl attr cs

def c19Dunder : C19Bin → String
  | .add => "__add__" | .sub => "__sub__" | .mul => "__mul__" | .floordiv => "__floordiv__"
  | .mod => "__mod__" | .truediv => "__truediv__" | .pow => "__pow__" | .bitand => "__and__"

/-- `range(a, b)` -/
def c19Range {α : Type} (a b : Int) : List (C19V α) :=
  (List.range (b - a).toNat).map fun (k : Nat) => .int (a + (k : Int))

def c19Enumerate {α : Type} (vs : List (C19V α)) : List (C19V α) :=
  vs.zipIdx.map fun (p : C19V α × Nat) => .tup [.int p.2, p.1]

def c19Zip {α : Type} : List (C19V α) → List (C19V α) → List (C19V α)
  | a :: as, b :: bs => .tup [a, b] :: c19Zip as bs
  | _, _ => []

def c19AllTruthy {α : Type} : List (C19V α) → C19R Bool
  | [] => .ok true
  | v :: vs => (c19Truthy v).bind fun b => if b then c19AllTruthy vs else .ok false

def c19AnyTruthy {α : Type} : List (C19V α) → C19R Bool
  | [] => .ok false
  | v :: vs => (c19Truthy v).bind fun b => if b then .ok true else c19AnyTruthy vs

/-- `sum(items)`: `((0 + t₀) + t₁) + …` -/
def c19SumFrom {α : Type} (ops : C19Ops α) : C19V α → List (C19V α) → C19R (C19V α)
  | acc, [] => .ok acc
  | acc, t :: ts => (c19Arith ops .add acc t).bind fun acc' => c19SumFrom ops acc' ts

def c19Concat {α : Type} : List (C19V α) → C19R (List (C19V α))
  | [] => .ok []
  | .vec vs :: r => (c19Concat r).bind fun ws => .ok (vs ++ ws)
  | _ :: _ => .stuck "concatenate of a non-vector"

/-- the builtins of the language; `none`: not a builtin (a function of the table) -/
def c19Builtin {α : Type} (ops : C19Ops α) : String → List (C19V α) → Option (C19R (C19V α))
  | "len", [v] => some ((c19ItemsOf v).bind fun vs => .ok (.int vs.length))
  | "abs", [.int i] => some (.ok (.int (i.natAbs : Int)))
  | "int", [.int i] => some (.ok (.int i))
  | "bool", [v] => some ((c19Truthy v).bind fun b => .ok (.bool b))
  | "tuple", [v] => some ((c19ItemsOf v).bind fun vs => .ok (.tup vs))
  | "range", [.int b] => some (.ok (.tup (c19Range 0 b)))
  | "range", [.int a, .int b] => some (.ok (.tup (c19Range a b)))
  | "enumerate", [v] => some ((c19ItemsOf v).bind fun vs => .ok (.tup (c19Enumerate vs)))
  | "zip", [a, b] => some ((c19ItemsOf a).bind fun as => (c19ItemsOf b).bind fun bs =>
      .ok (.tup (c19Zip as bs)))
  | "all", [v] => some ((c19ItemsOf v).bind fun vs => (c19AllTruthy vs).bind fun b => .ok (.bool b))
  | "any", [v] => some ((c19ItemsOf v).bind fun vs => (c19AnyTruthy vs).bind fun b => .ok (.bool b))
  | "sum", [v] => some ((c19ItemsOf v).bind fun vs => c19SumFrom ops (.int 0) vs)
  | "divmod", [.int a, .int b] => some (
      if b = 0 then .raise "ZeroDivisionError"
      else .ok (.tup [.int (Int.fdiv a b), .int (Int.fmod a b)]))
  | "isqrt", [.int n] => some (
      if n < 0 then .raise "ValueError" else .ok (.int (Nat.sqrt n.toNat : Nat)))
  | "np.arange", [.int b] => some (.ok (.tup (c19Range 0 b)))
  | "np.concatenate", [v] => some ((c19ItemsOf v).bind fun vs =>
      (c19Concat vs).bind fun ws => .ok (.vec ws))
  | _, _ => Option.none

/-- product of the integer factors of a twiddle exponent, with at most one index vector -/
def c19TwNum {α : Type} :
    List (C19V α) → C19R (Int × Option (List (C19V α)))
  | [] => .ok (1, Option.none)
  | .int i :: r => (c19TwNum r).bind fun p => .ok (i * p.1, p.2)
  | .tup ks :: r => (c19TwNum r).bind fun p =>
      match p.2 with
      | Option.none => .ok (p.1, some ks)
      | some _ => .stuck "two index vectors in one twiddle"
  | _ :: _ => .stuck "twiddle exponent factor is not an integer"

def c19TwVec {α : Type} (ops : C19Ops α) (s m c : Int) : List (C19V α) → C19R (List (C19V α))
  | [] => .ok []
  | .int k :: r => (c19TwVec ops s m c r).bind fun ws => .ok (.elem (ops.tw s m (c * k)) :: ws)
  | _ :: _ => .stuck "index vector of a twiddle is not made of integers"

/-! ## binding -/

mutual
def c19Bind {α : Type} : C19P → C19V α → C19Store α → Option (C19Store α)
  | .name x, v, σ => some (c19Set x v σ)
  | .tuple ps, .tup vs, σ => c19BindL ps vs σ
  | .tuple _, _, _ => Option.none
def c19BindL {α : Type} : List C19P → List (C19V α) → C19Store α → Option (C19Store α)
  | [], [], σ => some σ
  | p :: ps, v :: vs, σ => match c19Bind p v σ with
    | some σ' => c19BindL ps vs σ'
    | Option.none => Option.none
  | _, _, _ => Option.none
end

def c19BindParams {α : Type} : List String → List (C19V α) → Option (C19Store α)
  | [], [] => some []
  | x :: xs, v :: vs => (c19BindParams xs vs).map fun σ => (x, v) :: σ
  | _, _ => Option.none

/-! ## expressions -/

/-- what an evaluation may use from its surroundings -/
structure C19Cx (α : Type) where
  ops : C19Ops α
  tbl : C19Table
  /-- a call of a function (of the table or external), by qualified name -/
  calls : String → List (C19V α) → C19R (C19V α)
  /-- iteration budget of every `while` loop -/
  fuel : Nat

/-- a call by name: builtin first, else the callee oracle -/
def c19Call {α : Type} (cx : C19Cx α) (fn : String) (vs : List (C19V α)) : C19R (C19V α) :=
  match c19Builtin cx.ops fn vs with
  | some r => r
  | Option.none => cx.calls fn vs

/-- the value of a constant default -/
def c19ConstV {α : Type} : C19E → Option (C19V α)
  | .int i => some (.int i)
  | .none => some .none
  | .bool b => some (.bool b)
  | _ => Option.none

def c19ConstVs {α : Type} : List C19E → Option (List (C19V α))
  | [] => some []
  | e :: es => match c19ConstV e, c19ConstVs es with
    | some v, some vs => some (v :: vs)
    | _, _ => Option.none

/-- missing trailing arguments filled in from the defaults (`nparams` counts the parameters the
arguments `vs` stand for) -/
def c19FillDefaults {α : Type} (nparams : Nat) (defaults : List C19E) (vs : List (C19V α)) :
    Option (List (C19V α)) :=
  if vs.length + defaults.length < nparams ∨ nparams < vs.length then Option.none
  else match c19ConstVs (defaults.drop (vs.length + defaults.length - nparams)) with
    | some ds => some (vs ++ ds)
    | Option.none => Option.none

def c19New {α : Type} (cx : C19Cx α) (cls : String) (vs : List (C19V α)) : C19R (C19V α) :=
  match c19ResolveIn cx.tbl "__init__" (c19ClassesOf cx.tbl (.obj cls [] [] : C19V α)) with
  | some f => match c19FillDefaults (f.params.length - 1) f.defaults vs with
    | some ws => cx.calls f.name (.obj cls [] [] :: ws)
    | Option.none => .raise "TypeError"
  | Option.none => match vs with
    | [] => .ok (.obj cls [] [])
    | _ => .stuck "constructor arguments without an __init__ in the table"

/-- a method call on a value: resolved along the MRO of its class; functions the table does not
have (`self.rec`, …) go to the oracle under `Class.name` of the receiver's own class -/
def c19Method {α : Type} (cx : C19Cx α) (recv : C19V α) (name : String) (vs : List (C19V α)) :
    C19R (C19V α) :=
  match recv with
  | .obj c _ _ =>
    if name = "__class__" then c19New cx c vs else
    match c19ResolveIn cx.tbl name (c19ClassesOf cx.tbl recv) with
    | some f => if f.kind = .static then cx.calls f.name vs else cx.calls f.name (recv :: vs)
    | Option.none => cx.calls (c ++ "." ++ name) (recv :: vs)
  | _ => .raise "AttributeError"

/-- binary operator: objects dispatch to their dunder method, everything else is arithmetic -/
def c19BinOp {α : Type} (cx : C19Cx α) (op : C19Bin) (a b : C19V α) : C19R (C19V α) :=
  match a with
  | .obj _ _ _ => c19Method cx a (c19Dunder op) [b]
  | _ => c19Arith cx.ops op a b

def c19Neg {α : Type} (cx : C19Cx α) : C19V α → C19R (C19V α)
  | .int i => .ok (.int (-i))
  | .frac a b => .ok (.frac (-a) b)
  | .obj c k v => c19Method cx (.obj c k v) "__neg__" []
  | _ => .stuck "unary minus outside the language"

def c19Attr {α : Type} (cx : C19Cx α) (v : C19V α) (name : String) : C19R (C19V α) :=
  match v with
  | .obj c ks vs =>
    match c19AttrGet name ks vs with
    | some w => .ok w
    | Option.none =>
      match c19ResolveIn cx.tbl name (c19ClassesOf cx.tbl v) with
      | some f => if f.kind = .prop then cx.calls f.name [v] else .stuck "bound method as a value"
      | Option.none => cx.calls (c ++ "." ++ name) [v]
  | _ => .raise "AttributeError"

def c19IsInst {α : Type} (cx : C19Cx α) (v : C19V α) (classes : List String) : Bool :=
  (c19ClassesOf cx.tbl v).any fun c => classes.contains c

/-- `common_traits_two(t_x, t_y)`: the rule chain of the table -/
def c19TraitsTwo {α : Type} (cx : C19Cx α) : List String → C19V α → C19V α → C19R (C19V α)
  | [], _, _ => .stuck "common_traits: the rule chain does not end"
  | rule :: rest, tx, ty =>
    if rule = "ySubX" then
      (if c19IsInst cx ty ((c19ClassesOf cx.tbl tx).take 1) then .ok ty
       else c19TraitsTwo cx rest tx ty)
    else if rule = "xSubY" then
      (if c19IsInst cx tx ((c19ClassesOf cx.tbl ty).take 1) then .ok tx
       else c19TraitsTwo cx rest tx ty)
    else if rule = "raiseNoCommonTraits" then .raise "NoCommonTraitsError"
    else .stuck "common_traits: unknown rule"

/-- `functools.reduce(common_traits_two, …)` from the left -/
def c19TraitsFold {α : Type} (cx : C19Cx α) : C19V α → List (C19V α) → C19R (C19V α)
  | acc, [] => .ok acc
  | acc, t :: r => (c19TraitsTwo cx cx.tbl.commonTraits acc t).bind fun acc' => c19TraitsFold cx acc' r

/-- `common_traits(*args)`: `reduce(common_traits_two, (traits(arg) for arg in args))` -/
def c19CommonTraits {α : Type} (cx : C19Cx α) (vs : List (C19V α)) : C19R (C19V α) :=
  (c19MapM (fun v => cx.calls "traits.traits" [v]) vs).bind fun ts =>
    match ts with
    | [] => .raise "TypeError"
    | t :: r => c19TraitsFold cx t r

/-- truth value of a value; objects may define `__bool__` in the table -/
def c19TruthyM {α : Type} (cx : C19Cx α) (v : C19V α) : C19R Bool :=
  match v with
  | .obj _ _ _ =>
    match c19ResolveIn cx.tbl "__bool__" (c19ClassesOf cx.tbl v) with
    | some f => (cx.calls f.name [v]).bind c19Truthy
    | Option.none => .ok true
  | _ => c19Truthy v

mutual
def c19EvalE {α : Type} (cx : C19Cx α) : C19E → C19Store α → C19R (C19V α)
  | .var x, σ => match c19Get x σ with
    | some v => .ok v
    | Option.none => .stuck ("unbound name " ++ x)
  | .int i, _ => .ok (.int i)
  | .none, _ => .ok .none
  | .bool b, _ => .ok (.bool b)
  | .bin op a b, σ =>
    (c19EvalE cx a σ).bind fun va => (c19EvalE cx b σ).bind fun vb => c19BinOp cx op va vb
  | .neg a, σ => (c19EvalE cx a σ).bind fun va => c19Neg cx va
  | .not a, σ => (c19EvalE cx a σ).bind fun va => (c19TruthyM cx va).bind fun t => .ok (.bool (!t))
  | .cmp op a b, σ =>
    (c19EvalE cx a σ).bind fun va => (c19EvalE cx b σ).bind fun vb => c19Cmp op va vb
  | .and a b, σ =>
    (c19EvalE cx a σ).bind fun va => (c19TruthyM cx va).bind fun t =>
      if t then c19EvalE cx b σ else .ok va
  | .or a b, σ =>
    (c19EvalE cx a σ).bind fun va => (c19TruthyM cx va).bind fun t =>
      if t then .ok va else c19EvalE cx b σ
  | .tuple es, σ => (c19EvalEs cx es σ).bind fun vs => .ok (.tup vs)
  | .index a i, σ =>
    (c19EvalE cx a σ).bind fun va => (c19EvalE cx i σ).bind fun vi =>
      match vi with
      | .int k => (c19ItemsOf va).bind fun vs => c19Index vs k
      | _ => .stuck "index is not an integer"
  | .slice a lo st, σ =>
    (c19EvalE cx a σ).bind fun va => (c19EvalE cx lo σ).bind fun vlo =>
      (c19EvalE cx st σ).bind fun vst =>
        match va with
        | .tup vs => (c19Slice vs vlo vst).bind fun ws => .ok (.tup ws)
        | .vec vs => (c19Slice vs vlo vst).bind fun ws => .ok (.vec ws)
        | _ => .stuck "slice of a non-sequence"
  | .attr a name, σ => (c19EvalE cx a σ).bind fun va => c19Attr cx va name
  | .isinst a classes, σ => (c19EvalE cx a σ).bind fun va => .ok (.bool (c19IsInst cx va classes))
  | .isinstOf a b, σ =>
    (c19EvalE cx a σ).bind fun va => (c19EvalE cx b σ).bind fun vb =>
      .ok (.bool (c19IsInst cx va ((c19ClassesOf cx.tbl vb).take 1)))
  | .call fn args, σ => (c19EvalEs cx args σ).bind fun vs => c19Call cx fn vs
  | .method recv name args, σ =>
    (c19EvalE cx recv σ).bind fun vr => (c19EvalEs cx args σ).bind fun vs =>
      c19Method cx vr name vs
  | .new cls args, σ => (c19EvalEs cx args σ).bind fun vs => c19New cx cls vs
  | .comp elt tgt iter, σ =>
    (c19EvalE cx iter σ).bind fun vi => (c19ItemsOf vi).bind fun items =>
      (c19MapM (fun item => match c19Bind tgt item σ with
        | some σ' => c19EvalE cx elt σ'
        | Option.none => .stuck "comprehension target does not match") items).bind fun vs =>
        .ok (.tup vs)
  | .twiddle sign num den, σ =>
    (c19EvalE cx sign σ).bind fun vs => (c19EvalE cx den σ).bind fun vd =>
      (c19EvalEs cx num σ).bind fun vn =>
        match vs, vd with
        | .int s, .int m => (c19TwNum vn).bind fun p =>
            match p.2 with
            | Option.none => .ok (.elem (cx.ops.tw s m p.1))
            | some ks => (c19TwVec cx.ops s m p.1 ks).bind fun ws => .ok (.vec ws)
        | _, _ => .stuck "twiddle sign / length is not an integer"
  | .commonTraits args, σ => (c19EvalEs cx args σ).bind fun vs => c19CommonTraits cx vs
def c19EvalEs {α : Type} (cx : C19Cx α) : List C19E → C19Store α → C19R (List (C19V α))
  | [], _ => .ok []
  | e :: es, σ => (c19EvalE cx e σ).bind fun v => (c19EvalEs cx es σ).bind fun vs => .ok (v :: vs)
end

/-! ## statements -/

def c19Test {α : Type} (cx : C19Cx α) (c : C19E) (σ : C19Store α) : C19R Bool :=
  (c19EvalE cx c σ).bind (c19TruthyM cx)

def c19While {α : Type} (test : C19Store α → C19R Bool) (body : C19Store α → C19O α) :
    Nat → C19Store α → C19O α
  | 0, _ => .fuel
  | k + 1, σ => C19O.ofR (test σ) fun t =>
      if t then (body σ).andThen (c19While test body k) else .next σ

def c19For {α : Type} (bind : C19V α → C19Store α → Option (C19Store α))
    (body : C19Store α → C19O α) : List (C19V α) → C19Store α → C19O α
  | [], σ => .next σ
  | v :: vs, σ => match bind v σ with
    | Option.none => .stuck "loop target does not match"
    | some σ' => (body σ').andThen (c19For bind body vs)

/-- stable insertion sort by the integer first component of each pair (`list.sort(key=…)`);
`none` when an item is not a pair with an integer first component -/
def c19KeyOf {α : Type} : C19V α → Option Int
  | .tup (.int k :: _ :: []) => some k
  | _ => Option.none

def c19InsertByKey {α : Type} (k : Int) (t : C19V α) : List (Int × C19V α) → List (Int × C19V α)
  | [] => [(k, t)]
  | u :: us => if k ≤ u.1 then (k, t) :: u :: us else u :: c19InsertByKey k t us

def c19SortByKey {α : Type} : List (C19V α) → Option (List (Int × C19V α))
  | [] => some []
  | t :: ts => match c19KeyOf t, c19SortByKey ts with
    | some k, some r => some (c19InsertByKey k t r)
    | _, _ => Option.none

def c19AssignT {α : Type} (cx : C19Cx α) (t : C19T) (v : C19V α) (σ : C19Store α) : C19O α :=
  match t with
  | .pat p => match c19Bind p v σ with
    | some σ' => .next σ'
    | Option.none => .stuck "assignment target does not match"
  | .index x i => C19O.ofR (c19EvalE cx i σ) fun vi =>
      match c19Get x σ, vi with
      | some (.tup vs), .int k =>
        match c19NormIndex vs.length k with
        | some j => .next (c19Set x (.tup (vs.set j v)) σ)
        | Option.none => .raise "IndexError"
      | _, _ => .stuck "item assignment outside the language"
  | .attr x a => match c19Get x σ with
    | some (.obj c ks ws) =>
      let r := c19AttrSet a v ks ws
      .next (c19Set x (.obj c r.1 r.2) σ)
    | _ => .stuck "attribute assignment outside the language"

mutual
def c19Exec {α : Type} (cx : C19Cx α) : C19S → C19Store α → C19O α
  | .assign t e, σ => C19O.ofR (c19EvalE cx e σ) fun v => c19AssignT cx t v σ
  | .aug x op e, σ => match c19Get x σ with
    | Option.none => .stuck ("unbound name " ++ x)
    | some v => C19O.ofR (c19EvalE cx e σ) fun w =>
        C19O.ofR (c19BinOp cx op v w) fun r => .next (c19Set x r σ)
  | .append x e, σ => C19O.ofR (c19EvalE cx e σ) fun v =>
      match c19Get x σ with
      | some (.tup vs) => .next (c19Set x (.tup (vs ++ [v])) σ)
      | _ => .stuck "append to a non-list"
  | .pop x, σ => match c19Get x σ with
    | some (.tup vs) => if vs.isEmpty then .raise "IndexError" else .next (c19Set x (.tup vs.dropLast) σ)
    | _ => .stuck "pop from a non-list"
  | .sortByFirst x, σ => match c19Get x σ with
    | some (.tup vs) => match c19SortByKey vs with
      | some r => .next (c19Set x (.tup (r.map (·.2))) σ)
      | Option.none => .stuck "sort key outside the language"
    | _ => .stuck "sort of a non-list"
  | .ite c thn els, σ => C19O.ofR (c19Test cx c σ) fun t =>
      if t then c19ExecL cx thn σ else c19ExecL cx els σ
  | .while c body, σ => c19While (c19Test cx c) (c19ExecL cx body) cx.fuel σ
  | .for p iter body, σ => C19O.ofR (c19EvalE cx iter σ) fun vi =>
      C19O.ofR (c19ItemsOf vi) fun items => c19For (c19Bind p) (c19ExecL cx body) items σ
  | .ret e, σ => C19O.ofR (c19EvalE cx e σ) fun v => .ret v
  | .raise kind, _ => .raise kind
  | .tryExcept body kind handler, σ =>
    match c19ExecL cx body σ with
    | .raise k => if k = kind then c19ExecL cx handler σ else .raise k
    | o => o
  | .assert c, σ => C19O.ofR (c19Test cx c σ) fun t => if t then .next σ else .raise "AssertionError"
  | .pass, σ => .next σ
def c19ExecL {α : Type} (cx : C19Cx α) : List C19S → C19Store α → C19O α
  | [], σ => .next σ
  | s :: ss, σ => (c19Exec cx s σ).andThen (c19ExecL cx ss)
end

/-! ## function calls -/

/-- the result of a function body: `return v`, falling off the end (`None`; for `__init__` the
object `self` as the body left it) -/
def c19Finish {α : Type} (kind : C19Kind) : C19O α → C19R (C19V α)
  | .ret v => if kind = .init then .stuck "return inside __init__" else .ok v
  | .next σ => if kind = .init then
      (match c19Get "self" σ with
        | some v => .ok v
        | Option.none => .stuck "__init__ without self")
      else .ok .none
  | .raise k => .raise k
  | .fuel => .fuel
  | .stuck w => .stuck w

/-- a call of the function `name`: a function of the table runs its body (every `while` loop may
take `fuel` iterations, nested calls get `fuel - 1`), any other name goes to `ext` -/
def c19RunFn {α : Type} (ops : C19Ops α) (tbl : C19Table)
    (ext : String → List (C19V α) → C19R (C19V α)) : Nat → String → List (C19V α) → C19R (C19V α)
  | 0, _, _ => .fuel
  | n + 1, name, args =>
    match c19FindFn tbl name with
    | Option.none => ext name args
    | some f =>
      match c19BindParams f.params args with
      | Option.none => .stuck "wrong number of arguments"
      | some σ => c19Finish f.kind (c19ExecL ⟨ops, tbl, c19RunFn ops tbl ext n, n + 1⟩ f.body σ)

end PV.Algo
