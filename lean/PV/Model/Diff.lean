import PV.Model.Ops
/-
  C10.  `pymbolic.mapper.differentiator`: `map_math_functions_by_name`, `DifferentiationMapper`
  and the entry point `differentiate`, as functions on the tree model.

  The derivative TREES are built exactly as the Python code builds them: with the overloaded
  operators (`Ops.bin`, `negE`; constant-constant operations are plain Python arithmetic,
  `constBin`) and the smart constructors `flattenedSum` / `flattenedProduct`; the zero-derivative
  short cuts are decided by Python truthiness (`Expr.truthy`), the comparison with the
  differentiation variable is Python `==` (`Expr.pyEq`).

  Two versions:
    * `diff`   — the rules, pure (the object of the theorems);
    * `diffC`  — the rules with the `_cse_cache_dict` of `CSECachingMapperMixin` threaded through
                 (what one mapper instance computes; this is what the driver runs).
  `PV.C10.diffC_eq_diff` shows that they agree whenever Python `==` identifies no two different
  CSE nodes of the input.
-/
namespace PV

/-- `allowed_nonsmoothness` -/
inductive Smooth where
  | none | continuous | discontinuous
  deriving Repr, DecidableEq, Inhabited

def Smooth.ofName? : String → Option Smooth
  | "none" => some .none | "continuous" => some .continuous
  | "discontinuous" => some .discontinuous | _ => Option.none

inductive DiffErr where
  | valueError        -- non-smooth function / `If` not allowed; invalid foreign object
  | runtimeError      -- "unrecognized function, cannot differentiate"
  | typeError         -- unhashable CSE (contains a list), `tuple - 1`
  | attributeError    -- `log(<int constant>)`: pymbolic.rational.Rational product fails
  | notImplemented    -- abstract handler reached (Lookup, CallWithKwargs, NaN, wildcards, tuples)
  | unsupported       -- UnsupportedExpressionError: no handler for the node type
  | op (e : OpErr)    -- raised by an overloaded operator (`noClaim`: the model abstains)
  deriving Repr, DecidableEq, Inhabited

abbrev DiffR := Except DiffErr Expr

def liftOp : OpR → DiffR
  | .ok e => .ok e
  | .error e => .error (.op e)

/-- Python `a <op> b` on operands that may both be constants -/
def pyBin (o : PyBinOp) (a b : Expr) : OpR :=
  match a, b with
  | .const x, .const y => constBin o x y
  | _, _ => Ops.bin o a b

/-- Python `-a` -/
def pyNeg (a : Expr) : OpR :=
  match a with
  | .const c =>
    match c.toValue? with
    | some (.int n) => pure (.const (.int (-n)))
    | some (.bool b) => pure (.const (.int (if b then -1 else 0)))
    | _ => throw .noClaim
  | _ => if a.isNode then negE a else throw .noClaim

def two : Expr := .const (.int 2)

/-! ### `map_math_functions_by_name` -/

inductive MathFn where
  | sin | cos | tan | log | exp | sinh | cosh | tanh | expm1 | fabs | copysign
  deriving Repr, DecidableEq, Inhabited

def MathFn.ofName? : String → Option MathFn
  | "sin" => some .sin | "cos" => some .cos | "tan" => some .tan | "log" => some .log
  | "exp" => some .exp | "sinh" => some .sinh | "cosh" => some .cosh | "tanh" => some .tanh
  | "expm1" => some .expm1 | "fabs" => some .fabs | "copysign" => some .copysign
  | _ => Option.none

def MathFn.name : MathFn → String
  | .sin => "sin" | .cos => "cos" | .tan => "tan" | .log => "log" | .exp => "exp"
  | .sinh => "sinh" | .cosh => "cosh" | .tanh => "tanh" | .expm1 => "expm1" | .fabs => "fabs"
  | .copysign => "copysign"

/-- `make_f(name)` = `Lookup(Variable("math"), name)` -/
def mathf (fn : MathFn) : Expr := .lookup (.var "math") fn.name

/-- `func == make_f(name)` for one of the names of the table -/
def mathFn? : Expr → Option MathFn
  | .lookup (.var m) n => if m = "math" then MathFn.ofName? n else Option.none
  | _ => Option.none

/-- `make_f(name)(*pars)` -/
def mcall (fn : MathFn) (pars : List Expr) : Expr := .call (mathf fn) pars

/-- `primitives.quotient(1, p)`: `not (p - 1)` → 1; two Python ints → `pymbolic.rational.Rational`
(whose product with the parameter's derivative then raises AttributeError; a zero denominator
raises RuntimeError at once); otherwise `Quotient(1, p)`. -/
def quotientOne (p : Expr) : DiffR :=
  match p with
  | .const (.int n) =>
      if n == 1 then pure one else if n == 0 then throw .runtimeError else throw .attributeError
  | .const (.bool b) => if b then pure one else throw .runtimeError
  | .const (.flt r n d) => if (Const.flt r n d).isOne then pure one else pure (.bin .quot one p)
  | .const (.str _) | .const .none | .tuple _ | .list _ => throw .typeError
  | _ => pure (.bin .quot one p)

/-- the derivative table (`i`, the argument index, is ignored by the code) -/
def funcMap (cfg : Smooth) (f : Expr) (pars : List Expr) : DiffR :=
  match mathFn? f, pars with
  | some .sin, [_] => pure (mcall .cos pars)
  | some .cos, [_] => liftOp (negE (mcall .sin pars))
  | some .tan, [_] => liftOp do
      let sq ← pyBin .pow (mcall .tan pars) two
      pyBin .add sq one
  | some .log, [p] => quotientOne p
  | some .exp, [_] => pure (mcall .exp pars)
  | some .sinh, [_] => pure (mcall .cosh pars)
  | some .cosh, [_] => pure (mcall .sinh pars)
  | some .tanh, [_] => liftOp do
      let sq ← pyBin .pow (mcall .tanh pars) two
      pyBin .sub one sq
  | some .expm1, [_] => pure (mcall .exp pars)
  | some .fabs, [p] =>
      if cfg = .continuous ∨ cfg = .discontinuous then pure (mcall .copysign [one, p])
      else throw .valueError
  | some .copysign, [_, _] =>
      if cfg = .discontinuous then pure zero else throw .valueError
  | _, _ => throw .runtimeError

/-! ### the rules -/

/-- `map_quotient` after the two recursive calls -/
def quotRule (f g df dg : Expr) : OpR :=
  if !df.truthy && !dg.truthy then pure zero
  else if !df.truthy then do          -- -f*dg/g**2
    let nf ← pyNeg f
    let a ← pyBin .mul nf dg
    let g2 ← pyBin .pow g two
    pyBin .truediv a g2
  else if !dg.truthy then             -- self.rec(f)/g
    pyBin .truediv df g
  else do                             -- (df*g-dg*f)/g**2
    let a ← pyBin .mul df g
    let b ← pyBin .mul dg f
    let n ← pyBin .sub a b
    let g2 ← pyBin .pow g two
    pyBin .truediv n g2

/-- `log(f)` with `log = pymbolic.var("log")` -/
def logCall (f : Expr) : Expr := .call (.var "log") [f]

/-- `map_power` after the two recursive calls -/
def powRule (f g df dg : Expr) : OpR :=
  if !df.truthy && !dg.truthy then pure zero
  else if !df.truthy then do          -- log(f) * f**g * dg
    let p ← pyBin .pow f g
    let a ← pyBin .mul (logCall f) p
    pyBin .mul a dg
  else if !dg.truthy then do          -- g * f**(g-1) * df
    let g1 ← pyBin .sub g one
    let p ← pyBin .pow f g1
    let a ← pyBin .mul g p
    pyBin .mul a df
  else do                             -- log(f) * f**g * dg + g * f**(g-1) * df
    let p ← pyBin .pow f g
    let a ← pyBin .mul (logCall f) p
    let l ← pyBin .mul a dg
    let g1 ← pyBin .sub g one
    let p1 ← pyBin .pow f g1
    let b ← pyBin .mul g p1
    let r ← pyBin .mul b df
    pyBin .add l r

/-- `expr == self.variable` on two `Subscript`s: the generated `__eq__` compares the hashes first
when the classes agree, and hashing raises TypeError on a tree that contains a Python list -/
def subscriptEqRaises (l v : Expr) : Bool :=
  match v with
  | .subscript _ _ => l.hasList || v.hasList
  | _ => false

mutual
/-- `flattened_product` computes `item - 1` for every item it reaches; on a str / None / tuple /
list item that raises TypeError, which `flattenedProduct` does not model: the differentiator
model abstains on products with such factors (also through nested products). -/
def prodHasExotic : Expr → Bool
  | .nary .prod cs => prodHasExoticL cs
  | .const c => !(Expr.const c).isValidOperand
  | .tuple _ => true
  | .list _ => true
  | _ => false
def prodHasExoticL : List Expr → Bool
  | [] => false
  | c :: cs => prodHasExotic c || prodHasExoticL cs
end

/-- `map_common_subexpression_uncached` after the recursive call: `result = self.rec(expr.child)`;
`if primitives.is_zero(result): return 0`; otherwise `type(expr)(result, expr.prefix, expr.scope)`.
`is_zero(x)` is `not bool(x)` (`Expr.isZero`): every falsy derivative — the int `0`, `False`, a
float zero, a `Product` with a falsy factor, a `Quotient` with a falsy numerator — becomes the
int literal `0`, which the product and power rules recognise (a wrapper around `0` is truthy).
(`is_zero(None)` raises ValueError; no rule returns `None` as a derivative.) -/
def cseRule (d : Expr) (p : Option String) (s : String) : Expr :=
  if d.isZero then zero else .cse d p s

mutual
/-- `DifferentiationMapper(v, allowed_nonsmoothness=cfg).rec`, without the CSE cache -/
def diff (cfg : Smooth) (v : Expr) : Expr → DiffR
  | .const c => if (Expr.const c).isConstant then pure zero else throw .valueError
  | .var n => pure (if (Expr.var n).pyEq v then one else zero)
  | .subscript a i =>
      if subscriptEqRaises (.subscript a i) v then throw .typeError
      else pure (if (Expr.subscript a i).pyEq v then one else zero)
  | .nary .sum cs => do
      let ds ← diffL cfg v cs
      pure (flattenedSum ds)
  | .nary .prod cs =>
      if prodHasExoticL cs then throw (.op .noClaim)
      else do
        let ts ← diffProd cfg v [] cs
        pure (flattenedSum ts)
  | .nary _ _ => throw .unsupported
  | .bin .quot f g => do
      let df ← diff cfg v f
      let dg ← diff cfg v g
      liftOp (quotRule f g df dg)
  | .bin .pow f g => do
      let df ← diff cfg v f
      let dg ← diff cfg v g
      liftOp (powRule f g df dg)
  | .bin _ _ _ => throw .unsupported
  | .un _ _ => throw .unsupported
  | .cmp _ _ _ => throw .unsupported
  | .ite c t e =>
      if cfg = .discontinuous then do
        let dt ← diff cfg v t
        let de ← diff cfg v e
        pure (.ite c dt de)
      else throw .valueError
  | .call f pars =>
      match pars with
      | [] => pure zero
      | p :: ps => do
        let fm ← funcMap cfg f (p :: ps)
        let ts ← diffCall cfg v fm (p :: ps)
        pure (flattenedSum ts)
  | .callKw _ _ _ _ => throw .notImplemented
  | .lookup _ _ => throw .notImplemented
  | .cse c p s =>
      if c.hasList then throw .typeError      -- hashing the cache key raises
      else do
        let d ← diff cfg v c
        pure (cseRule d p s)
  | .subst _ _ _ => throw .unsupported
  | .deriv _ _ => throw .unsupported
  | .slice _ => throw .unsupported
  | .nan => throw .notImplemented
  | .wildcard => throw .notImplemented
  | .dotWild _ => throw .notImplemented
  | .starWild _ => throw .notImplemented
  | .funcSym => throw .notImplemented
  | .tuple _ => throw .notImplemented
  | .list _ => throw .notImplemented
/-- `map_sum`: the derivatives of the children -/
def diffL (cfg : Smooth) (v : Expr) : List Expr → Except DiffErr (List Expr)
  | [] => pure []
  | c :: cs => do
      let d ← diff cfg v c
      let ds ← diffL cfg v cs
      pure (d :: ds)
/-- `map_product`: for every split `pre ++ c :: cs` the term
`flattened_product(pre + [rec(c)] + cs)` -/
def diffProd (cfg : Smooth) (v : Expr) (pre : List Expr) : List Expr → Except DiffErr (List Expr)
  | [] => pure []
  | c :: cs => do
      let d ← diff cfg v c
      let ts ← diffProd cfg v (pre ++ [c]) cs
      pure (flattenedProduct (pre ++ d :: cs) :: ts)
/-- `map_call`: the terms `function_map(i, f, pars) * rec(par)` -/
def diffCall (cfg : Smooth) (v : Expr) (fm : Expr) : List Expr → Except DiffErr (List Expr)
  | [] => pure []
  | p :: ps => do
      let d ← diff cfg v p
      let t ← liftOp (pyBin .mul fm d)
      let ts ← diffCall cfg v fm ps
      pure (t :: ts)
end

/-! ### the same rules with the CSE cache of one mapper instance -/

/-- `_cse_cache_dict`: keys `(expr,)` compared with Python `==`, most recent first -/
abbrev DCache := List (Expr × Expr)

def DCache.find (k : Expr) : DCache → Option Expr
  | [] => none
  | (k', r) :: rest => if k'.pyEq k then some r else DCache.find k rest

abbrev DM (α : Type) := DCache → Except DiffErr α × DCache

@[inline] def DM.pure {α} (a : α) : DM α := fun s => (.ok a, s)
@[inline] def DM.throw {α} (e : DiffErr) : DM α := fun s => (.error e, s)
@[inline] def DM.bind {α β} (x : DM α) (f : α → DM β) : DM β := fun s =>
  match x s with
  | (.ok a, s') => f a s'
  | (.error e, s') => (.error e, s')
@[inline] def DM.lift {α} (x : Except DiffErr α) : DM α := fun s => (x, s)

instance : Monad DM where
  pure := DM.pure
  bind := DM.bind

mutual
def diffC (cfg : Smooth) (v : Expr) : Expr → DM Expr
  | .const c => if (Expr.const c).isConstant then DM.pure zero else DM.throw .valueError
  | .var n => DM.pure (if (Expr.var n).pyEq v then one else zero)
  | .subscript a i =>
      if subscriptEqRaises (.subscript a i) v then DM.throw .typeError
      else DM.pure (if (Expr.subscript a i).pyEq v then one else zero)
  | .nary .sum cs => do
      let ds ← diffCL cfg v cs
      DM.pure (flattenedSum ds)
  | .nary .prod cs =>
      if prodHasExoticL cs then DM.throw (.op .noClaim)
      else do
        let ts ← diffCProd cfg v [] cs
        DM.pure (flattenedSum ts)
  | .nary _ _ => DM.throw .unsupported
  | .bin .quot f g => do
      let df ← diffC cfg v f
      let dg ← diffC cfg v g
      if df.truthy && !dg.truthy then do
        -- the third branch calls `self.rec(f)` once more
        let df' ← diffC cfg v f
        DM.lift (liftOp (quotRule f g df' dg))
      else DM.lift (liftOp (quotRule f g df dg))
  | .bin .pow f g => do
      let df ← diffC cfg v f
      let dg ← diffC cfg v g
      DM.lift (liftOp (powRule f g df dg))
  | .bin _ _ _ => DM.throw .unsupported
  | .un _ _ => DM.throw .unsupported
  | .cmp _ _ _ => DM.throw .unsupported
  | .ite c t e =>
      if cfg = .discontinuous then do
        let dt ← diffC cfg v t
        let de ← diffC cfg v e
        DM.pure (.ite c dt de)
      else DM.throw .valueError
  | .call f pars =>
      match pars with
      | [] => DM.pure zero
      | p :: ps => do
        let fm ← DM.lift (funcMap cfg f (p :: ps))
        let ts ← diffCCall cfg v fm (p :: ps)
        DM.pure (flattenedSum ts)
  | .callKw _ _ _ _ => DM.throw .notImplemented
  | .lookup _ _ => DM.throw .notImplemented
  | .cse c p s => fun st =>
      if c.hasList then (.error .typeError, st)
      else match DCache.find (.cse c p s) st with
      | some r => (.ok r, st)
      | Option.none =>
        match diffC cfg v c st with
        | (.ok d, st') => (.ok (cseRule d p s), (.cse c p s, cseRule d p s) :: st')
        | (.error err, st') => (.error err, st')
  | .subst _ _ _ => DM.throw .unsupported
  | .deriv _ _ => DM.throw .unsupported
  | .slice _ => DM.throw .unsupported
  | .nan => DM.throw .notImplemented
  | .wildcard => DM.throw .notImplemented
  | .dotWild _ => DM.throw .notImplemented
  | .starWild _ => DM.throw .notImplemented
  | .funcSym => DM.throw .notImplemented
  | .tuple _ => DM.throw .notImplemented
  | .list _ => DM.throw .notImplemented
def diffCL (cfg : Smooth) (v : Expr) : List Expr → DM (List Expr)
  | [] => DM.pure []
  | c :: cs => do
      let d ← diffC cfg v c
      let ds ← diffCL cfg v cs
      DM.pure (d :: ds)
def diffCProd (cfg : Smooth) (v : Expr) (pre : List Expr) : List Expr → DM (List Expr)
  | [] => DM.pure []
  | c :: cs => do
      let d ← diffC cfg v c
      let ts ← diffCProd cfg v (pre ++ [c]) cs
      DM.pure (flattenedProduct (pre ++ d :: cs) :: ts)
def diffCCall (cfg : Smooth) (v : Expr) (fm : Expr) : List Expr → DM (List Expr)
  | [] => DM.pure []
  | p :: ps => do
      let d ← diffC cfg v p
      let t ← DM.lift (liftOp (pyBin .mul fm d))
      let ts ← diffCCall cfg v fm ps
      DM.pure (t :: ts)
end

/-- `differentiate(expression, variable, allowed_nonsmoothness=cfg)` on a fresh mapper; a string
`variable` has already been turned into `Variable(variable)`. -/
def differentiate (cfg : Smooth) (v : Expr) (e : Expr) : DiffR := (diffC cfg v e []).1

/-- successive calls on ONE mapper instance (the CSE cache persists) -/
def diffHist (cfg : Smooth) (v : Expr) : List Expr → DCache → List DiffR
  | [], _ => []
  | e :: es, st =>
    let (r, st') := diffC cfg v e st
    r :: diffHist cfg v es st'

end PV
