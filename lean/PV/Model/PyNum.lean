import PV.Model.Expr
/-
  `PyNum`: a formal fragment of CPython's value semantics, the meaning oracle of C02/C03/C08/….

  Exact values: int, bool, Fraction (`Rat`), None, str, tuples, lists, environment functions
  (uninterpreted constructors: `f(1, k=2)` evaluates to `app f [1] [k] [2]`), records (objects with
  attributes).  `inexact` stands for any float/complex result; *consuming* an inexact value makes
  the model abstain (`Err.noClaim`), so nothing is ever claimed about floating point.

  This file is trusted only through the correspondence run (`pynum` stream: every operator on every
  pair of a value box against CPython).
-/
namespace PV

inductive Err where
  | unknownVar (n : String)
  | zeroDiv | typeError | valueError | indexError | attrError
  | notImplemented           -- NotImplementedError (abstract handler reached)
  | unsupportedExpr          -- UnsupportedExpressionError (no handler for the node type)
  | foreign                  -- ValueError: invalid foreign object
  | noClaim                  -- outside the exact fragment: the model makes no statement
  deriving Repr, DecidableEq, Inhabited

inductive Value where
  | int (n : Int)
  | bool (b : Bool)
  | frac (q : Rat)
  | inexact
  | none
  | str (s : String)
  | tuple (vs : List Value)
  | list (vs : List Value)
  | func (name : String)
  | app (f : String) (args : List Value) (kwNames : List String) (kwVals : List Value)
  | record (names : List String) (vals : List Value)
  deriving Repr, Inhabited

abbrev R := Except Err Value

inductive Num where
  | i (n : Int)
  | q (r : Rat)
  deriving Repr

def Num.toRat : Num → Rat
  | .i n => (n : Rat)
  | .q r => r

def Value.num? : Value → Option Num
  | .int n => some (.i n)
  | .bool b => some (.i (if b then 1 else 0))
  | .frac q => some (.q q)
  | _ => Option.none

def Value.isSeq : Value → Bool
  | .tuple _ | .list _ | .str _ => true
  | _ => false

def Value.isInexact : Value → Bool
  | .inexact => true
  | _ => false

/-- Binary numeric operator dispatch (both operands already evaluated). -/
def arith (f : Num → Num → R) (a b : Value) : R :=
  if a.isInexact || b.isInexact then throw .noClaim
  else if a.isSeq || b.isSeq then throw .noClaim
  else match a.num?, b.num? with
    | some x, some y => f x y
    | _, _ => throw .typeError

/-- Magnitude guard: the model abstains on astronomically large powers/shifts. -/
def bigLimit : Nat := 4096

def addN : Num → Num → R
  | .i a, .i b => pure (.int (a + b))
  | x, y => pure (.frac (x.toRat + y.toRat))

def subN : Num → Num → R
  | .i a, .i b => pure (.int (a - b))
  | x, y => pure (.frac (x.toRat - y.toRat))

def mulN : Num → Num → R
  | .i a, .i b => pure (.int (a * b))
  | x, y => pure (.frac (x.toRat * y.toRat))

def divN : Num → Num → R
  | .i _, .i b => if b = 0 then throw .zeroDiv else pure .inexact
  | x, y => if y.toRat = 0 then throw .zeroDiv else pure (.frac (x.toRat / y.toRat))

def floordivN : Num → Num → R
  | .i a, .i b => if b = 0 then throw .zeroDiv else pure (.int (Int.fdiv a b))
  | x, y => if y.toRat = 0 then throw .zeroDiv else pure (.int (x.toRat / y.toRat).floor)

def modN : Num → Num → R
  | .i a, .i b => if b = 0 then throw .zeroDiv else pure (.int (Int.fmod a b))
  | x, y =>
    if y.toRat = 0 then throw .zeroDiv
    else pure (.frac (x.toRat - y.toRat * ((x.toRat / y.toRat).floor : Rat)))

/-- `Fraction.__pow__` with an integer exponent. -/
def fracPowInt (a : Rat) (p : Int) : R :=
  if p.natAbs > bigLimit then throw .noClaim
  else if p ≥ 0 then pure (.frac (a ^ p.toNat))
  else if a = 0 then throw .zeroDiv
  else pure (.frac (a ^ p))

/-- `float(a) ** float(b)` for a non-integral exponent: only the error behaviour is exact. -/
def floatPow (a b : Rat) : R :=
  if a = 0 ∧ b < 0 then throw .zeroDiv else pure .inexact

def powN : Num → Num → R
  | .i a, .i b =>
    if b.natAbs > bigLimit then throw .noClaim
    else if b ≥ 0 then pure (.int (a ^ b.toNat))
    else if a = 0 then throw .zeroDiv
    else pure .inexact
  | .q a, .i b => fracPowInt a b
  | .q a, .q b => if b.den = 1 then fracPowInt a b.num else floatPow a b
  | .i a, .q b =>
    if b.den = 1 ∧ b.num ≥ 0 then
      (if b.num.natAbs > bigLimit then throw .noClaim else pure (.int (a ^ b.num.toNat)))
    else if b.den = 1 then fracPowInt (a : Rat) b.num
    else floatPow (a : Rat) b

def intOnly (f : Int → Int → R) : Num → Num → R
  | .i a, .i b => f a b
  | _, _ => throw .typeError

def lshiftN : Num → Num → R := intOnly fun a b =>
  if b < 0 then throw .valueError
  else if b.toNat > bigLimit then throw .noClaim
  else pure (.int (a * 2 ^ b.toNat))

def rshiftN : Num → Num → R := intOnly fun a b =>
  if b < 0 then throw .valueError
  else if b.toNat > bigLimit then throw .noClaim
  else pure (.int (Int.fdiv a (2 ^ b.toNat)))

/-! Two's-complement bitwise operations on `Int` (core Lean has them on `Nat` only). -/
def Int.land' : Int → Int → Int
  | .ofNat m, .ofNat n => .ofNat (m &&& n)
  | .ofNat m, .negSucc n => .ofNat (m ^^^ (m &&& n))
  | .negSucc m, .ofNat n => .ofNat (n ^^^ (n &&& m))
  | .negSucc m, .negSucc n => .negSucc (m ||| n)

def Int.lor' : Int → Int → Int
  | .ofNat m, .ofNat n => .ofNat (m ||| n)
  | .ofNat m, .negSucc n => .negSucc (n ^^^ (n &&& m))
  | .negSucc m, .ofNat n => .negSucc (m ^^^ (m &&& n))
  | .negSucc m, .negSucc n => .negSucc (m &&& n)

def Int.xor' : Int → Int → Int
  | .ofNat m, .ofNat n => .ofNat (m ^^^ n)
  | .ofNat m, .negSucc n => .negSucc (m ^^^ n)
  | .negSucc m, .ofNat n => .negSucc (m ^^^ n)
  | .negSucc m, .negSucc n => .ofNat (m ^^^ n)

/-- Bitwise operators keep `bool` when both operands are `bool`. -/
def bitop (fi : Int → Int → Int) (fb : Bool → Bool → Bool) (a b : Value) : R :=
  match a, b with
  | .bool x, .bool y => pure (.bool (fb x y))
  | _, _ => arith (intOnly fun x y => pure (.int (fi x y))) a b

def Value.add := arith addN
def Value.sub := arith subN
def Value.mul := arith mulN
def Value.div := arith divN
def Value.floordiv := arith floordivN
def Value.mod := arith modN
def Value.pow := arith powN
def Value.lshift := arith lshiftN
def Value.rshift := arith rshiftN
def Value.band := bitop Int.land' (· && ·)
def Value.bor := bitop Int.lor' (· || ·)
def Value.bxor := bitop Int.xor' (fun x y => x != y)

def Value.invert (a : Value) : R :=
  if a.isInexact then throw .noClaim
  else match a.num? with
    | some (.i n) => pure (.int (-n - 1))
    | _ => if a.isSeq then throw .noClaim else throw .typeError

def Value.neg (a : Value) : R :=
  if a.isInexact then throw .noClaim
  else match a.num? with
    | some (.i n) => pure (.int (-n))
    | some (.q r) => pure (.frac (-r))
    | Option.none => if a.isSeq then throw .noClaim else throw .typeError

mutual
def Value.hasInexact : Value → Bool
  | .inexact => true
  | .tuple vs => Value.hasInexactL vs
  | .list vs => Value.hasInexactL vs
  | .app _ as _ vs => Value.hasInexactL as || Value.hasInexactL vs
  | .record _ vs => Value.hasInexactL vs
  | _ => false
def Value.hasInexactL : List Value → Bool
  | [] => false
  | v :: vs => v.hasInexact || Value.hasInexactL vs
end

/-- Look up `k` in two parallel lists. -/
def assocLookup {α} (k : String) : List String → List α → Option α
  | n :: ns, v :: vs => if n = k then some v else assocLookup k ns vs
  | _, _ => Option.none

mutual
/-- Python `==` on exact values (numeric tower collapsed: `1 == True == Fraction(1)`). -/
def Value.pyEq : Value → Value → Bool
  | .none, .none => true
  | .str a, .str b => a == b
  | .tuple as, .tuple bs => Value.pyEqL as bs
  | .list as, .list bs => Value.pyEqL as bs
  | .func a, .func b => a == b
  | .app f as ns vs, .app g bs ms ws =>
      f == g && Value.pyEqL as bs && ns.length == ms.length && Value.pyEqKw ns vs ms ws
  | .record ns vs, .record ms ws => ns == ms && Value.pyEqL vs ws
  | .inexact, .inexact => true
  | a, b => match a.num?, b.num? with
    | some x, some y => x.toRat == y.toRat
    | _, _ => false
def Value.pyEqL : List Value → List Value → Bool
  | [], [] => true
  | a :: as, b :: bs => Value.pyEq a b && Value.pyEqL as bs
  | _, _ => false
/-- keyword mappings compare as mappings: every left key is present on the right with an equal
value (lengths are compared by the caller; keys are unique). -/
def Value.pyEqKw : List String → List Value → List String → List Value → Bool
  | n :: ns, v :: vs, ms, ws =>
      (match assocLookup n ms ws with
       | some w => Value.pyEq v w
       | Option.none => false) && Value.pyEqKw ns vs ms ws
  | _, _, _, _ => true
end

def Value.truthy (a : Value) : Except Err Bool :=
  match a with
  | .inexact => throw .noClaim
  | .int n => pure (n != 0)
  | .bool b => pure b
  | .frac q => pure (q != 0)
  | .none => pure false
  | .str s => pure (s != "")
  | .tuple vs => pure (!vs.isEmpty)
  | .list vs => pure (!vs.isEmpty)
  | _ => pure true

def CmpOp.evalRat : CmpOp → Rat → Rat → Bool
  | .eq, a, b => a == b
  | .ne, a, b => a != b
  | .lt, a, b => a < b
  | .le, a, b => a ≤ b
  | .gt, a, b => b < a
  | .ge, a, b => b ≤ a

def Value.cmp (op : CmpOp) (a b : Value) : R :=
  if a.hasInexact || b.hasInexact then throw .noClaim
  else match op with
  | .eq => pure (.bool (a.pyEq b))
  | .ne => pure (.bool (!a.pyEq b))
  | _ =>
    match a.num?, b.num? with
    | some x, some y => pure (.bool (op.evalRat x.toRat y.toRat))
    | _, _ => if a.isSeq && b.isSeq then throw .noClaim else throw .typeError

def Value.lt (a b : Value) : Except Err Bool := do
  match ← Value.cmp .lt a b with
  | .bool r => pure r
  | _ => throw .noClaim

/-- is `x` strictly better than the running optimum `m`? -/
def Value.better (isMin : Bool) (x m : Value) : Except Err Bool :=
  if isMin then Value.lt x m else Value.lt m x

/-- `min(iterable)` / `max(iterable)` after the elements have been computed. -/
def minFold (isMin : Bool) : Value → List Value → R
  | m, [] => pure m
  | m, x :: xs => do
      let better ← Value.better isMin x m
      minFold isMin (if better then x else m) xs

def Value.minmax (isMin : Bool) : List Value → R
  | [] => throw .valueError
  | x :: xs => minFold isMin x xs

def Value.index (a i : Value) : R :=
  if i.isInexact then throw .noClaim else
  match a with
  | .inexact => throw .noClaim
  | .str _ => throw .noClaim
  | .tuple vs | .list vs =>
    match i.num? with
    | some (.i n) =>
      let k : Int := if n < 0 then n + vs.length else n
      if k < 0 then throw .indexError
      else match vs[k.toNat]? with
        | some v => pure v
        | Option.none => throw .indexError
    | _ => if i.isSeq then throw .noClaim else throw .typeError
  | _ => throw .typeError

def Value.getattr (a : Value) (name : String) : R :=
  match a with
  | .inexact => throw .noClaim
  | .record ns vs =>
    match assocLookup name ns vs with
    | some v => pure v
    | Option.none => throw .attrError
  | _ => throw .attrError

def Value.call (f : Value) (args : List Value) (kwNames : List String) (kwVals : List Value) : R :=
  match f with
  | .inexact => throw .noClaim
  | .func name => pure (.app name args kwNames kwVals)
  | _ => throw .typeError

/-! ### Wire format for values and results -/

def ratToSexp (q : Rat) : Sexp := Sexp.mk "frac" [Sexp.ofInt q.num, Sexp.ofNat q.den]

/-- insertion sort of keyword pairs by name, for canonical output -/
def insertKw (n : String) (v : Sexp) : List (String × Sexp) → List (String × Sexp)
  | [] => [(n, v)]
  | (m, w) :: rest => if n < m then (n, v) :: (m, w) :: rest else (m, w) :: insertKw n v rest

mutual
def Value.toSexp : Value → Sexp
  | .int n => Sexp.mk "int" [Sexp.ofInt n]
  | .bool b => Sexp.mk "bool" [Sexp.ofBool b]
  | .frac q => ratToSexp q
  | .inexact => Sexp.mk "inexact" []
  | .none => Sexp.mk "none" []
  | .str s => Sexp.mk "str" [Sexp.str s]
  | .tuple vs => Sexp.mk "tup" (Value.toSexpL vs)
  | .list vs => Sexp.mk "lst" (Value.toSexpL vs)
  | .func n => Sexp.mk "func" [Sexp.str n]
  | .app f as ns vs =>
      let kws := (ns.zip (Value.toSexpL vs)).foldl (fun acc p => insertKw p.1 p.2 acc) []
      Sexp.mk "app" [Sexp.str f, .list (Value.toSexpL as),
        .list (kws.map fun p => .list [Sexp.str p.1, p.2])]
  | .record ns vs => Sexp.mk "rec" [.list (ns.map Sexp.str), .list (Value.toSexpL vs)]
def Value.toSexpL : List Value → List Sexp
  | [] => []
  | v :: vs => v.toSexp :: Value.toSexpL vs
end

def Err.toSexp : Err → Sexp
  | .unknownVar n => Sexp.mk "err" [.atom "UnknownVariable", Sexp.str n]
  | .zeroDiv => Sexp.mk "err" [.atom "ZeroDivision"]
  | .typeError => Sexp.mk "err" [.atom "TypeError"]
  | .valueError => Sexp.mk "err" [.atom "ValueError"]
  | .indexError => Sexp.mk "err" [.atom "IndexError"]
  | .attrError => Sexp.mk "err" [.atom "AttributeError"]
  | .unsupportedExpr => Sexp.mk "err" [.atom "UnsupportedExpression"]
  | .foreign => Sexp.mk "err" [.atom "Foreign"]
  | .notImplemented => Sexp.mk "err" [.atom "NotImplemented"]
  | .noClaim => Sexp.mk "noclaim" []

def R.toSexp : R → Sexp
  | .ok v => v.toSexp
  | .error e => e.toSexp

mutual
partial def Value.ofSexp? : Sexp → Option Value
  | .list [.atom "int", n] => n.int?.map .int
  | .list [.atom "bool", .atom "true"] => some (.bool true)
  | .list [.atom "bool", .atom "false"] => some (.bool false)
  | .list [.atom "frac", n, d] => do
      let n ← n.int?; let d ← d.nat?
      if d = 0 then Option.none else pure (.frac ((n : Rat) / (d : Rat)))
  | .list [.atom "inexact"] => some .inexact
  | .list [.atom "none"] => some .none
  | .list [.atom "str", s] => s.text.map .str
  | .list (.atom "tup" :: vs) => do pure (.tuple (← Value.ofSexpL? vs))
  | .list (.atom "lst" :: vs) => do pure (.list (← Value.ofSexpL? vs))
  | .list [.atom "func", n] => n.text.map .func
  | .list [.atom "rec", .list ns, .list vs] => do
      pure (.record (← strList? ns) (← Value.ofSexpL? vs))
  | .list [.atom "app", f, .list as, .list kws] => do
      let ns ← kws.mapM (fun kw => match kw with | .list [n, _] => n.text | _ => Option.none)
      let vs ← kws.mapM (fun kw => match kw with | .list [_, v] => Value.ofSexp? v | _ => Option.none)
      pure (.app (← f.text) (← Value.ofSexpL? as) ns vs)
  | _ => Option.none
partial def Value.ofSexpL? : List Sexp → Option (List Value)
  | [] => some []
  | c :: cs => do pure ((← Value.ofSexp? c) :: (← Value.ofSexpL? cs))
end

end PV
