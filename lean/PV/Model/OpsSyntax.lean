import PV.Model.Ops
import PV.Model.OpsTable
import PV.Model.OpsSyntaxTable
/-
  C03, the NON-arithmetic syntax of `pymbolic.primitives.Expression`:

      x[i]   x(*args, **kwargs)   x.attr(name)   x.a.name
      x.not_()  x.and_(y)  x.or_(y)   x.eq(y) … x.gt(y)   abs(x)

  as hand-written builders on the tree model (`Ops.getitem`, `Ops.call`, …), the syntax of
  programs that use them together with the arithmetic operators (`SynProg`), and the two
  implementations such a program can be run with: the hand-written one (`SynImpl.model`) and the
  generic table interpreters on regenerated tables (`SynImpl.byTable`).
-/
namespace PV

/-- what `__getitem__` is handed: an operand, or `EmptyOK(operand)` -/
inductive Subscr where
  | plain (e : Expr)
  | emptyOK (child : Expr)
  deriving Inhabited

def Subscr.toVal : Subscr → SynVal
  | .plain e => .expr e
  | .emptyOK c => .emptyOK c

/-- `Expression.__getitem__`: `Subscript(self, subscript)` with NO wrapping or unwrapping of the
index; `EmptyOK(i)` is unpacked; the bare empty tuple returns the aggregate itself (deprecated
behaviour of the code, mirrored) -/
def Ops.getitem (self : Expr) : Subscr → Expr
  | .emptyOK c => .subscript self c
  | .plain i => if i.isEmptyTuple then self else .subscript self i

/-- `Expression.__call__`: `Call` / `CallWithKwargs` chosen by the emptiness of `kwargs` -/
def Ops.call (self : Expr) (args : List Expr) (kwNames : List String) (kwVals : List Expr) : Expr :=
  if kwNames.isEmpty then .call self args else .callKw self args kwNames kwVals

/-- `Expression.attr(name)` and `Expression.a.name` -/
def Ops.attr (self : Expr) (name : String) : Expr := .lookup self name

def Ops.not_ (self : Expr) : Expr := .un .lnot self
def Ops.and_ (self other : Expr) : Expr := .nary .land [self, other]
def Ops.or_ (self other : Expr) : Expr := .nary .lor [self, other]

/-- `Expression.eq / ne / lt / le / gt / ge` -/
def Ops.cmp (o : CmpOp) (self other : Expr) : Expr := .cmp o self other

/-- `Expression.__abs__`: a call of the VARIABLE `abs` -/
def Ops.abs (self : Expr) : Expr := .call (.var "abs") [self]

def CmpOp.c03Syn : CmpOp → C03SynName
  | .eq => .eq | .ne => .ne | .lt => .lt | .le => .le | .gt => .gt | .ge => .ge

/-! ### the same through the table -/

def getitemByTable (T : C03SynTable) (self : Expr) (s : Subscr) : OpR :=
  synToExpr (c03SynCall T c03SynFuel .getitem (.expr self) { arg := s.toVal })

def callByTable (T : C03SynTable) (self : Expr) (args : List Expr) (kwNames : List String)
    (kwVals : List Expr) : OpR :=
  synToExpr (c03SynCall T c03SynFuel .call (.expr self)
    { args := args, kwNames := kwNames, kwVals := kwVals })

def attrByTable (T : C03SynTable) (self : Expr) (name : String) : OpR :=
  synToExpr (c03SynCall T c03SynFuel .attr (.expr self) { arg := .str name })

/-- `self.a.name`: the property builds the creator, whose `__getattr__` builds the node -/
def attrAByTable (T : C03SynTable) (self : Expr) (name : String) : OpR :=
  match c03SynCall T c03SynFuel .a (.expr self) {} with
  | .ok c => synToExpr (c03SynCall T c03SynFuel .creatorGetattr c { arg := .str name })
  | .error e => throw e

def unaryByTable (T : C03SynTable) (m : C03SynName) (self : Expr) : OpR :=
  synToExpr (c03SynCall T c03SynFuel m (.expr self) {})

def binaryByTable (T : C03SynTable) (m : C03SynName) (self other : Expr) : OpR :=
  synToExpr (c03SynCall T c03SynFuel m (.expr self) { arg := .expr other })

/-- `self.index(subscript)` (deprecated spelling of `self[subscript]`) -/
def indexByTable (T : C03SynTable) (self : Expr) (s : Subscr) : OpR :=
  synToExpr (c03SynCall T c03SynFuel .index (.expr self) { arg := s.toVal })

/-! ### programs -/

/-- programs over the whole operator syntax.  `tup` / `lst` are tuple / list displays and `eok` the
wrapper `EmptyOK(…)`; they only make sense as (parts of) an index. -/
inductive SynProg where
  | leaf (e : Expr)
  | bin (o : PyBinOp) (p q : SynProg)
  | un (o : PyUnOp) (p : SynProg)
  | abs (p : SynProg)
  | item (p i : SynProg)
  | tup (ps : List SynProg)
  /-- a list display `[p₁, …, pₙ]` -/
  | lst (ps : List SynProg)
  | eok (p : SynProg)
  | call (p : SynProg) (args : List SynProg) (kwNames : List String) (kwVals : List SynProg)
  /-- `viaA = false`: `p.attr(name)`;  `true`: `p.a.name` -/
  | attr (viaA : Bool) (p : SynProg) (name : String)
  | not_ (p : SynProg)
  | and_ (p q : SynProg)
  | or_ (p q : SynProg)
  | cmp (o : CmpOp) (p q : SynProg)
  deriving Inhabited

/-- one implementation of every piece of syntax -/
structure SynImpl where
  bin : PyBinOp → Expr → Expr → OpR
  un : PyUnOp → Expr → OpR
  getitem : Expr → Subscr → OpR
  call : Expr → List Expr → List String → List Expr → OpR
  attr : Expr → String → OpR
  attrA : Expr → String → OpR
  not_ : Expr → OpR
  and_ : Expr → Expr → OpR
  or_ : Expr → Expr → OpR
  cmp : CmpOp → Expr → Expr → OpR
  abs : Expr → OpR

/-- the hand-written model -/
def SynImpl.model : SynImpl where
  bin := Ops.bin
  un := Ops.un
  getitem := fun a s => pure (Ops.getitem a s)
  call := fun f as ns vs => pure (Ops.call f as ns vs)
  attr := fun a n => pure (Ops.attr a n)
  attrA := fun a n => pure (Ops.attr a n)
  not_ := fun a => pure (Ops.not_ a)
  and_ := fun a b => pure (Ops.and_ a b)
  or_ := fun a b => pure (Ops.or_ a b)
  cmp := fun o a b => pure (Ops.cmp o a b)
  abs := fun a => pure (Ops.abs a)

/-- the generic table interpreters run on the tables `T` (arithmetic dunders) and `S` (the rest) -/
def SynImpl.byTable (T : C03Table) (S : C03SynTable) : SynImpl where
  bin := opByTable T
  un := unByTable T
  getitem := getitemByTable S
  call := callByTable S
  attr := attrByTable S
  attrA := attrAByTable S
  not_ := unaryByTable S .not_
  and_ := binaryByTable S .and_
  or_ := binaryByTable S .or_
  cmp := fun o => binaryByTable S o.c03Syn
  abs := unaryByTable S .abs

/-- an operand: the program must not be a bare `EmptyOK(…)` -/
def Subscr.operand : Subscr → OpR
  | .plain e => pure e
  | .emptyOK _ => throw .noClaim

/-- the receiver of a method / of call, subscript, attribute syntax must be an expression node
(on a plain number Python raises `AttributeError` / `TypeError`: no tree) -/
def nodeOperand (s : Subscr) : OpR := do
  let e ← s.operand
  if e.isNode then pure e else throw .noClaim

mutual
/-- run the program the way Python would on expression objects, every piece of syntax answered
by `I` -/
def SynProg.buildWith (I : SynImpl) : SynProg → Except OpErr Subscr
  | .leaf e => pure (.plain e)
  | .bin o p q => do
      let a ← (← p.buildWith I).operand
      let b ← (← q.buildWith I).operand
      match a, b with
      | .const x, .const y => return .plain (← constBin o x y)
      | _, _ => return .plain (← I.bin o a b)
  | .un o p => do
      let a ← (← p.buildWith I).operand
      match a with
      | .const c =>
        match c.toValue? with
        | some v => match o.onValue v with
          | .ok w => match w.toConst? with
            | some c' => pure (.plain (.const c'))
            | Option.none => throw .noClaim
          | .error _ => throw .noClaim
        | Option.none => throw .noClaim
      | _ => return .plain (← I.un o a)
  | .abs p => do
      let a ← (← p.buildWith I).operand
      match a with
      | .const (.int n) => pure (.plain (.const (.int n.natAbs)))
      | _ => if a.isNode then return .plain (← I.abs a) else throw .noClaim
  | .item p i => do
      let a ← nodeOperand (← p.buildWith I)
      let s ← i.buildWith I
      return .plain (← I.getitem a s)
  | .tup ps => do return .plain (.tuple (← SynProg.buildWithL I ps))
  | .lst ps => do return .plain (.list (← SynProg.buildWithL I ps))
  | .eok p => do return .emptyOK (← (← p.buildWith I).operand)
  | .call p args kwNames kwVals => do
      let f ← nodeOperand (← p.buildWith I)
      let as ← SynProg.buildWithL I args
      let vs ← SynProg.buildWithL I kwVals
      return .plain (← I.call f as kwNames vs)
  | .attr viaA p name => do
      let a ← nodeOperand (← p.buildWith I)
      return .plain (← if viaA then I.attrA a name else I.attr a name)
  | .not_ p => do
      let a ← nodeOperand (← p.buildWith I)
      return .plain (← I.not_ a)
  | .and_ p q => do
      let a ← nodeOperand (← p.buildWith I)
      let b ← (← q.buildWith I).operand
      return .plain (← I.and_ a b)
  | .or_ p q => do
      let a ← nodeOperand (← p.buildWith I)
      let b ← (← q.buildWith I).operand
      return .plain (← I.or_ a b)
  | .cmp o p q => do
      let a ← nodeOperand (← p.buildWith I)
      let b ← (← q.buildWith I).operand
      return .plain (← I.cmp o a b)
def SynProg.buildWithL (I : SynImpl) : List SynProg → Except OpErr (List Expr)
  | [] => pure []
  | p :: ps => do
      let a ← (← p.buildWith I).operand
      pure (a :: (← SynProg.buildWithL I ps))
end

/-- the tree the hand-written model builds for a program -/
def SynProg.build (p : SynProg) : OpR := do (← p.buildWith SynImpl.model).operand

end PV
