import PV.Model.Traverse
/-
  C09 — `get_num_nodes` exactly as coded: `NodeCountMapper` is a `CachedWalkMapper`, i.e.

    * `CachedMapper.__call__` looks the key `(type(expr), expr, (), {})` up in `self._cache`
      BEFORE dispatching (a hit returns at once: no `visit`, no children, no `post_visit`),
    * on a miss the `WalkMapper` handler runs: children in the handler's order (shift count before
      shiftee, `None` parts of a slice skipped), then `post_visit` (`count += 1`),
    * and only AFTER the handler returned the key is stored.

  The cache is an association list of the stored keys in insertion order; a lookup is a hit when
  some stored key `k` satisfies `k.keyEq e` (same `type`, Python `==`; CPython compares the stored
  key with the probe).  Strings / `None` reach `map_foreign` and raise when (and only when) they
  are REACHED: below a cache hit they are not.  Hashing the top-level key raises `TypeError` when
  a Python list occurs anywhere in the tree.
-/
namespace PV

/-- `self._cache.get(key)` finds an entry -/
def c09Hit (cache : List Expr) (e : Expr) : Bool := cache.any (fun k => k.keyEq e)

/-- what happens after the children of a missed node were walked: `post_visit` (one more node),
then `self._cache[key] = result` -/
def c09Store (e : Expr) (r : Except DepErr (Nat × List Expr)) : Except DepErr (Nat × List Expr) :=
  match r with
  | .ok (n, cache) => .ok (n + 1, cache ++ [e])
  | .error err => .error err

/-- `CachedMapper.__call__`: lookup first; on a miss run the handler (`inner`), then store -/
def c09Cached (cache : List Expr) (e : Expr) (inner : Unit → Except DepErr (Nat × List Expr)) :
    Except DepErr (Nat × List Expr) :=
  if c09Hit cache e then .ok (0, cache) else c09Store e (inner ())

/-- two traversals one after the other: the second starts with the cache the first left behind,
the `post_visit` counts add up; an exception in either ends everything -/
def c09Seq (r : Except DepErr (Nat × List Expr))
    (k : List Expr → Except DepErr (Nat × List Expr)) : Except DepErr (Nat × List Expr) :=
  match r with
  | .error err => .error err
  | .ok (x, c1) =>
    match k c1 with
    | .error err => .error err
    | .ok (y, c2) => .ok (x + y, c2)

mutual
/-- `NodeCountMapper.rec(e)` started with the cache `cache`: the number of `post_visit` calls made
and the cache afterwards.  (Precondition: no Python list inside `e` — `c09NumNodesKeys` checks it,
as hashing the first key does.) -/
def c09CountWalk : Expr → List Expr → Except DepErr (Nat × List Expr)
  | .const (.str s), cache =>
      if c09Hit cache (.const (.str s)) then .ok (0, cache) else .error .foreign
  | .const .none, cache =>
      if c09Hit cache (.const .none) then .ok (0, cache) else .error .foreign
  | .const c, cache => c09Cached cache (.const c) (fun _ => .ok (0, cache))
  | .var x, cache => c09Cached cache (.var x) (fun _ => .ok (0, cache))
  | .wildcard, cache => c09Cached cache .wildcard (fun _ => .ok (0, cache))
  | .dotWild n, cache => c09Cached cache (.dotWild n) (fun _ => .ok (0, cache))
  | .starWild n, cache => c09Cached cache (.starWild n) (fun _ => .ok (0, cache))
  | .funcSym, cache => c09Cached cache .funcSym (fun _ => .ok (0, cache))
  | .nan, cache => c09Cached cache .nan (fun _ => .ok (0, cache))
  | .nary o cs, cache => c09Cached cache (.nary o cs) (fun _ => c09CountWalkL cs cache)
  | .bin .lshift a b, cache => c09Cached cache (.bin .lshift a b) (fun _ =>   -- shift first
      c09Seq (c09CountWalk b cache) (fun c1 => c09CountWalk a c1))
  | .bin .rshift a b, cache => c09Cached cache (.bin .rshift a b) (fun _ =>
      c09Seq (c09CountWalk b cache) (fun c1 => c09CountWalk a c1))
  | .bin o a b, cache => c09Cached cache (.bin o a b) (fun _ =>
      c09Seq (c09CountWalk a cache) (fun c1 => c09CountWalk b c1))
  | .un o a, cache => c09Cached cache (.un o a) (fun _ => c09CountWalk a cache)
  | .cmp o a b, cache => c09Cached cache (.cmp o a b) (fun _ =>
      c09Seq (c09CountWalk a cache) (fun c1 => c09CountWalk b c1))
  | .ite c t e, cache => c09Cached cache (.ite c t e) (fun _ =>
      c09Seq (c09CountWalk c cache) (fun c1 =>
        c09Seq (c09CountWalk t c1) (fun c2 => c09CountWalk e c2)))
  | .call f as, cache => c09Cached cache (.call f as) (fun _ =>
      c09Seq (c09CountWalk f cache) (fun c1 => c09CountWalkL as c1))
  | .callKw f as ns vs, cache => c09Cached cache (.callKw f as ns vs) (fun _ =>
      c09Seq (c09CountWalk f cache) (fun c1 =>
        c09Seq (c09CountWalkL as c1) (fun c2 => c09CountWalkL vs c2)))
  | .subscript a i, cache => c09Cached cache (.subscript a i) (fun _ =>
      c09Seq (c09CountWalk a cache) (fun c1 => c09CountWalk i c1))
  | .lookup a n, cache => c09Cached cache (.lookup a n) (fun _ => c09CountWalk a cache)
  | .cse c p s, cache => c09Cached cache (.cse c p s) (fun _ => c09CountWalk c cache)
  | .deriv c vs, cache => c09Cached cache (.deriv c vs) (fun _ => c09CountWalk c cache)
  | .subst c vs xs, cache => c09Cached cache (.subst c vs xs) (fun _ =>
      c09Seq (c09CountWalk c cache) (fun c1 => c09CountWalkL xs c1))
  | .tuple cs, cache => c09Cached cache (.tuple cs) (fun _ => c09CountWalkL cs cache)
  | .list cs, cache => c09Cached cache (.list cs) (fun _ => c09CountWalkL cs cache)
  | .slice cs, cache => c09Cached cache (.slice cs) (fun _ => c09CountWalkS cs cache)
/-- `for child in children: self.rec(child)` -/
def c09CountWalkL : List Expr → List Expr → Except DepErr (Nat × List Expr)
  | [], cache => .ok (0, cache)
  | c :: cs, cache => c09Seq (c09CountWalk c cache) (fun c1 => c09CountWalkL cs c1)
/-- `map_slice`: `for child in expr.children: if child is not None: self.rec(child)` -/
def c09CountWalkS : List Expr → List Expr → Except DepErr (Nat × List Expr)
  | [], cache => .ok (0, cache)
  | .const .none :: cs, cache => c09CountWalkS cs cache
  | c :: cs, cache => c09Seq (c09CountWalk c cache) (fun c1 => c09CountWalkS cs c1)
end

/-- `get_num_nodes(e)` on a fresh mapper: the count and the keys stored, in the order of the
`post_visit` calls.  Building the first key hashes `e`: a list anywhere is a `TypeError`. -/
def c09NumNodesKeys (e : Expr) : Except DepErr (Nat × List Expr) :=
  if e.hasList then .error .unhashable else c09CountWalk e []

/-- `get_num_nodes(e)` -/
def c09NumNodes (e : Expr) : Except DepErr Nat :=
  match c09NumNodesKeys e with
  | .ok (n, _) => .ok n
  | .error err => .error err

end PV
