import PV.Model.Ops
import PV.Model.Prec
/-
  C06/C07.  Token-level model of `pymbolic.parser.Parser`: `parse_expression`, `parse_prefix`,
  `parse_postfix`, `parse_arglist`, `parse_terminal`, written against a precedence table
  `P : ParserPrec` (the `_PREC_*` constants, regenerated from /repo).  Tokens come from the real
  lexer (pytools.lex with `Parser.lex_table`); the lexer itself is tied by correspondence only.
-/
namespace PV

inductive Tok where
  | int (n : Nat)
  | flt (repr : String) (num : Int) (den : Nat)
  | imag (s : String)
  | ident (s : String)
  | tTrue
  | tFalse
  | sym (s : String)       -- operators, keywords, punctuation
  deriving Repr, DecidableEq, Inhabited

inductive PErr where
  | parse          -- pytools.lex.ParseError
  | typeError      -- Python TypeError while building (e.g. negating a tuple)
  | assertion
  | noClaim
  deriving Repr, DecidableEq, Inhabited


def isSym (s : String) : List Tok → Bool
  | .sym t :: _ => t == s
  | _ => false

def compSyms : List String := ["==", "!=", "<", "<=", ">", ">="]

/-- `_join_to_slice(left, right)` -/
def joinToSlice (left right : Expr) : Expr :=
  match right with
  | .slice cs => .slice (left :: cs)
  | r => .slice [left, r]

/-- unary minus applied by Python to a parse result -/
def parseNeg (e : Expr) : Except PErr Expr :=
  match negE e with
  | .ok r => pure r
  | .error .typeError => throw .typeError
  | .error _ => throw .noClaim

def spliceNary (op : NaryOp) (left right : Expr) : Expr :=
  match left with
  | .nary o cs => if o == op then .nary op (cs ++ [right]) else .nary op [left, right]
  | _ => .nary op [left, right]

mutual
/-- `parse_expression(pstate, min_precedence)`; `fuel` bounds the recursion depth -/
def parseExpr (P : ParserPrec) : Nat → Nat → List Tok → Except PErr (Expr × List Tok)
  | 0, _, _ => throw .noClaim
  | fuel + 1, minPrec, toks => do
      let ((left, fin), rest) ← parsePrefix P fuel toks
      postfixLoop P fuel minPrec left fin rest
/-- `parse_prefix`; the Boolean is "is a FinalizedContainer" -/
def parsePrefix (P : ParserPrec) : Nat → List Tok → Except PErr ((Expr × Bool) × List Tok)
  | 0, _ => throw .noClaim
  | _ + 1, [] => throw .parse                             -- expect_not_end
  | fuel + 1, .sym ":" :: rest =>
      match parseExpr P fuel P.slice rest with
      | .ok (next, rest') => pure ((joinToSlice (.const .none) next, false), rest')
      | .error .parse => pure ((.slice [.const .none], false), rest)
      | .error e => throw e
  | _ + 1, .sym "*" :: rest => pure ((.wildcard, false), rest)
  | fuel + 1, .sym "+" :: rest => do
      let (e, rest') ← parseExpr P fuel P.unary rest
      pure ((e, false), rest')
  | fuel + 1, .sym "-" :: rest => do
      let (e, rest') ← parseExpr P fuel P.unary rest
      let n ← parseNeg e
      pure ((n, false), rest')
  | fuel + 1, .sym "not" :: rest => do
      let (e, rest') ← parseExpr P fuel P.unary rest
      pure ((.un .lnot e, false), rest')
  | fuel + 1, .sym "~" :: rest => do
      let (e, rest') ← parseExpr P fuel P.unary rest
      pure ((.un .bnot e, false), rest')
  | fuel + 1, .sym "(" :: rest =>
      if isSym ")" rest then pure ((.tuple [], true), rest.tail)
      else do
        let (e, rest') ← parseExpr P fuel 0 rest
        if isSym ")" rest' then
          match e with
          | .tuple cs => pure ((.tuple cs, true), rest'.tail)
          | _ => pure ((e, false), rest'.tail)
        else throw .parse
  | fuel + 1, .sym "[" :: rest =>
      if isSym "]" rest then pure ((.list [], true), rest.tail)
      else do
        let (e, rest') ← parseExpr P fuel 0 rest
        if isSym "]" rest' then
          match e with
          | .tuple cs => pure ((.list cs, true), rest'.tail)
          | _ => pure ((.list [e], true), rest'.tail)
        else throw .parse
  -- parse_terminal
  | _ + 1, .int n :: rest => pure ((.const (.int n), false), rest)
  | _ + 1, .flt r n d :: rest => pure ((.const (.flt r n d), false), rest)
  | _ + 1, .imag _ :: _ => throw .noClaim
  | _ + 1, .tTrue :: rest => pure ((.const (.bool true), false), rest)
  | _ + 1, .tFalse :: rest => pure ((.const (.bool false), false), rest)
  | _ + 1, .ident s :: rest => pure ((.var s, false), rest)
  | _ + 1, .sym "if" :: rest => pure ((.var "if", false), rest)
  | _ + 1, _ => throw .parse
/-- the `while did_something` loop around `parse_postfix` -/
def postfixLoop (P : ParserPrec) : Nat → Nat → Expr → Bool → List Tok → Except PErr (Expr × List Tok)
  | 0, _, _, _, _ => throw .noClaim
  | _ + 1, _, left, _, [] => pure (left, [])                     -- is_at_end
  | fuel + 1, minPrec, left, fin, tok :: rest =>
    match tok with
    | .sym "(" =>
      if P.call > minPrec then do
        let ((args, kwn, kwv), rest') ← parseArglist P fuel rest [] [] [] false
        let e := if kwn.isEmpty then Expr.call left args else Expr.callKw left args kwn kwv
        postfixLoop P fuel minPrec e false rest'
      else pure (left, tok :: rest)
    | .sym "[" =>
      if P.call > minPrec then
        if rest.isEmpty then throw .parse else do
        let (idx, rest') ← parseExpr P fuel 0 rest
        if isSym "]" rest' then postfixLoop P fuel minPrec (.subscript left idx) false rest'.tail
        else throw .parse
      else pure (left, tok :: rest)
    | .sym "if" =>
      if P.ifp > minPrec then
        if rest.isEmpty then throw .parse else do
        let (cond, rest') ← parseExpr P fuel P.ifp rest
        if isSym "else" rest' then do
          let (els, rest'') ← parseExpr P fuel 0 rest'.tail
          postfixLoop P fuel minPrec (.ite cond left els) false rest''
        else throw .parse
      else pure (left, tok :: rest)
    | .sym "." =>
      if P.call > minPrec then
        match rest with
        | .ident n :: rest' => postfixLoop P fuel minPrec (.lookup left n) false rest'
        | _ => throw .parse
      else pure (left, tok :: rest)
    | .sym "+" =>
      if P.plus > minPrec then do
        let (r, rest') ← parseExpr P fuel P.plus rest
        postfixLoop P fuel minPrec (spliceNary .sum left r) false rest'
      else pure (left, tok :: rest)
    | .sym "-" =>
      if P.plus > minPrec then do
        let (r, rest') ← parseExpr P fuel P.plus rest
        let n ← parseNeg r
        postfixLoop P fuel minPrec (spliceNary .sum left n) false rest'
      else pure (left, tok :: rest)
    | .sym "*" =>
      if P.times > minPrec then do
        let (r, rest') ← parseExpr P fuel P.plus rest
        postfixLoop P fuel minPrec (spliceNary .prod left r) false rest'
      else pure (left, tok :: rest)
    | .sym "//" =>
      if P.times > minPrec then do
        let (r, rest') ← parseExpr P fuel P.times rest
        postfixLoop P fuel minPrec (.bin .floordiv left r) false rest'
      else pure (left, tok :: rest)
    | .sym "/" =>
      if P.times > minPrec then do
        let (r, rest') ← parseExpr P fuel P.times rest
        postfixLoop P fuel minPrec (.bin .quot left r) false rest'
      else pure (left, tok :: rest)
    | .sym "%" =>
      if P.times > minPrec then do
        let (r, rest') ← parseExpr P fuel P.times rest
        postfixLoop P fuel minPrec (.bin .rem left r) false rest'
      else pure (left, tok :: rest)
    | .sym "**" =>
      if P.power > minPrec then do
        let (r, rest') ← parseExpr P fuel P.times rest
        postfixLoop P fuel minPrec (.bin .pow left r) false rest'
      else pure (left, tok :: rest)
    | .sym "and" =>
      if P.land > minPrec then do
        let (r, rest') ← parseExpr P fuel P.land rest
        postfixLoop P fuel minPrec (.nary .land [left, r]) false rest'
      else pure (left, tok :: rest)
    | .sym "or" =>
      if P.lor > minPrec then do
        let (r, rest') ← parseExpr P fuel P.lor rest
        postfixLoop P fuel minPrec (.nary .lor [left, r]) false rest'
      else pure (left, tok :: rest)
    | .sym "|" =>
      if P.bor > minPrec then do
        let (r, rest') ← parseExpr P fuel P.bor rest
        postfixLoop P fuel minPrec (.nary .bor [left, r]) false rest'
      else pure (left, tok :: rest)
    | .sym "^" =>
      if P.bxor > minPrec then do
        let (r, rest') ← parseExpr P fuel P.bxor rest
        postfixLoop P fuel minPrec (.nary .bxor [left, r]) false rest'
      else pure (left, tok :: rest)
    | .sym "&" =>
      if P.band > minPrec then do
        let (r, rest') ← parseExpr P fuel P.band rest
        postfixLoop P fuel minPrec (.nary .band [left, r]) false rest'
      else pure (left, tok :: rest)
    | .sym ">>" =>
      if P.shift > minPrec then do
        let (r, rest') ← parseExpr P fuel P.shift rest
        postfixLoop P fuel minPrec (.bin .rshift left r) false rest'
      else pure (left, tok :: rest)
    | .sym "<<" =>
      if P.shift > minPrec then do
        let (r, rest') ← parseExpr P fuel P.shift rest
        postfixLoop P fuel minPrec (.bin .lshift left r) false rest'
      else pure (left, tok :: rest)
    | .sym ":" =>
      if P.slice ≥ minPrec then
        match left with
        | .slice _ => throw .assertion
        | _ =>
          match parseExpr P fuel P.slice rest with
          | .ok (next, rest') => postfixLoop P fuel minPrec (joinToSlice left next) false rest'
          | .error .parse => postfixLoop P fuel minPrec (.slice [left, .const .none]) false rest
          | .error e => throw e
      else pure (left, tok :: rest)
    | .sym "," =>
      if P.comma > minPrec then
        let openTuple : Option (List Expr) := match left, fin with
          | .tuple cs, false => some cs
          | _, _ => none
        if rest.isEmpty || isSym ")" rest then
          match openTuple with
          | some _ => postfixLoop P fuel minPrec left fin rest      -- trailing comma
          | none => postfixLoop P fuel minPrec (.tuple [left]) false rest
        else do
          let (el, rest') ← parseExpr P fuel P.comma rest
          match openTuple with
          | some cs => postfixLoop P fuel minPrec (.tuple (cs ++ [el])) false rest'
          | none => postfixLoop P fuel minPrec (.tuple [left, el]) false rest'
      else pure (left, tok :: rest)
    | .sym s =>
      match CmpOp.ofSym? s with
      | some op =>
        if P.comparison > minPrec then do
          let (r, rest') ← parseExpr P fuel P.comparison rest
          postfixLoop P fuel minPrec (.cmp op left r) false rest'
        else pure (left, tok :: rest)
      | none => pure (left, tok :: rest)
    | _ => pure (left, tok :: rest)
/-- `parse_arglist` after the opening parenthesis; accumulates positional args and kwargs -/
def parseArglist (P : ParserPrec) : Nat → List Tok → List Expr → List String → List Expr → Bool →
    Except PErr ((List Expr × List String × List Expr) × List Tok)
  | 0, _, _, _, _, _ => throw .noClaim
  | _ + 1, [], _, _, _, _ => throw .parse
  | fuel + 1, toks, args, kwn, kwv, commaAllowed =>
    -- optional comma
    let sawComma := isSym "," toks
    if sawComma && !commaAllowed then throw .parse else
    let toks1 := if sawComma then toks.tail else toks
    if toks1.isEmpty then throw .parse else
    if isSym ")" toks1 then pure ((args, kwn, kwv), toks1.tail) else
    if !sawComma && commaAllowed then throw .parse else
    match toks1 with
    | .ident k :: .sym "=" :: rest => do
        let (v, rest') ← parseExpr P fuel P.comma rest
        -- kwargs[kw] = …: a repeated keyword overwrites the earlier value, keeps its position
        let (kwn', kwv') :=
          if kwn.contains k then
            (kwn, (kwn.zip kwv).map fun p => if p.1 == k then v else p.2)
          else (kwn ++ [k], kwv ++ [v])
        parseArglist P fuel rest' args kwn' kwv' true
    | _ =>
      if !kwn.isEmpty then throw .parse else do
        let (a, rest') ← parseExpr P fuel P.comma toks1
        parseArglist P fuel rest' (args ++ [a]) kwn kwv true
end

/-- `Parser.__call__`: the whole input must be consumed -/
def parseTop (P : ParserPrec) (minPrec : Nat) (toks : List Tok) : Except PErr Expr :=
  match parseExpr P (2 * toks.length + 8) minPrec toks with
  | .ok (e, []) => pure e
  | .ok (_, _ :: _) => throw .parse
  | .error e => throw e

end PV
