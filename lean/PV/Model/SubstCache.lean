import PV.Model.Traverse
/-
  C08, second part: the entry point `substitute(expression, variable_assignments, mapper_cls,
  **kwargs)` with its keyword form, and the memoizing mapper `CachedSubstitutionMapper`
  (`CachedIdentityMapper` + the three intercepting handlers) with its memo table threaded through
  the traversal and through a history of calls on ONE mapper instance.

  Object identity does not exist in this model, so for the memoizing mapper only the result TREE
  is modelled (spelling of constants included), not the "is a new object" flag: whether the
  handler returns `expr` itself or `type(expr)(*children)` the tree is the node rebuilt from the
  children's results.
-/
namespace PV

/-! ### `substitute`: merging the mapping and the keyword assignments -/

/-- `variable_assignments = variable_assignments.copy(); variable_assignments.update(kwargs)`:
keywords are string keys; a keyword overrides an equal string key of the mapping and touches
nothing else (in particular not a `Variable` OBJECT key of the same name, which still wins in
`make_subst_func`). -/
def SubstMap.c08WithKw (σ : SubstMap) (kw : List (String × Expr)) : SubstMap :=
  { σ with byName := kw ++ σ.byName }

/-! ### the memo table of `CachedMapper` -/

/-- `_cache`: `(type(expr), expr, (), immutabledict())` ↦ result, newest entry first -/
abbrev C08Cache := List (Expr × Expr)

/-- `self._cache.get(key)`: the stored key equals the query (`Expr.keyEq`: same Python type and `==`) -/
def c08Find (k : Expr) : C08Cache → Option Expr
  | [] => none
  | (k', v) :: rest => if k'.keyEq k then some v else c08Find k rest

/-- which handlers consult `subst_func`: `map_variable`, `map_subscript`, `map_lookup` -/
def c08Intercept (σ : SubstMap) : Expr → Option Expr
  | .var x => σ.apply (.var x)
  | .subscript a i => σ.apply (.subscript a i)
  | .lookup a n => σ.apply (.lookup a n)
  | _ => none

/-- the node with its children (in `Expr.children` order) replaced -/
def Expr.c08WithKids : Expr → List Expr → Expr
  | .nary o _, vs => .nary o vs
  | .bin o _ _, [a, b] => .bin o a b
  | .un o _, [a] => .un o a
  | .cmp o _ _, [a, b] => .cmp o a b
  | .ite _ _ _, [c, t, e] => .ite c t e
  | .call _ _, f :: as => .call f as
  | .callKw _ as ns _, f :: rest => .callKw f (rest.take as.length) ns (rest.drop as.length)
  | .subscript _ _, [a, i] => .subscript a i
  | .lookup _ n, [a] => .lookup a n
  | .cse _ p s, [c] => .cse c p s
  | .subst _ vars _, c :: xs => .subst c vars xs
  | .deriv _ vars, [c] => .deriv c vars
  | .slice _, vs => .slice vs
  | .tuple _, vs => .tuple vs
  | .list _, vs => .list vs
  | e, _ => e

/-- what an `IdentityMapper` handler returns, as a tree, given the results for the children:
the rebuilt node — except `map_common_subexpression`, which returns `0` for a zero child -/
def c08Build (e : Expr) (vs : List Expr) : Expr :=
  match e, vs with
  | .cse _ p s, [c] => if c.isZero then zero else .cse c p s
  | e, vs => e.c08WithKids vs

/-- run the children's dispatches left to right on the shared memo table -/
def c08Seq : List (C08Cache → Expr × C08Cache) → C08Cache → List Expr × C08Cache
  | [], m => ([], m)
  | f :: fs, m =>
    let (v, m1) := f m
    let (vs, m2) := c08Seq fs m1
    (v :: vs, m2)

/-- the handler (`map_*`) of node `e`: `kids` dispatches the children -/
def c08Handler (σ : SubstMap) (e : Expr) (kids : C08Cache → List Expr × C08Cache)
    (m : C08Cache) : Expr × C08Cache :=
  match c08Intercept σ e with
  | some r => (r, m)                 -- the replacement, as it is
  | none =>
    let (vs, m') := kids m
    (c08Build e vs, m')

/-- `CachedMapper.__call__`: look-aside, dispatch, store -/
def c08Memo (σ : SubstMap) (e : Expr) (m : C08Cache)
    (kids : C08Cache → List Expr × C08Cache) : Expr × C08Cache :=
  match c08Find e m with
  | some v => (v, m)
  | none =>
    let (v, m') := c08Handler σ e kids m
    (v, (e, v) :: m')

mutual
/-- `CachedSubstitutionMapper.rec` on one mapper instance whose memo table is `m` -/
def csubst (σ : SubstMap) : Expr → C08Cache → Expr × C08Cache
  | .const .none, m => (.const .none, m)         -- `None` parts of a slice are not dispatched
  | .const c, m => c08Memo σ (.const c) m (c08Seq [])
  | .var x, m => c08Memo σ (.var x) m (c08Seq [])
  | .nary o cs, m => c08Memo σ (.nary o cs) m (csubstL σ cs)
  | .bin o a b, m => c08Memo σ (.bin o a b) m (c08Seq [csubst σ a, csubst σ b])
  | .un o a, m => c08Memo σ (.un o a) m (c08Seq [csubst σ a])
  | .cmp o a b, m => c08Memo σ (.cmp o a b) m (c08Seq [csubst σ a, csubst σ b])
  | .ite c t e, m => c08Memo σ (.ite c t e) m (c08Seq [csubst σ c, csubst σ t, csubst σ e])
  | .call f as, m => c08Memo σ (.call f as) m fun m =>
      let (f', m1) := csubst σ f m
      let (as', m2) := csubstL σ as m1
      (f' :: as', m2)
  | .callKw f as ns vs, m => c08Memo σ (.callKw f as ns vs) m fun m =>
      let (f', m1) := csubst σ f m
      let (as', m2) := csubstL σ as m1
      let (vs', m3) := csubstL σ vs m2
      (f' :: (as' ++ vs'), m3)
  | .subscript a i, m => c08Memo σ (.subscript a i) m (c08Seq [csubst σ a, csubst σ i])
  | .lookup a n, m => c08Memo σ (.lookup a n) m (c08Seq [csubst σ a])
  | .cse c p s, m => c08Memo σ (.cse c p s) m (c08Seq [csubst σ c])
  | .subst c vars xs, m => c08Memo σ (.subst c vars xs) m fun m =>
      let (c', m1) := csubst σ c m
      let (xs', m2) := csubstL σ xs m1
      (c' :: xs', m2)
  | .deriv c vars, m => c08Memo σ (.deriv c vars) m (c08Seq [csubst σ c])
  | .slice cs, m => c08Memo σ (.slice cs) m (csubstL σ cs)
  | .tuple cs, m => c08Memo σ (.tuple cs) m (csubstL σ cs)
  | .list cs, m => c08Memo σ (.list cs) m (csubstL σ cs)
  | .nan, m => c08Memo σ .nan m (c08Seq [])
  | .wildcard, m => c08Memo σ .wildcard m (c08Seq [])
  | .dotWild n, m => c08Memo σ (.dotWild n) m (c08Seq [])
  | .starWild n, m => c08Memo σ (.starWild n) m (c08Seq [])
  | .funcSym, m => c08Memo σ .funcSym m (c08Seq [])
def csubstL (σ : SubstMap) : List Expr → C08Cache → List Expr × C08Cache
  | [], m => ([], m)
  | c :: cs, m =>
    let (c', m1) := csubst σ c m
    let (cs', m2) := csubstL σ cs m1
    (c' :: cs', m2)
end

/-- a top-level call `mapper(e)`: building the cache key hashes the whole tree first, so a tree
containing a Python list raises `TypeError` before anything is looked up or stored -/
def csubstTop (σ : SubstMap) (e : Expr) (m : C08Cache) : Option Expr × C08Cache :=
  if e.hasList then (none, m)
  else
    let (v, m') := csubst σ e m
    (some v, m')

/-- a history of top-level calls on ONE `CachedSubstitutionMapper` (`none` = `TypeError`) -/
def csubstHist (σ : SubstMap) : List Expr → C08Cache → List (Option Expr)
  | [], _ => []
  | e :: es, m =>
    let (r, m') := csubstTop σ e m
    r :: csubstHist σ es m'

/-- `substitute(e, σ, mapper_cls=…, **kw)`: a fresh mapper per call; tree and (plain mapper only)
the "new object" flag -/
def c08Substitute (σ : SubstMap) (kw : List (String × Expr)) (cached : Bool) (e : Expr) :
    Option (Expr × Option Bool) :=
  let σ' := σ.c08WithKw kw
  if cached then
    match csubstTop σ' e [] with
    | (some v, _) => some (v, none)
    | (none, _) => none
  else
    let (v, ch) := substM σ' e
    some (v, some ch)

end PV
