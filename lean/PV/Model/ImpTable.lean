import PV.Model.Imperative
/-
  C20 (T-gen).  The statement-stream utilities as plain DATA — regenerated from the live source of
  the tree under test by extract/imperative.py into lean/PV/Generated/Imperative.lean — and the
  reading of that data.

    * `C20Expr` / `C20Stmt`    a small Python: the expression and statement shapes that occur in
                               pymbolic/imperative/{transform,analysis,utils,statement}.py (names,
                               attributes, calls with keywords, method calls, `super().m(…)`,
                               `d[k]`, `|`, `&`, `is None`, `isinstance`, `in`, comprehensions,
                               f-strings; assignment, `x |= e`, `x.append(e)`, `x[k] = v`,
                               `x.setdefault(k, set()).add(v)`, `x[k].add(v)`, `x[k].remove(v)`,
                               `if`, `for`, `while True`, `break`, `return`, `raise`, `assert`,
                               nested `def`, function-level `from … import …`)
    * `C20Func` / `C20Class`   a function or method with its parameters and defaults; a class with
                               its MRO and the methods its BODY defines
    * `C20Val`                 run-time values: strings, booleans, statements (`Stmt`), expressions
                               (`Expr`), lists, tuples, sets of names, sets of expressions, dicts
                               with string keys, a name-generator state, module-level objects named
                               by their qualified name, local functions, and the callables a caller
                               may pass in
    * `c20Eval` / `c20Exec`    what an expression / a statement list does, for any table, any name
                               generator `G : NameGen σ`, any iteration order of `for` over a set of
                               names (`order`), any callee semantics (`hook`)
    * `c20Run`                 call depth as fuel: `c20Run (n+1)` runs a body with calls answered
                               by `c20Run n`

  Nothing here knows the current source: every statement, parameter, default, MRO and method comes
  from the table argument.  What is NOT data but a primitive of this reading (named by the qualified
  name the extractor resolved): `pytools.UniqueNameGenerator` (= the parameter `G`),
  `pytools.RecordWithoutPickling.copy` (field update), `pymbolic.primitives.Variable` (constructor and
  `isinstance`), `…Subscript` (`isinstance`), `pymbolic.mapper.dependency.DependencyMapper`
  (= `deps` with the flags the table passes), `pymbolic.mapper.substitutor.SubstitutionMapper` /
  `make_subst_func` (= `substM`), `builtins.list`.

  Values are immutable here while Python's containers are shared references.  The extractor
  therefore only accepts in-place updates (`append`, `|=`, `x[k] = v`, …) of LOCAL names that the
  function itself only ever binds to freshly built containers, and the reading refuses (`stuck`) a
  `for` loop whose body updates the container it iterates over without a `.copy()` (Python:
  "changed size during iteration").  A stateful generator may only be called as the whole right-hand
  side of an assignment (`n = gen(b)`).

  PV/Proofs/ImpTable*.lean prove that for the regenerated table these readings ARE the hand-written
  model (`fuseG`, `Kind.reads`, `Kind.written`, `Kind.mapExprs`, `usedIdentifiers`,
  `disambiguateG`, `disambiguateAndFuseG`, `dotEdges`).
-/
namespace PV.Imp
open PV

/-! ## syntax -/

inductive C20Lit where
  | none
  | bool (b : Bool)
  | str (s : String)
  | nat (n : Nat)
  /-- a module-level object (as a parameter default), by qualified name -/
  | ref (qual : String)
  deriving Repr, DecidableEq, Inhabited

inductive C20Expr where
  /-- a local name (parameter, local variable, or a name of an enclosing function) -/
  | var (x : String)
  /-- a module-level or builtin name, resolved by the extractor to the object's qualified name -/
  | glob (qual : String)
  | lit (l : C20Lit)
  /-- `E.A` -/
  | attr (e : C20Expr) (a : String)
  /-- `F(ARGS, K=V, …)` -/
  | call (f : C20Expr) (args : List C20Expr) (kwNames : List String) (kwVals : List C20Expr)
  /-- `O.M(ARGS, K=V, …)` -/
  | meth (o : C20Expr) (m : String) (args : List C20Expr) (kwNames : List String)
      (kwVals : List C20Expr)
  /-- `super().M(ARGS, K=V, …)` -/
  | superMeth (m : String) (args : List C20Expr) (kwNames : List String) (kwVals : List C20Expr)
  /-- `D[K]` -/
  | index (d k : C20Expr)
  /-- `A | B` -/
  | bitOr (a b : C20Expr)
  /-- `A & B` -/
  | bitAnd (a b : C20Expr)
  /-- `E is None` -/
  | isNone (e : C20Expr)
  /-- `E is not None` -/
  | isNotNone (e : C20Expr)
  /-- `isinstance(E, C)` -/
  | isInstance (e c : C20Expr)
  /-- `A in B` -/
  | isIn (a b : C20Expr)
  /-- `A not in B` -/
  | notIn (a b : C20Expr)
  /-- `A and B` -/
  | boolAnd (a b : C20Expr)
  /-- `not A` -/
  | notOp (a : C20Expr)
  /-- `T if C else E` -/
  | ifExp (c t e : C20Expr)
  /-- `E₁, E₂, …` -/
  | tuple (es : List C20Expr)
  /-- `[]` -/
  | emptyList
  /-- `{}` -/
  | emptyDict
  /-- `set()` -/
  | emptySet
  /-- `frozenset()` / `frozenset([E, …])` -/
  | frozensetOf (es : List C20Expr)
  /-- `{ELT for X in ITER}` -/
  | setComp (elt : C20Expr) (x : String) (iter : C20Expr)
  /-- `[ELT for X in ITER]` -/
  | listComp (elt : C20Expr) (x : String) (iter : C20Expr)
  /-- `frozenset(ELT for X in ITER)` -/
  | frozensetGen (elt : C20Expr) (x : String) (iter : C20Expr)
  /-- an f-string, `"…{}…".format(…)` or `"…%s…" % …`: `lit₀ val₀ lit₁ val₁ … litₙ` -/
  | fstr (lits : List String) (vals : List C20Expr)
  /-- `"SEP".join(E)` -/
  | joinStr (sep : String) (e : C20Expr)
  /-- an expression this language has no form for (source text kept); evaluating it is `stuck` -/
  | notModelled (src : String)
  deriving Repr, Inhabited

inductive C20Stmt where
  /-- `X = E` -/
  | assign (x : String) (e : C20Expr)
  /-- `X₁, X₂, … = E` -/
  | assignTuple (xs : List String) (e : C20Expr)
  /-- `X |= E` -/
  | augOr (x : String) (e : C20Expr)
  /-- `X.append(E)` -/
  | append (x : String) (e : C20Expr)
  /-- `X.extend(E)` -/
  | extend (x : String) (e : C20Expr)
  /-- `X[K] = V` -/
  | setItem (x : String) (k v : C20Expr)
  /-- `X.setdefault(K, set()).add(V)` -/
  | setdefaultAdd (x : String) (k v : C20Expr)
  /-- `X[K].add(V)` -/
  | itemAdd (x : String) (k v : C20Expr)
  /-- `X[K].remove(V)` -/
  | itemRemove (x : String) (k v : C20Expr)
  /-- an expression statement (value dropped) -/
  | exprStmt (e : C20Expr)
  /-- `if C: BODY else: ORELSE` -/
  | ifThen (c : C20Expr) (body orelse : List C20Stmt)
  /-- `for X in ITER: BODY` -/
  | forIn (x : String) (iter : C20Expr) (body : List C20Stmt)
  /-- `for PATTERN in D.items(): …` with a destructuring pattern: runs nothing when `D` is empty,
  has no meaning here otherwise -/
  | forItems (d : String) (src : String)
  /-- `while True: BODY` -/
  | whileTrue (body : List C20Stmt)
  | break_
  /-- `return E` -/
  | ret (e : C20Expr)
  /-- `raise EXC(…)` -/
  | raise_ (exc : String)
  /-- `assert C` -/
  | assert_ (c : C20Expr)
  /-- `def NAME(PARAMS): BODY` inside a function -/
  | defLocal (name : String) (params : List String) (body : List C20Stmt)
  /-- `from MODULE import NAME [as ASNAME]` inside a function; `resolved` = qualified name of the
  object the import yields in the tree under test -/
  | importFrom (asname : String) (resolved : String)
  /-- a statement this language has no form for (source text kept); running it is `stuck` -/
  | notModelled (src : String)
  deriving Repr, Inhabited

structure C20Param where
  name : String
  default : Option C20Lit
  deriving Repr, DecidableEq, Inhabited

/-- what a method name of a class is bound to -/
inductive C20Body where
  /-- Python source, translated (`params`: the parameters after `self`) -/
  | code (params : List C20Param) (body : List C20Stmt)
  /-- a method of a class outside the files under this property, by qualified name -/
  | prim (qual : String)
  deriving Repr, Inhabited

structure C20Func where
  /-- qualified name (`module.function`) -/
  name : String
  params : List C20Param
  body : List C20Stmt
  deriving Repr, Inhabited

structure C20Class where
  /-- qualified name -/
  name : String
  /-- `cls.__mro__` as qualified names, own class first, `object` dropped -/
  mro : List String
  /-- the methods the class BODY defines (only those under this property) -/
  methods : List (String × C20Body)
  deriving Repr, Inhabited

structure C20Table where
  funcs : List C20Func
  classes : List C20Class
  /-- class of the three kinds of statement the model has: `Assignment`, `ConditionalAssignment`,
  `Nop` (qualified names) -/
  assignCls : String
  condAssignCls : String
  nopCls : String
  deriving Repr, Inhabited

/-! ## values -/

inductive C20Val (σ : Type) where
  | none
  | bool (b : Bool)
  | nat (n : Nat)
  | str (s : String)
  | expr (e : Expr)
  | stmt (s : Stmt)
  | list (xs : List (C20Val σ))
  | tuple (xs : List (C20Val σ))
  /-- a `set` / `frozenset` of strings: duplicate-free list -/
  | strSet (xs : List String)
  /-- a set of expressions (result of a dependency mapper) -/
  | exprSet (xs : List Expr)
  /-- a `dict` with string keys, in insertion order -/
  | dict (kvs : List (String × C20Val σ))
  /-- a `UniqueNameGenerator` -/
  | gen (s : σ)
  /-- a module-level object, by qualified name -/
  | ref (qual : String)
  /-- a function defined inside the running function -/
  | localFn (params : List String) (body : List C20Stmt)
  /-- a caller-supplied `name -> bool` -/
  | strPred (f : String → Bool)
  /-- a caller-supplied `statement -> str` -/
  | stmtStr (f : Stmt → String)
  /-- a caller-supplied callable without arguments -/
  | thunk (v : C20Val σ)
  /-- a mapper instance `expression -> expression` -/
  | exprMap (f : Expr → Expr)
  /-- a `DependencyMapper` instance -/
  | depMap (fl : DepFlags)
  /-- the function `make_subst_func(d)` returns -/
  | substFn (m : List (String × Expr))
  /-- a local name that has not been assigned yet -/
  | unbound
  deriving Inhabited

abbrev C20Env (σ : Type) := List (String × C20Val σ)

inductive C20Res (α : Type) where
  | ok (a : α)
  /-- a Python exception -/
  | err (e : ImpErr)
  /-- the program is outside what this reading gives a meaning to -/
  | stuck
  /-- call depth or `while` budget exhausted -/
  | fuel
  deriving Inhabited

def C20Res.bind {α β : Type} (r : C20Res α) (f : α → C20Res β) : C20Res β :=
  match r with
  | .ok a => f a
  | .err e => .err e
  | .stuck => .stuck
  | .fuel => .fuel

instance : Monad C20Res where
  pure := .ok
  bind := C20Res.bind

def C20Res.ofOption {α : Type} : Option α → C20Res α
  | some a => .ok a
  | Option.none => .stuck

/-- outcome of running statements -/
inductive C20Out (σ : Type) where
  /-- control reached the end of the statement list -/
  | next (env : C20Env σ)
  | ret (v : C20Val σ)
  | brk (env : C20Env σ)
  | err (e : ImpErr)
  | stuck
  | fuel
  deriving Inhabited

variable {σ : Type}

def c20Get (x : String) : C20Env σ → Option (C20Val σ)
  | [] => Option.none
  | (n, v) :: rest => if n = x then some v else c20Get x rest

/-- a bound local (`unbound`: Python's UnboundLocalError — no meaning here) -/
def c20Look (x : String) (env : C20Env σ) : C20Res (C20Val σ) :=
  match c20Get x env with
  | some .unbound => .stuck
  | some v => .ok v
  | Option.none => .stuck

/-- rebinding of a local: all locals of a frame exist from its start, so this replaces -/
def c20Set (x : String) (v : C20Val σ) : C20Env σ → C20Env σ
  | [] => [(x, v)]
  | (n, w) :: rest => if n = x then (n, v) :: rest else (n, w) :: c20Set x v rest

/-! ## static information computed from the syntax -/

mutual
/-- names a statement list binds (Python makes exactly these the locals of the function) -/
def c20Locals : List C20Stmt → List String
  | [] => []
  | s :: rest => c20LocalsS s ++ c20Locals rest
def c20LocalsS : C20Stmt → List String
  | .assign x _ => [x]
  | .assignTuple xs _ => xs
  | .augOr x _ => [x]
  | .ifThen _ b o => c20Locals b ++ c20Locals o
  | .forIn x _ b => x :: c20Locals b
  | .whileTrue b => c20Locals b
  | .defLocal n _ _ => [n]
  | .importFrom n _ => [n]
  | _ => []
end

mutual
/-- does a statement list change the SIZE of the container bound to `x` (or rebind `x`) -/
def c20Resizes (x : String) : List C20Stmt → Bool
  | [] => false
  | s :: rest => c20ResizesS x s || c20Resizes x rest
def c20ResizesS (x : String) : C20Stmt → Bool
  | .assign y _ => y == x
  | .assignTuple ys _ => ys.contains x
  | .augOr y _ => y == x
  | .append y _ => y == x
  | .extend y _ => y == x
  | .setItem y _ _ => y == x
  | .setdefaultAdd y _ _ => y == x
  | .ifThen _ b o => c20Resizes x b || c20Resizes x o
  | .forIn y _ b => y == x || c20Resizes x b
  | .whileTrue b => c20Resizes x b
  | .defLocal y _ _ => y == x
  | .importFrom y _ => y == x
  | _ => false
end

mutual
/-- does a statement list update a set stored INSIDE the dict bound to `x` -/
def c20Touches (x : String) : List C20Stmt → Bool
  | [] => false
  | s :: rest => c20TouchesS x s || c20Touches x rest
def c20TouchesS (x : String) : C20Stmt → Bool
  | .setdefaultAdd y _ _ => y == x
  | .itemAdd y _ _ => y == x
  | .itemRemove y _ _ => y == x
  | .ifThen _ b o => c20Touches x b || c20Touches x o
  | .forIn _ _ b => c20Touches x b
  | .whileTrue b => c20Touches x b
  | _ => false
end

/-- may `for … in ITER: BODY` run with value semantics: `ITER` is a fresh value, or a local whose
container `BODY` does not resize, or a set taken out of a local dict that `BODY` neither resizes
nor reaches into -/
def c20IterOk (body : List C20Stmt) : C20Expr → Bool
  | .var x => !c20Resizes x body
  | .attr _ _ => true
  | .meth (.var d) "get" _ _ _ => !(c20Resizes d body || c20Touches d body)
  | .index (.var d) _ => !(c20Resizes d body || c20Touches d body)
  | .meth _ "copy" [] [] [] => true
  | .call _ _ _ _ => true
  | .bitAnd _ _ => true
  | .bitOr _ _ => true
  | _ => false

/-! ## primitives on values -/

def c20Truthy : C20Val σ → Option Bool
  | .none => some false
  | .bool b => some b
  | .nat n => some (n != 0)
  | .str s => some (s != "")
  | .list xs => some (!xs.isEmpty)
  | .strSet xs => some (!xs.isEmpty)
  | .dict kvs => some (!kvs.isEmpty)
  | _ => Option.none

def c20OfLit : C20Lit → C20Val σ
  | .none => .none
  | .bool b => .bool b
  | .str s => .str s
  | .nat n => .nat n
  | .ref q => .ref q

/-- the class of a statement value -/
def c20ClassOf (T : C20Table) (s : Stmt) : String :=
  match s.kind with
  | .assign _ _ Option.none => T.assignCls
  | .assign _ _ (some _) => T.condAssignCls
  | .nop => T.nopCls

/-- attribute access -/
def c20Attr : C20Val σ → String → C20Res (C20Val σ)
  | .stmt s, "id" => .ok (.str s.id)
  | .stmt s, "depends_on" => .ok (.strSet s.dependsOn)
  | .stmt ⟨_, _, .assign l _ _⟩, "lhs" => .ok (.expr l)
  | .stmt ⟨_, _, .assign _ r _⟩, "rhs" => .ok (.expr r)
  | .stmt ⟨_, _, .assign _ _ (some c)⟩, "condition" => .ok (.expr c)
  | .stmt _, _ => .err .attribute
  | .expr (.var n), "name" => .ok (.str n)
  | .expr (.lookup _ n), "name" => .ok (.str n)
  | .expr (.dotWild n), "name" => .ok (.str n)
  | .expr (.starWild n), "name" => .ok (.str n)
  | .expr (.subscript a _), "aggregate" => .ok (.expr a)
  | .expr (.subscript _ i), "index" => .ok (.expr i)
  | .expr (.lookup a _), "aggregate" => .ok (.expr a)
  | .expr _, _ => .err .attribute
  | _, _ => .stuck

/-- `isinstance(v, C)` for the two expression classes the code tests for -/
def c20IsInstance : C20Val σ → String → Option Bool
  | .expr (.var _), "pymbolic.primitives.Variable" => some true
  | .expr _, "pymbolic.primitives.Variable" => some false
  | .expr (.subscript _ _), "pymbolic.primitives.Subscript" => some true
  | .expr _, "pymbolic.primitives.Subscript" => some false
  | _, _ => Option.none

/-- `Record.copy(**kwargs)`: a copy with the given fields replaced -/
def c20CopyField (s : Stmt) : String → C20Val σ → Option Stmt
  | "id", .str i => some { s with id := i }
  | "depends_on", .strSet d => some { s with dependsOn := d }
  | "lhs", .expr l =>
    match s.kind with
    | .assign _ r c => some { s with kind := .assign l r c }
    | .nop => Option.none
  | "rhs", .expr r =>
    match s.kind with
    | .assign l _ c => some { s with kind := .assign l r c }
    | .nop => Option.none
  | "condition", .expr c =>
    match s.kind with
    | .assign l r (some _) => some { s with kind := .assign l r (some c) }
    | _ => Option.none
  | _, _ => Option.none

def c20Copy (s : Stmt) : List String → List (C20Val σ) → Option Stmt
  | [], [] => some s
  | k :: ks, v :: vs =>
    match c20CopyField s k v with
    | some s' => c20Copy s' ks vs
    | Option.none => Option.none
  | _, _ => Option.none

def c20StrsOf : List (C20Val σ) → Option (List String)
  | [] => some []
  | .str s :: rest => (c20StrsOf rest).map (s :: ·)
  | _ => Option.none

/-- the set `frozenset(generator)` builds from the elements in the order they are produced: the
last occurrence of an element is the one kept (a set comprehension keeps the first, `dedupS`) —
every duplicate-free order represents the same Python set -/
def c20SetOfList : List String → List String
  | [] => []
  | x :: rest => let r := c20SetOfList rest; if x ∈ r then r else x :: r

def c20DictGet (k : String) : List (String × C20Val σ) → Option (C20Val σ)
  | [] => Option.none
  | (n, v) :: rest => if n == k then some v else c20DictGet k rest

/-- `d[k] = v` -/
def c20DictSet (k : String) (v : C20Val σ) : List (String × C20Val σ) → List (String × C20Val σ)
  | [] => [(k, v)]
  | (n, w) :: rest => if n == k then (k, v) :: rest else (n, w) :: c20DictSet k v rest

/-- `d.setdefault(k, set()).add(v)` -/
def c20DictSetdefaultAdd (k v : String) :
    List (String × C20Val σ) → Option (List (String × C20Val σ))
  | [] => some [(k, .strSet [v])]
  | (n, w) :: rest =>
    if n == k then
      match w with
      | .strSet vs => some ((n, .strSet (insertS vs v)) :: rest)
      | _ => Option.none
    else (c20DictSetdefaultAdd k v rest).map ((n, w) :: ·)

/-- `d[k].add(v)` / `d[k].remove(v)`: the set stored under an EXISTING key replaced; `err`:
KeyError -/
def c20DictUpdate (k : String) (f : List String → Option (List String)) :
    List (String × C20Val σ) → C20Res (List (String × C20Val σ))
  | [] => .err .keyError
  | (n, w) :: rest =>
    if n == k then
      match w with
      | .strSet vs =>
        match f vs with
        | some vs' => .ok ((n, .strSet vs') :: rest)
        | Option.none => .err .keyError
      | _ => .stuck
    else
      match c20DictUpdate k f rest with
      | .ok r => .ok ((n, w) :: r)
      | .err e => .err e
      | .stuck => .stuck
      | .fuel => .fuel

def c20ExprDict : List (String × C20Val σ) → Option (List (String × Expr))
  | [] => some []
  | (k, .expr e) :: rest => (c20ExprDict rest).map ((k, e) :: ·)
  | _ => Option.none

/-- `lit₀ ++ val₀ ++ lit₁ ++ … ++ litₙ` -/
def c20Interleave : List String → List String → Option String
  | [l], [] => some l
  | l :: ls, v :: vs => (c20Interleave ls vs).map (fun r => l ++ v ++ r)
  | _, _ => Option.none

/-- the flags of `DependencyMapper(**kw)`; omitted keywords take the defaults of its `__init__`
(`include_subscripts=True, include_lookups=True, include_calls=True, include_cses=False`) -/
def c20DepFlags : List String → List (C20Val σ) → DepFlags → Option DepFlags
  | [], [], fl => some fl
  | "include_subscripts" :: ks, .bool b :: vs, fl => c20DepFlags ks vs { fl with subscripts := b }
  | "include_lookups" :: ks, .bool b :: vs, fl => c20DepFlags ks vs { fl with lookups := b }
  | "include_cses" :: ks, .bool b :: vs, fl => c20DepFlags ks vs { fl with cses := b }
  | "include_calls" :: ks, .bool true :: vs, fl => c20DepFlags ks vs { fl with calls := .yes }
  | "include_calls" :: ks, .bool false :: vs, fl => c20DepFlags ks vs { fl with calls := .no }
  | "include_calls" :: ks, .str "descend_args" :: vs, fl =>
    c20DepFlags ks vs { fl with calls := .descend }
  | _, _, _ => Option.none

/-- calling a module-level object that is not a function of the table -/
def c20Prim (G : NameGen σ) (qual : String) (args : List (C20Val σ)) (kwNames : List String)
    (kwVals : List (C20Val σ)) : C20Res (C20Val σ) :=
  match qual, args, kwNames with
  | "builtins.list", [.list xs], [] => .ok (.list xs)
  | "builtins.list", [], [] => .ok (.list [])
  | "pytools.UniqueNameGenerator", [.strSet xs], [] => .ok (.gen (G.init xs))
  | "pymbolic.primitives.Variable", [.str n], [] => .ok (.expr (.var n))
  | "pymbolic.mapper.substitutor.make_subst_func", [.dict kvs], [] =>
    match c20ExprDict kvs with
    | some m => .ok (.substFn m)
    | Option.none => .stuck
  | "pymbolic.mapper.substitutor.SubstitutionMapper", [.substFn m], [] =>
    .ok (.exprMap fun e => (substM { byName := m } e).1)
  | "pymbolic.mapper.dependency.DependencyMapper", [], ks =>
    match c20DepFlags ks kwVals {} with
    | some fl => .ok (.depMap fl)
    | Option.none => .stuck
  | _, _, _ => .stuck

/-- parameters bound to positional arguments, then keywords, then defaults -/
def c20BindParams : List C20Param → List (C20Val σ) → List (String × C20Val σ) →
    Option (C20Env σ)
  | [], [], _ => some []
  | [], _ :: _, _ => Option.none
  | p :: ps, a :: as, kw => (c20BindParams ps as kw).map ((p.name, a) :: ·)
  | p :: ps, [], kw =>
    match c20DictGet p.name kw, p.default with
    | some v, _ => (c20BindParams ps [] kw).map ((p.name, v) :: ·)
    | Option.none, some d => (c20BindParams ps [] kw).map ((p.name, c20OfLit d) :: ·)
    | Option.none, Option.none => Option.none

/-- every keyword names a parameter -/
def c20KwOk (ps : List C20Param) (kwNames : List String) : Bool :=
  kwNames.all fun k => ps.any fun p => p.name == k

/-- a list of names without repetitions (first occurrence kept) -/
def c20Nub : List String → List String
  | [] => []
  | x :: rest => x :: (c20Nub rest).filter fun y => y != x

def c20Unbound (xs : List String) : C20Env σ := xs.map fun x => (x, C20Val.unbound)

/-- the frame of a call: parameters, then the other locals (unbound) -/
def c20Frame (ps : List C20Param) (body : List C20Stmt) (args : List (C20Val σ))
    (kwNames : List String) (kwVals : List (C20Val σ)) : Option (C20Env σ) :=
  if !c20KwOk ps kwNames || kwNames.length != kwVals.length then Option.none else
  match c20BindParams ps args (kwNames.zip kwVals) with
  | some env =>
    some (env ++ c20Unbound ((c20Nub (c20Locals body)).filter fun x => !ps.any (·.name == x)))
  | Option.none => Option.none

def C20Table.func? (T : C20Table) (q : String) : Option C20Func := T.funcs.find? (·.name == q)

def C20Table.class? (T : C20Table) (q : String) : Option C20Class := T.classes.find? (·.name == q)

def c20MethodOf (c : C20Class) (m : String) : Option C20Body :=
  match c.methods.find? (·.1 == m) with
  | some p => some p.2
  | Option.none => Option.none

/-- Python attribute look-up along an MRO: the first class whose body defines the method -/
def c20Resolve (T : C20Table) (m : String) : List String → Option (String × C20Body)
  | [] => Option.none
  | c :: rest =>
    match T.class? c with
    | some cl =>
      match c20MethodOf cl m with
      | some b => some (c, b)
      | Option.none => c20Resolve T m rest
    | Option.none => c20Resolve T m rest

/-- the part of an MRO after class `c` (where `super()` inside `c` continues the look-up) -/
def c20After (c : String) : List String → List String
  | [] => []
  | d :: rest => if d == c then rest else c20After c rest

/-! ## evaluation -/

/-- how a call of translated code is answered: defining class (for `super()`), frame, body -/
abbrev C20Hook (σ : Type) := Option String → C20Env σ → List C20Stmt → C20Res (C20Val σ)

structure C20Ctx (σ : Type) where
  T : C20Table
  G : NameGen σ
  /-- the order in which a `for` statement visits a set of names -/
  order : List String → List String
  /-- iterations a `while True` may take -/
  whileFuel : Nat
  hook : C20Hook σ
  /-- class whose body defines the running method -/
  cls : Option String

/-- run a method body found by MRO look-up -/
def c20CallBody (c : C20Ctx σ) (self : Stmt) (found : Option (String × C20Body))
    (args : List (C20Val σ)) (kwNames : List String) (kwVals : List (C20Val σ)) :
    C20Res (C20Val σ) :=
  match found with
  | Option.none => .stuck
  | some (_, .prim "pytools.RecordWithoutPickling.copy") =>
    match args, c20Copy self kwNames kwVals with
    | [], some s' => .ok (.stmt s')
    | _, _ => .stuck
  | some (_, .prim _) => .stuck
  | some (cls, .code ps body) =>
    match c20Frame (⟨"self", Option.none⟩ :: ps) body (.stmt self :: args) kwNames kwVals with
    | some env => c.hook (some cls) env body
    | Option.none => .stuck

/-- calling a dependency mapper -/
def c20DepsOf (fl : DepFlags) (e : Expr) : C20Res (C20Val σ) :=
  match deps fl e with
  | .ok r => .ok (.exprSet r)
  | .error x => .err (.dep x)

/-- call a function of the table -/
def c20CallFn (c : C20Ctx σ) (fn : C20Func) (args : List (C20Val σ)) (kwNames : List String)
    (kwVals : List (C20Val σ)) : C20Res (C20Val σ) :=
  match c20Frame fn.params fn.body args kwNames kwVals with
  | some fr => c.hook Option.none fr fn.body
  | Option.none => .stuck

/-- call a module-level object: a function of the table, else a primitive -/
def c20ApplyRef (c : C20Ctx σ) (q : String) (args : List (C20Val σ)) (kwNames : List String)
    (kwVals : List (C20Val σ)) : C20Res (C20Val σ) :=
  match c.T.func? q with
  | some fn => c20CallFn c fn args kwNames kwVals
  | Option.none => c20Prim c.G q args kwNames kwVals

/-- the frame of a call of a function defined inside the running function: its parameters and
locals in front of the frame it was defined in (it is only ever called from there) -/
def c20LocalFrame (ps : List String) (body : List C20Stmt) (args : List (C20Val σ))
    (env : C20Env σ) : C20Env σ :=
  ps.zip args ++ c20Unbound ((c20Nub (c20Locals body)).filter fun x => !ps.contains x) ++ env

/-- apply a callable value -/
def c20Apply (c : C20Ctx σ) (env : C20Env σ) (f : C20Val σ) (args : List (C20Val σ))
    (kwNames : List String) (kwVals : List (C20Val σ)) : C20Res (C20Val σ) :=
  match f, args, kwNames with
  | .ref q, _, _ => c20ApplyRef c q args kwNames kwVals
  | .localFn ps body, _, [] =>
    if ps.length != args.length then .stuck else c.hook c.cls (c20LocalFrame ps body args env) body
  | .strPred p, [.str s], [] => .ok (.bool (p s))
  | .stmtStr p, [.stmt s], [] => .ok (.str (p s))
  | .thunk v, [], [] => .ok v
  | .exprMap g, [.expr e], [] => .ok (.expr (g e))
  | .depMap fl, [.expr e], [] => c20DepsOf fl e
  | _, _, _ => .stuck

/-- the elements a comprehension / generator expression / `for` visits, in representation order -/
def c20Elems : C20Val σ → Option (List (C20Val σ))
  | .list xs => some xs
  | .strSet xs => some (xs.map .str)
  | .exprSet xs => some (xs.map .expr)
  | .dict kvs => some (kvs.map fun kv => .str kv.1)
  | _ => Option.none

/-- the elements a `for` STATEMENT visits: a set of names in the order `order` gives -/
def c20ForElems (c : C20Ctx σ) : C20Val σ → Option (List (C20Val σ))
  | .strSet xs => some ((c.order xs).map .str)
  | .exprSet _ => Option.none
  | v => c20Elems v

/-- `ELT` for every element (bound to `x` in a scope of its own) -/
def c20MapElems (f : C20Env σ → C20Res (C20Val σ)) (x : String) (env : C20Env σ) :
    List (C20Val σ) → C20Res (List (C20Val σ))
  | [] => .ok []
  | v :: vs =>
    match f ((x, v) :: env) with
    | .ok w =>
      match c20MapElems f x env vs with
      | .ok ws => .ok (w :: ws)
      | .err e => .err e
      | .stuck => .stuck
      | .fuel => .fuel
    | .err e => .err e
    | .stuck => .stuck
    | .fuel => .fuel

def c20Method (c : C20Ctx σ) (o : C20Val σ) (m : String) (args : List (C20Val σ))
    (kwNames : List String) (kwVals : List (C20Val σ)) : C20Res (C20Val σ) :=
  match o, m, args, kwNames with
  | .stmt s, _, _, _ =>
    match c.T.class? (c20ClassOf c.T s) with
    | some cl => c20CallBody c s (c20Resolve c.T m cl.mro) args kwNames kwVals
    | Option.none => .stuck
  | .dict kvs, "get", [.str k, d], [] => .ok ((c20DictGet k kvs).getD d)
  | .strSet xs, "copy", [], [] => .ok (.strSet xs)
  | _, _, _, _ => .stuck

def c20Super (c : C20Ctx σ) (env : C20Env σ) (m : String) (args : List (C20Val σ))
    (kwNames : List String) (kwVals : List (C20Val σ)) : C20Res (C20Val σ) :=
  match c.cls, c20Get "self" env with
  | some cls, some (.stmt s) =>
    match c.T.class? (c20ClassOf c.T s) with
    | some cl => c20CallBody c s (c20Resolve c.T m (c20After cls cl.mro)) args kwNames kwVals
    | Option.none => .stuck
  | _, _ => .stuck

def c20BitOr : C20Val σ → C20Val σ → C20Res (C20Val σ)
  | .strSet a, .strSet b => .ok (.strSet (unionS a b))
  | _, _ => .stuck

def c20BitAnd : C20Val σ → C20Val σ → C20Res (C20Val σ)
  | .strSet a, .strSet b => .ok (.strSet (interS a b))
  | _, _ => .stuck

def c20In : C20Val σ → C20Val σ → Option Bool
  | .str s, .strSet xs => some (decide (s ∈ xs))
  | _, _ => Option.none

def c20Index : C20Val σ → C20Val σ → C20Res (C20Val σ)
  | .dict kvs, .str k =>
    match c20DictGet k kvs with
    | some v => .ok v
    | Option.none => .err .keyError
  | _, _ => .stuck

def c20BoolRes (o : Option Bool) : C20Res (C20Val σ) :=
  match o with
  | some b => .ok (.bool b)
  | Option.none => .stuck

/-- `v is None` -/
def c20IsNone : C20Val σ → Bool
  | .none => true
  | _ => false

/-- the value of `A and B` / `T if C else E` once the test value is known -/
def c20Cond (cv : C20Val σ) (t e : C20Res (C20Val σ)) : C20Res (C20Val σ) :=
  match c20Truthy cv with
  | some true => t
  | some false => e
  | Option.none => .stuck

/-- a set of names from the values a comprehension produced -/
def c20StrSetOf (dedup : List String → List String) (ws : List (C20Val σ)) : C20Res (C20Val σ) :=
  match c20StrsOf ws with
  | some xs => .ok (.strSet (dedup xs))
  | Option.none => .stuck

/-- `ELT for X in ITER` -/
def c20Comp (f : C20Env σ → C20Res (C20Val σ)) (x : String) (env : C20Env σ) (iv : C20Val σ) :
    C20Res (List (C20Val σ)) :=
  match c20Elems iv with
  | some vs => c20MapElems f x env vs
  | Option.none => .stuck

def c20Fstr (lits : List String) (vs : List (C20Val σ)) : C20Res (C20Val σ) :=
  match c20StrsOf vs with
  | some xs =>
    match c20Interleave lits xs with
    | some s => .ok (.str s)
    | Option.none => .stuck
  | Option.none => .stuck

def c20Join (sep : String) : C20Val σ → C20Res (C20Val σ)
  | .list vs =>
    match c20StrsOf vs with
    | some xs => .ok (.str (sep.intercalate xs))
    | Option.none => .stuck
  | _ => .stuck

def c20IsInstanceV (v : C20Val σ) : C20Val σ → C20Res (C20Val σ)
  | .ref q => c20BoolRes (c20IsInstance v q)
  | _ => .stuck

mutual
def c20Eval (c : C20Ctx σ) : C20Expr → C20Env σ → C20Res (C20Val σ)
  | .var x, env => c20Look x env
  | .glob q, _ => .ok (.ref q)
  | .lit l, _ => .ok (c20OfLit l)
  | .attr e a, env => (c20Eval c e env).bind fun v => c20Attr v a
  | .call f args kwNames kwVals, env =>
    (c20Eval c f env).bind fun fv => (c20EvalL c args env).bind fun as =>
      (c20EvalL c kwVals env).bind fun kvs => c20Apply c env fv as kwNames kvs
  | .meth o m args kwNames kwVals, env =>
    (c20Eval c o env).bind fun ov => (c20EvalL c args env).bind fun as =>
      (c20EvalL c kwVals env).bind fun kvs => c20Method c ov m as kwNames kvs
  | .superMeth m args kwNames kwVals, env =>
    (c20EvalL c args env).bind fun as =>
      (c20EvalL c kwVals env).bind fun kvs => c20Super c env m as kwNames kvs
  | .index d k, env =>
    (c20Eval c d env).bind fun dv => (c20Eval c k env).bind fun kv => c20Index dv kv
  | .bitOr a b, env =>
    (c20Eval c a env).bind fun av => (c20Eval c b env).bind fun bv => c20BitOr av bv
  | .bitAnd a b, env =>
    (c20Eval c a env).bind fun av => (c20Eval c b env).bind fun bv => c20BitAnd av bv
  | .isNone e, env => (c20Eval c e env).bind fun v => .ok (.bool (c20IsNone v))
  | .isNotNone e, env => (c20Eval c e env).bind fun v => .ok (.bool (!c20IsNone v))
  | .isInstance e cl, env =>
    (c20Eval c e env).bind fun v => (c20Eval c cl env).bind fun cv => c20IsInstanceV v cv
  | .isIn a b, env =>
    (c20Eval c a env).bind fun av => (c20Eval c b env).bind fun bv => c20BoolRes (c20In av bv)
  | .notIn a b, env =>
    (c20Eval c a env).bind fun av => (c20Eval c b env).bind fun bv =>
      c20BoolRes ((c20In av bv).map (!·))
  | .boolAnd a b, env =>
    (c20Eval c a env).bind fun av => c20Cond av (c20Eval c b env) (.ok av)
  | .notOp a, env => (c20Eval c a env).bind fun av => c20BoolRes ((c20Truthy av).map (!·))
  | .ifExp cnd t e, env =>
    (c20Eval c cnd env).bind fun cv => c20Cond cv (c20Eval c t env) (c20Eval c e env)
  | .tuple es, env => (c20EvalL c es env).bind fun vs => .ok (.tuple vs)
  | .emptyList, _ => .ok (.list [])
  | .emptyDict, _ => .ok (.dict [])
  | .emptySet, _ => .ok (.strSet [])
  | .frozensetOf es, env => (c20EvalL c es env).bind fun vs => c20StrSetOf c20SetOfList vs
  | .setComp elt x iter, env =>
    (c20Eval c iter env).bind fun iv =>
      (c20Comp (c20Eval c elt) x env iv).bind fun ws => c20StrSetOf dedupS ws
  | .frozensetGen elt x iter, env =>
    (c20Eval c iter env).bind fun iv =>
      (c20Comp (c20Eval c elt) x env iv).bind fun ws => c20StrSetOf c20SetOfList ws
  | .listComp elt x iter, env =>
    (c20Eval c iter env).bind fun iv =>
      (c20Comp (c20Eval c elt) x env iv).bind fun ws => .ok (.list ws)
  | .fstr lits vals, env => (c20EvalL c vals env).bind fun vs => c20Fstr lits vs
  | .joinStr sep e, env => (c20Eval c e env).bind fun v => c20Join sep v
  | .notModelled _, _ => .stuck
def c20EvalL (c : C20Ctx σ) : List C20Expr → C20Env σ → C20Res (List (C20Val σ))
  | [], _ => .ok []
  | e :: es, env =>
    (c20Eval c e env).bind fun v => (c20EvalL c es env).bind fun vs => .ok (v :: vs)
end

/-! ## execution -/

/-- `for X in VALS: BODY` (`f` = the body) -/
def c20ForIn (f : C20Env σ → C20Out σ) (x : String) : List (C20Val σ) → C20Env σ → C20Out σ
  | [], env => .next env
  | v :: vs, env =>
    match f (c20Set x v env) with
    | .next env' => c20ForIn f x vs env'
    | .brk env' => .next env'
    | o => o

/-- `while True: BODY` -/
def c20While (f : C20Env σ → C20Out σ) : Nat → C20Env σ → C20Out σ
  | 0, _ => .fuel
  | n + 1, env =>
    match f env with
    | .next env' => c20While f n env'
    | .brk env' => .next env'
    | o => o

def c20SetAll : List String → List (C20Val σ) → C20Env σ → Option (C20Env σ)
  | [], [], env => some env
  | x :: xs, v :: vs, env => c20SetAll xs vs (c20Set x v env)
  | _, _, _ => Option.none

/-- lift an expression result into a statement outcome -/
def c20Then {α : Type} (r : C20Res α) (k : α → C20Out σ) : C20Out σ :=
  match r with
  | .ok a => k a
  | .err e => .err e
  | .stuck => .stuck
  | .fuel => .fuel

def c20OutOfOption : Option (C20Env σ) → C20Out σ
  | some env => .next env
  | Option.none => .stuck

/-- `X = G(B)` for a name generator in state `s` bound to the local `G` -/
def c20GenCall (c : C20Ctx σ) (x g : String) (s : σ) (env : C20Env σ) : C20Val σ → C20Out σ
  | .str b =>
    match c.G.call s b with
    | Option.none => .err .noName
    | some (n, s') => .next (c20Set x (.str n) (c20Set g (.gen s') env))
  | _ => .stuck

/-- the generator state when `E` is `G(A)` for a local `G` bound to a name generator -/
def c20GenOf (env : C20Env σ) : C20Expr → Option (String × σ × C20Expr)
  | .call (.var g) [a] [] [] =>
    match c20Get g env with
    | some (.gen s) => some (g, s, a)
    | _ => Option.none
  | _ => Option.none

def c20AssignTuple (xs : List String) (env : C20Env σ) : C20Val σ → C20Out σ
  | .tuple vs => c20OutOfOption (c20SetAll xs vs env)
  | _ => .stuck

def c20Append (x : String) (env : C20Env σ) (v : C20Val σ) : C20Val σ → C20Out σ
  | .list xs => .next (c20Set x (.list (xs ++ [v])) env)
  | _ => .stuck

def c20Extend (x : String) (env : C20Env σ) : C20Val σ → C20Val σ → C20Out σ
  | .list xs, .list ys => .next (c20Set x (.list (xs ++ ys)) env)
  | _, _ => .stuck

def c20SetItem (x : String) (env : C20Env σ) (v : C20Val σ) : C20Val σ → C20Val σ → C20Out σ
  | .dict kvs, .str k => .next (c20Set x (.dict (c20DictSet k v kvs)) env)
  | _, _ => .stuck

def c20SetdefaultAddV (x : String) (env : C20Env σ) : C20Val σ → C20Val σ → C20Val σ → C20Out σ
  | .dict kvs, .str k, .str v =>
    match c20DictSetdefaultAdd k v kvs with
    | some kvs' => .next (c20Set x (.dict kvs') env)
    | Option.none => .stuck
  | _, _, _ => .stuck

def c20ItemUpdate (x : String) (env : C20Env σ) (f : String → List String → Option (List String)) :
    C20Val σ → C20Val σ → C20Val σ → C20Out σ
  | .dict kvs, .str k, .str v =>
    c20Then (c20DictUpdate k (f v) kvs) fun kvs' => .next (c20Set x (.dict kvs') env)
  | _, _, _ => .stuck

/-- `s.add(v)` -/
def c20SetAdd (v : String) (s : List String) : Option (List String) := some (insertS s v)

/-- `s.remove(v)`: KeyError when absent -/
def c20SetRemove (v : String) (s : List String) : Option (List String) :=
  if v ∈ s then some (s.filter fun w => w != v) else Option.none

def c20Branch (cv : C20Val σ) (t e : C20Out σ) : C20Out σ :=
  match c20Truthy cv with
  | some true => t
  | some false => e
  | Option.none => .stuck

def c20ForItems (env : C20Env σ) : C20Val σ → C20Out σ
  | .dict [] => .next env
  | _ => .stuck

mutual
def c20ExecS (c : C20Ctx σ) : C20Stmt → C20Env σ → C20Out σ
  | .assign x e, env =>
    match c20GenOf env e with
    | some (g, s, a) => c20Then (c20Eval c a env) (c20GenCall c x g s env)
    | Option.none => c20Then (c20Eval c e env) fun v => .next (c20Set x v env)
  | .assignTuple xs e, env => c20Then (c20Eval c e env) (c20AssignTuple xs env)
  | .augOr x e, env =>
    c20Then (c20Look x env) fun xv => c20Then (c20Eval c e env) fun ev =>
      c20Then (c20BitOr xv ev) fun r => .next (c20Set x r env)
  | .append x e, env =>
    c20Then (c20Look x env) fun xv => c20Then (c20Eval c e env) fun v => c20Append x env v xv
  | .extend x e, env =>
    c20Then (c20Look x env) fun xv => c20Then (c20Eval c e env) fun v => c20Extend x env xv v
  | .setItem x k v, env =>
    c20Then (c20Look x env) fun xv => c20Then (c20Eval c k env) fun kv =>
      c20Then (c20Eval c v env) fun vv => c20SetItem x env vv xv kv
  | .setdefaultAdd x k v, env =>
    c20Then (c20Look x env) fun xv => c20Then (c20Eval c k env) fun kv =>
      c20Then (c20Eval c v env) fun vv => c20SetdefaultAddV x env xv kv vv
  | .itemAdd x k v, env =>
    c20Then (c20Look x env) fun xv => c20Then (c20Eval c k env) fun kv =>
      c20Then (c20Eval c v env) fun vv => c20ItemUpdate x env c20SetAdd xv kv vv
  | .itemRemove x k v, env =>
    c20Then (c20Look x env) fun xv => c20Then (c20Eval c k env) fun kv =>
      c20Then (c20Eval c v env) fun vv => c20ItemUpdate x env c20SetRemove xv kv vv
  | .exprStmt e, env => c20Then (c20Eval c e env) fun _ => .next env
  | .ifThen cnd body orelse, env =>
    c20Then (c20Eval c cnd env) fun cv => c20Branch cv (c20Exec c body env) (c20Exec c orelse env)
  | .forIn x iter body, env =>
    if !c20IterOk body iter then .stuck else
    c20Then (c20Eval c iter env) fun iv =>
      match c20ForElems c iv with
      | some vs => c20ForIn (c20Exec c body) x vs env
      | Option.none => .stuck
  | .forItems d _, env => c20Then (c20Look d env) (c20ForItems env)
  | .whileTrue body, env => c20While (c20Exec c body) c.whileFuel env
  | .break_, env => .brk env
  | .ret e, env => c20Then (c20Eval c e env) fun v => .ret v
  | .raise_ exc, _ => if exc == "TypeError" then .err .typeError else .stuck
  | .assert_ cnd, env =>
    c20Then (c20Eval c cnd env) fun cv => c20Branch cv (.next env) (.err .assertion)
  | .defLocal n ps body, env => .next (c20Set n (.localFn ps body) env)
  | .importFrom n q, env => .next (c20Set n (.ref q) env)
  | .notModelled _, _ => .stuck
def c20Exec (c : C20Ctx σ) : List C20Stmt → C20Env σ → C20Out σ
  | [], env => .next env
  | s :: rest, env =>
    match c20ExecS c s env with
    | .next env' => c20Exec c rest env'
    | o => o
end

/-- the value of a call whose body ran to `o` (falling off the end returns `None`; a `break`
outside a loop has no meaning) -/
def c20OutVal : C20Out σ → C20Res (C20Val σ)
  | .next _ => .ok .none
  | .ret v => .ok v
  | .brk _ => .stuck
  | .err e => .err e
  | .stuck => .stuck
  | .fuel => .fuel

/-- everything a run is parameterised by, except the call depth -/
structure C20Cfg (σ : Type) where
  T : C20Table
  G : NameGen σ
  order : List String → List String
  whileFuel : Nat

/-- the evaluation context of a frame whose calls are answered by `hook` -/
def C20Cfg.ctx (k : C20Cfg σ) (hook : C20Hook σ) (cls : Option String) : C20Ctx σ :=
  { T := k.T, G := k.G, order := k.order, whileFuel := k.whileFuel, hook := hook, cls := cls }

/-- a body run with calls nested at most `n` deep -/
def c20Run (k : C20Cfg σ) : Nat → C20Hook σ
  | 0 => fun _ _ _ => .fuel
  | n + 1 => fun cls env body => c20OutVal (c20Exec (k.ctx (c20Run k n) cls) body env)

/-- call a function of the table by qualified name, calls nested at most `depth` deep -/
def c20CallFunc (k : C20Cfg σ) (depth : Nat) (q : String) (args : List (C20Val σ)) :
    C20Res (C20Val σ) :=
  c20Apply (k.ctx (c20Run k depth) Option.none) [] (.ref q) args [] []

/-- call a method on a statement value, calls nested at most `depth` deep -/
def c20CallMethod (k : C20Cfg σ) (depth : Nat) (s : Stmt) (m : String) (args : List (C20Val σ)) :
    C20Res (C20Val σ) :=
  c20Method (k.ctx (c20Run k depth) Option.none) (.stmt s) m args [] []

end PV.Imp
