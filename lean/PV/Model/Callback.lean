import PV.Model.TravTable
/-
  C04.  `CallbackMapper` (pymbolic/mapper/__init__.py): every handler it lists is
  `return self.function(expr, self, *args, **kwargs)`; node kinds it does not list fall through
  the class MRO to a `Mapper` stub that raises, or to the unsupported-expression hook.  Its
  `__init__` points the fallback mapper's `rec` back at the callback mapper, so a `function` that
  answers `mapper.fallback_mapper(expr, …)` sees every node the fallback recurses into.
-/
namespace PV

/-- the `CallbackMapper` handler shape per node: `callback` for the node kinds the class lists,
`raises` where dispatch ends at a `Mapper` stub (`map_algebraic_leaf` for wildcards and calls with
keyword arguments, `map_nan`), no handler at all for min / max / slice / substitution /
derivative -/
def c04CallbackBody : Expr → Except DepErr C04Body
  | .const (.str _) => .error .foreign
  | .const .none => .error .foreign
  | .const _ => .ok (.callback true)
  | .var _ => .ok (.callback true)
  | .funcSym => .ok (.callback true)
  | .wildcard => .ok .raises
  | .dotWild _ => .ok .raises
  | .starWild _ => .ok .raises
  | .nan => .ok .raises
  | .nary .min _ => .error .unsupported
  | .nary .max _ => .error .unsupported
  | .nary _ _ => .ok (.callback true)
  | .bin _ _ _ => .ok (.callback true)
  | .un _ _ => .ok (.callback true)
  | .cmp _ _ _ => .ok (.callback true)
  | .ite _ _ _ => .ok (.callback true)
  | .call _ _ => .ok (.callback true)
  | .callKw _ _ _ _ => .ok .raises
  | .subscript _ _ => .ok (.callback true)
  | .lookup _ _ => .ok (.callback true)
  | .cse _ _ _ => .ok (.callback true)
  | .subst _ _ _ => .error .unsupported
  | .deriv _ _ => .error .unsupported
  | .slice _ => .error .unsupported
  | .tuple _ => .ok (.callback true)
  | .list _ => .ok (.callback true)

/-- One `CallbackMapper` call for the body `body`: the listed kinds call `function` (with the
extra arguments iff the handler forwards them); anything else raises. -/
def c04CallbackStepB {β : Type} (body : Except DepErr C04Body)
    (function : Bool → Expr → Except DepErr β) (args : Bool) (e : Expr) : Except DepErr β :=
  match body with
  | .error err => .error err
  | .ok (.callback fwd) => function (args && fwd) e
  | .ok _ => .error .unsupported

def c04CallbackStep {β : Type} (classes : List C04NodeClass) (tbl : List C04Handler)
    (function : Bool → Expr → Except DepErr β) (args : Bool) (e : Expr) : Except DepErr β :=
  c04CallbackStepB (c04Resolve classes tbl e) function args e

/-- The calls of `function` (node, were the extra arguments passed) made by
`CallbackMapper(function, IdentityMapper())` when `function` answers
`mapper.fallback_mapper(expr, *args, **kwargs)`: the node, then — the identity mapper's `rec` being
the callback mapper — the calls for its children in field order; the first node the callback
mapper does not list raises.  (`fuel`: recursion depth bound; `callbackTrace` supplies the size of
the tree, which is never exhausted.) -/
def callbackTraceF : Nat → Bool → Expr → Except DepErr (List (Expr × Bool))
  | 0, _, _ => .error .unsupported
  | fuel + 1, args, e =>
    c04CallbackStepB (c04CallbackBody e)
      (fun a _ => do
        let rest ← c04SeqL (callbackTraceF fuel a) e.children
        pure ((e, a) :: rest))
      args e

def callbackTrace (args : Bool) (e : Expr) : Except DepErr (List (Expr × Bool)) :=
  callbackTraceF e.size args e

end PV
