import PV.Model.Pickle
import PV.Model.Classes
/-
  C01 — the generated `__eq__` / `__hash__`, table driven, and histories of operations on objects.

  Objects are `PV.Pickle.Obj` (lean/PV/Model/Pickle.lean): builtin atoms, tuples, lists, keyword
  mappings and INSTANCES `(class name, kind, field values in field / init-arg order, _hash_value
  slot)`.  `Obj.pyEq` there is the property's own notion of equality: same class and pairwise `==`
  fields.

  `eqGen tbl P` / `hashGen tbl P` are the generated methods written like the template
  (pymbolic/primitives.py:_augment_expression_dataclass), reading from the class table `tbl`
  (lean/PV/Model/Classes.lean) WHICH fields the text of the class's `__eq__` compares and which
  its `__hash__` hashes:

      def C_eq(self, other):
          if self is other: return True                      -- not observable on values
          if self.__class__ is not other.__class__: return False
          if hash(self) != hash(other): return False           -- the hash fast path
          if self.__class__ is not cls and self.init_arg_names != (<fields of cls>):
              return self.is_equal(other)                      -- legacy branch: type and init args
          return self.__class__ == other.__class__ and self.f1 == other.f1 and …

      def C_hash(self):                                        -- (cached: see `Obj.hashC`)
          if <legacy branch>: return self.get_hash()           -- hash((type name, *init args))
          return hash((self.f1, …))

  and `Expression.__eq__` (`hash(self) != hash(other)` → False, else `is_equal`) for classes without
  a decorated ancestor.  Nested fields are compared / hashed through the same functions.

  `World1`, `Op1`, `step1`, `run1` extend the histories of Pickle.lean (hash, ==, in, pickle,
  unpickle) by `!=`, copies, the identity mapper, a persistent dict, and `setattr` / `delattr`.
-/
namespace PV.EqHash
open PV PV.Pickle

/-- the values (given positionally for `names`) of the names listed in `sel`, in listed order; a
listed name that is not a field is skipped -/
def pick {α : Type} (names : List String) (vals : List α) (sel : List String) : List α :=
  sel.filterMap fun n => (names.zip vals).lookup n

/-! ### the generated `__hash__` -/

mutual
def hashGen (tbl : ClassTable) (P : HashParams) : Obj → Nat
  | .atom c => c.hash P
  | .tuple xs => P.tuple "tuple" (hashGenL tbl P xs)
  | .list xs => P.tuple "list" (hashGenL tbl P xs)
  | .dict ks vs => P.mapping ((ks.map P.str).zip (hashGenL tbl P vs))
  | .inst c k fs _ =>
      let hs := hashGenL tbl P fs
      match tbl.template? c with
      | some (tpl, legacyPath) =>
          if legacyPath then P.tuple "tuple" (P.str c :: hs)          -- `get_hash()`
          else P.tuple "tuple" (pick tpl.fields hs tpl.hashFields)    -- `hash((self.f1, …))`
      | none => instHash P c k hs
def hashGenL (tbl : ClassTable) (P : HashParams) : List Obj → List Nat
  | [] => []
  | x :: xs => hashGen tbl P x :: hashGenL tbl P xs
end

/-! ### the generated `__eq__` -/

mutual
def eqGen (tbl : ClassTable) (P : HashParams) : Obj → Obj → Bool
  | .atom c, .atom d => c.pyEq d
  | .tuple xs, .tuple ys => xs.length == ys.length && (eqGenL tbl P xs ys).all id
  | .list xs, .list ys => xs.length == ys.length && (eqGenL tbl P xs ys).all id
  | .dict ks vs, .dict ks' vs' => ks.length == ks'.length && eqGenKw tbl P ks vs ks' vs'
  | .inst c k fs h, .inst c' k' fs' h' =>
      let sameClass := c == c' && k == k'
      let sameHash := hashGen tbl P (.inst c k fs h) == hashGen tbl P (.inst c' k' fs' h')
      -- field by field (positionally), through the same `==`
      let rs := eqGenL tbl P fs fs'
      let allArgs := fs.length == fs'.length && rs.all id
      match tbl.template? c with
      | some (tpl, legacyPath) =>
          if tpl.kind == .legacy then
            -- Expression.__eq__: hash comparison, then is_equal (type and init args)
            sameHash && (sameClass && allArgs)
          else if legacyPath then
            sameClass && sameHash && (sameClass && allArgs)
          else
            (!tpl.eqClassChecked || sameClass) && sameHash &&
              (pick tpl.fields rs tpl.eqFields).all id
      | none => sameClass && sameHash && allArgs
  | _, _ => false
/-- positional comparison of two field lists (as long as both have elements) -/
def eqGenL (tbl : ClassTable) (P : HashParams) : List Obj → List Obj → List Bool
  | a :: as, b :: bs => eqGen tbl P a b :: eqGenL tbl P as bs
  | _, _ => []
def eqGenKw (tbl : ClassTable) (P : HashParams) :
    List String → List Obj → List String → List Obj → Bool
  | n :: ns, v :: vs, ms, ws =>
      (match assocLookupO n ms ws with
       | some w => eqGen tbl P v w
       | none => false) && eqGenKw tbl P ns vs ms ws
  | _, _, _, _ => true
end

/-! ### objects that are instances of the table's classes -/

mutual
/-- every instance is of a class of the table, is tagged with the kind of path it takes, and (on
the dataclass path) has one value per field -/
def conforms (tbl : ClassTable) : Obj → Bool
  | .atom _ => true
  | .tuple xs => conformsL tbl xs
  | .list xs => conformsL tbl xs
  | .dict _ vs => conformsL tbl vs
  | .inst c k fs _ =>
      (match tbl.template? c with
       | some (tpl, legacyPath) =>
           if legacyPath then k != .dataclass
           else k == .dataclass && fs.length == tpl.fields.length
       | none => false) && conformsL tbl fs
def conformsL (tbl : ClassTable) : List Obj → Bool
  | [] => true
  | x :: xs => conforms tbl x && conformsL tbl xs
end

/-! ### `__post_init__` normalisations (what a constructor call stores) -/

/-- `Comparison.name_to_operator` -/
def cmpNameToSym : String → String
  | "eq" => "==" | "ne" => "!=" | "le" => "<=" | "lt" => "<" | "ge" => ">=" | "gt" => ">"
  | s => s

/-- `Comparison.__post_init__` replaces an operator given by name by its symbol;
`CommonSubexpression.__post_init__` replaces `scope=None` by `cse_scope.EVALUATION`
(`CallWithKwargs.__post_init__` turns an unhashable mapping into an immutabledict: the same
mapping in this model) -/
def normFields (c : String) (fs : List Obj) : List Obj :=
  if c == "Comparison" then
    match fs with
    | [l, .atom (.str o), r] => [l, .atom (.str (cmpNameToSym o)), r]
    | _ => fs
  else if c == "CommonSubexpression" then
    match fs with
    | [ch, pfx, .atom .none] => [ch, pfx, .atom (.str "pymbolic_eval")]
    | _ => fs
  else fs

mutual
/-- the object a source expression (constructor calls) builds -/
def postInit : Obj → Obj
  | .atom c => .atom c
  | .tuple xs => .tuple (postInitL xs)
  | .list xs => .list (postInitL xs)
  | .dict ks vs => .dict ks (postInitL vs)
  | .inst c k fs h => .inst c k (normFields c (postInitL fs)) h
def postInitL : List Obj → List Obj
  | [] => []
  | x :: xs => postInit x :: postInitL xs
end

/-! ### histories -/

structure World1 where
  base : World
  /-- one persistent `dict`: (pool index of the key object, value), in insertion order -/
  dict : List (Nat × Nat)
  deriving Inhabited

inductive Op1 where
  /-- `hash(o)`, `a == b`, `a in {b}`, `pickle.dumps`, `pickle.loads` (Pickle.lean) -/
  | base (op : Op)
  | ne (i j : Nat)
  /-- `dataclasses.replace(o)`, `type(o)(*o.__getinitargs__())`, a rebuilding mapper: a NEW top
  object holding the same field objects -/
  | copy (i : Nat)
  /-- a fresh object built from source (constructor calls all the way down) -/
  | rebuild (i : Nat)
  /-- `IdentityMapper()(o)`: returns `o` itself -/
  | mapId (i : Nat)
  /-- `d[pool[i]] = v` -/
  | dictSet (i v : Nat)
  /-- `d.get(pool[i])` -/
  | dictGet (i : Nat)
  | setattr (i : Nat) (f : String) (v : Obj)
  | delattr (i : Nat) (f : String)
  deriving Inhabited

inductive Out1 where
  | base (o : Out)
  | ne (r : Bool) (bi bj : List Bool)
  | copied (bits : List Bool)
  | rebuilt (bits : List Bool)
  | same
  | dictSet (replaced : Bool) (bits : List Bool)
  | dictGet (v : Option Nat) (bits : List Bool)
  /-- `dataclasses.FrozenInstanceError`; nothing changed -/
  | frozen
  /-- the assignment went through; `field`: it rebound a field / init arg of the object -/
  | attrSet (field : Bool) (bits : List Bool)
  /-- the deletion went through (the harness puts the attribute back) -/
  | attrDeleted (field : Bool)
  | bad
  deriving Inhabited

/-- The entry of the dict that a lookup with the (already hashed) probe `po` = `pool[i]` finds:
position and value.  CPython compares the probe with the stored keys of equal hash: identity
first, then `stored == probe`. -/
def dictFind (P : HashParams) (pool : List Obj) (i : Nat) (po : Obj) :
    List (Nat × Nat) → Nat → Option (Nat × Nat)
  | [], _ => none
  | (k, v) :: rest, pos =>
      if k = i then some (pos, v)
      else match pool[k]? with
        | some ko =>
            if (ko.hashC P).1 == (po.hashC P).1 && (eqC P ko po).1 then some (pos, v)
            else dictFind P pool i po rest (pos + 1)
        | none => dictFind P pool i po rest (pos + 1)

def setValue (d : List (Nat × Nat)) (pos v : Nat) : List (Nat × Nat) :=
  match d[pos]? with
  | some (k, _) => d.set pos (k, v)
  | none => d

/-- position of attribute `f` among the positional fields of an instance of class `c` -/
def fieldIndex (tbl : ClassTable) (c f : String) : Option Nat :=
  match tbl.find? c with
  | some i => i.fields.findIdx? (· == f)
  | none => none

def step1 (tbl : ClassTable) (P : HashParams) (w : World1) : Op1 → World1 × Out1
  | .base op =>
      let r := step P w.base op
      ({ w with base := r.1 }, .base r.2)
  | .ne i j =>
      -- `Expression.__ne__`: `not self.__eq__(other)`
      let r := step P w.base (.eq i j)
      match r.2 with
      | .eq b bi bj => ({ w with base := r.1 }, .ne (!b) bi bj)
      | _ => (w, .bad)
  | .copy i =>
      match w.base.pool[i]? with
      | some (.inst c k fs _) =>
          let o := Obj.inst c k fs none
          ({ w with base := { w.base with pool := w.base.pool ++ [o] } }, .copied o.bits)
      | _ => (w, .bad)
  | .rebuild i =>
      match w.base.pool[i]? with
      | some o => ({ w with base := { w.base with pool := w.base.pool ++ [o.erase] } },
                   .rebuilt o.erase.bits)
      | none => (w, .bad)
  | .mapId i =>
      match w.base.pool[i]? with
      | some _ => (w, .same)
      | none => (w, .bad)
  | .dictSet i v =>
      match w.base.pool[i]? with
      | some o =>
          let r := o.hashC P
          let pool := w.base.pool.set i r.2
          match dictFind P pool i r.2 w.dict 0 with
          | some (pos, _) =>
              ({ base := { w.base with pool := pool }, dict := setValue w.dict pos v },
               .dictSet true r.2.bits)
          | none =>
              ({ base := { w.base with pool := pool }, dict := w.dict ++ [(i, v)] },
               .dictSet false r.2.bits)
      | none => (w, .bad)
  | .dictGet i =>
      match w.base.pool[i]? with
      | some o =>
          let r := o.hashC P
          let pool := w.base.pool.set i r.2
          ({ w with base := { w.base with pool := pool } },
           .dictGet ((dictFind P pool i r.2 w.dict 0).map (·.2)) r.2.bits)
      | none => (w, .bad)
  | .setattr i f v =>
      match w.base.pool[i]? with
      | some (.inst c k fs h) =>
          if tbl.frozenFor c f then (w, .frozen)
          else match fieldIndex tbl c f with
            | some idx =>
                -- the field is rebound; the `_hash_value` slot stays as it is
                let o := Obj.inst c k (fs.set idx v) h
                ({ w with base := { w.base with pool := w.base.pool.set i o } },
                 .attrSet true o.bits)
            | none => (w, .attrSet false (Obj.inst c k fs h).bits)
      | _ => (w, .bad)
  | .delattr i f =>
      match w.base.pool[i]? with
      | some (.inst c _ _ _) =>
          if tbl.frozenFor c f then (w, .frozen)
          else (w, .attrDeleted (fieldIndex tbl c f).isSome)
      | _ => (w, .bad)

def run1 (tbl : ClassTable) (P : HashParams) : World1 → List Op1 → World1 × List Out1
  | w, [] => (w, [])
  | w, op :: ops =>
    let r := step1 tbl P w op
    let rs := run1 tbl P r.1 ops
    (rs.1, r.2 :: rs.2)

/-- histories in an interpreter with `__debug__ = debug` (`python -O`: false): the same operations
on the class table of that mode (`ClassTable.inMode`) -/
def step1D (src : C01FrozenSource) (debug : Bool) (tbl : ClassTable) (P : HashParams) (w : World1)
    (op : Op1) : World1 × Out1 :=
  step1 (tbl.inMode src debug) P w op

def run1D (src : C01FrozenSource) (debug : Bool) (tbl : ClassTable) (P : HashParams) (w : World1)
    (ops : List Op1) : World1 × List Out1 :=
  run1 (tbl.inMode src debug) P w ops

/-- did this operation rebind a field of an object? -/
def Out1.rebound : Out1 → Bool
  | .attrSet true _ => true
  | _ => false

end PV.EqHash
