import PV.Model.Compile
/-
  C17 — the argument order of a compiled expression as a function of the SORT KEY.

  `CompiledExpression._compile` (pymbolic/compiler.py) turns the dependency SET of the expression
  into a list and sorts it: `used_variables.sort(key=lambda v: v.name)`.  A Python set has no
  order: the list handed to `sort` is the set in the iteration order of the process that compiles
  (a function of the string-hash seed), and `__setstate__` compiles again in the consumer.
  `list.sort(key=…)` is STABLE: elements whose keys compare equal keep their input order.  So the
  positional calling convention is the same in every process exactly as far as the key tells the
  names apart.  `sortByKey` is that stable sort for an arbitrary key; `argOrderBy` is `argOrder`
  (PV/Model/Compile.lean) with the key as a parameter; with the key the source uses (the name
  itself) they are `sortStrings` / `argOrder`.
-/
namespace PV

/-- stable ordered insertion of an element that came BEFORE everything in the list: it goes in
front of the first element whose key is not smaller (so in front of its ties) -/
def insertByKey (key : String → String) (x : String) : List String → List String
  | [] => [x]
  | y :: ys => if key x ≤ key y then x :: y :: ys else y :: insertByKey key x ys

/-- `l.sort(key=key)` (stable) -/
def sortByKey (key : String → String) : List String → List String
  | [] => []
  | x :: xs => insertByKey key x (sortByKey key xs)

/-- `all_variables` of `_compile` with the sort key as a parameter -/
def argOrderBy (key : String → String) (listed : List String) (used : List Expr) : List String :=
  listed ++ sortByKey key
    ((varNames used).filter fun v => !listed.contains v && !contextNames.contains v)

/-- what `str.casefold` / `str.lower` do to an ASCII name -/
def asciiFold (s : String) : String := String.ofList (s.toList.map Char.toLower)

end PV
